(* Composition of C01 with C03: the tracker interface that Burndown/Analysis.v assumes ("a tracked file is the
   plain array of its per-line values, File.Update is arr_update, the reported deltas are those of the array")
   is realised by the C03 model of internal/burndown/file.go (File/Model.v: node lists, [update], [new_file]).

   [tr_update] / [tr_new] are File.Update / NewFile on a REAL tracker state (C03 node list) with the Updater
   calls (the delta records that the C03 model returns) fed to the four updaters of BurndownAnalysis.
   The theorems of this file say that they agree with [arr_update] / the array of [handle_insertion] of
   Analysis.v step by step: same array after the edit (through [flatten]), exactly the same shared histories,
   and failure on one side iff failure on the other.  Side conditions (all stated on the request):
   0 <= t < 2^32-1 (the value fits a uint32 and is not TreeEnd), the new length fits a uint32.

   Where the developments define the same notion twice, the definitions are proved equal here:
   the merge-mark test, the array edit, the histogram, the effect of the reported deltas on a sparse history. *)
From Coq Require Import List ZArith Lia Bool.
From Herc Require Import Burndown.Base Burndown.Dense Burndown.Analysis Burndown.SparseFacts Burndown.AnalysisFacts.
From Herc Require File.Model File.Spec File.NodeLists File.Locate File.DelLoop File.Values File.Refines File.Deltas
  File.Rejects File.Sequences.
Import ListNotations.
Open Scope Z_scope.

Module FM := Herc.File.Model.
Module FS := Herc.File.Spec.
Module FN := Herc.File.NodeLists.
Module FL := Herc.File.Locate.
Module FD := Herc.File.DelLoop.
Module FV := Herc.File.Values.
Module FR := Herc.File.Refines.
Module FE := Herc.File.Deltas.
Module FJ := Herc.File.Rejects.
Module FQ := Herc.File.Sequences.

(* ---------- results ---------- *)
Definition bindr {A B} (x : result A) (f : A -> result B) : result B :=
  match x with Ok a => f a | Panic c => Panic c | Err c => Err c end.

(* two runs agree: both succeed with related values, or both fail *)
Definition rel_res {A B} (R : A -> B -> Prop) (x : result A) (y : result B) : Prop :=
  match x, y with
  | Ok a, Ok b => R a b
  | Ok _, _ => False
  | _, Ok _ => False
  | _, _ => True
  end.

Lemma rel_res_ok {A B} (R : A -> B -> Prop) x b : rel_res R x (Ok b) -> exists a, x = Ok a /\ R a b.
Proof. destruct x; cbn; intros H; try contradiction. eauto. Qed.
Lemma rel_res_ok_l {A B} (R : A -> B -> Prop) a y : rel_res R (Ok a) y -> exists b, y = Ok b /\ R a b.
Proof. destruct y; cbn; intros H; try contradiction. eauto. Qed.

(* ---------- the Updater calls of a tracked file ---------- *)
(* what newFile attaches to a File: updateGlobal, updateFile (if files are tracked), updateAuthor and
   updateMatrix (if people are tracked) - the part of Analysis.update_time after the mark tests *)
Definition updaters (cf : cfg) (hd : option Z) (s : shared) (cur prev d : Z) : result shared :=
  let s1 := update_global cf s cur prev d in
  let s2 := match hd with Some h => update_file cf h s1 cur prev d | None => s1 end in
  if c_people cf =? 0 then Ok s2
  else match update_author cf s2 cur prev d with
       | Ok s3 => update_matrix cf s3 cur prev d
       | e => e
       end.

Lemma update_time_updaters cf hd s cur prev d :
  update_time cf hd s cur prev d =
  if is_mark prev then (if cur =? prev then Ok s else Panic PMark)
  else if is_mark cur then Ok s else updaters cf hd s cur prev d.
Proof. reflexivity. Qed.

(* the delta records of the C03 model (currentTime, previousTime, delta), handed to the updaters in order *)
Fixpoint feed (cf : cfg) (hd : option Z) (s : shared) (ds : list (Z * Z * Z)) : result shared :=
  match ds with
  | [] => Ok s
  | (cur, prev, d) :: r => match updaters cf hd s cur prev d with
                           | Ok s' => feed cf hd s' r
                           | e => e
                           end
  end.

Definition cls (c : FM.pclass) : pclass := match c with FM.PMark => PMark | _ => POther end.

(* a tracked file: the node list of its tree and the handle of the history object its updater is bound to *)
Record tfile := mkTFile { tf_nodes : list (Z * Z); tf_hist : option Z }.

Definition flat_file (f : tfile) : file := mkFile (FS.flatten (tf_nodes f)) (tf_hist f).

(* File.Update on the tracker, observers attached *)
Definition tr_update (cf : cfg) (f : tfile) (s : shared) (t pos ins del : Z) : result (tfile * shared) :=
  match FM.update t pos ins del (tf_nodes f) with
  | FM.Panic c => Panic (cls c)
  | FM.Ok (ns, ds) =>
      match feed cf (tf_hist f) s ds with
      | Ok s' => Ok (mkTFile ns (tf_hist f), s')
      | Panic c => Panic c
      | Err c => Err c
      end
  end.

(* NewFile(time, length, updaters...) *)
Definition tr_new (cf : cfg) (hd : option Z) (s : shared) (t len : Z) : result (tfile * shared) :=
  match FM.new_file t len with
  | FM.Panic c => Panic (cls c)
  | FM.Ok (ns, ds) =>
      match feed cf hd s ds with
      | Ok s' => Ok (mkTFile ns hd, s')
      | Panic c => Panic c
      | Err c => Err c
      end
  end.

(* values are uint32 (needed when File.Merge rebuilds the tree) *)
Definition vals_ok (l : list Z) : Prop := Forall (fun v => 0 <= v <= FM.MaxU32) l.
Definition tf_ok (f : tfile) : Prop := FS.WF (tf_nodes f) /\ vals_ok (FS.flatten (tf_nodes f)).

(* ---------- the same notion defined twice ---------- *)
Lemma is_mark_eq v : FM.is_mark v = is_mark v.
Proof. reflexivity. Qed.

Lemma arr_update_vals_eq cf f s t pos ins del f' s' :
  arr_update cf f s t pos ins del = Ok (f', s') -> (ins <> 0 \/ del <> 0) ->
  f_vals f' = FS.arr_update t pos ins del (f_vals f).
Proof.
  unfold arr_update. intros E Hne.
  destruct ((pos <? 0) || (ins <? 0) || (del <? 0)); [discriminate|].
  destruct ((ins =? 0) && (del =? 0)) eqn:Ez.
  { apply andb_prop in Ez. destruct Ez as [E1 E2]. apply Z.eqb_eq in E1, E2. lia. }
  destruct ((Z.of_nat (length (f_vals f)) <? pos) || (Z.of_nat (length (f_vals f)) <? pos + del)); [discriminate|].
  destruct (if 0 <? ins then update_time cf (f_hist f) s t t ins else Ok s) as [s1| |]; try discriminate.
  destruct (report_deleted cf (f_hist f) s1 t _) as [s2| |]; try discriminate.
  inversion E; subst. reflexivity.
Qed.

Lemma hist_count v l : FS.hist v l = count (Z.eqb v) l.
Proof.
  unfold FS.hist, count. induction l as [|x l IH]; [reflexivity|].
  cbn [count_occ filter]. destruct (Z.eq_dec x v) as [->|Hne].
  - rewrite Z.eqb_refl. cbn [length]. lia.
  - replace (v =? x) with false by (symmetry; apply Z.eqb_neq; congruence). exact IH.
Qed.

(* ---------- association lists, sparse histories ---------- *)
Lemma aget_aset_same {V} (l : list (Z * V)) k x : aget (aset l k x) k = Some x.
Proof.
  induction l as [|[k' v] r IH]; cbn [aset aget].
  - rewrite Z.eqb_refl. reflexivity.
  - destruct (Z.eqb_spec k' k) as [->|Hne]; cbn [aget].
    + rewrite Z.eqb_refl. reflexivity.
    + replace (k' =? k) with false by (symmetry; apply Z.eqb_neq; auto). exact IH.
Qed.

Lemma aset_aset {V} (l : list (Z * V)) k x y : aset (aset l k x) k y = aset l k y.
Proof.
  induction l as [|[k' v] r IH]; cbn [aset].
  - rewrite Z.eqb_refl. reflexivity.
  - destruct (Z.eqb_spec k' k) as [->|Hne]; cbn [aset].
    + rewrite Z.eqb_refl. reflexivity.
    + replace (k' =? k) with false by (symmetry; apply Z.eqb_neq; auto). rewrite IH. reflexivity.
Qed.

Lemma aget_d_aset_same {V} (d : V) (l : list (Z * V)) k x : aget_d d (aset l k x) k = x.
Proof. unfold aget_d. rewrite aget_aset_same. reflexivity. Qed.

Lemma inner_add_add row k a b : inner_add (inner_add row k a) k b = inner_add row k (a + b).
Proof.
  induction row as [|[k' v] r IH]; cbn [inner_add].
  - rewrite Z.eqb_refl. reflexivity.
  - destruct (Z.eqb_spec k' k) as [->|Hne]; cbn [inner_add].
    + rewrite Z.eqb_refl. f_equal. f_equal. lia.
    + replace (k' =? k) with false by (symmetry; apply Z.eqb_neq; auto). rewrite IH. reflexivity.
Qed.

Lemma sp_add_add H t k a b : sp_add (sp_add H t k a) t k b = sp_add H t k (a + b).
Proof.
  induction H as [|[t' row] r IH]; cbn [sp_add].
  - rewrite Z.eqb_refl. cbn [inner_add]. rewrite Z.eqb_refl. reflexivity.
  - destruct (Z.eqb_spec t' t) as [->|Hne]; cbn [sp_add].
    + rewrite Z.eqb_refl, inner_add_add. reflexivity.
    + replace (t' =? t) with false by (symmetry; apply Z.eqb_neq; auto). rewrite IH. reflexivity.
Qed.

(* two Updater calls with the same (current, previous) and deltas of the same (negative) sign are one call *)
Lemma updaters_add cf hd s c p a b : a < 0 -> b < 0 ->
  bindr (updaters cf hd s c p a) (fun s1 => updaters cf hd s1 c p b) = updaters cf hd s c p (a + b).
Proof.
  intros Ha Hb. destruct s as [gh fhs names next phs mx dels].
  unfold updaters, update_global, update_file, update_author, update_matrix, with_gh, with_fhs, with_phs, with_mx, bindr.
  replace (0 <? a) with false by (symmetry; apply Z.ltb_ge; lia).
  replace (0 <? b) with false by (symmetry; apply Z.ltb_ge; lia).
  replace (0 <? a + b) with false by (symmetry; apply Z.ltb_ge; lia).
  rewrite !andb_false_r.
  destruct hd as [h|]; cbn [s_gh s_fhs s_names s_next s_phs s_mx s_dels];
    destruct (c_people cf =? 0);
    rewrite ?aget_d_aset_same, ?aset_aset, ?sp_add_add; try reflexivity;
    destruct (unpack cf p) as [pa pt]; cbn [fst snd];
    destruct (pa =? author_missing); cbn [s_gh s_fhs s_names s_next s_phs s_mx s_dels];
    rewrite ?aget_d_aset_same, ?aset_aset, ?sp_add_add; try reflexivity;
    destruct ((pa <? 0) || (c_people cf <=? pa)); cbn [s_gh s_fhs s_names s_next s_phs s_mx s_dels];
    rewrite ?aget_d_aset_same, ?aset_aset, ?sp_add_add, ?inner_add_add; reflexivity.
Qed.

Lemma update_time_add cf hd s t v a b : a < 0 -> b < 0 ->
  bindr (update_time cf hd s t v a) (fun s1 => update_time cf hd s1 t v b) = update_time cf hd s t v (a + b).
Proof.
  intros Ha Hb.
  assert (U : forall s0 d, update_time cf hd s0 t v d =
            if is_mark v then (if t =? v then Ok s0 else Panic PMark)
            else if is_mark t then Ok s0 else updaters cf hd s0 t v d) by (intros; reflexivity).
  rewrite (U s a), (U s (a + b)).
  destruct (is_mark v) eqn:Ev.
  - destruct (t =? v) eqn:E; cbn [bindr]; [|reflexivity]. rewrite U. reflexivity.
  - destruct (is_mark t) eqn:Et.
    + cbn [bindr]. rewrite U. reflexivity.
    + rewrite <- (updaters_add cf hd s t v a b Ha Hb). unfold bindr.
      destruct (updaters cf hd s t v a) as [s1| |]; try reflexivity.
      rewrite U. reflexivity.
Qed.
