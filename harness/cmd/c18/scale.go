package main

// The "scale" family of C18.
//
//  1. identity GRAPHS: lists of 8 .. 40 identities per side whose "shares a name or an e-mail" graph has
//     long chains, stars, chains of chains, cycles and identities with 3-5 parts, every component laid out
//     in adversarial orders inside the two lists (the order in which a merge meets the vertices matters to
//     union-find / walk implementations).  Every part occurs in at most one identity of a list (the domain
//     in which MergeReversedDictsIdentities is right: outside it is finding F7 of C16).
//  2. LARGE results: couples with 10^3 .. 10^4 files or developers, developer statistics with that many
//     ticks / developers / languages; sizes straddle 1000, 1024, 2048 and are mostly NOT multiples of 8;
//     rows are sparse, the last rows / developers / files are never empty.
//
// Cases of this family carry the field (fam sc-...): the driver then judges them with the fast oracles
// (coq/theories/Combine/FastOracles.v, proved to imply the oracles of Spec.v).

import (
	"fmt"
	"math/rand"
	"sort"
	"strings"

	. "verifharness/lib"
)

// ---------------------------------------------------------------------------------------------
// identity graphs

type idVertex struct {
	side  int // 0: first list, 1: second list
	parts []string
	depth int
	comp  int
}

type idGraph struct {
	vs    []*idVertex
	fresh int
}

func (g *idGraph) part(mail bool) string {
	g.fresh++
	if mail {
		return fmt.Sprintf("m%d@x.io", g.fresh)
	}
	return fmt.Sprintf("n%d", g.fresh)
}

// one connected component: a random tree over vertices that alternate between the two lists; every edge
// is a part shared by its two ends.  chainy = probability to attach the new vertex to the newest one
// (1: a chain, 0: a random recursive tree, bushy); star = always attach to the root while it has room.
func (g *idGraph) component(r *rand.Rand, comp, size, maxParts int, chainy float64, star bool, cycles int) {
	first := len(g.vs)
	root := &idVertex{side: r.Intn(2), comp: comp}
	g.vs = append(g.vs, root)
	for len(g.vs)-first < size {
		var cands []*idVertex
		cur := g.vs[first:]
		switch {
		case star && len(root.parts) < maxParts:
			cands = []*idVertex{root}
		case r.Float64() < chainy && len(cur[len(cur)-1].parts) < maxParts:
			cands = []*idVertex{cur[len(cur)-1]}
		default:
			for _, v := range cur {
				if len(v.parts) < maxParts {
					cands = append(cands, v)
				}
			}
		}
		if len(cands) == 0 {
			break
		}
		p := cands[r.Intn(len(cands))]
		shared := g.part(r.Intn(2) == 0)
		p.parts = append(p.parts, shared)
		g.vs = append(g.vs, &idVertex{side: 1 - p.side, parts: []string{shared}, depth: p.depth + 1, comp: comp})
	}
	cur := g.vs[first:]
	// extra edges inside the component (cycles), still one identity per part and list
	for k := 0; k < cycles; k++ {
		a, b := cur[r.Intn(len(cur))], cur[r.Intn(len(cur))]
		if a.side != b.side && len(a.parts) < maxParts && len(b.parts) < maxParts {
			shared := g.part(r.Intn(2) == 0)
			a.parts = append(a.parts, shared)
			b.parts = append(b.parts, shared)
		}
	}
	// own parts: a vertex must have at least one; some get more
	for _, v := range cur {
		for len(v.parts) == 0 || (len(v.parts) < maxParts && r.Intn(4) == 0) {
			v.parts = append(v.parts, g.part(r.Intn(2) == 0))
		}
	}
}

// twin: the same identity string in both lists
func (g *idGraph) twin(r *rand.Rand, comp int) {
	parts := []string{g.part(false), g.part(true)}
	if r.Intn(2) == 0 {
		parts = parts[:1]
	}
	g.vs = append(g.vs, &idVertex{side: 0, parts: parts, comp: comp}, &idVertex{side: 1, parts: append([]string{}, parts...), comp: comp, depth: 1})
}

// layout: the order of the vertices of one list.  Creation order follows the tree from the root.
func layout(r *rand.Rand, vs []*idVertex, style int) []*idVertex {
	l := append([]*idVertex{}, vs...)
	n := len(l)
	rev := func() {
		for i, j := 0, n-1; i < j; i, j = i+1, j-1 {
			l[i], l[j] = l[j], l[i]
		}
	}
	rot := func(k int) {
		if n > 0 {
			k = ((k % n) + n) % n
			l = append(l[k:], l[:k]...)
		}
	}
	switch style {
	case 0: // creation order
	case 1:
		rev()
	case 2:
		rot(1 + r.Intn(3))
	case 3:
		rev()
		rot(1 + r.Intn(3))
	case 4:
		rot(-1 - r.Intn(3))
	case 5:
		rev()
		rot(-1 - r.Intn(3))
	case 6: // deepest first
		sort.SliceStable(l, func(i, j int) bool { return l[i].depth > l[j].depth })
	case 7: // evens then odds
		var a, b []*idVertex
		for i, v := range l {
			if i%2 == 0 {
				a = append(a, v)
			} else {
				b = append(b, v)
			}
		}
		l = append(a, b...)
	case 8: // components interleaved
		sort.SliceStable(l, func(i, j int) bool { return l[i].depth < l[j].depth })
	case 10:
		rot(-1)
	case 11:
		rev()
		rot(1)
	default:
		r.Shuffle(n, func(i, j int) { l[i], l[j] = l[j], l[i] })
	}
	return l
}

// genIdentityGraph makes the two lists; maxSide bounds each list.
func genIdentityGraph(r *rand.Rand, minSide, maxSide int) ([]string, []string) {
	for {
		g := &idGraph{}
		target := minSide + r.Intn(maxSide-minSide+1)
		maxParts := 2 + r.Intn(4) // 2 .. 5
		comp := 0
		for {
			n0, n1 := 0, 0
			for _, v := range g.vs {
				if v.side == 0 {
					n0++
				} else {
					n1++
				}
			}
			if n0 >= target || n1 >= target {
				break
			}
			left := 2*target - n0 - n1
			switch r.Intn(8) {
			case 0:
				g.twin(r, comp)
			case 1: // an unrelated identity
				g.component(r, comp, 1, maxParts, 0, false, 0)
			case 2: // a star, possibly with chains hanging off its rays
				g.component(r, comp, 3+r.Intn(8), maxParts, []float64{0, 0.6}[r.Intn(2)], true, 0)
			default:
				if left < 1 {
					left = 1
				}
				size := 3 + r.Intn(left)
				if size > 24 {
					size = 24
				}
				chainy := []float64{1, 1, 0.9, 0.7, 0.3}[r.Intn(5)]
				g.component(r, comp, size, maxParts, chainy, false, r.Intn(3)*r.Intn(2))
			}
			comp++
		}
		var s0, s1 []*idVertex
		for _, v := range g.vs {
			if v.side == 0 {
				s0 = append(s0, v)
			} else {
				s1 = append(s1, v)
			}
		}
		if len(s0) > maxSide || len(s1) > maxSide || len(s0) == 0 || len(s1) == 0 {
			continue
		}
		str := func(l []*idVertex) []string {
			res := make([]string, len(l))
			for i, v := range l {
				res[i] = canon(v.parts)
			}
			return res
		}
		a, b := layoutPair(r, 10)
		return str(layout(r, s0, a)), str(layout(r, s1, b))
	}
}

// layoutPair chooses the two layout styles.  Half of the time the pair is one that builds deep forests in
// merges that link the vertices in list order: one list follows the chains from their roots (the last few
// vertices moved to the front), the other list walks them backwards (the first few moved to the end).
func layoutPair(r *rand.Rand, styles int) (int, int) {
	switch r.Intn(6) {
	case 0:
		return 10, 11
	case 1:
		return 11, 10
	case 2:
		return [][2]int{{4, 3}, {3, 4}, {4, 11}, {10, 3}}[r.Intn(4)][0], [][2]int{{4, 3}, {3, 4}, {4, 11}, {10, 3}}[r.Intn(4)][1]
	default:
		return r.Intn(styles), r.Intn(styles)
	}
}

// the chain of renames of one person: k identities alternate between the lists, laid out adversarially
func genRenameChain(r *rand.Rand, k int) ([]string, []string) {
	g := &idGraph{}
	g.component(r, 0, k, 2+r.Intn(2), 1, false, 0)
	if r.Intn(2) == 0 {
		g.component(r, 1, 1, 2, 0, false, 0)
		g.twin(r, 2)
	}
	var s0, s1 []*idVertex
	for _, v := range g.vs {
		if v.side == 0 {
			s0 = append(s0, v)
		} else {
			s1 = append(s1, v)
		}
	}
	str := func(l []*idVertex) []string {
		res := make([]string, len(l))
		for i, v := range l {
			res[i] = canon(v.parts)
		}
		return res
	}
	a, b := layoutPair(r, 7)
	return str(layout(r, s0, a)), str(layout(r, s1, b))
}

// small data around big identity lists (the cost of the oracles grows with entries x identities)
func genDevsSparse(r *rand.Rand, people []string, ts int64) Devs {
	d := Devs{People: people, TickSize: ts, Ticks: []TickEntry{}}
	for _, t := range []int{0, 2, 5} {
		te := TickEntry{Tick: t + r.Intn(2)}
		for i := range people {
			if r.Intn(3) == 0 || (t == 5 && i == len(people)-1) {
				e := DevEntry{Dev: i, Commits: 1 + r.Intn(9), LS: genLS(r)}
				if r.Intn(3) == 0 {
					e.Langs = []Lang{{langPool[r.Intn(2)], genLS(r)}}
				}
				te.Devs = append(te.Devs, e)
			}
		}
		if r.Intn(2) == 0 {
			te.Devs = append(te.Devs, DevEntry{Dev: 262142, Commits: 1, LS: genLS(r)})
		}
		d.Ticks = append(d.Ticks, te)
	}
	return d
}

func genSparseKVRows(r *rand.Rand, rows, cols, per int) [][]KV {
	res := make([][]KV, rows)
	for i := range res {
		seen := map[int]bool{}
		res[i] = []KV{}
		if i < cols {
			seen[i] = true
			res[i] = append(res[i], KV{i, int64(1 + r.Intn(200))})
		}
		for k := 0; k < per && cols > 0; k++ {
			c := r.Intn(cols)
			if !seen[c] {
				seen[c] = true
				v := int64(1 + r.Intn(40))
				if r.Intn(10) == 0 {
					v = 0
				}
				res[i] = append(res[i], KV{c, v})
			}
		}
		sort.Slice(res[i], func(a, b int) bool { return res[i][a].K < res[i][b].K })
	}
	return res
}

func genCouplesSparse(r *rand.Rand, people, files []string) Couples {
	c := Couples{People: people, Files: files, Lines: []int{}, PF: [][]int{}}
	nf, np := len(files), len(people)
	for range files {
		c.Lines = append(c.Lines, 1+r.Intn(500))
	}
	for i := 0; i < np; i++ {
		fs := []int{}
		seen := map[int]bool{}
		for k := 0; k < 3 && nf > 0; k++ {
			f := r.Intn(nf)
			if !seen[f] {
				seen[f] = true
				fs = append(fs, f)
			}
		}
		sort.Ints(fs)
		c.PF = append(c.PF, fs)
	}
	c.PM = genSparseKVRows(r, np+1, np+1, 3)
	c.FM = genSparseKVRows(r, nf, nf, 3)
	return c
}

func scaleIdentityCases(c *Config) {
	r := c.Rng
	emitIds := func(an string, rd1, rd2 []string) {
		in := input{an: an, fam: "sc-ids"}
		in.c1, in.c2 = genCommonPair(r)
		cls := classify(rd1, rd2)
		switch an {
		case "devs":
			ts := tickSizes[r.Intn(3)]
			in.dv[0] = genDevsSparse(r, rd1, ts)
			in.dv[1] = genDevsSparse(r, rd2, ts)
			emit(c, "sc-dv-"+cls, in)
		case "couples":
			f1, f2 := genFiles(r)
			in.cp[0] = genCouplesSparse(r, rd1, f1)
			in.cp[1] = genCouplesSparse(r, rd2, f2)
			emit(c, "sc-cp-"+cls, in)
		case "burndown":
			// people histories are recognised by one bit each: at most 10 developers per side.  The kind keeps the
			// form bd-<class>: finding F8 (wrong developers when identities merge) is registered for those kinds
			in.bd[0] = genBurndown(r, rd1, 24*3600e9, 0, true, true, true)
			in.bd[1] = genBurndown(r, rd2, 24*3600e9, 1, true, true, true)
			emit(c, "bd-"+cls, in)
		}
	}
	side := func(i int) int { return []int{12, 12, 16, 12, 20, 12, 16, 12, 12, 40}[i%10] }
	for i := c.Count(700, 10000); i > 0; i-- {
		rd1, rd2 := genIdentityGraph(r, 8, side(i))
		emitIds("devs", rd1, rd2)
	}
	for i := c.Count(300, 5000); i > 0; i-- {
		rd1, rd2 := genRenameChain(r, 5+r.Intn(16))
		emitIds([]string{"devs", "couples"}[i%2], rd1, rd2)
	}
	for i := c.Count(250, 4000); i > 0; i-- {
		rd1, rd2 := genIdentityGraph(r, 8, side(i))
		emitIds("couples", rd1, rd2)
	}
	for i := c.Count(150, 2500); i > 0; i-- {
		var rd1, rd2 []string
		if i%2 == 0 {
			rd1, rd2 = genIdentityGraph(r, 5, 10)
		} else {
			rd1, rd2 = genRenameChain(r, 5+r.Intn(14))
		}
		if len(rd1) <= 10 && len(rd2) <= 10 {
			emitIds("burndown", rd1, rd2)
		}
	}
}

// ---------------------------------------------------------------------------------------------
// large results

// the digits come first, reversed: two names differ early
func scaleFileName(i int) string {
	d := fmt.Sprintf("%d", i)
	b := []byte(d)
	for x, y := 0, len(b)-1; x < y; x, y = x+1, y-1 {
		b[x], b[y] = b[y], b[x]
	}
	return string(b) + "_src/f.go"
}

func scaleIdentity(i int) string {
	d := fmt.Sprintf("%d", i)
	b := []byte(d)
	for x, y := 0, len(b)-1; x < y; x, y = x+1, y-1 {
		b[x], b[y] = b[y], b[x]
	}
	return string(b) + "_dev|" + string(b) + "_m@x.io"
}

// two lists of names over one pool: the first takes [0, n1), the second a window that overlaps it, in a
// strided order (a permutation), so that shared names sit at unrelated positions
func overlapping(r *rand.Rand, n1, n2 int, name func(int) string) ([]string, []string) {
	l1 := make([]string, n1)
	for i := range l1 {
		l1[i] = name(i)
	}
	shift := 0
	if n1 > 0 {
		shift = r.Intn(n1 + 1)
	}
	if r.Intn(4) == 0 {
		shift = n1 // disjoint
	}
	stride := 1
	for _, s := range []int{7919, 257, 31, 1} {
		if n2 > 0 && gcd(s, n2) == 1 {
			stride = s
			break
		}
	}
	l2 := make([]string, n2)
	for j := range l2 {
		l2[j] = name(shift + (j*stride+3)%max1(n2))
	}
	return l1, l2
}

func gcd(a, b int) int {
	for b != 0 {
		a, b = b, a%b
	}
	return a
}

func max1(n int) int {
	if n < 1 {
		return 1
	}
	return n
}

func smallPeople(r *rand.Rand) ([]string, []string) {
	rd1 := []string{"ann|a@x.io", "bob|b@x.io", "cy|c@y.org"}
	rd2 := [][]string{{"ann|a@x.io", "dee|d@y.org"}, {"bob|b@x.io"}, {"eve|e@z.net", "cy|c@y.org", "ann|a@x.io"}}[r.Intn(3)]
	return rd1, rd2
}

func scaleCouplesFiles(c *Config, n1, n2 int) {
	r := c.Rng
	in := input{an: "couples", fam: "sc-big"}
	in.c1, in.c2 = genCommonPair(r)
	rd1, rd2 := smallPeople(r)
	f1, f2 := overlapping(r, n1, n2, scaleFileName)
	in.cp[0] = genCouplesSparse(r, rd1, f1)
	in.cp[1] = genCouplesSparse(r, rd2, f2)
	emit(c, "sc-cp-files", in)
}

func scaleCouplesPeople(c *Config, n1, n2 int) {
	r := c.Rng
	in := input{an: "couples", fam: "sc-big"}
	in.c1, in.c2 = genCommonPair(r)
	rd1, rd2 := overlapping(r, n1, n2, scaleIdentity)
	f1, f2 := genFiles(r)
	in.cp[0] = genCouplesSparse(r, rd1, f1)
	in.cp[1] = genCouplesSparse(r, rd2, f2)
	emit(c, "sc-cp-people", in)
}

// n ticks with one or two developers each / one tick with n developers / one developer with n languages
func scaleDevs(c *Config, shape string, n1, n2 int) {
	r := c.Rng
	in := input{an: "devs", fam: "sc-big"}
	in.c1, in.c2 = genCommonPair(r)
	ts := tickSizes[r.Intn(3)]
	mk := func(people []string, n int) Devs {
		d := Devs{People: people, TickSize: ts, Ticks: []TickEntry{}}
		switch shape {
		case "ticks":
			for t := 0; t < n; t++ {
				te := TickEntry{Tick: t}
				for k := 0; k < 1+t%2; k++ {
					dv := (t + 2*k) % len(people)
					te.Devs = append(te.Devs, DevEntry{Dev: dv, Commits: 1 + r.Intn(5), LS: LS{1 + r.Intn(40), r.Intn(40), r.Intn(9)}})
				}
				sort.Slice(te.Devs, func(i, j int) bool { return te.Devs[i].Dev < te.Devs[j].Dev })
				if len(te.Devs) == 2 && te.Devs[0].Dev == te.Devs[1].Dev {
					te.Devs = te.Devs[:1]
				}
				if t%5 == 0 {
					te.Devs[0].Langs = []Lang{{"Go", LS{1, 2, 3}}}
				}
				d.Ticks = append(d.Ticks, te)
			}
		case "people":
			for _, t := range []int{0, 3} {
				te := TickEntry{Tick: t}
				for i := range people {
					if t == 0 || i%3 == 0 || i+8 >= len(people) {
						te.Devs = append(te.Devs, DevEntry{Dev: i, Commits: 1 + r.Intn(5), LS: LS{1 + r.Intn(40), r.Intn(40), r.Intn(9)}})
					}
				}
				te.Devs = append(te.Devs, DevEntry{Dev: 262142, Commits: 2, LS: LS{5, 6, 7}})
				d.Ticks = append(d.Ticks, te)
			}
		case "langs":
			e := DevEntry{Dev: 0, Commits: 3, LS: LS{1, 2, 3}}
			for i := 0; i < n; i++ {
				e.Langs = append(e.Langs, Lang{fmt.Sprintf("L%05d", (i*7+n2)%(n+n/3+1)), LS{1 + i%30, i % 7, 1}})
			}
			sort.Slice(e.Langs, func(i, j int) bool { return e.Langs[i].Name < e.Langs[j].Name })
			var dd []Lang
			for i, l := range e.Langs {
				if i == 0 || l.Name != e.Langs[i-1].Name {
					dd = append(dd, l)
				}
			}
			e.Langs = dd
			d.Ticks = append(d.Ticks, TickEntry{Tick: 1, Devs: []DevEntry{e}})
		}
		return d
	}
	var rd1, rd2 []string
	if shape == "people" {
		rd1, rd2 = overlapping(r, n1, n2, scaleIdentity)
	} else {
		rd1, rd2 = smallPeople(r)
	}
	in.dv[0] = mk(rd1, n1)
	in.dv[1] = mk(rd2, n2)
	emit(c, "sc-dv-"+shape, in)
}

var scaleSizesMid = []int{7, 8, 9, 12, 13, 16, 17, 31, 33, 63, 64, 65, 127, 129, 255, 256, 257, 511, 513}
var scaleSizesBig = []int{999, 1000, 1001, 1003, 1023, 1024, 1025, 1029, 2048, 2051}

func scaleLargeCases(c *Config) {
	r := c.Rng
	axis := 0
	// limit: the largest size of this axis in the thorough tier
	run := func(limit int, f func(n1, n2 int)) {
		var pairs [][2]int
		other := func() int { return []int{3, 40, 300, 997}[r.Intn(4)] }
		if c.Thorough() {
			for _, n := range scaleSizesMid {
				pairs = append(pairs, [2]int{n, other() % (2*n + 1)}, [2]int{other() % (2*n + 1), n})
			}
			for _, n := range scaleSizesBig {
				pairs = append(pairs, [2]int{n, other()}, [2]int{other(), n}, [2]int{n, scaleSizesBig[r.Intn(len(scaleSizesBig))]})
			}
			if limit >= 4099 {
				pairs = append(pairs, [2]int{4096, other()}, [2]int{4099, other()}, [2]int{997, 4099})
			}
			if limit >= 10007 {
				pairs = append(pairs, [2]int{10007, 300})
			}
		} else {
			rot := axis + int(c.Seed%10) + 10
			for i, n := range scaleSizesMid {
				if (i+rot)%3 == 0 {
					if i%2 == 0 {
						pairs = append(pairs, [2]int{n, 1 + other()%(2*n)})
					} else {
						pairs = append(pairs, [2]int{1 + other()%(2*n), n})
					}
				}
			}
			// 1003 and 1029: above the thresholds 1000 and 1024, not multiples of 8; one more size rotates
			pairs = append(pairs, [2]int{1003, 300}, [2]int{40, 1029})
			if axis < 2 {
				pairs = append(pairs, [2]int{scaleSizesBig[rot%len(scaleSizesBig)], 1001 + rot%5})
			}
		}
		axis++
		for _, p := range pairs {
			f(p[0], p[1])
		}
	}
	run(10007, func(n1, n2 int) { scaleCouplesFiles(c, n1, n2) })
	run(10007, func(n1, n2 int) { scaleCouplesPeople(c, n1, n2) })
	run(10007, func(n1, n2 int) { scaleDevs(c, "ticks", n1, n2) })
	run(4099, func(n1, n2 int) { scaleDevs(c, "people", n1, n2) })
	run(2051, func(n1, n2 int) { scaleDevs(c, "langs", n1, n2) })
}

func scaleFamily(c *Config) {
	scaleIdentityCases(c)
	scaleLargeCases(c)
}

var _ = strings.Split
var _ = A
