(* C09 - lemmas about the finite tables and the abstract file system of Model.v *)
From Coq Require Import List ZArith Bool NArith Lia.
From Herc Require Import Hibernation.Model.
Import ListNotations.
Open Scope Z_scope.

Section TableLemmas.
  Context {V : Type}.
  Implicit Types (l : list (Z * V)) (b : Z) (v : V).

  Lemma tget_tset_same : forall l b v, tget b (tset b v l) = Some v.
  Proof.
    induction l as [|[x w] l IH]; intros b v; cbn.
    - now rewrite Z.eqb_refl.
    - destruct (Z.eqb x b) eqn:E; cbn.
      + now rewrite Z.eqb_refl.
      + rewrite E. apply IH.
  Qed.

  Lemma tget_tset_other : forall l b b' v, b <> b' -> tget b' (tset b v l) = tget b' l.
  Proof.
    induction l as [|[x w] l IH]; intros b b' v Hne; cbn.
    - destruct (Z.eqb b b') eqn:E; [apply Z.eqb_eq in E; contradiction|reflexivity].
    - destruct (Z.eqb x b) eqn:E; cbn.
      + apply Z.eqb_eq in E. subst x.
        destruct (Z.eqb b b') eqn:E2; [apply Z.eqb_eq in E2; contradiction|reflexivity].
      + destruct (Z.eqb x b'); [reflexivity|]. now apply IH.
  Qed.

  Lemma tget_tset : forall l b b' v,
      tget b' (tset b v l) = if Z.eqb b b' then Some v else tget b' l.
  Proof.
    intros l b b' v. destruct (Z.eqb b b') eqn:E.
    - apply Z.eqb_eq in E. subst. apply tget_tset_same.
    - apply Z.eqb_neq in E. now apply tget_tset_other.
  Qed.

  Lemma tget_tdel : forall l b b',
      tget b' (tdel b l) = if Z.eqb b b' then None else tget b' l.
  Proof.
    induction l as [|[x w] l IH]; intros b b'; cbn.
    - now destruct (Z.eqb b b').
    - destruct (Z.eqb x b) eqn:E; cbn.
      + apply Z.eqb_eq in E. subst x. rewrite IH. now destruct (Z.eqb b b').
      + destruct (Z.eqb x b') eqn:E2.
        * apply Z.eqb_eq in E2. subst x.
          destruct (Z.eqb b b') eqn:E3; [|reflexivity].
          apply Z.eqb_eq in E3. subst. now rewrite Z.eqb_refl in E.
        * apply IH.
  Qed.

  Lemma tset_same_value : forall l b v, tget b l = Some v -> tset b v l = l.
  Proof.
    induction l as [|[x w] l IH]; intros b v Hg; cbn in *; [discriminate|].
    destruct (Z.eqb x b) eqn:E.
    - apply Z.eqb_eq in E. subst x. now inversion Hg.
    - f_equal. now apply IH.
  Qed.

  Lemma tget_in_keys : forall l b v, tget b l = Some v -> In b (map fst l).
  Proof.
    induction l as [|[x w] l IH]; intros b v Hg; cbn in *; [discriminate|].
    destruct (Z.eqb x b) eqn:E.
    - left. now apply Z.eqb_eq.
    - right. eauto.
  Qed.

  Lemma tget_none_not_key : forall l b, tget b l = None -> ~ In b (map fst l).
  Proof.
    induction l as [|[x w] l IH]; intros b Hg; cbn in *; [tauto|].
    destruct (Z.eqb x b) eqn:E; [discriminate|].
    apply Z.eqb_neq in E. intros [H|H]; [contradiction|]. now apply (IH b).
  Qed.

  Lemma in_keys_tget : forall l b, In b (map fst l) -> exists v, tget b l = Some v.
  Proof.
    intros l b Hin. destruct (tget b l) eqn:E; [eauto|].
    now apply tget_none_not_key in E.
  Qed.
End TableLemmas.

(* the key list after an update depends on the key list only *)
Definition kmem (b : Z) (ks : list Z) : bool := existsb (Z.eqb b) ks.
Definition kset (b : Z) (ks : list Z) : list Z := if kmem b ks then ks else ks ++ [b].
Definition kdel (b : Z) (ks : list Z) : list Z := filter (fun x => negb (Z.eqb x b)) ks.

Lemma keys_tset : forall {V} (l : list (Z * V)) b v, map fst (tset b v l) = kset b (map fst l).
Proof.
  unfold kset. induction l as [|[x w] l IH]; intros b v; cbn; [reflexivity|].
  rewrite (Z.eqb_sym b x).
  destruct (Z.eqb x b) eqn:E; cbn.
  - apply Z.eqb_eq in E. now subst.
  - rewrite IH. unfold kmem. now destruct (existsb (Z.eqb b) (map fst l)).
Qed.

Lemma keys_tdel : forall {V} (l : list (Z * V)) b, map fst (tdel b l) = kdel b (map fst l).
Proof.
  unfold kdel. induction l as [|[x w] l IH]; intros b; cbn; [reflexivity|].
  destruct (Z.eqb x b); cbn; now rewrite IH.
Qed.

Lemma keys_eq_tget_none : forall {V W} (l : list (Z * V)) (l' : list (Z * W)) b,
    map fst l = map fst l' -> tget b l = None -> tget b l' = None.
Proof.
  intros V W l l' b Hk Hn. destruct (tget b l') eqn:E; [|reflexivity].
  apply tget_in_keys in E. rewrite <- Hk in E. now apply tget_none_not_key in Hn.
Qed.

(* ---------------------------------------------------------------------------------------- *)
(* file system *)

Section FsLemmas.
  Context {byte : Type}.
  Notation fsys := (list (N * list byte)).
  Implicit Types (fs : fsys) (n m : N).

  Lemma fs_get_write : forall fs n m bs,
      fs_get m (fs_write n bs fs) = if N.eqb n m then Some bs else fs_get m fs.
  Proof.
    induction fs as [|[x old] fs IH]; intros n m bs; cbn.
    - reflexivity.
    - destruct (N.eqb x n) eqn:E; cbn.
      + apply N.eqb_eq in E. subst x. now destruct (N.eqb n m).
      + destruct (N.eqb x m) eqn:E2.
        * apply N.eqb_eq in E2. subst x. rewrite N.eqb_sym in E. now rewrite E.
        * apply IH.
  Qed.

  Lemma fs_get_remove : forall fs n m,
      fs_get m (fs_remove n fs) = if N.eqb n m then None else fs_get m fs.
  Proof.
    induction fs as [|[x old] fs IH]; intros n m; cbn.
    - now destruct (N.eqb n m).
    - destruct (N.eqb x n) eqn:E; cbn.
      + apply N.eqb_eq in E. subst x. rewrite IH. now destruct (N.eqb n m).
      + destruct (N.eqb x m) eqn:E2.
        * apply N.eqb_eq in E2. subst x. rewrite N.eqb_sym in E. now rewrite E.
        * apply IH.
  Qed.

  Lemma fs_get_cons : forall fs n m bs,
      fs_get m ((n, bs) :: fs) = if N.eqb n m then Some bs else fs_get m fs.
  Proof. reflexivity. Qed.

  Lemma fs_get_trunc : forall fs n k m,
      fs_get m (apply_tamper fs (TTrunc n k)) =
      if N.eqb m n then option_map (firstn k) (fs_get m fs) else fs_get m fs.
  Proof.
    induction fs as [|[x old] fs IH]; intros n k m; cbn.
    - now destruct (N.eqb m n).
    - destruct (N.eqb x n) eqn:E; cbn.
      + apply N.eqb_eq in E. subst x.
        destruct (N.eqb n m) eqn:E2.
        * apply N.eqb_eq in E2. subst m. now rewrite N.eqb_refl.
        * cbn in IH. rewrite IH. reflexivity.
      + destruct (N.eqb x m) eqn:E2.
        * apply N.eqb_eq in E2. subst x. now rewrite E.
        * cbn in IH. apply IH.
  Qed.

  (* the adversary never creates a file *)
  Lemma fs_mem_tamper : forall t fs m, fs_mem m (apply_tamper fs t) = true -> fs_mem m fs = true.
  Proof.
    intros [n|n k] fs m; unfold fs_mem.
    - cbn. rewrite fs_get_remove. now destruct (N.eqb n m).
    - rewrite fs_get_trunc. destruct (N.eqb m n); [|tauto].
      now destruct (fs_get m fs).
  Qed.

  Lemma fs_mem_tampers : forall ts fs m, fs_mem m (apply_tampers fs ts) = true -> fs_mem m fs = true.
  Proof.
    induction ts as [|t ts IH]; intros fs m Hm; cbn in *; [assumption|].
    apply IH in Hm. now apply fs_mem_tamper in Hm.
  Qed.
End FsLemmas.
