(* A VIEW of the shared state: one of the sparse histories the analysis keeps beside the global one (the history
   of one file, the history of one developer) together with the filter that says which tracker reports are booked
   in it.  The lemmas of AnalysisFacts.v / HunkProofs.v about the global history are proved here for an arbitrary
   view that satisfies [view_law]; the global history itself is the view with the filter "always". *)
From Coq Require Import List ZArith Lia Bool.
From Herc Require Import Burndown.Base Burndown.Dense Burndown.DenseProofs Burndown.Lifetimes Burndown.LifetimesFacts
  Burndown.Analysis Burndown.SparseFacts Burndown.AnalysisFacts Burndown.Replay Burndown.HunkProofs
  Burndown.LinearProofs Burndown.FrameFacts.
Import ListNotations.
Open Scope Z_scope.

(* ---------- a sparse history whose entries all occur in another one ---------- *)
Definition entries (H : list (Z * list (Z * Z))) : list (Z * Z) :=
  flat_map (fun tr => map (fun kd => (fst tr, fst kd)) (snd tr)) H.

Lemma entries_inner_add (t : Z) (row : list (Z * Z)) (k d : Z) (e : Z * Z) :
  In e (map (fun kd => (t, fst kd)) (inner_add row k d)) <-> e = (t, k) \/ In e (map (fun kd => (t, fst kd)) row).
Proof.
  induction row as [|[k' v] r IH]; cbn [inner_add map In fst].
  - intuition.
  - destruct (Z.eqb_spec k' k) as [->|Hne]; cbn [map In fst].
    + intuition.
    + rewrite IH. intuition.
Qed.

Lemma entries_sp_add H t k d e : In e (entries (sp_add H t k d)) <-> e = (t, k) \/ In e (entries H).
Proof.
  unfold entries. induction H as [|[t' row] r IH]; cbn [sp_add flat_map fst snd map app In].
  - intuition.
  - destruct (Z.eqb_spec t' t) as [->|Hne]; cbn [flat_map fst snd]; rewrite !in_app_iff.
    + rewrite entries_inner_add. intuition.
    + rewrite IH. intuition.
Qed.

Lemma inner_le_entries H : inner_le H <-> (forall e, In e (entries H) -> 0 <= snd e <= fst e).
Proof.
  unfold inner_le, entries. split.
  - intros HI e Hin. apply in_flat_map in Hin. destruct Hin as (tr & Htr & He).
    apply in_map_iff in He. destruct He as (kd & <- & Hkd). cbn [fst snd]. apply (HI tr Htr kd Hkd).
  - intros HE tr Htr kd Hkd. apply (HE (fst tr, fst kd)). apply in_flat_map. exists tr. split; auto.
    apply in_map_iff. exists kd. auto.
Qed.

Definition subh (H' H : list (Z * list (Z * Z))) : Prop :=
  NoDup (keys H') /\ (forall t, In t (keys H') -> In t (keys H)) /\ (forall e, In e (entries H') -> In e (entries H)).

Lemma subh_nil H : subh [] H.
Proof. split; [constructor|]. split; intros x []. Qed.

Lemma subh_add_both H' H t k d : subh H' H -> subh (sp_add H' t k d) (sp_add H t k d).
Proof.
  intros (S1 & S2 & S3). split; [apply nodup_keys_sp_add; auto|]. split.
  - intros x Hx. apply keys_sp_add in Hx. apply keys_sp_add. destruct Hx; auto.
  - intros e He. apply entries_sp_add in He. apply entries_sp_add. destruct He; auto.
Qed.

Lemma subh_add_right H' H t k d : subh H' H -> subh H' (sp_add H t k d).
Proof.
  intros (S1 & S2 & S3). split; auto. split.
  - intros x Hx. apply keys_sp_add. auto.
  - intros e He. apply entries_sp_add. auto.
Qed.

Lemma subh_gh_ok T H' H : subh H' H -> gh_ok T H -> gh_ok T H'.
Proof.
  intros (S1 & S2 & S3) (G1 & G2 & G3). split; auto. split; auto.
  apply inner_le_entries. intros e He. apply (proj1 (inner_le_entries H) G2 e (S3 e He)).
Qed.

Section View.
  Variable cf : cfg.
  Variable V : shared -> list (Z * list (Z * Z)).
  Variable flt : shared -> option Z -> Z -> bool.

  Definition view_law : Prop :=
    forall hd s cur prev d s', update_time cf hd s cur prev d = Ok s' ->
      (forall hd' v, flt s' hd' v = flt s hd' v) /\
      (is_mark prev = true \/ is_mark cur = true -> V s' = V s) /\
      (is_mark prev = false -> is_mark cur = false ->
         V s' = if flt s hd prev then sp_add (V s) (tp cf cur) (tp cf prev) d else V s).
  Hypothesis law : view_law.

  Definition feff (P : Z -> Z -> bool) (fl : Z -> bool) (cur prev d : Z) : Z :=
    if fl prev then eff cf P cur prev d else 0.
  Definition feffs (P : Z -> Z -> bool) (fl : Z -> bool) (t : Z) (vs : list Z) : Z :=
    sum_z (map (fun v => feff P fl t v (-1)) vs).
  Definition fok (s : shared) (hd : option Z) (fl : Z -> bool) : Prop := forall v, flt s hd v = fl v.

  Lemma feff_add P fl t a b : feff P fl t t a + feff P fl t t b = feff P fl t t (a + b).
  Proof. unfold feff. destruct (fl t); [apply eff_add|lia]. Qed.
  Lemma feff_0 P fl t : feff P fl t t 0 = 0.
  Proof. unfold feff. destruct (fl t); [apply eff_0|lia]. Qed.
  Lemma feffs_app P fl t l1 l2 : feffs P fl t (l1 ++ l2) = feffs P fl t l1 + feffs P fl t l2.
  Proof. unfold feffs. rewrite map_app. apply DenseProofs.sum_z_app. Qed.
  Lemma feffs_nil P fl t : feffs P fl t [] = 0.
  Proof. reflexivity. Qed.
  Lemma feffs_cons P fl t v r : feffs P fl t (v :: r) = feff P fl t v (-1) + feffs P fl t r.
  Proof. reflexivity. Qed.

  (* ---------- one report ---------- *)
  Lemma update_time_v hd fl s cur prev d s' : update_time cf hd s cur prev d = Ok s' -> fok s hd fl ->
    fok s' hd fl /\ forall P, wsum P (V s') = wsum P (V s) + feff P fl cur prev d.
  Proof.
    intros E Hf. destruct (law _ _ _ _ _ _ E) as (L1 & L2 & L3). split.
    - intros v. rewrite L1. apply Hf.
    - intros P. unfold feff, eff. destruct (is_mark prev) eqn:Ep.
      + rewrite L2 by auto. destruct (fl prev); lia.
      + destruct (is_mark cur) eqn:Ec.
        * rewrite L2 by auto. destruct (fl prev); lia.
        * rewrite L3 by auto. rewrite (Hf prev). destruct (fl prev); [|lia]. rewrite wsum_sp_add. reflexivity.
  Qed.

  Lemma update_time_flt hd s cur prev d s' : update_time cf hd s cur prev d = Ok s' ->
    forall hd' v, flt s' hd' v = flt s hd' v.
  Proof. intros E. apply (law _ _ _ _ _ _ E). Qed.

  (* the view stays a sub-history of the global history *)
  Lemma update_time_sub hd s cur prev d s' : update_time cf hd s cur prev d = Ok s' ->
    subh (V s) (s_gh s) -> subh (V s') (s_gh s').
  Proof.
    intros E Hs. destruct (law _ _ _ _ _ _ E) as (_ & L2 & L3).
    destruct (update_time_cases _ _ _ _ _ _ _ E) as [(E1 & ->)|[(E1 & E2 & ->)|(E1 & E2 & E3)]].
    - exact Hs.
    - exact Hs.
    - rewrite L3, E3 by auto. destruct (flt s hd prev); [apply subh_add_both|apply subh_add_right]; exact Hs.
  Qed.

  Lemma report_deleted_v hd fl t vs : forall s s', report_deleted cf hd s t vs = Ok s' -> fok s hd fl ->
    fok s' hd fl /\ forall P, wsum P (V s') = wsum P (V s) + feffs P fl t vs.
  Proof.
    induction vs as [|v r IH]; intros s s' E Hf; cbn [report_deleted] in E.
    - injection E as <-. split; auto. intros P. rewrite feffs_nil. lia.
    - destruct (update_time cf hd s t v (-1)) as [s1| |] eqn:E1; try discriminate.
      destruct (update_time_v _ _ _ _ _ _ _ E1 Hf) as [Hf1 W1]. destruct (IH _ _ E Hf1) as [Hf2 W2].
      split; auto. intros P. rewrite W2, W1, feffs_cons. lia.
  Qed.

  (* File.Update on the array: the decomposition of arr_update_spec, with what the view receives *)
  Lemma arr_update_spec_v fl f s t pos ins del f' s' : arr_update cf f s t pos ins del = Ok (f', s') ->
    fok s (f_hist f) fl ->
    fok s' (f_hist f) fl /\
    ((ins = 0 /\ del = 0 /\ f' = f /\ s' = s) \/
     exists A dead B,
       f_vals f = A ++ dead ++ B /\ f_vals f' = A ++ repeat t (Z.to_nat ins) ++ B /\
       Z.of_nat (length A) = pos /\ Z.of_nat (length dead) = del /\ 0 <= ins /\ f_hist f' = f_hist f /\
       forall P, wsum P (V s') = wsum P (V s) + feff P fl t t ins + feffs P fl t dead).
  Proof.
    unfold arr_update. intros E Hf.
    destruct ((pos <? 0) || (ins <? 0) || (del <? 0)) eqn:Eg; [discriminate|].
    apply orb_false_iff in Eg. destruct Eg as [Eg Eg3]. apply orb_false_iff in Eg. destruct Eg as [Eg1 Eg2].
    destruct ((ins =? 0) && (del =? 0)) eqn:Ez.
    - inversion E; subst. apply andb_prop in Ez. destruct Ez as [Ez1 Ez2]. split; auto. left. repeat split; lia.
    - destruct ((Z.of_nat (length (f_vals f)) <? pos) || (Z.of_nat (length (f_vals f)) <? pos + del)) eqn:El; [discriminate|].
      apply orb_false_iff in El. destruct El as [El1 El2].
      set (r1 := if 0 <? ins then update_time cf (f_hist f) s t t ins else Ok s) in *.
      destruct r1 as [s1| |] eqn:E1; try discriminate.
      set (dead := firstn (Z.to_nat del) (skipn (Z.to_nat pos) (f_vals f))) in *.
      destruct (report_deleted cf (f_hist f) s1 t dead) as [s2| |] eqn:E2; try discriminate.
      inversion E; subst f' s'. clear E.
      assert (H1 : fok s1 (f_hist f) fl /\ forall P, wsum P (V s1) = wsum P (V s) + feff P fl t t ins).
      { unfold r1 in E1. destruct (Z.ltb_spec 0 ins).
        + apply (update_time_v _ _ _ _ _ _ _ E1 Hf).
        + inversion E1; subst. split; auto. intros P. assert (ins = 0) by lia. subst. rewrite feff_0. lia. }
      destruct H1 as [Hf1 W1]. destruct (report_deleted_v _ _ _ _ _ _ E2 Hf1) as [Hf2 W2].
      split; auto. right.
      exists (firstn (Z.to_nat pos) (f_vals f)), dead, (skipn (Z.to_nat (pos + del)) (f_vals f)).
      assert (Hsplit : f_vals f = firstn (Z.to_nat pos) (f_vals f) ++ dead ++ skipn (Z.to_nat (pos + del)) (f_vals f)).
      { unfold dead. replace (Z.to_nat (pos + del)) with (Z.to_nat pos + Z.to_nat del)%nat by lia.
        apply firstn_skipn_split. lia. }
      split; auto. cbn [f_vals f_hist]. split; auto.
      split; [rewrite firstn_length; lia|].
      split; [unfold dead; rewrite firstn_length, skipn_length; lia|].
      split; [lia|]. split; auto. intros P. rewrite W2, W1. reflexivity.
  Qed.

  (* ---------- the hunks of a line sequence (run_hunks_spec for a view) ---------- *)
  Section Hunks.
    Variable t : Z.
    Variables o n : line -> bool.
    Variable ov : line -> Z.
    Variable fl : Z -> bool.
    Notation nvf := (nv t o ov).
    Notation cntIf := (cntI o n).
    Notation deadvf := (deadv o n ov).

    Ltac fin := repeat match goal with |- context [feff ?P fl t t (?a + ?b)] => rewrite <- (feff_add P fl t a b) end;
                rewrite ?feff_0, ?feffs_app, ?feffs_cons, ?feffs_nil; try lia.

    Lemma run_hunks_spec_v : forall r k d i pre K D f s f' s',
      0 <= k -> 0 <= d -> 0 <= i -> Z.of_nat (length K) = k -> Z.of_nat (length D) = d ->
      f_vals f = pre ++ K ++ D ++ map ov (filter o r) ->
      run_hunks cf t (hunks3 o n r k d i) (Z.of_nat (length pre)) f s = Ok (f', s') ->
      fok s (f_hist f) fl ->
      f_vals f' = pre ++ K ++ repeat t (Z.to_nat i) ++ map nvf (filter n r) /\ f_hist f' = f_hist f /\
      fok s' (f_hist f) fl /\
      forall P, wsum P (V s') = wsum P (V s) + feff P fl t t (i + cntIf r) + feffs P fl t (D ++ deadvf r).
    Proof.
      induction r as [|l r IH]; intros k d i pre K D f s f' s' Hk Hd Hi HK HD Ef E Hf.
      - cbn [hunks3 run_hunks] in E. cbn [filter map] in *. rewrite !app_nil_r in *.
        destruct (arr_update cf f s t (Z.of_nat (length pre) + k) i d) as [[f1 s1]| |] eqn:E1; try discriminate.
        injection E as <- <-.
        change (cntI o n []) with 0. rewrite Z.add_0_r.
        destruct (arr_update_spec_v fl _ _ _ _ _ _ _ _ E1 Hf) as [Hf1 [(-> & -> & -> & ->)|(A0 & dead & B & F1 & F2 & LA & LD & _ & Hh & Hw)]].
        + destruct D; [|cbn in HD; lia]. cbn [Z.to_nat repeat]. rewrite app_nil_r in *. split; auto. split; auto. split; auto.
          intros P. rewrite feff_0, feffs_nil. lia.
        + rewrite Ef in F1. rewrite app_assoc in F1.
          destruct (app_inj_length (pre ++ K) D A0 (dead ++ B)) as [<- E2].
          { rewrite F1. reflexivity. } { rewrite app_length. lia. }
          assert (dead = D /\ B = []) as [-> ->].
          { assert (length dead = length D) by lia.
            destruct (app_inj_length D [] dead B) as [-> <-]; [rewrite app_nil_r; auto|lia|auto]. }
          rewrite F2, app_nil_r, <- app_assoc. repeat split; auto.
      - cbn [hunks3] in E. cbn [filter] in Ef.
        destruct (o l) eqn:Eo, (n l) eqn:En.
        + (* kept *)
          cbn [map] in Ef.
          destruct (Z.ltb_spec 0 (d + i)) as [Hdi|Hdi].
          * cbn [run_hunks] in E.
            destruct (arr_update cf f s t (Z.of_nat (length pre) + k) i d) as [[f1 s1]| |] eqn:E1; try discriminate.
            destruct (arr_update_spec_v fl _ _ _ _ _ _ _ _ E1 Hf) as [Hf1 [(-> & -> & _)|(A0 & dead & B & F1 & F2 & LA & LD & _ & Hh & Hw)]]; [lia|].
            rewrite Ef in F1. rewrite app_assoc in F1.
            destruct (app_inj_length (pre ++ K) (D ++ ov l :: map ov (filter o r)) A0 (dead ++ B)) as [<- E2].
            { rewrite <- app_assoc. rewrite <- app_assoc in F1. exact F1. } { rewrite app_length. lia. }
            destruct (app_inj_length D (ov l :: map ov (filter o r)) dead B E2) as [<- <-]; [lia|].
            assert (Hpos : Z.of_nat (length pre) + k + i = Z.of_nat (length ((pre ++ K) ++ repeat t (Z.to_nat i)))).
            { rewrite !app_length, repeat_length. lia. }
            rewrite Hpos in E. rewrite <- Hh in Hf1.
            destruct (IH 1 0 0 ((pre ++ K) ++ repeat t (Z.to_nat i)) [ov l] [] f1 s1 f' s') as (R1 & R2 & R2' & R3); auto; try lia.
            { rewrite F2. cbn [app]. rewrite <- !app_assoc. reflexivity. }
            split.
            { rewrite R1. cbn [filter]. rewrite En. cbn [map Z.to_nat repeat app]. unfold nv at 2. rewrite Eo.
              rewrite <- !app_assoc. reflexivity. }
            split; [congruence|]. split; [rewrite <- Hh; exact R2'|].
            intros P. rewrite R3, Hw. unfold cntI, deadv. rewrite ?LifetimesFacts.count_cons. cbn [filter app].
            rewrite ?Eo, ?En. cbn [andb negb map app]. fin.
          * assert (HD0 : length D = 0%nat) by lia. assert (Hi0 : i = 0) by lia. assert (Hd0 : d = 0) by lia.
            clear Hdi. subst i. destruct D; [|discriminate]. clear HD0. subst d.
            destruct (IH (k + 1) 0 0 pre (K ++ [ov l]) [] f s f' s') as (R1 & R2 & R2' & R3); auto; try lia.
            { rewrite app_length. cbn. lia. }
            { rewrite Ef. cbn [app]. rewrite <- app_assoc. reflexivity. }
            split.
            { rewrite R1. cbn [filter]. rewrite En. cbn [map Z.to_nat repeat app]. unfold nv at 2. rewrite Eo.
              rewrite <- app_assoc. reflexivity. }
            split; auto. split; auto.
            intros P. rewrite R3. unfold cntI, deadv. rewrite ?LifetimesFacts.count_cons. cbn [filter app].
            rewrite ?Eo, ?En. cbn [andb negb map app]. fin.
        + (* deleted *)
          cbn [map] in Ef.
          destruct (IH k (d + 1) i pre K (D ++ [ov l]) f s f' s') as (R1 & R2 & R2' & R3); auto; try lia.
          { rewrite app_length. cbn. lia. }
          { rewrite Ef. rewrite <- !app_assoc. reflexivity. }
          split.
          { rewrite R1. cbn [filter]. rewrite En. reflexivity. }
          split; auto. split; auto.
          intros P. rewrite R3. unfold cntI, deadv. rewrite ?LifetimesFacts.count_cons. cbn [filter].
          rewrite ?Eo, ?En. cbn [andb negb map]. rewrite <- app_assoc. cbn [app]. fin.
        + (* inserted *)
          destruct (IH k d (i + 1) pre K D f s f' s') as (R1 & R2 & R2' & R3); auto; try lia.
          split.
          { rewrite R1. cbn [filter]. rewrite En. cbn [map]. unfold nv at 2. rewrite Eo.
            replace (Z.to_nat (i + 1)) with (S (Z.to_nat i)) by lia. rewrite repeat_snoc, <- app_assoc. reflexivity. }
          split; auto. split; auto.
          intros P. rewrite R3. unfold cntI, deadv. rewrite ?LifetimesFacts.count_cons. cbn [filter].
          rewrite ?Eo, ?En. cbn [andb negb map]. fin.
        + (* not in either version *)
          destruct (IH k d i pre K D f s f' s') as (R1 & R2 & R2' & R3); auto.
          split.
          { rewrite R1. cbn [filter]. rewrite En. reflexivity. }
          split; auto. split; auto.
          intros P. rewrite R3. unfold cntI, deadv. rewrite ?LifetimesFacts.count_cons. cbn [filter].
          rewrite ?Eo, ?En. cbn [andb negb map]. fin.
    Qed.
  End Hunks.

  (* ---------- File.Merge: the marks resolved ---------- *)
  Lemma resolve_marks_v {X} hd fl day (g : X -> Z) : forall (L : list X) s r s',
    resolve_marks cf hd day (map g L) s = Ok (r, s') -> fok s hd fl ->
    fok s' hd fl /\
    forall P, wsum P (V s') = wsum P (V s) + feff P fl day day (count (fun x => is_mark (g x)) L).
  Proof.
    induction L as [|x L IH]; intros s r s' E Hf; cbn [map resolve_marks] in E.
    - injection E as <- <-. split; auto. intros P. unfold count. cbn. rewrite feff_0. lia.
    - destruct (is_mark (g x)) eqn:Em.
      + destruct (update_time cf hd s day day 1) as [s1| |] eqn:E1; try discriminate.
        destruct (resolve_marks cf hd day (map g L) s1) as [[r1 s2]| |] eqn:E2; try discriminate.
        injection E as <- <-. destruct (update_time_v _ _ _ _ _ _ _ E1 Hf) as [Hf1 W1].
        destruct (IH _ _ _ E2 Hf1) as [Hf2 W2]. split; auto.
        intros P. rewrite W2, W1, count_cons, Em. rewrite <- (feff_add P fl day 1). lia.
      + destruct (resolve_marks cf hd day (map g L) s) as [[r1 s2]| |] eqn:E2; try discriminate.
        injection E as <- <-. destruct (IH _ _ _ E2 Hf) as [Hf2 W2]. split; auto.
        intros P. rewrite W2, count_cons, Em. reflexivity.
  Qed.
End View.
