(* C05: replay the harness trace through the extracted Gallina model of rbtree.go.
   Per operation:
   - fine correspondence (MISMATCH): result of the model = result of the implementation, and the arena
     image of every model tree (to_arena: header + every cell incl. the derived parent link) = the
     snapshot of the real arena; all other cells are zero; gaps = the complement of the live indexes;
   - property oracle (PROPFAIL), on the implementation's own outputs: every answer equals the answer of
     the sorted-map specification (Spec.v, driven only by the inputs and the node indexes the
     implementation returned); the snapshot read from each real root is a red-black search tree with
     consistent parent links / min / max / count and holds exactly the specification's entries under
     the same indexes; every live iterator still shows the key and value of its element. *)
open C05_model
open Conv

let nl = 4294967295
let zero_cell = [| 0; 0; 0; 0; 0; 0 |]

type snap = {
  mutable sz : int;
  mutable cells : int array array;
  mutable gaps : int list;
  mutable hdr : int array array;   (* per tree: root min max count *)
}

let cell_at (s : snap) (i : int) : int array =
  if i >= 0 && i < Array.length s.cells then s.cells.(i) else zero_cell

let set_cell (s : snap) (i : int) (c : int array) =
  if i < 0 || i > 10_000_000 then failwith "cell index";
  if i >= Array.length s.cells then begin
    let n = Array.make (max (2 * Array.length s.cells) (i + 1)) zero_cell in
    Array.blit s.cells 0 n 0 (Array.length s.cells);
    s.cells <- n
  end;
  s.cells.(i) <- c

let coq_cell (c : int array) : cell =
  { ckey = z_of_int c.(0); cval = z_of_int c.(1); cparent = z_of_int c.(2); cleft = z_of_int c.(3);
    cright = z_of_int c.(4); cblack = c.(5) <> 0 }

let show_cell (c : int array) =
  Printf.sprintf "{key=%d val=%d parent=%d left=%d right=%d %s}" c.(0) c.(1) c.(2) c.(3) c.(4)
    (if c.(5) <> 0 then "black" else "red")

let ints_of_cell (c : cell) : int array =
  [| int_of_z c.ckey; int_of_z c.cval; int_of_z c.cparent; int_of_z c.cleft; int_of_z c.cright;
     (if c.cblack then 1 else 0) |]

let show_entries l =
  "[" ^ String.concat ";" (List.map (fun ((i, k), v) ->
    Printf.sprintf "%d:%d=%d" (int_of_z i) (int_of_z k) (int_of_z v)) l) ^ "]"

exception Stop

let small_case id c =
    let ntrees = int_of_sx (List.hd (args (field "ntrees" c))) in
    let ops = args (field "ops" c) and obs = args (field "obs" c) in
    (* arenas: arena 0 is the allocator of the case, every (fork a) adds a copy of arena a; the trees of
       arena j have the global indexes j*ntrees .. j*ntrees+ntrees-1 (harness/cmd/c05/fork.go) *)
    let maxar = 4 in
    let nar = ref 1 in
    let sts = Array.make maxar (init (nat_of_int ntrees)) in
    let spec = Array.make (maxar * ntrees) [] in
    let new_snap () = { sz = 0; cells = Array.make 64 zero_cell; gaps = []; hdr = Array.init (maxar * ntrees) (fun _ -> [| 0; 0; 0; 0 |]) } in
    let sns = Array.init maxar (fun _ -> new_snap ()) in
    let used = Array.make maxar (-1) in
    let regs = Array.make 8 None in     (* register -> (tree, node) as the driver believes *)
    let arena_ids ar = List.concat_map (fun l -> List.map (fun ((i, _), _) -> int_of_z i) l) (Array.to_list (Array.sub spec (ar * ntrees) ntrees)) in
    let all_spec_ids_of t = arena_ids (t / ntrees) in
    let nops = List.length ops in
    (* after the first finding of a case the states are out of step: report it and stop the case *)
    (* after a property failure the case is over.  After the first disagreement with the MODEL the case goes on
       with the property side alone (sorted maps and oracles are driven by the implementation's own outputs),
       further disagreements with the model are not reported: a defect whose first symptom is a fine mismatch
       (a wrong free list, a cell that moved) is followed to the operation where it violates the property *)
    let found = ref false in
    let out_of_step = ref false in
    let propfail id m = found := true; propfail id m in
    let mismatch id m = if not !out_of_step then begin out_of_step := true; mismatch id m end in
    let obs_a = Array.of_list obs in
    (try
      List.iteri (fun i o ->
        if i >= Array.length obs_a then begin
          (* the harness stopped the case early *)
          raise Stop
        end;
        let ob = obs_a.(i) in
        let here = Printf.sprintf "op#%d/%d %s" i nops (string_of_sx o) in
        let r = List.hd (args ob) in
        (match tag r with
         | "panic" ->
             propfail id (here ^ " the operation panicked inside the tree code");
             raise Stop
         | "hang" ->
             propfail id (here ^ " the operation does not terminate");
             raise Stop
         | _ -> ());
        (* ---- update the snapshot ---- *)
        let changed = Array.make maxar false in
        let upd ar rc =
          let sn = sns.(ar) in
          if args (field "d" rc) <> [] || field_opt "g" rc <> None || List.exists (fun h -> tag h = "h") (args rc) then changed.(ar) <- true;
          sn.sz <- int_of_sx (List.hd (args (field "sz" rc)));
          List.iter (fun cl ->
            match ints_of_sx cl with
            | [ci; k; v; p; l; rr; col] -> set_cell sn ci [| k; v; p; l; rr; col |]
            | _ -> failwith "cell") (args (field "d" rc));
          (match field_opt "g" rc with Some g -> sn.gaps <- List.map int_of_sx (args g) | None -> ());
          (match field_opt "used" rc with Some u -> used.(ar) <- int_of_sx (List.hd (args u)) | None -> ());
          List.iter (fun h -> if tag h = "h" then
            (match List.map int_of_sx (args h) with
             | [t; a; b; cc; d] -> sn.hdr.(t) <- [| a; b; cc; d |]
             | _ -> failwith "hdr")) (args rc) in
        upd 0 ob;
        List.iter (fun x -> if tag x = "ar" then begin
          let j = int_of_sx (List.hd (args x)) in
          if j < 1 || j >= maxar then failwith "arena index";
          upd j x end) (args ob);
        let a = args o in
        let ai k = int_of_sx (List.nth a k) in
        let z k = z_of_int (ai k) in
        let skip = tag r = "skip" in
        let rarg k = List.nth (args r) k in
        (* ---- the model operation (node indexes taken from the observation) and the specification ---- *)
        let tn t = nat_of_int (t mod ntrees) in
        let model_ar = ref 0 in
        let it_answer what t got expect =
          if got <> int_of_z expect then
            propfail id (Printf.sprintf "%s %s on tree %d answers node %d but the sorted map says %d; map=%s" here what t got (int_of_z expect) (show_entries spec.(t))) in
        let on t = model_ar := t / ntrees in
        let model_op : op option =
          if skip then None else
          match tag o with
          | "fork" ->
              (* Allocator.Clone + CloneShallow of every tree: the new arena is a copy of the old one (sorted maps,
                 node ids, model state); its snapshot was recorded completely *)
              let a = ai 0 and na = int_of_sx (rarg 0) in
              if a < 0 || a >= !nar || na <> !nar || na >= maxar then failwith "fork";
              sts.(na) <- sts.(a);
              for lt = 0 to ntrees - 1 do spec.(na * ntrees + lt) <- spec.(a * ntrees + lt) done;
              incr nar;
              count "op_fork";
              changed.(a) <- true; changed.(na) <- true;
              None
          | "hib" -> count "op_hib"; if ai 0 >= 0 && ai 0 < maxar then changed.(ai 0) <- true; None      (* Hibernate + Boot: nothing changes *)
          | "ins" ->
              let t = ai 0 in
              let ok = bool_of_sx (rarg 0) and nid = int_of_sx (rarg 1) in
              let expect = not (s_mem (z 1) spec.(t)) in
              if ok <> expect then
                propfail id (Printf.sprintf "%s Insert returns %b but the key is %s; map=%s" here ok (if expect then "absent" else "present") (show_entries spec.(t)))
              else if ok then begin
                if nid = 0 || nid = nl || List.mem nid (all_spec_ids_of t) then
                  propfail id (Printf.sprintf "%s Insert returns an iterator to node %d, which is in use or reserved" here nid);
                spec.(t) <- s_insert (z_of_int nid) (z 1) (z 2) spec.(t);
                if ai 3 >= 0 then regs.(ai 3) <- Some (t, nid)
              end else if nid <> 0 then
                propfail id (Printf.sprintf "%s Insert of an existing key returns node %d instead of the empty iterator" here nid);
              Some (OInsert (tn t, z 1, z 2, z_of_int nid))
          | "delk" ->
              let t = ai 0 in
              let ok = bool_of_sx (rarg 0) in
              let expect = s_mem (z 1) spec.(t) in
              if ok <> expect then
                propfail id (Printf.sprintf "%s DeleteWithKey returns %b but the key is %s; map=%s" here ok (if expect then "present" else "absent") (show_entries spec.(t)));
              spec.(t) <- s_delete (z 1) spec.(t);
              Some (ODeleteKey (tn t, z 1))
          | "deli" ->
              let t = int_of_sx (rarg 0) and n = int_of_sx (rarg 1) in
              let panicked = List.length (args r) > 2 in
              if panicked then begin
                if atom (rarg 2) = "nopanic" then
                  propfail id (here ^ " DeleteWithIterator on Limit/NegativeLimit does not fail its assertion")
              end else begin
                match s_item (z_of_int n) spec.(t) with
                | Some (k, _) -> spec.(t) <- s_delete k spec.(t)
                | None -> propfail id (Printf.sprintf "%s the iterator of register %d points at node %d, which is not an element of the map %s" here (ai 0) n (show_entries spec.(t)))
              end;
              Some (ODeleteIt (tn t, z_of_int n))
          | "fge" ->
              let t = ai 0 in let got = int_of_sx (rarg 0) in
              it_answer "FindGE" t got (pos_fwd (s_find_ge (z 1) spec.(t)));
              regs.(ai 2) <- Some (t, got);
              Some (OFindGE (tn t, z 1))
          | "fle" ->
              let t = ai 0 in let got = int_of_sx (rarg 0) in
              it_answer "FindLE" t got (pos_bwd (s_find_le (z 1) spec.(t)));
              regs.(ai 2) <- Some (t, got);
              Some (OFindLE (tn t, z 1))
          | "min" ->
              let t = ai 0 in let got = int_of_sx (rarg 0) in
              it_answer "Min" t got (pos_fwd (s_min spec.(t)));
              regs.(ai 1) <- Some (t, got);
              Some (OMin (tn t))
          | "max" ->
              let t = ai 0 in let got = int_of_sx (rarg 0) in
              it_answer "Max" t got (pos_bwd (s_max spec.(t)));
              regs.(ai 1) <- Some (t, got);
              Some (OMax (tn t))
          | "next" | "prev" ->
              let t = int_of_sx (rarg 0) and before = int_of_sx (rarg 1) in
              (match regs.(ai 0) with
               | Some (t', b') when t' = t && b' = before -> ()
               | _ -> mismatch id (here ^ " the register does not hold the position the previous operations put there"));
              let panicked = (match rarg 2 with A "panic" -> true | _ -> false) in
              let fwd = tag o = "next" in
              let must_panic = if fwd then before = 0 else before = nl in
              if panicked <> must_panic then
                propfail id (Printf.sprintf "%s from position %d: %s" here before (if panicked then "panics" else "the REQUIRES assertion does not fire"))
              else if not panicked then begin
                let got = int_of_sx (rarg 2) in
                let expect =
                  if fwd then (if before = nl then Some (pos_fwd (s_min spec.(t)))
                               else (match s_next (z_of_int before) spec.(t) with Some e -> Some (pos_fwd e) | None -> None))
                  else (if before = 0 then Some (pos_bwd (s_max spec.(t)))
                        else (match s_prev (z_of_int before) spec.(t) with Some e -> Some (pos_bwd e) | None -> None)) in
                (match expect with
                 | Some e -> it_answer (if fwd then "Next" else "Prev") t got e
                 | None -> propfail id (Printf.sprintf "%s the iterator points at node %d, which is not an element of the map %s" here before (show_entries spec.(t))));
                regs.(ai 0) <- Some (t, got)
              end;
              Some (if fwd then ONext (tn t, z_of_int before) else OPrev (tn t, z_of_int before))
          | "get" ->
              let t = ai 0 in
              let got = (match args r with [] -> None | v :: _ -> Some (int_of_sx v)) in
              let expect = (match s_get (z 1) spec.(t) with Some v -> Some (int_of_z v) | None -> None) in
              let sh = function Some v -> Printf.sprintf "a pointer to the value %d" v | None -> "nil" in
              if got <> expect then propfail id (Printf.sprintf "%s Get on tree %d returns %s, the sorted map says %s; map=%s" here t (sh got) (sh expect) (show_entries spec.(t)));
              Some (OGet (tn t, z 1))
          | "len" ->
              let t = ai 0 in
              if int_of_sx (rarg 0) <> List.length spec.(t) then
                propfail id (Printf.sprintf "%s Len=%d but the map has %d entries" here (int_of_sx (rarg 0)) (List.length spec.(t)));
              Some (OLen (tn t))
          | "erase" -> spec.(ai 0) <- []; Some (OErase (tn (ai 0)))
          | "clone" ->
              let s = ai 0 and d = ai 1 in
              let nids = List.map int_of_sx (args r) in
              let used = all_spec_ids_of s in
              if List.length nids <> List.length spec.(s) then
                propfail id (Printf.sprintf "%s the clone has %d elements, the original %d" here (List.length nids) (List.length spec.(s)))
              else begin
                if List.exists (fun n -> n = 0 || n = nl || List.mem n used) nids || List.length (List.sort_uniq compare nids) <> List.length nids then
                  propfail id (here ^ " the clone uses nodes that are in use");
                spec.(d) <- List.map2 (fun n ((_, k), v) -> ((z_of_int n, k), v)) nids spec.(s)
              end;
              Some (OClone (tn s, tn d, List.map z_of_int nids))
          | t -> failwith ("unknown op " ^ t) in
        (match model_op with
         | None -> if skip then count "ops_skipped"
         | Some mo ->
             count ("op_" ^ tag o);
             let gt = (match tag o with "deli" | "next" | "prev" -> int_of_sx (rarg 0) | _ -> ai 0) in
             on gt;
             changed.(!model_ar) <- true;
             let (st', res) = step sts.(!model_ar) mo in
             sts.(!model_ar) <- st';
             let bad what = mismatch id (Printf.sprintf "%s result: model %s, implementation %s" here what (string_of_sx r)) in
             (match res, tag r with
              | RIns (ok, n), "ins" -> if ok <> bool_of_sx (rarg 0) || int_of_z n <> int_of_sx (rarg 1) then bad (Printf.sprintf "(ins %b %d)" ok (int_of_z n))
              | RBool b, "b" -> if b <> bool_of_sx (rarg 0) then bad (Printf.sprintf "(b %b)" b)
              | RUnit, ("deli" | "u" | "clone") -> if tag r = "deli" && List.length (args r) > 2 then bad "no panic"
              | RPanic, "deli" -> if List.length (args r) <= 2 || atom (rarg 2) <> "panic" then bad "panic"
              | RPanic, "mv" -> if (match rarg 2 with A "panic" -> false | _ -> true) then bad "panic"
              | RIt n, "it" -> if int_of_z n <> int_of_sx (rarg 0) then bad (Printf.sprintf "(it %d)" (int_of_z n))
              | RIt n, "mv" -> if (match rarg 2 with A "panic" -> true | x -> int_of_z n <> int_of_sx x) then bad (Printf.sprintf "(mv -> %d)" (int_of_z n))
              | RVal v, "val" ->
                  let got = (match args r with [] -> None | v :: _ -> Some (int_of_sx v)) in
                  if got <> (match v with Some v -> Some (int_of_z v) | None -> None) then bad "other value"
              | RLen n, "len" -> if int_of_z n <> int_of_sx (rarg 0) then bad (Printf.sprintf "(len %d)" (int_of_z n))
              | RUnspec, _ -> bad "outside its domain (unspecified)"
              | _ -> bad "of another kind"));
        (* ---- fine correspondence: arena image of the model = snapshot ---- *)
        (* an arena is judged after every operation on one of its trees and whenever one of its cells, its gaps
           or a header changed (the verdict is a function of these, the sorted maps and the model state) *)
        for ar = 0 to !nar - 1 do if changed.(ar) || !nar = 1 then begin
        let sn = sns.(ar) in
        let st = sts.(ar) in
        let here = if !nar > 1 then Printf.sprintf "%s [arena %d]" here ar else here in
        let total = ref 0 in
        let lv = ref [] in
        for lt = 0 to ntrees - 1 do
          let t = ar * ntrees + lt in
          let (h, cl) = to_arena (get_tree st (nat_of_int lt)) in
          let mh = [| int_of_z h.hroot; int_of_z h.hmin; int_of_z h.hmax; int_of_z h.hcount |] in
          if mh <> sn.hdr.(t) then
            mismatch id (Printf.sprintf "%s header of tree %d: model root=%d min=%d max=%d count=%d, implementation root=%d min=%d max=%d count=%d"
              here t mh.(0) mh.(1) mh.(2) mh.(3) sn.hdr.(t).(0) sn.hdr.(t).(1) sn.hdr.(t).(2) sn.hdr.(t).(3));
          List.iter (fun (ci, cc) ->
            incr total;
            let ci = int_of_z ci in
            lv := ci :: !lv;
            let m = ints_of_cell cc in
            if m <> cell_at sn ci then
              mismatch id (Printf.sprintf "%s cell %d of tree %d: model %s, implementation %s" here ci t (show_cell m) (show_cell (cell_at sn ci)))) cl
        done;
        if int_of_z st.asize <> sn.sz then mismatch id (Printf.sprintf "%s len(storage): model %d, implementation %d" here (int_of_z st.asize) sn.sz);
        let nonzero = ref 0 in
        for ci = 0 to min (Array.length sn.cells) sn.sz - 1 do if sn.cells.(ci) <> zero_cell then incr nonzero done;
        if !nonzero <> !total then mismatch id (Printf.sprintf "%s %d cells of the arena are in use, the model trees have %d nodes" here !nonzero !total);
        let expect_gaps = List.filter (fun ci -> not (List.mem ci !lv)) (List.init (max 0 (sn.sz - 1)) (fun x -> x + 1)) in
        if expect_gaps <> sn.gaps then mismatch id (here ^ " the gaps are not the complement of the live nodes");
        if used.(ar) >= 0 && used.(ar) <> (if sn.sz = 0 then 0 else !total + 1) then
          mismatch id (Printf.sprintf "%s Used() = %d, the model trees have %d nodes + cell 0" here used.(ar) !total);
        (* ---- property oracle on the snapshot of the implementation ---- *)
        let arena = (fun zi -> coq_cell (cell_at sn (int_of_z zi))) in
        (* the free list must not offer a cell that is an element of a tree (the next Insert into ANY tree of
           this allocator would overwrite it) *)
        let ids = arena_ids ar in
        if Sys.getenv_opt "C05_NO_FREELIST_ORACLE" = None then
        List.iter (fun g -> if List.mem g ids then
          propfail id (Printf.sprintf "%s the free list of the allocator contains node %d, which is an element of one of its trees (%s)" here g
            (String.concat " " (List.init ntrees (fun lt -> show_entries spec.(ar * ntrees + lt)))))) sn.gaps;
        for lt = 0 to ntrees - 1 do
          let t = ar * ntrees + lt in
          let hd = sn.hdr.(t) in
          let h = { hroot = z_of_int hd.(0); hmin = z_of_int hd.(1); hmax = z_of_int hd.(2); hcount = z_of_int hd.(3) } in
          if hd.(3) < 0 then propfail id (Printf.sprintf "%s count of tree %d is negative" here t)
          else begin
            if not (snapshot_map_okb arena h spec.(t)) then
              propfail id (Printf.sprintf "%s tree %d holds %s (node:key=value in link order) but the sorted map is %s" here t
                (show_entries (elems (arena_tree arena h))) (show_entries spec.(t)))
            else if not (snapshot_rb_okb arena h) then
              propfail id (Printf.sprintf "%s tree %d is not a red-black search tree (black root, no red-red, equal black height, sorted): %s" here t
                (show_entries (elems (arena_tree arena h))))
            else if not (links_okb arena h) then
              propfail id (Printf.sprintf "%s tree %d: parent links or root/minNode/maxNode/count (%d/%d/%d/%d) are not what the left/right links determine" here t hd.(0) hd.(1) hd.(2) hd.(3))
            else if not (height_okb (arena_tree arena h)) then
              propfail id (Printf.sprintf "%s tree %d is deeper than 2*log2(size+1)" here t)
          end
        done
        end done;
        (* iterator stability: what the live iterators show through Item() *)
        List.iter (fun x ->
          match ints_of_sx x with
          | [rr; t; n; k; v] ->
              count "iterator_items";
              (match s_item (z_of_int n) spec.(t) with
               | Some (k', v') when int_of_z k' = k && int_of_z v' = v -> ()
               | Some (k', v') -> propfail id (Printf.sprintf "%s the iterator in register %d (node %d) shows %d=%d, its element is %d=%d" here rr n k v (int_of_z k') (int_of_z v'))
               | None -> propfail id (Printf.sprintf "%s the iterator in register %d points at node %d which is no element of tree %d" here rr n t))
          | _ -> failwith "rg") (args (field "rg" ob));
        count "ops";
        if !found then raise Stop) ops
    with Stop -> ());
    if !nar > 1 then count (Printf.sprintf "cases_with_%d_arenas" !nar);
    count (Printf.sprintf "ntrees_%d" ntrees)

(* ------------------------------------------------------------------------------------------------
   Scale cases (input field (scale 1), macro operations, see harness/cmd/c05/scale.go): trees of
   10^3 .. 10^6 elements.  The bulk observations are in the side file named by the case.
   - The sorted-map specification is kept in an OCaml Map (key -> node, value) driven only by the
     inputs and the node indexes the implementation returned: Spec.v's association lists are
     quadratic on 10^5 elements.  Every answer (Insert / DeleteWithKey flags, every position of a
     forward / backward iteration, the element a sweeping iterator stands on while others are deleted
     behind it, FindGE / FindLE / Get / Min / Max / Len) is compared with it as it comes (PROPFAIL).
   - At every checkpoint (chk) the map is turned into the entry list of Spec.v and the extracted,
     proved-sound oracle judges the snapshot of the real arena, for every tree: snapshot_map_okb
     (entries AND node ids = iterator stability), snapshot_rb_okb, links_okb, height_okb; Item() of
     the held iterators is compared with the map (PROPFAIL).
   - The model is run with its tree-level functions (mem / ins / blacken = Insert, delete_key,
     relabel = CloneDeep, it_find_ge, it_find_le, get, min_id, it_max, tsize); `step` is not used
     because its malloc check flattens all trees at every allocation.  At every checkpoint the model
     trees are compared with the real arena cell for cell, parent links and headers included; the
     allocator rule (a gap is reused whenever there is one, else storage grows by one cell), "every
     cell outside the trees is zero" and "gaps = complement of the live cells" are checked with
     arrays (MISMATCH). *)
module IMap = Map.Make (Int)

let side_cache : (string, in_channel) Hashtbl.t = Hashtbl.create 2

let read_side (path : string) (off : int) (n : int) : Bytes.t =
  let ch = try Hashtbl.find side_cache path with Not_found ->
    let ch = (try open_in_bin path with Sys_error m -> failwith ("side file: " ^ m)) in
    Hashtbl.add side_cache path ch; ch in
  let b = Bytes.create (4 * n) in
  (try LargeFile.seek_in ch (Int64.of_int (4 * off)); really_input ch b 0 (4 * n)
   with End_of_file -> failwith "side file truncated");
  b

let wd (b : Bytes.t) (i : int) : int = Int32.to_int (Bytes.get_int32_le b (4 * i)) land 0xFFFFFFFF

let add_count (k : string) (n : int) =
  Hashtbl.replace counters k (n + try Hashtbl.find counters k with Not_found -> 0)

let show_some (l : ((z * z) * z) list) (from : int) : string =
  let rec drop n l = if n <= 0 then l else match l with [] -> [] | _ :: r -> drop (n - 1) r in
  let rec take n l = if n <= 0 then [] else match l with [] -> [] | x :: r -> x :: take (n - 1) r in
  show_entries (take 4 (drop from l))

let scale_case id c =
  let ntrees = int_of_sx (List.hd (args (field "ntrees" c))) in
  let ops = Array.of_list (args (field "ops" c)) in
  let side_path, side_base, obs =
    match args (field "obs" c) with
    | s :: r when tag s = "side" -> atom (List.hd (args s)), int_of_sx (List.nth (args s) 1), Array.of_list r
    | _ -> failwith "scale case without a side file" in
  let read_side p off n = read_side p (side_base + off) n in
  (* a tree is judged again at a checkpoint only if an operation, a changed cell or a changed header
     touched it since the last one (the verdict is a function of its cells, its header and its map) *)
  let dirty = Array.make ntrees true in
  let nops = Array.length ops in
  let spec = Array.make ntrees IMap.empty in
  let live : (int, int * int) Hashtbl.t = Hashtbl.create 4096 in     (* node -> (tree, key) *)
  let mt = Array.make ntrees E in
  let hi = ref 0 in                                                   (* largest index handed out *)
  let sn = { sz = 0; cells = Array.make 1024 zero_cell; gaps = []; hdr = Array.init ntrees (fun _ -> [| 0; 0; 0; 0 |]) } in
  let propfail id m = propfail id m; raise Stop in
  let mismatch id m = mismatch id m; raise Stop in
  let z = z_of_int in
  let timing = Sys.getenv_opt "C05_TIMING" <> None in
  (try
    for i = 0 to nops - 1 do
      if i >= Array.length obs then raise Stop;
      let o = ops.(i) in
      let t0 = Sys.time () in
      let here = Printf.sprintf "op#%d/%d %s" i nops (string_of_sx o) in
      let r = List.hd (args obs.(i)) in
      (match tag r with
       | "panic" -> propfail id (here ^ " the operation panicked inside the tree code")
       | "hang" ->
           let k = (match args r with x :: _ -> int_of_sx x | [] -> i) in
           propfail id (Printf.sprintf "op#%d/%d %s does not terminate" k nops (if k >= 0 && k < nops then string_of_sx ops.(k) else "?"))
       | "cycle" -> propfail id (here ^ " the forward iteration over the tree does not reach Limit after count+1 steps (the links form a cycle); the operation was not started")
       | _ -> ());
      let a = Array.of_list (List.map int_of_sx (args o)) in
      let ra k = int_of_sx (List.nth (args r) k) in
      (* a node index handed out by malloc: fresh, and a gap whenever there is one *)
      let alloc what nid =
        if nid = 0 || nid = nl || Hashtbl.mem live nid then
          propfail id (Printf.sprintf "%s %s: the new element is at node %d, which is in use or reserved" here what nid);
        if nid > !hi then begin
          if nid <> !hi + 1 then mismatch id (Printf.sprintf "%s %s: malloc returns index %d, len(storage) is %d" here what nid (!hi + 1));
          if Hashtbl.length live <> !hi then mismatch id (Printf.sprintf "%s %s: storage grows to index %d although there is a gap" here what nid);
          hi := nid
        end in
      let model_delete what t k ok =
        match delete_key (z k) mt.(t) with
        | DNotFound -> if ok then mismatch id (Printf.sprintf "%s %s: key %d is deleted, the model does not have it" here what k)
        | DDone t' -> if not ok then mismatch id (Printf.sprintf "%s %s: key %d is not deleted, the model has it" here what k); mt.(t) <- t'
        | DUnspec -> mismatch id (Printf.sprintf "%s %s: the model leaves the deletion of key %d unspecified" here what k) in
      let spec_delete t k =
        (match IMap.find_opt k spec.(t) with Some (nid, _) -> Hashtbl.remove live nid | None -> ());
        spec.(t) <- IMap.remove k spec.(t) in
      let ge t q = match IMap.find_first_opt (fun k -> k >= q) spec.(t) with Some (_, (n, _)) -> n | None -> 0 in
      let le t q = match IMap.find_last_opt (fun k -> k <= q) spec.(t) with Some (_, (n, _)) -> n | None -> nl in
      let answer what t got expect =
        if got <> expect then
          propfail id (Printf.sprintf "%s %s on tree %d (%d entries) answers node %d but the sorted map says %d" here what t (IMap.cardinal spec.(t)) got expect) in
      let m_answer what got model =
        if got <> model then mismatch id (Printf.sprintf "%s %s: implementation %d, model %d" here what got model) in
      (* iteration: the visited nodes must be the entries of the map in order; returns them *)
      let follow what t dir (n : int) (node_at : int -> int) (key_at : (int -> int) option) limit final =
        let size = IMap.cardinal spec.(t) in
        let seq = ref (if dir = 0 then IMap.to_seq spec.(t) else IMap.to_rev_seq spec.(t)) in
        for j = 0 to n - 1 do
          match !seq () with
          | Seq.Nil -> propfail id (Printf.sprintf "%s %s: position %d is node %d, but the sorted map has only %d entries" here what j (node_at j) size)
          | Seq.Cons ((k, (nid, _)), rest) ->
              seq := rest;
              let kk = (match key_at with Some f -> f j | None -> k) in
              if nid <> node_at j || kk <> k then
                propfail id (Printf.sprintf "%s %s: position %d of the iteration is node %d (key %d), entry %d of the sorted map is node %d (key %d)"
                               here what j (node_at j) kk j nid k)
        done;
        let expect_n = if limit = 0 then size else min limit size in
        if n <> expect_n then
          propfail id (Printf.sprintf "%s %s: the iteration ends after %d elements, %d were to be visited (map: %d entries)" here what n expect_n size);
        let expect_final = (match !seq () with Seq.Nil -> if dir = 0 then 0 else nl | Seq.Cons ((_, (nid, _)), _) -> nid) in
        if final <> expect_final then
          propfail id (Printf.sprintf "%s %s: after %d elements the iterator is at node %d, the sorted map says %d" here what n final expect_final) in
      (match tag r, tag o with
       | "skip", _ -> count "ops_skipped"
       | "fill", "fill" ->
           let t = a.(0) in
           dirty.(t) <- true;
           let off = ra 0 and n = ra 1 in
           let b = read_side side_path off (4 * n) in
           for j = 0 to n - 1 do
             let k = wd b (4 * j) and v = wd b (4 * j + 1) and ok = wd b (4 * j + 2) <> 0 and nid = wd b (4 * j + 3) in
             let what = Printf.sprintf "element #%d (key %d)" j k in
             let expect = not (IMap.mem k spec.(t)) in
             if ok <> expect then
               propfail id (Printf.sprintf "%s %s: Insert returns %b but the key is %s" here what ok (if expect then "absent" else "present"));
             let zk = z k in
             (* ins leaves the tree alone when the key is present: a disagreement on a successful
                insertion shows as a count / cell mismatch at the next checkpoint *)
             if not ok && not (mem zk mt.(t)) then mismatch id (Printf.sprintf "%s %s: Insert returns false, the model inserts" here what);
             if ok then begin
               alloc what nid;
               spec.(t) <- IMap.add k (nid, v) spec.(t);
               Hashtbl.replace live nid (t, k);
               mt.(t) <- blacken (ins (z nid) zk (z v) mt.(t))
             end else if nid <> 0 then
               propfail id (Printf.sprintf "%s %s: Insert of an existing key returns node %d instead of the empty iterator" here what nid)
           done;
           add_count "scale_inserts" n
       | "mdel", "mdel" ->
           let t = a.(0) in
           dirty.(t) <- true;
           let off = ra 0 and n = ra 1 in
           let b = read_side side_path off (2 * n) in
           for j = 0 to n - 1 do
             let k = wd b (2 * j) and ok = wd b (2 * j + 1) <> 0 in
             let what = Printf.sprintf "element #%d (key %d)" j k in
             let expect = IMap.mem k spec.(t) in
             if ok <> expect then
               propfail id (Printf.sprintf "%s %s: DeleteWithKey returns %b but the key is %s" here what ok (if expect then "present" else "absent"));
             spec_delete t k;
             model_delete what t k ok
           done;
           add_count "scale_deletes_by_key" n
       | "sweep", "sweep" ->
           let t = a.(0) and dir = a.(1) and limit = a.(4) in
           dirty.(t) <- true;
           let off = ra 0 and n = ra 1 and final = ra 2 in
           let b = read_side side_path off (3 * n) in
           follow "sweep" t dir n (fun j -> wd b (3 * j)) (Some (fun j -> wd b (3 * j + 1))) limit final;
           let nd = ref 0 in
           for j = 0 to n - 1 do
             if wd b (3 * j + 2) <> 0 then begin
               let k = wd b (3 * j + 1) in
               incr nd;
               spec_delete t k;
               model_delete (Printf.sprintf "position %d" j) t k true
             end
           done;
           add_count "scale_iterated" n; add_count "scale_deletes_by_iterator" !nd
       | "walk", "walk" ->
           let t = a.(0) and dir = a.(1) in
           let off = ra 0 and n = ra 1 and final = ra 2 in
           let b = read_side side_path off n in
           follow "walk" t dir n (fun j -> wd b j) None 0 final;
           add_count "scale_iterated" n
       | "probe", ("probe" | "qkeys") ->
           let t = a.(0) in
           List.iter (fun q ->
             let g k = int_of_sx (List.nth (args q) k) in
             match tag q with
             | "len" ->
                 if g 0 <> IMap.cardinal spec.(t) then propfail id (Printf.sprintf "%s Len=%d but the map has %d entries" here (g 0) (IMap.cardinal spec.(t)));
                 m_answer "Len" (g 0) (int_of_z (tsize mt.(t)))
             | "min" ->
                 answer "Min" t (g 0) (match IMap.min_binding_opt spec.(t) with Some (_, (n, _)) -> n | None -> 0);
                 m_answer "Min" (g 0) (int_of_z (min_id mt.(t)))
             | "max" ->
                 answer "Max" t (g 0) (match IMap.max_binding_opt spec.(t) with Some (_, (n, _)) -> n | None -> nl);
                 m_answer "Max" (g 0) (int_of_z (it_max mt.(t)))
             | "q" ->
                 let k = g 0 in
                 count "scale_queries";
                 answer (Printf.sprintf "FindGE(%d)" k) t (g 1) (ge t k);
                 answer (Printf.sprintf "FindLE(%d)" k) t (g 2) (le t k);
                 let expect = (match IMap.find_opt k spec.(t) with Some (_, v) -> (1, v) | None -> (0, 0)) in
                 if (g 3, g 4) <> expect then
                   propfail id (Printf.sprintf "%s Get(%d) = (present %d, value %d), the sorted map says (present %d, value %d)" here k (g 3) (g 4) (fst expect) (snd expect));
                 m_answer (Printf.sprintf "FindGE(%d)" k) (g 1) (int_of_z (it_find_ge (z k) mt.(t)));
                 (match it_find_le (z k) mt.(t) with
                  | Some n -> m_answer (Printf.sprintf "FindLE(%d)" k) (g 2) (int_of_z n)
                  | None -> mismatch id (Printf.sprintf "%s FindLE(%d): unspecified in the model" here k));
                 if (match get (z k) mt.(t) with Some v -> (1, int_of_z v) | None -> (0, 0)) <> (g 3, g 4) then
                   mismatch id (Printf.sprintf "%s Get(%d) differs from the model" here k)
             | _ -> failwith "probe") (args r)
       | "it", "hold" ->
           let t = a.(0) and k = a.(1) in
           answer (Printf.sprintf "FindGE(%d)" k) t (ra 0) (ge t k);
           m_answer "FindGE" (ra 0) (int_of_z (it_find_ge (z k) mt.(t)))
       | "u", "erase" ->
           let t = a.(0) in
           dirty.(t) <- true;
           IMap.iter (fun _ (nid, _) -> Hashtbl.remove live nid) spec.(t);
           add_count "scale_erased" (IMap.cardinal spec.(t));
           spec.(t) <- IMap.empty;
           mt.(t) <- E
       | "clone", "clone" ->
           let s = a.(0) and d = a.(1) in
           dirty.(d) <- true;
           let off = ra 0 and n = ra 1 in
           if n <> IMap.cardinal spec.(s) then
             propfail id (Printf.sprintf "%s the clone has %d elements, the original %d" here n (IMap.cardinal spec.(s)));
           let b = read_side side_path off n in
           let j = ref 0 in
           let m = ref IMap.empty in
           IMap.iter (fun k (_, v) ->
             let nid = wd b !j in
             alloc (Printf.sprintf "element #%d of the clone" !j) nid;
             Hashtbl.replace live nid (d, k);
             m := IMap.add k (nid, v) !m;
             incr j) spec.(s);
           spec.(d) <- !m;
           let zids = List.rev (let acc = ref [] in for j = 0 to n - 1 do acc := z (wd b j) :: !acc done; !acc) in
           mt.(d) <- fst (relabel mt.(s) zids);
           add_count "scale_cloned" n
       | "u", "forksw" ->
           (* Allocator.Clone + CloneShallow of every tree, the case goes on with the fork: nothing may have
              changed (the next checkpoint compares the fork's arena, gaps and headers with the state kept here) *)
           Array.fill dirty 0 ntrees true;
           count "scale_forks"
       | "chk", "chk" ->
           count "scale_checkpoints";
           sn.sz <- int_of_sx (List.hd (args (field "sz" r)));
           let (off, ncells, ngaps) = (match List.map int_of_sx (args (field "side" r)) with [x; y; w] -> (x, y, w) | _ -> failwith "chk side") in
           let b = read_side side_path off (7 * ncells + ngaps) in
           for j = 0 to ncells - 1 do
             let ci = wd b (7 * j) in
             (match Hashtbl.find_opt live ci with Some (t, _) -> dirty.(t) <- true | None -> ());
             set_cell sn ci (Array.init 6 (fun k -> wd b (7 * j + 1 + k)))
           done;
           List.iter (fun h -> if tag h = "h" then
             (match List.map int_of_sx (args h) with
              | [t; x; y; cc; d] ->
                  if sn.hdr.(t) <> [| x; y; cc; d |] then dirty.(t) <- true;
                  sn.hdr.(t) <- [| x; y; cc; d |]
              | _ -> failwith "hdr")) (args r);
           (* ---- the property oracle on the snapshot, tree by tree ---- *)
           let memo : cell option array = Array.make (max 1 sn.sz) None in
           let arena = (fun zi ->
             let i = int_of_z zi in
             if i < 0 || i >= Array.length memo then coq_cell (cell_at sn i)
             else match memo.(i) with
               | Some cl -> cl
               | None -> let cl = coq_cell (cell_at sn i) in memo.(i) <- Some cl; cl) in
           for t = 0 to ntrees - 1 do if dirty.(t) then begin
             let hd = sn.hdr.(t) in
             let h = { hroot = z hd.(0); hmin = z hd.(1); hmax = z hd.(2); hcount = z hd.(3) } in
             let sl = IMap.fold (fun k (nid, v) acc -> ((z nid, z k), z v) :: acc) spec.(t) [] in
             let sl = List.rev sl in
             let size = IMap.cardinal spec.(t) in
             add_count "scale_nodes_judged" size;
             if hd.(3) < 0 then propfail id (Printf.sprintf "%s count of tree %d is negative" here t);
             if not (snapshot_map_okb arena h sl) then begin
               let got = elems (arena_tree arena h) in
               let rec first i x y = match x, y with
                 | e :: x', f :: y' when e = f -> first (i + 1) x' y'
                 | _ -> i in
               let at = first 0 got sl in
               propfail id (Printf.sprintf "%s tree %d holds %d entries, the sorted map %d; first difference at position %d: tree %s..., sorted map %s... (node:key=value in link order)"
                              here t (List.length got) size at (show_some got at) (show_some sl at))
             end;
             if not (snapshot_rb_okb arena h) then
               propfail id (Printf.sprintf "%s tree %d (%d entries) is not a red-black search tree (black root, no red-red, equal black height, sorted)" here t size);
             if not (links_okb arena h) then
               propfail id (Printf.sprintf "%s tree %d (%d entries): parent links or root/minNode/maxNode/count (%d/%d/%d/%d) are not what the left/right links determine" here t size hd.(0) hd.(1) hd.(2) hd.(3));
             if not (height_okb (arena_tree arena h)) then
               propfail id (Printf.sprintf "%s tree %d (%d entries) is deeper than 2*log2(size+1)" here t size)
           end done;
           List.iter (fun x ->
             match ints_of_sx x with
             | [rr; t; n; k; v] ->
                 count "iterator_items";
                 (match Hashtbl.find_opt live n with
                  | Some (t', k') when t' = t ->
                      let v' = (match IMap.find_opt k' spec.(t) with Some (_, v') -> v' | None -> -1) in
                      if k' <> k || v' <> v then
                        propfail id (Printf.sprintf "%s the iterator in register %d (node %d) shows %d=%d, its element is %d=%d" here rr n k v k' v')
                  | _ -> propfail id (Printf.sprintf "%s the iterator in register %d points at node %d which is no element of tree %d" here rr n t))
             | _ -> failwith "rg") (args (field "rg" r));
           (* ---- fine correspondence: the model trees in the arena, the allocator ---- *)
           let total = ref 0 in
           for t = 0 to ntrees - 1 do if not dirty.(t) then total := !total + IMap.cardinal spec.(t) else begin
             let n = ref 0 in
             let rid = function E -> 0 | T (_, _, i, _, _, _) -> int_of_z i in
             let rec cmp p = function
               | E -> ()
               | T (c, l, i, k, v, rr) ->
                   let ci = int_of_z i in
                   let m = [| int_of_z k; int_of_z v; p; rid l; rid rr; (match c with Black -> 1 | Red -> 0) |] in
                   if m <> cell_at sn ci then
                     mismatch id (Printf.sprintf "%s cell %d of tree %d: model %s, implementation %s" here ci t (show_cell m) (show_cell (cell_at sn ci)));
                   incr n; cmp ci l; cmp ci rr in
             cmp 0 mt.(t);
             let mh = [| rid mt.(t); int_of_z (min_id mt.(t)); int_of_z (max_id mt.(t)); !n |] in
             if mh <> sn.hdr.(t) then
               mismatch id (Printf.sprintf "%s header of tree %d: model root=%d min=%d max=%d count=%d, implementation root=%d min=%d max=%d count=%d"
                 here t mh.(0) mh.(1) mh.(2) mh.(3) sn.hdr.(t).(0) sn.hdr.(t).(1) sn.hdr.(t).(2) sn.hdr.(t).(3));
             total := !total + !n
           end done;
           Array.fill dirty 0 ntrees false;
           let expect_sz = if !hi = 0 then 0 else !hi + 1 in
           if sn.sz <> expect_sz then mismatch id (Printf.sprintf "%s len(storage) is %d, the largest index handed out is %d" here sn.sz !hi);
           let nonzero = ref 0 in
           for ci = 0 to min (Array.length sn.cells) sn.sz - 1 do if sn.cells.(ci) <> zero_cell then incr nonzero done;
           if !nonzero <> !total || !total <> Hashtbl.length live then
             mismatch id (Printf.sprintf "%s %d cells of the arena are in use, the trees have %d nodes (model %d)" here !nonzero (Hashtbl.length live) !total);
           let prev = ref 0 in
           for j = 0 to ngaps - 1 do
             let g = wd b (7 * ncells + j) in
             (match Hashtbl.find_opt live g with
              | Some (t, k) -> propfail id (Printf.sprintf "%s the free list of the allocator contains node %d, which is the element with key %d of tree %d" here g k t)
              | None -> ());
             if g <= !prev || g >= sn.sz then mismatch id (Printf.sprintf "%s gap %d is out of range or listed twice" here g);
             prev := g
           done;
           if ngaps <> max 0 (sn.sz - 1) - Hashtbl.length live then
             mismatch id (Printf.sprintf "%s %d gaps, %d cells, %d live nodes" here ngaps sn.sz (Hashtbl.length live))
       | x, y -> mismatch id (Printf.sprintf "%s observation of kind %s" here x));
      count "ops"; count ("op_" ^ tag o);
      if timing then Printf.eprintf "%s %.2f\n%!" (tag o) (Sys.time () -. t0)
    done
  with Stop -> ());
  count "scale_cases"

(* Scale cases are judged in child processes (at most max_children at a time) while the parent goes on
   with the trace; a child writes its findings and counters to a file that the parent merges at the
   end, in case order. *)
let max_children = 4
let running = ref 0
let outputs : (int * string) list ref = ref []

let guarded f id c =
  try f id c with
  | Failure m -> mismatch id ("driver-failure " ^ m)
  | Stack_overflow -> mismatch id "driver-stack-overflow"
  | Not_found -> mismatch id "driver-not-found"

let in_child id c =
  flush stdout;
  while !running >= max_children do ignore (Unix.wait ()); decr running done;
  let file = Printf.sprintf "c05-scale-%d-%d.out" (Unix.getpid ()) id in
  match (try Unix.fork () with _ -> -1) with
  | -1 -> guarded scale_case id c
  | 0 ->
      (try
        let fd = Unix.openfile file [Unix.O_WRONLY; Unix.O_CREAT; Unix.O_TRUNC] 0o600 in
        Unix.dup2 fd Unix.stdout;
        Hashtbl.reset counters;
        (try guarded scale_case id c with e -> mismatch id ("driver-exception " ^ Printexc.to_string e));
        Hashtbl.iter (fun k v -> Printf.printf "COUNTER %s %d\n" k v) counters;
        flush stdout
      with _ -> ());
      Unix._exit 0
  | _ -> incr running; outputs := (id, file) :: !outputs

let merge_children () =
  while !running > 0 do ignore (Unix.wait ()); decr running done;
  List.iter (fun (id, file) ->
    let complete = ref false in
    (try
      let ch = open_in file in
      (try while true do
        let line = input_line ch in
        if String.length line > 8 && String.sub line 0 8 = "COUNTER " then begin
          complete := true;
          (match String.split_on_char ' ' line with
           | [_; k; v] -> add_count k (int_of_string v)
           | _ -> ())
        end else begin
          if String.length line > 8 && String.sub line 0 8 = "MISMATCH" then incr n_mismatch;
          if String.length line > 8 && String.sub line 0 8 = "PROPFAIL" then incr n_propfail;
          print_endline line
        end
      done with End_of_file -> close_in ch);
      Sys.remove file
    with Sys_error _ -> ());
    if not !complete then mismatch id "driver-failure the process judging this scale case died (out of memory or stack?)")
    (List.sort compare !outputs)

let () =
  (* the extracted oracle recurses once per list element (elems, keys, cells): 10^6-element trees
     need more than the default 8 MB stack *)
  if Sys.getenv_opt "C05_DRIVER_STACK" = None then begin
    Unix.putenv "C05_DRIVER_STACK" "1";
    (try Unix.execv "/bin/sh" [| "sh"; "-c"; "ulimit -s 4194304 2>/dev/null || ulimit -s $(ulimit -H -s) 2>/dev/null; exec \"$0\""; Sys.executable_name |]
     with _ -> ())
  end;
  (* iter_cases of conv.ml, with the merge of the children before the STATS line *)
  (try while true do
     let line = input_line stdin in
     if String.length line > 5 && String.sub line 0 5 = "(case" then begin
       let s = parse_sx line in
       let id = match s with L (_ :: i :: _) -> int_of_sx i | _ -> -1 in
       incr n_cases;
       match field_opt "scale" s with
       | Some _ -> in_child id s
       | None -> guarded small_case id s
     end
   done with End_of_file -> ());
  merge_children ();
  finish ()
