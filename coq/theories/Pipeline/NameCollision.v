(* Third round of C10: a region OUTSIDE the domain [domain_okb] in which resolve silently loses an item.

   resolve names the graph node of the j-th item called X "X_j" when several items are called X
   (fmt.Sprintf("%s_%d")) and keeps the items in the map name2item keyed by node name.  An item whose own name
   is literally "X_j" gets the same node: the later of the two overwrites the earlier in name2item (and their
   edges are merged in the graph), the order Toposort returns contains the node once, and Initialize succeeds
   with a pipeline that lacks one of the deployed items.

   [collision_only_b]: the node names of the items are not pairwise distinct, and this is the only way in which
   the item set leaves the domain (no item node equals an entity node, no key listed twice by one item).
   Definitions only; the witness is in NameCollisionProofs.v. *)
From Coq Require Import List ZArith Bool.
From Herc Require Import Toposort.Model Pipeline.Resolve.
Import ListNotations.
Open Scope Z_scope.

Definition item_nodes (dis : Z -> Z -> Z) (items : list item) : list Z := map fst (named_items dis items).

Definition collision_only_b (dis : Z -> Z -> Z) (items : list item) : bool :=
  let nodes := item_nodes dis items in
  negb (nodupb nodes)
  && forallb (fun n => negb (existsb (Z.eqb n) (entities items))) nodes
  && lists_okb items.
