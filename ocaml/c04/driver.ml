(* C04: (i) fine correspondence of collectGarbage / insertHibernateBoot with the extracted models GC.v /
   Hibernate.v, (ii) the outputs of the real functions judged by the extracted lifecycle checker
   (C04_gc / C04_hib say what they must satisfy inside the theorems' domains), (iii) every full plan of
   the real planner validated by [c04_ok] (C04_checker_sound). *)
open C04_model
open Conv

let action_of_sx (s : sx) : action =
  let k = match tag s with
    | "C" -> KCommit | "F" -> KFork | "M" -> KMerge | "E" -> KEmerge
    | "D" -> KDelete | "H" -> KHibernate | "B" -> KBoot
    | t -> failwith ("unknown action " ^ t) in
  match args s with
  | c :: its ->
      let c = int_of_sx c in
      { kind = k; commit = (if c >= 0 then Some (nat_of_int c) else None);
        items = List.map (fun x -> z_of_int (int_of_sx x)) its }
  | [] -> failwith "action without commit field"

let sx_of_action (a : action) : sx =
  let k = match a.kind with
    | KCommit -> "C" | KFork -> "F" | KMerge -> "M" | KEmerge -> "E"
    | KDelete -> "D" | KHibernate -> "H" | KBoot -> "B" in
  L (A k :: A (string_of_int (match a.commit with Some c -> int_of_nat c | None -> -1))
     :: List.map (fun z -> A (string_of_int (int_of_z z))) a.items)

let show (p : action list) = String.concat " " (List.map (fun a -> string_of_sx (sx_of_action a)) p)

(* deletes that follow one action are compared as a set: sort every maximal run of deletes *)
let canon (p : action list) : action list =
  let rec go acc run = function
    | a :: r when a.kind = KDelete -> go acc (a :: run) r
    | a :: r -> go (a :: (List.sort compare run |> List.rev) @ acc) [] r
    | [] -> List.rev ((List.sort compare run |> List.rev) @ acc) in
  go [] [] p

let graph_of_case (c : sx) : nat list list =
  let n = int_of_sx (List.hd (args (field "n" c))) in
  let ps = Array.make n [] in
  List.iter (fun e -> match list_of_sx e with
    | [ch; p] -> let ch = int_of_sx ch and p = int_of_sx p in
        if p >= 0 then ps.(ch) <- p :: ps.(ch)
    | _ -> failwith "edge") (args (field "edges" c));
  Array.to_list (Array.map (fun l -> List.map nat_of_int (List.rev l)) ps)

let add k n = Hashtbl.replace counters k (n + try Hashtbl.find counters k with Not_found -> 0)
let is_panic s = match args s with [p] when tag p = "panic" -> true | _ -> false
let is_skip s = match args s with [p] when tag p = "skip" -> true | _ -> false
let plan_of s = List.map action_of_sx (args s)

(* collectGarbage: model vs implementation, then the property inside its domain *)
let check_gc id what (input : action list) (go : sx) =
  count "gc_calls";
  match collect_garbage input, is_panic go with
  | None, true -> count "gc_panics"
  | None, false -> mismatch id (what ^ ": model of collectGarbage panics, the implementation returned " ^ string_of_sx go)
  | Some _, true -> mismatch id (what ^ ": collectGarbage panicked, the model does not")
  | Some m, false ->
      let out = plan_of go in
      (* a negative branch id makes the emission loop of collectGarbage depend on the order of equal
         indices after sort.Slice (an action is then emitted twice or not): outside the compared domain *)
      if List.exists (fun a -> List.exists (fun z -> int_of_z z < 0) a.items) input then count "gc_negative_ids_not_compared"
      else if canon m <> canon out then
        mismatch id (what ^ ": collectGarbage differs from the model: model=" ^ show m);
      if pre_okb input then begin
        count "gc_in_domain";
        if not (lifecycleb init out) then
          propfail id (what ^ ": output of collectGarbage has an unsound branch lifecycle: " ^ string_of_sx go)
        else if erase_deletes out <> input then
          propfail id (what ^ ": erasing the deletes from the output of collectGarbage does not give back the input")
      end

let check_hb id what (input : action list) (d : int) (go : sx) =
  count "hb_calls";
  if is_panic go then mismatch id (what ^ ": insertHibernateBoot panicked, the model never does")
  else begin
    let out = plan_of go in
    let m = insert_hb input (z_of_int d) in
    if m <> out then mismatch id (what ^ Printf.sprintf ": insertHibernateBoot(d=%d) differs from the model: model=%s" d (show m));
    if d >= 0 && hb_inputb input && lifecycleb init input then begin
      count "hb_in_domain";
      if List.exists (fun a -> a.kind = KHibernate) out then count "hb_with_hibernation";
      if not (hb_outb out) then
        propfail id (what ^ Printf.sprintf ": output of insertHibernateBoot(d=%d) uses a hibernated branch, hibernates / disposes a hibernated one, or leaves one hibernated: %s" d (string_of_sx go))
      else if erase_hb out <> input then
        propfail id (what ^ ": erasing hibernate/boot from the output of insertHibernateBoot does not give back the input")
    end
  end

(* ---------- large plans: the fast lifecycle validator (FastPlan.v, C04_fast_exact) ---------- *)

let faction_of_sx (s : sx) : faction =
  let k = match tag s with
    | "C" -> KCommit | "F" -> KFork | "M" -> KMerge | "E" -> KEmerge
    | "D" -> KDelete | "H" -> KHibernate | "B" -> KBoot
    | t -> failwith ("unknown action " ^ t) in
  match args s with
  | c :: its ->
      let c = int_of_sx c in
      { fkind = k; fcommit = (if c >= 0 then Some (n_of_int c) else None);
        fitems = List.rev (List.rev_map (fun x -> z_of_int (int_of_sx x)) its) }
  | [] -> failwith "action without commit field"

let fplan_of_list (l : sx list) : faction list = List.rev (List.rev_map faction_of_sx l)

let show_faction (a : faction) : string =
  let k = match a.fkind with
    | KCommit -> "C" | KFork -> "F" | KMerge -> "M" | KEmerge -> "E"
    | KDelete -> "D" | KHibernate -> "H" | KBoot -> "B" in
  let its = List.map (fun z -> string_of_int (int_of_z z)) a.fitems in
  let its = if List.length its > 14 then List.filteri (fun i _ -> i < 14) its @ ["..."] else its in
  Printf.sprintf "(%s %d %s)" k (match a.fcommit with Some c -> int_of_n c | None -> -1) (String.concat " " its)

(* diagnosis only (the verdict is fast_c04): the first action the per-action test rejects, with the state of the
   branches it mentions *)
let first_reject (p : faction list) : string =
  let rec go k m = function
    | [] -> if fnothing_hibernated m then "no single action is rejected" else "a branch is left hibernated at the end of the plan"
    | a :: r ->
        if fstep_okb m a && fmerge_same m a then go (k + 1) (fstep m a) r
        else begin
          let show b = match fget m b with
            | None -> "does not exist" | Some (FLive, Some c) -> Printf.sprintf "is live (last commit %d)" (int_of_n c)
            | Some (FLive, None) -> "is live and fresh" | Some (FHib, _) -> "is hibernated" | Some (FDisp, _) -> "has been disposed" in
          Printf.sprintf "action %d %s: %s%s" k (show_faction a)
            (String.concat "; " (List.filteri (fun i _ -> i < 14)
               (List.map (fun b -> Printf.sprintf "branch %d %s" (int_of_z b) (show b)) a.fitems)))
            (if fnodup a.fitems then "" else "; a branch is listed twice")
        end in
  go 0 finit p

let scale_case id c =
  let obs = args (field "obs" c) in
  count "scale_graphs";
  let judge what d (p : faction list) =
    count "full_plans_validated"; count "scale_plans_validated";
    add "scale_actions_validated" (List.length p);
    let maxb = List.fold_left (fun m a -> List.fold_left (fun m b -> max m (int_of_z b)) m a.fitems) 0 p in
    if maxb >= 65536 then count "scale_plans_with_branch_index_ge_65536";
    if List.exists (fun a -> a.fkind = KHibernate) p then count "scale_plans_with_hibernation";
    if not (fast_c04 p) then
      propfail id (Printf.sprintf "%s (distance %d) of a large history is rejected by the lifecycle validator fast_c04: %s" what d (first_reject p)) in
  let not_hb a = a.fkind <> KHibernate && a.fkind <> KBoot in
  let gcp = ref None in
  List.iter (fun o ->
    match tag o with
    | ("gen" | "gc" | "hb" | "full") when is_panic o ->
        propfail id (Printf.sprintf "%s panicked on a large history: %s" (tag o) (string_of_sx o))
    | "gc" -> let p = fplan_of_list (args o) in gcp := Some p; judge "generatePlan;collectGarbage" 0 p
    | "hb" ->
        let d = int_of_sx (List.hd (args o)) in
        let p = fplan_of_list (List.tl (args o)) in
        judge "generatePlan;collectGarbage;insertHibernateBoot" d p;
        (match !gcp with
         | Some g when List.filter not_hb p <> g ->
             propfail id (Printf.sprintf "erasing hibernate/boot from the output of insertHibernateBoot(d=%d) on a large plan does not give back the input" d)
         | _ -> ())
    | "full" ->
        let d = int_of_sx (List.hd (args o)) in
        count "prepare_run_plan_calls";
        judge "the plan of prepareRunPlan" d (fplan_of_list (List.tl (args o)))
    | _ -> ()) obs

let () =
  iter_cases (fun id c ->
    if field_opt "shape" c <> None then scale_case id c else
    let obs = args (field "obs" c) in
    match field_opt "ops" c with
    | Some ops ->
        let input = plan_of ops in
        let d = int_of_sx (List.hd (args (field "d" c))) in
        let get t = List.find (fun x -> tag x = t) obs in
        check_gc id "direct call" input (get "gc");
        check_hb id "direct call" input d (get "hb");
        let gchb = get "gchb" in
        if not (is_skip gchb) && not (is_panic (get "gc")) then
          check_hb id "direct call on the collected plan" (plan_of (get "gc")) d gchb
    | None ->
        let g = graph_of_case c in
        let mult = match List.filter (fun x -> tag x = "mult") obs with
          | m :: _ -> int_of_sx (List.hd (args m)) | [] -> 1 in
        add "graph_orders" mult;
        count "graphs";
        let gen = List.find (fun x -> tag x = "gen") obs in
        if is_panic gen then propfail id ("generatePlan panicked: " ^ string_of_sx gen)
        else begin
          let genp = plan_of gen in
          if not (pre_okb genp) then
            propfail id ("the plan of generatePlan uses a branch that is not live (or creates one twice): " ^ string_of_sx gen);
          (match List.filter (fun x -> tag x = "gc") obs with
           | gc :: _ ->
               check_gc id "graph" genp gc;
               if not (is_panic gc) then begin
                 let gcp = plan_of gc in
                 let validate what d p s =
                   count "full_plans_validated";
                   if not (c04_ok g p) then
                     propfail id (Printf.sprintf "%s (distance %d) is rejected by the lifecycle checker c04_ok: %s" what d s) in
                 List.iter (fun o ->
                   match tag o with
                   | "hb" when is_panic o -> mismatch id "insertHibernateBoot panicked"
                   | "hb" ->
                       let d = int_of_sx (List.hd (args o)) in
                       let o' = L (A "hb" :: List.tl (args o)) in
                       check_hb id "graph" gcp d o';
                       validate "generatePlan;collectGarbage;insertHibernateBoot" d (plan_of o') (string_of_sx o)
                   | "hbsame" ->
                       List.iter (fun d ->
                         count "hb_calls"; count "hb_noop";
                         if insert_hb gcp (z_of_int d) <> gcp then
                           mismatch id (Printf.sprintf "graph: insertHibernateBoot(d=%d) changed nothing but the model inserts hibernation" d))
                         (List.map int_of_sx (args o));
                       if args o <> [] then validate "generatePlan;collectGarbage" 0 gcp (string_of_sx gc)
                   | _ -> ()) obs
               end
           | [] -> ());
          let prev = ref None in
          List.iter (fun o ->
            match tag o with
            | "full" when is_panic o -> propfail id ("prepareRunPlan panicked: " ^ string_of_sx o)
            | "full" ->
                let d = int_of_sx (List.hd (args o)) in
                let p = List.map action_of_sx (List.tl (args o)) in
                count "full_plans_validated"; count "prepare_run_plan_calls";
                prev := Some p;
                if not (c04_ok g p) then
                  propfail id (Printf.sprintf "the plan of prepareRunPlan (distance %d) is rejected by the lifecycle checker c04_ok: %s" d (string_of_sx o))
            | "fullsame" -> count "prepare_run_plan_calls"; count "prepare_run_plan_same_as_previous"
            | _ -> ()) obs
        end)
