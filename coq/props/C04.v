(* C04 - branch lifecycle incl. hibernation. *)
From Coq Require Import List ZArith Permutation.
From Coq Require Import Sorted.
From Herc Require Import Plan.Syntax Plan.Exec Plan.Graph Plan.Checker Plan.Spec Plan.GC Plan.Hibernate Plan.Lifecycle
  Plan.LifecycleProofs Plan.GCProofs Plan.HibernateProofs Plan.LifecyclePlain Plan.RunLifecycle Plan.RunLifecycleSound Plan.RunLifecycleComplete.
Import ListNotations.
Local Open Scope nat_scope.

(* The checker of full plans (what ./check C04 runs on every plan of the real planner, for every hibernation distance)
   implies: every action is executed in a state that allows it ([lifecycle_ok], see Lifecycle.v [step_ok]: creation only of
   absent branches, commit / fork source / merge participants / delete / hibernate only on live awake branches, merge
   participants distinct, boot only of hibernated branches), nothing is left hibernated, every merge joins live branches
   that analysed the same merge commit last, and with a single head the branch Run takes the results from (the smallest
   surviving index) has incorporated every analysed commit. *)
Theorem C04_checker_sound : forall (g : list (list nat)) (p : list action), c04_ok g p = true ->
  lifecycle_ok p /\
  nothing_hibernated (run init p) /\
  (forall p1 m p2, p = p1 ++ m :: p2 -> kind m = KMerge -> merge_ok g (run init p1) m) /\
  (single_head g (analysed p) ->
   exists b, master_of (run init p) b /\ forall c, replayed c p -> In c (inc_of (get (run init p) b))).
Proof. exact c04_checker_sound. Qed.
Print Assumptions C04_checker_sound.

Example C04_checker_accepts_hibernated_diamond :
  c04_ok [[]; [0]; [0]; [1; 2]]
    [emerge 1 (Some 0); commit_on 0 1; mkA KFork (Some 0) [1%Z; 2%Z]; mkA KHibernate (Some 0) [2%Z]; commit_on 1 1;
     mkA KBoot (Some 2) [2%Z]; commit_on 2 2;
     commit_on 3 1; commit_on 3 2; merge_of [1%Z; 2%Z]; delete 2] = true.
Proof. vm_compute. reflexivity. Qed.

(* using a hibernated branch, and a delete before the last use, are rejected *)
Example C04_checker_rejects_use_while_hibernated :
  c04_ok [[]; [0]; [0]; [1; 2]]
    [emerge 1 (Some 0); commit_on 0 1; mkA KFork (Some 0) [1%Z; 2%Z]; mkA KHibernate (Some 0) [2%Z]; commit_on 1 1;
     commit_on 2 2; commit_on 3 1; commit_on 3 2; merge_of [1%Z; 2%Z]; delete 2] = false.
Proof. vm_compute. reflexivity. Qed.
Example C04_checker_rejects_early_delete :
  c04_ok [[]; [0]; [0]; [1; 2]]
    [emerge 1 (Some 0); commit_on 0 1; mkA KFork (Some 0) [1%Z; 2%Z]; commit_on 1 1; commit_on 2 2;
     commit_on 3 1; delete 2; commit_on 3 2; merge_of [1%Z; 2%Z]] = false.
Proof. vm_compute. reflexivity. Qed.

(* ---------- collectGarbage (model GC.v, tied to the Go function by replay) ----------
   [pre_ok p]: the input only uses live branches ([lifecycle_ok p]), holds no delete / hibernate / boot yet and its branch
   ids are >= rootBranchIndex (what generatePlan emits; checked per plan by pre_okb).  For EVERY such plan the model does not
   panic, its output has a sound lifecycle (in particular: a branch is disposed only after its last use and never used
   afterwards) and erasing the deletes gives back the input. *)
Theorem C04_gc : forall p : list action, pre_ok p ->
  exists p', collect_garbage p = Some p' /\ lifecycle_ok p' /\ erase_deletes p' = p.
Proof. exact gc_sound. Qed.
Print Assumptions C04_gc.

(* the same for every outcome of Go's map iteration + unstable sort.Slice: any arrangement of the (index, branch) pairs
   that is sorted by index *)
Theorem C04_gc_any_order : forall p : list action, pre_ok p ->
  exists m, last_mentioned p 0 [] = Some m /\
    forall arr, Permutation (gc_arr m (length p)) arr -> StronglySorted (fun x y => fst x <= fst y) arr ->
      lifecycle_ok (gc_emit p arr) /\ erase_deletes (gc_emit p arr) = p.
Proof. exact gc_correct. Qed.
Print Assumptions C04_gc_any_order.

Definition diamond_gen : list action :=
  [emerge 1 (Some 0); commit_on 0 1; mkA KFork (Some 0) [1%Z; 2%Z]; commit_on 1 1; commit_on 2 2;
   commit_on 3 1; commit_on 3 2; merge_of [1%Z; 2%Z]; commit_on 4 1].
Example C04_gc_hypothesis_satisfiable : pre_ok diamond_gen.
Proof. apply pre_okb_spec. vm_compute. reflexivity. Qed.
Example C04_gc_on_diamond :
  collect_garbage diamond_gen =
  Some [emerge 1 (Some 0); commit_on 0 1; mkA KFork (Some 0) [1%Z; 2%Z]; commit_on 1 1; commit_on 2 2;
        commit_on 3 1; commit_on 3 2; merge_of [1%Z; 2%Z]; delete 2; commit_on 4 1].
Proof. vm_compute. reflexivity. Qed.

(* ---------- insertHibernateBoot (model Hibernate.v, tied to the Go function by replay) ----------
   For EVERY plan with a sound lifecycle that holds no hibernate / boot yet ([hb_kind]) and EVERY distance d (any integer):
   the output has a sound lifecycle in the sense of [lifecycle_ok] - every use (commit, fork source, merge participant,
   delete, hibernate) finds the branch live and AWAKE, i.e. a hibernated branch is booted before its next use, is never
   hibernated twice and never disposed while hibernated; only hibernated branches are booted - nothing is left hibernated
   at the end, and erasing hibernate/boot gives back the input. *)
Theorem C04_hib : forall (p : list action) (d : Z), lifecycle_ok p -> Forall hb_kind p ->
  lifecycle_ok (insert_hb p d) /\
  nothing_hibernated (run init (insert_hb p d)) /\
  erase_hb (insert_hb p d) = p.
Proof. exact hib_sound. Qed.
Print Assumptions C04_hib.

(* the two stages composed, as prepareRunPlan does after generatePlan *)
Theorem C04_gc_then_hib : forall (p : list action) (d : Z), pre_ok p ->
  exists p', collect_garbage p = Some p' /\
    lifecycle_ok (insert_hb p' d) /\ nothing_hibernated (run init (insert_hb p' d)) /\
    erase_deletes (erase_hb (insert_hb p' d)) = p.
Proof. exact gc_then_hib. Qed.
Print Assumptions C04_gc_then_hib.

Definition diamond_gc : list action :=
  [emerge 1 (Some 0); commit_on 0 1; mkA KFork (Some 0) [1%Z; 2%Z]; commit_on 1 1; commit_on 2 2;
   commit_on 3 1; commit_on 3 2; merge_of [1%Z; 2%Z]; delete 2; commit_on 4 1].
Example C04_hib_hypotheses_satisfiable : lifecycle_ok diamond_gc /\ Forall hb_kind diamond_gc.
Proof. split; [apply lifecycleb_sound | apply hb_inputb_spec]; vm_compute; reflexivity. Qed.
Example C04_hib_on_diamond :
  insert_hb diamond_gc 0%Z =
  [emerge 1 (Some 0); commit_on 0 1; mkA KFork (Some 0) [1%Z; 2%Z]; mkA KHibernate (Some 0) [2%Z];
   commit_on 1 1; mkA KHibernate (Some 1) [1%Z];
   mkA KBoot (Some 2) [2%Z]; commit_on 2 2; mkA KHibernate (Some 2) [2%Z];
   mkA KBoot (Some 3) [1%Z]; commit_on 3 1; mkA KHibernate (Some 3) [1%Z];
   mkA KBoot (Some 3) [2%Z]; commit_on 3 2;
   mkA KBoot None [1%Z]; merge_of [1%Z; 2%Z]; mkA KHibernate None [1%Z]; delete 2;
   mkA KBoot (Some 4) [1%Z]; commit_on 4 1] /\
  hb_outb (insert_hb diamond_gc 0%Z) = true /\ insert_hb diamond_gc 1%Z = diamond_gc.
Proof. vm_compute. repeat split; reflexivity. Qed.

(* ---------- [lifecycle_ok] in plain terms (no executor) ----------
   [creates a] = the branch of an emerge / the targets of a fork; [items a] = every branch the action mentions. *)
Theorem C04_lifecycle_plain : forall p : list action, lifecycle_ok p ->
  (* created at most once *)
  (forall p1 a p2 b, p = p1 ++ a :: p2 -> In b (creates a) -> Forall (fun a' => ~ In b (creates a')) p2) /\
  (* never mentioned (used, re-created, hibernated, booted, disposed again) after its disposal *)
  (forall p1 a p2 b, p = p1 ++ a :: p2 -> kind a = KDelete -> items a = [b] -> Forall (fun a' => ~ In b (items a')) p2) /\
  (* a branch that is never created is never mentioned; applied to a prefix: every mention comes after the creation *)
  (forall b, Forall (fun a => ~ In b (creates a)) p -> Forall (fun a => ~ In b (items a)) p).
Proof. exact lifecycle_plain. Qed.
Print Assumptions C04_lifecycle_plain.

(* ---------- the lifecycle at EXECUTION time (stream c04run: the real Pipeline.Run with recording items) ----------
   [log] is the list of calls the clones of one deployed item received during one run (RunLifecycle.v [event]):
   ERoot i (the deployed item), EFork s ts (s.Fork returned the clones ts), EConsume i c, EMerge i os (i.Merge(os)),
   EHibernate i, EBoot i, EDispose i, EFinalize i.  The predicates are plain statements about a list of calls:
     created_in l i     = some call of l created i (ERoot i, or i among the clones of an EFork);
     hibernated_in l i  = l = l1 ++ EHibernate i :: l2 with no EBoot i in l2;
     finalized_in l i   = EFinalize i is in l;
     last_consumed l i c = l = l1 ++ EConsume i c :: l2 with no EConsume i _ in l2;
     incorporated l i c = c was consumed by i, or inherited through the fork that created i, or received in a merge.
   Whenever the oracle that ./check C04 runs on every call log accepts, then for EVERY call e of the log, with l1 the
   calls before it:
   - every instance the call uses (the receiver of Consume / Fork / Hibernate / Dispose / Finalize, the receiver and
     the arguments of Merge) exists, is not hibernated and is not finalized: nothing is consumed, forked, merged,
     finalized or hibernated AGAIN while hibernated, hence (C04_run_booted_before_use) between a Hibernate and the
     next use of the instance there is a Boot;
   - the instances a call creates are new and pairwise distinct (created at most once);
   - Boot is only called on a hibernated instance; a merge joins pairwise distinct instances that all consumed the
     same commit last; when Finalize is called no instance is hibernated and Finalize has not been called before;
   and at the end of the run no instance is hibernated, exactly the lifecycle absent -> live <-> hibernated -> finalized;
   some instance was finalized and, if the history has a single head ([single = true], n commits), that instance
   has incorporated every commit 0..n-1.  (Deleting a branch is not a call: a disposed instance is one that receives
   no later call.) *)
Theorem C04_run_lifecycle_sound : forall (single : bool) (n : nat) (log : list event),
  run_okb single n log = true ->
  (forall l1 e l2, log = l1 ++ e :: l2 ->
     (forall i, In i (ev_uses e) -> created_in l1 i /\ ~ hibernated_in l1 i /\ ~ finalized_in l1 i) /\
     NoDup (ev_creates e) /\
     (forall i, In i (ev_creates e) -> ~ created_in l1 i) /\
     match e with
     | EBoot i => created_in l1 i /\ hibernated_in l1 i /\ ~ finalized_in l1 i
     | EMerge i os => NoDup (i :: os) /\ exists c, forall j, In j (i :: os) -> last_consumed l1 j c
     | EFinalize _ => (forall j, ~ hibernated_in l1 j) /\ (forall j, ~ finalized_in l1 j)
     | _ => True
     end) /\
  (forall j, ~ hibernated_in log j) /\
  exists i, finalized_in log i /\ (single = true -> forall c, c < n -> incorporated log i c).
Proof. exact run_lifecycle_sound. Qed.
Print Assumptions C04_run_lifecycle_sound.

Theorem C04_run_booted_before_use : forall (single : bool) (n : nat) (log : list event),
  run_okb single n log = true ->
  forall l1 i l2 e l3, log = l1 ++ EHibernate i :: l2 ++ e :: l3 -> In i (ev_uses e) -> In (EBoot i) l2.
Proof. intros single n log H. exact (run_spec_booted_before_use single n log (run_lifecycle_sound single n log H)). Qed.
Print Assumptions C04_run_booted_before_use.

(* the oracle is exact: [run_spec single n log] (RunLifecycle.v) is, by definition, the conclusion of
   C04_run_lifecycle_sound; every log that satisfies it is accepted, so a rejected log really violates the statement *)
Theorem C04_run_lifecycle_complete : forall (single : bool) (n : nat) (log : list event),
  run_spec single n log -> run_okb single n log = true.
Proof. exact run_lifecycle_complete. Qed.
Print Assumptions C04_run_lifecycle_complete.

(* non-vacuity: the log of a run with a four-parent octopus merge under hibernation (instance 0 = the deployed item,
   1 = the root clone, 2..4 = the forked branches; a boot action that covers the branches 0, 2, 3 precedes the merge)
   is accepted; the same log with only the first branch of that boot action really booted (the seeded change C04-s2),
   a double Hibernate, a Consume on a hibernated instance and a run that ends with a hibernated instance are rejected *)
Definition octopus_log (boots : list event) : list event :=
  [ERoot 0; EFork 0 [1]; EConsume 0 0; EFork 0 [2; 3; 4]; EHibernate 3; EHibernate 2; EHibernate 0;
   EConsume 4 1; EHibernate 4; EBoot 3; EConsume 3 2; EHibernate 3; EBoot 2; EConsume 2 3; EHibernate 2;
   EBoot 0; EConsume 0 4; EHibernate 0;
   EBoot 2; EConsume 2 5; EHibernate 2; EBoot 3; EConsume 3 5; EHibernate 3; EBoot 4; EConsume 4 5; EBoot 0; EConsume 0 5]
  ++ boots ++
  [EMerge 0 [2; 3; 4]; EConsume 0 6; EDispose 0; EFinalize 0].
Example C04_run_oracle_accepts_octopus :
  run_okb true 7 (octopus_log [EBoot 2; EBoot 3]) = true.
Proof. vm_compute. reflexivity. Qed.
Example C04_run_oracle_rejects_partial_boot :
  run_okb true 7 (octopus_log [EBoot 2]) = false.
Proof. vm_compute. reflexivity. Qed.
Example C04_run_oracle_rejects_double_hibernate :
  run_okb true 1 [ERoot 0; EFork 0 [1]; EConsume 0 0; EHibernate 0; EHibernate 0; EBoot 0; EFinalize 0] = false.
Proof. vm_compute. reflexivity. Qed.
Example C04_run_oracle_rejects_consume_while_hibernated :
  run_okb true 2 [ERoot 0; EFork 0 [1]; EConsume 0 0; EHibernate 0; EConsume 0 1; EBoot 0; EFinalize 0] = false.
Proof. vm_compute. reflexivity. Qed.
Example C04_run_oracle_rejects_hibernated_at_the_end :
  run_okb false 2 [ERoot 0; EFork 0 [1]; EConsume 0 0; EFork 0 [2]; EHibernate 2; EConsume 0 1; EFinalize 0] = false.
Proof. vm_compute. reflexivity. Qed.
Example C04_run_oracle_rejects_result_missing_a_commit :
  run_okb true 3 [ERoot 0; EFork 0 [1]; EConsume 0 0; EFork 0 [2]; EConsume 2 1; EConsume 0 2; EFinalize 0] = false /\
  run_okb false 3 [ERoot 0; EFork 0 [1]; EConsume 0 0; EFork 0 [2]; EConsume 2 1; EConsume 0 2; EFinalize 0] = true.
Proof. vm_compute. split; reflexivity. Qed.

(* ---------- large plans (generator family [scale]) ----------
   The list-based checkers above are quadratic in the length of the plan.  Plans of 10^4 .. 10^6 actions (histories with
   more than 2^16 branch indexes) are judged by [fast_c04] (coq/theories/Plan/FastPlan.v: the branch table is a binary trie,
   commits are binary numbers; an action is a [faction], [to_action] = the action of Syntax.v it stands for).  It is EXACT
   for the lifecycle part of C04 over the same abstract executor: it accepts a plan iff every action is executed in a
   state that allows it ([lifecycle_ok]: created once, as a root or as the target of a fork of a live branch; never used,
   hibernated, disposed or re-created after its disposal; a hibernated branch is booted before its next use, never
   hibernated twice, never disposed while hibernated; merges join pairwise distinct live branches), nothing is left
   hibernated at the end, and the participants of every merge analysed the same commit last.  So a rejection is a
   property failure and an acceptance establishes these clauses.  Not covered at this size: that the commit of a merge
   has two non-redundant parents and the master-branch clause (they need ancestor sets: [c04_ok] on small graphs). *)
From Coq Require Import NArith.
From Herc Require Import Plan.FastPlan Plan.FastPlanSound.

Theorem C04_fast_exact : forall p : list faction,
  fast_c04 p = true <->
  (lifecycle_ok (map to_action p) /\
   nothing_hibernated (run init (map to_action p)) /\
   forall p1 m p2, map to_action p = p1 ++ m :: p2 -> kind m = KMerge ->
     exists c, forall b, In b (items m) -> last_on (run init p1) b = Some c).
Proof. exact fast_c04_exact. Qed.
Print Assumptions C04_fast_exact.

Definition fC (c : N) (b : Z) : faction := mkFA KCommit (Some c) [b].
Definition fdiamond_hib : list faction :=
  [mkFA KEmerge (Some 0%N) [1%Z]; fC 0 1; mkFA KFork (Some 0%N) [1%Z; 2%Z]; mkFA KHibernate (Some 0%N) [2%Z]; fC 1 1;
   mkFA KBoot (Some 2%N) [2%Z]; fC 2 2; fC 3 1; fC 3 2; mkFA KMerge None [1%Z; 2%Z]; mkFA KDelete None [2%Z]].
Example C04_fast_accepts_hibernated_diamond : fast_c04 fdiamond_hib = true.
Proof. vm_compute. reflexivity. Qed.
(* it agrees with the list-based checker on that plan *)
Example C04_fast_agrees_on_hibernated_diamond : hb_outb (map to_action fdiamond_hib) = true.
Proof. vm_compute. reflexivity. Qed.
Example C04_fast_rejects_use_after_disposal :
  fast_c04 [mkFA KEmerge None [1%Z]; fC 0 1; mkFA KFork None [1%Z; 2%Z]; mkFA KDelete None [2%Z]; fC 1 2] = false.
Proof. vm_compute. reflexivity. Qed.
Example C04_fast_rejects_second_creation :
  fast_c04 [mkFA KEmerge None [1%Z]; fC 0 1; mkFA KFork None [1%Z; 2%Z]; fC 1 2; mkFA KFork None [1%Z; 2%Z]] = false.
Proof. vm_compute. reflexivity. Qed.
Example C04_fast_rejects_delete_of_disposed :
  fast_c04 [mkFA KEmerge None [1%Z]; fC 0 1; mkFA KFork None [1%Z; 2%Z]; mkFA KDelete None [2%Z]; mkFA KDelete None [2%Z]] = false.
Proof. vm_compute. reflexivity. Qed.
Example C04_fast_rejects_left_hibernated :
  fast_c04 [mkFA KEmerge None [1%Z]; fC 0 1; mkFA KFork None [1%Z; 2%Z]; mkFA KHibernate None [2%Z]; fC 1 1] = false.
Proof. vm_compute. reflexivity. Qed.
