(* The invariant of plan execution for a view (one file's history, one developer's history): on top of the
   invariant W of DagProofs.v, the handle invariant (every tracked file of every live branch carries the handle of
   its path) and "the view is the sum of the kept contributions of the commits analysed so far", plus "the view is
   a sub-history of the global history" (shape).  Any plan accepted by plan_okb, merges included. *)
From Coq Require Import List ZArith Lia Bool Permutation.
From Herc Require Import Burndown.Base Burndown.Dense Burndown.DenseProofs Burndown.Lifetimes Burndown.LifetimesFacts
  Burndown.AncFacts Burndown.Analysis Burndown.SparseFacts Burndown.AnalysisFacts Burndown.Replay
  Burndown.HunkProofs Burndown.LinearProofs Burndown.StepProofs Burndown.CommitProofs Burndown.MergeProofs
  Burndown.PlanProofs Burndown.DagProofs Burndown.FrameFacts Burndown.ViewFacts Burndown.ViewStep Burndown.ViewMerge
  Burndown.ViewPos.
Import ListNotations.
Open Scope Z_scope.

Lemma aget_set_all_in : forall bs (xs : list lbranch) m0 k x,
  aget (set_all bs xs m0) k = Some x -> In x xs \/ aget m0 k = Some x.
Proof.
  induction bs as [|b bs IH]; intros xs m0 k x E; destruct xs as [|y xs]; cbn [set_all] in E; auto.
  apply IH in E. destruct E as [E|E]; [left; right; exact E|].
  rewrite aget_aset in E. destruct (b =? k); [injection E as <-; left; left; reflexivity|right; exact E].
Qed.

Lemma in_fst_combine {X Y} : forall (xs : list X) (ys : list Y) p, In p (combine xs ys) -> In (fst p) xs.
Proof. intros xs ys [x y] Hin. apply in_combine_l in Hin. exact Hin. Qed.

Lemma F2_head {X Y} (R : X -> Y -> Prop) x xs ys : Forall2 R (x :: xs) ys -> exists y ys', ys = y :: ys' /\ R x y.
Proof. intros HF. inversion HF; subst. eauto. Qed.

(* every change of a replay concerns a path that has at least one line *)
Lemma changes_of_allowed h A last c : forall ch, In ch (changes_of h A last c) -> In (ch_path ch) (paths_with_lines h).
Proof.
  intros ch Hin. unfold changes_of in Hin. apply in_flat_map in Hin. destruct Hin as ([p seq] & Hp & Hch). cbn [fst snd] in Hch.
  assert (Hne : seq <> []).
  { intros ->. unfold change_of_path, old_exists, path_exists in Hch. destruct last; cbn in Hch; destruct Hch. }
  assert (Hpath : ch_path ch = p).
  { unfold change_of_path in Hch. destruct (old_exists A last seq), (path_exists A c seq); try destruct Hch as [<-|[]]; try reflexivity.
    - destruct (forallb _ seq); [destruct Hch|]. destruct Hch as [<-|[]]. reflexivity.
    - destruct Hch. }
  rewrite Hpath. unfold paths_with_lines. apply in_map_iff. exists (p, seq). split; [reflexivity|].
  apply filter_In. split; [exact Hp|]. cbn [snd]. destruct seq; [congruence|reflexivity].
Qed.

Section VDag.
  Variable h : hist.
  Variable cf : cfg.
  Variable aidx : list Z.
  Hypothesis Hcf : conflict_free h = true.
  Hypothesis Hmark : forall c, 0 <= c < ncommits h -> tick_of h c < mark.
  Hypothesis Haidx : forall c, 0 <= znth 0 aidx c.
  Notation A := (ancs h).
  Notation n := (length (h_parents h)).
  Notation pair_ok := (PlanProofs.pair_ok h cf aidx).
  Notation vecof := (PlanProofs.vecof h).
  Notation valf := (val h cf aidx).
  Variable vw : view cf.
  Notation V := (v_proj vw).
  Variable keep : Z * line -> bool.
  Hypothesis link2 : forall p seq l, In (p, seq) (h_paths h) -> In l seq -> v_kp vw p (valf l) = keep (p, l).

  (* names stay injective and only name paths with lines, the view stays a sub-history of the global history;
     a non-empty view stays non-empty *)
  Definition Allowed (p : Z) : Prop := In p (paths_with_lines h).
  Definition SI (s : shared) : Prop :=
    NI s /\ subh (V s) (s_gh s) /\ (c_files cf = false -> s_names s = []) /\
    (forall p k, aget (s_names s) p = Some k -> Allowed p).
  Definition SR (s s' : shared) : Prop := SI s -> SI s' /\ (V s <> [] -> V s' <> []).
  Lemma SR_refl s : SR s s. Proof. unfold SR; auto. Qed.
  Lemma SR_trans a b c : SR a b -> SR b c -> SR a c.
  Proof. unfold SR. intros H1 H2 Ha. destruct (H1 Ha) as [Hb Hab]. destruct (H2 Hb) as [Hc Hbc]. auto. Qed.
  Lemma SR_ut hd s cur prev d s' : update_time cf hd s cur prev d = Ok s' -> SR s s'.
  Proof.
    intros E (H1 & H2 & H3 & H4). destruct (PR_ut cf vw _ _ _ _ _ _ E H1) as [H1' Hne]. split; [|exact Hne].
    split; [exact H1'|]. split; [|split].
    - apply (update_time_sub cf V (v_flt vw) (v_law vw) _ _ _ _ _ _ E H2).
    - rewrite (proj1 (update_time_names _ _ _ _ _ _ _ E)). exact H3.
    - rewrite (proj1 (update_time_names _ _ _ _ _ _ _ E)). exact H4.
  Qed.
  Lemma SR_dels s x : SR s (with_dels s x).
  Proof.
    intros (H1 & H2 & H3 & H4). destruct (PR_dels cf vw s x H1) as [H1' Hne]. split; [|exact Hne].
    split; [exact H1'|]. rewrite (v_dels vw). split; [exact H2|split; [exact H3|exact H4]].
  Qed.
  Lemma SR_create s p : Allowed p -> c_files cf = true -> aget (s_names s) p = None -> SR s (create s p).
  Proof.
    intros Hal Ec En (H1 & H2 & H3 & H4). destruct (PR_create cf vw s p I Ec En H1) as [H1' Hne]. split; [|exact Hne].
    split; [exact H1'|]. rewrite (v_create vw s p H1 Ec En). split; [exact H2|]. split; [congruence|].
    intros q k. unfold create. cbn [s_names with_fhs with_names]. rewrite aget_aset.
    destruct (Z.eqb_spec p q) as [<-|]; [intros _; exact Hal|apply H4].
  Qed.

  (* the analysed commits: their kept lines made the view non-empty, the paths of their lines are named *)
  Definition DONE (done : list Z) (s : shared) : Prop :=
    forall c, In c done -> forall p seq l, In (p, seq) (h_paths h) -> In l seq -> l_born l = c ->
      (c_files cf = true -> aget (s_names s) p <> None) /\ (keep (p, l) = true -> V s <> []).

  Lemma DONE_ext done s s' : nm_ext s s' -> (V s <> [] -> V s' <> []) -> DONE done s -> DONE done s'.
  Proof.
    intros [He _] Hne HD c Hc p seq l Hp Hl Hb. destruct (HD c Hc p seq l Hp Hl Hb) as [D1 D2]. split.
    - intros Ec. specialize (D1 Ec). destruct (aget (s_names s) p) as [k|] eqn:En; [|congruence]. rewrite (He p k En). discriminate.
    - intros Hk. apply Hne. apply D2. exact Hk.
  Qed.

  Lemma born_exists (c p : Z) (seq : list line) l : In l seq -> l_born l = c -> ancb A c c = true -> path_exists A c seq = true.
  Proof. intros Hl Hb Hcc. unfold path_exists. apply existsb_exists. exists l. split; [exact Hl|]. rewrite Hb. exact Hcc. Qed.

  Definition WV (ps : pstate) (w : world) : Prop :=
    DagProofs.W h cf aidx ps w /\ SI (w_shared w) /\
    (forall b lb, aget (w_branches w) b = Some lb -> hgood cf (w_shared w) (b_files (lb_state lb))) /\
    (forall P, wsum P (V (w_shared w)) = sum_z (map (contribK h keep P) (ps_done ps))) /\
    DONE (ps_done ps) (w_shared w).

  Lemma step_WV before after a ps w ps' w' :
    WV ps w -> pstep h A n before after a ps = Some ps' ->
    step cf (fun c => znth 0 aidx c) (tick_of h) (changes_of h A) before after a w = Ok w' ->
    WV ps' w'.
  Proof.
    intros (HW & HSI & HHG & HV & HD) Ep Es.
    pose proof (DagProofs.step_W h cf aidx Hcf Hmark Haidx before after a ps w ps' w' HW Ep Es) as HW'.
    split; [exact HW'|]. clear HW'.
    destruct HW as (W1 & W2 & W3 & W4 & W5 & W6 & W7 & W8 & W9).
    destruct a as [b|c b|b bs|bs|b|bs|bs]; cbn [pstep step] in Ep, Es.
    - (* emerge *)
      destruct (ps_pend ps) as [[m0 bs0]|] eqn:Epend; [discriminate|].
      destruct (memz b (ps_seen ps)) eqn:Eseen; [discriminate|].
      injection Ep as <-. injection Es as <-. cbn [ps_done w_branches w_shared].
      split; [exact HSI|]. split; [|split; [exact HV|exact HD]].
      intros b' lb'. rewrite aget_aset. destruct (b =? b'); [|apply HHG].
      intros E; injection E as <-. apply hgood_nil.
    - (* commit *)
      pose proof (W3 b) as Hb. destruct (aget (ps_live ps) b) as [pb|] eqn:Epb; [|discriminate].
      destruct (aget (w_branches w) b) as [lb|] eqn:Elb; [|destruct Hb].
      destruct (negb (in_range (Z.of_nat n) c) || vec_get (pb_set pb) c || memz c (ps_done ps)) eqn:Eg; [discriminate|].
      apply orb_false_iff in Eg. destruct Eg as [Eg Eg3]. apply orb_false_iff in Eg. destruct Eg as [Eg1 Eg2].
      apply negb_false_iff in Eg1. unfold in_range in Eg1.
      assert (Hc : 0 <= c < ncommits h) by (unfold ncommits; lia).
      pose proof (HHG b lb Elb) as Hhgb.
      destruct (is_merge_at before after c) eqn:Eim.
      + (* merge mode *)
        set (okp := match pb_last pb with Some l => memz l (parents_of h c) | None => false end) in *.
        destruct (negb (okp && vec_leb (pb_set pb) (znth [] A c) && (2 <=? Z.of_nat (length (parents_of h c))))) eqn:Eok; [discriminate|].
        apply negb_false_iff in Eok. apply andb_prop in Eok. destruct Eok as [Eok Ep2]. apply andb_prop in Eok. destruct Eok as [Eokp Eleb].
        assert (Hpd : pair_ok pb lb /\ ps_done ps' = ps_done ps).
        { unfold DagProofs.entry_ok in Hb. destruct (ps_pend ps) as [[m0 bs0]|] eqn:Epend.
          - destruct ((m0 =? c) && negb (memz b bs0)) eqn:Em; [|discriminate]. injection Ep as <-.
            apply andb_prop in Em. destruct Em as [_ Em]. apply negb_true_iff in Em. rewrite Em in Hb. split; [exact Hb|reflexivity].
          - injection Ep as <-. split; [exact Hb|reflexivity]. }
        destruct Hpd as [(P1 & P2 & P3 & P4) Hdone]. rewrite Hdone. clear Ep.
        destruct (pb_last pb) as [l|] eqn:Elast; [|discriminate].
        assert (Hsub : forall a, ancb A l a = true -> ancb A c a = true).
        { intros a Ha. unfold ancb in *. apply (vec_leb_get _ _ a Eleb). rewrite P3. exact Ha. }
        destruct (consume cf (znth 0 aidx c) (tick_of h c) true _ (lb_state lb) (w_shared w)) as [[b1 s1]| |] eqn:Ec; try discriminate.
        injection Es as <-. rewrite P1 in Ec. cbn [w_branches w_shared].
        assert (Hnd : no_delete (changes_of h A (Some l) c)).
        { apply changes_of_no_delete. intros pl Hin E0. unfold old_exists, path_exists in *. apply existsb_exists in E0.
          destruct E0 as (x & Hx & E0). apply existsb_exists. exists x. split; auto. }
        destruct (consume_hgood cf _ _ _ _ _ _ _ _ Hnd Ec Hhgb) as [Hext Hhg1].
        destruct (consume_R cf SR Allowed SR_refl SR_trans SR_ut SR_dels SR_create _ _ _ _ _ _ _ _ Hnd (changes_of_allowed h A _ _) Ec HSI) as [HSI1 Hne1].
        split; [exact HSI1|]. split.
        { intros b' lb'. rewrite aget_aset. destruct (b =? b').
          - intros E; injection E as <-. exact Hhg1.
          - intros E. apply (hgood_ext cf _ _ _ Hext). apply (HHG b' lb' E). }
        split; [|apply (DONE_ext _ _ _ Hext Hne1 HD)].
        intros P. rewrite (consume_merge_v h cf aidx Hcf Haidx vw c l _ _ _ _ Hsub P2 Ec (proj1 HSI) Hhgb P). apply HV.
      + (* normal mode *)
        destruct (ps_pend ps) as [[m0 bs0]|] eqn:Epend; [discriminate|].
        unfold DagProofs.entry_ok in Hb. rewrite Epend in Hb. destruct Hb as (P1 & P2 & P3 & P4).
        destruct (vec_eqb (vec_set (pb_set pb) c) (znth [] A c)) eqn:Ev; [|discriminate].
        injection Ep as <-. apply vec_eqb_eq in Ev.
        destruct (consume cf (znth 0 aidx c) (tick_of h c) _ _ (lb_state lb) (w_shared w)) as [[b1 s1]| |] eqn:Ec; try discriminate.
        injection Es as <-. rewrite P1 in Ec. cbn [ps_done w_branches w_shared].
        assert (H1 : forall a, ancb A c a = (a =? c) || anc_last h (pb_last pb) a).
        { intros a. unfold ancb. rewrite <- Ev. apply (DagProofs.H1_of_set h Hcf pb c Hc P3 P4). }
        assert (H2 : anc_last h (pb_last pb) c = false).
        { unfold vec_get in Eg2. fold (vget (pb_set pb) c) in Eg2. rewrite P3, (PlanProofs.vecof_get h) in Eg2. exact Eg2. }
        assert (Hnd : no_delete (changes_of h A (pb_last pb) c)).
        { apply changes_of_no_delete. intros pl Hin. apply (exists_mono h (pb_last pb) c P4 H1). }
        destruct (consume_hgood cf _ _ _ _ _ _ _ _ Hnd Ec Hhgb) as [Hext Hhg1].
        destruct (consume_R cf SR Allowed SR_refl SR_trans SR_ut SR_dels SR_create _ _ _ _ _ _ _ _ Hnd (changes_of_allowed h A _ _) Ec HSI) as [HSI1 Hne1].
        split; [exact HSI1|]. split.
        { intros b' lb'. rewrite aget_aset. destruct (b =? b').
          - intros E; injection E as <-. exact Hhg1.
          - intros E. apply (hgood_ext cf _ _ _ Hext). apply (HHG b' lb' E). }
        split.
        { intros P.
          rewrite (consume_good_v h cf aidx Hcf Hmark Haidx vw keep link2 (pb_last pb) c Hc P4 H1 H2 _ _ _ _ P2 Ec (proj1 HSI) Hhgb P).
          rewrite HV. cbn [map]. rewrite sum_z_cons. lia. }
        intros c0 [Ec0|Hc0]; [subst c0|apply (DONE_ext _ _ _ Hext Hne1 HD c0 Hc0)].
        intros p seq l Hp Hl Hbl. split.
        { destruct (consume_good h cf aidx Hcf Hmark Haidx (pb_last pb) c Hc P4 H1 H2 (lb_state lb) (w_shared w) b1 s1 P2 Ec) as (G1 & _).
          specialize (G1 (p, seq) Hp). cbn [fst snd] in G1. unfold pgood in G1.
          change (old_exists A (Some c) seq) with (path_exists A c seq) in G1.
          rewrite (born_exists c p seq l Hl Hbl) in G1 by (rewrite H1, Z.eqb_refl; reflexivity).
          destruct G1 as [hd G1]. apply (proj2 (hgood_get cf s1 _ p _ Hhg1 G1)). }
        intros Hk. apply (consume_pos h cf aidx Hcf Hmark Haidx vw keep link2 (pb_last pb) c _ _ _ _ p seq l Hc P4 H1 H2 P2 Ec (proj1 HSI) Hhgb Hp Hl Hbl Hk).
    - (* fork *)
      destruct (ps_pend ps) as [[m0 bs0]|] eqn:Epend; [discriminate|].
      destruct (aget (ps_live ps) b) as [pb|] eqn:Epb; [|discriminate].
      destruct (aget (w_branches w) b) as [lb|] eqn:Elb; [|discriminate].
      destruct (forallb (fun b' => negb (memz b' (ps_seen ps))) bs && nodup_zb bs) eqn:Ef; [|discriminate].
      injection Ep as <-. injection Es as <-. cbn [ps_done w_branches w_shared].
      split; [exact HSI|]. split; [|split; [exact HV|exact HD]].
      intros b' lb'. rewrite aget_fold_aset. destruct (memz b' bs); [|apply HHG].
      intros E; injection E as <-. apply (HHG b lb Elb).
    - (* merge *)
      destruct (ps_pend ps) as [[m rs]|] eqn:Epend; [|discriminate].
      destruct (negb (nodup_zb bs && subset_z bs rs && subset_z rs bs && (2 <=? Z.of_nat (length bs)))) eqn:Econd; [discriminate|].
      apply negb_false_iff in Econd. apply andb_prop in Econd. destruct Econd as [Econd Hlen2].
      apply andb_prop in Econd. destruct Econd as [Econd Hs2]. apply andb_prop in Econd. destruct Econd as [Hnd Hs1].
      set (sets := map (fun b => match aget (ps_live ps) b with Some pb => pb_set pb | None => [] end) bs) in *.
      set (u := fold_left orvec sets (repeat false n)) in *.
      destruct (vec_eqb u (znth [] A m)) eqn:Eu; [|discriminate]. injection Ep as <-. apply vec_eqb_eq in Eu.
      destruct (get_all bs (w_branches w)) as [lbs|] eqn:Eget; [|discriminate].
      destruct (analysis_merge cf (map lb_state lbs) (w_shared w)) as [[sts s1]| |] eqn:Eam; try discriminate.
      injection Es as <-. cbn [ps_done w_branches w_shared].
      unfold DagProofs.pend_ok in W5. rewrite Epend in W5. destruct W5 as (Hm & Hmd & Hp2 & Hndrs & Hrsne & Hlive).
      pose proof (nodup_zb_NoDup _ Hnd) as HNDbs.
      unfold subset_z in Hs1, Hs2. rewrite forallb_forall in Hs1, Hs2.
      pose (Q := fun (b l : Z) => exists pb lb, aget (ps_live ps) b = Some pb /\ aget (w_branches w) b = Some lb /\
                   pb_set pb = vec_set (znth [] A l) m /\ 0 <= l < ncommits h /\ ancb A l m = false /\
                   (forall a, ancb A l a = true -> ancb A m a = true) /\ replayed h cf aidx m l (lb_state lb) /\
                   lb_last lb = Some m).
      assert (HQ : forall b, In b bs -> exists l, Q b l).
      { intros b Hb. pose proof (Hs1 b Hb) as Hbr. pose proof (W3 b) as H3.
        pose proof (Hlive b (proj1 (memz_true _ _) Hbr)) as Hl.
        destruct (aget (ps_live ps) b) as [pb|] eqn:Epb; [|congruence].
        destruct (aget (w_branches w) b) as [lb|] eqn:Elb; [|destruct H3].
        unfold DagProofs.entry_ok in H3. rewrite Epend, Hbr in H3. destruct H3 as (l & E1 & E2 & E3 & E4 & E5 & E6 & E7).
        exists l, pb, lb. split; [exact Epb|]. split; [exact Elb|]. split; [exact E3|]. split; [exact E4|].
        split; [exact E5|]. split; [exact E6|]. split; [exact E7|exact E2]. }
      destruct (Forall2_exists Q bs HQ) as [ls HFQ].
      pose proof (get_all_Forall2 bs _ _ Eget) as HFget.
      pose proof (Forall2_join _ _ _ _ _ HFQ HFget) as HFj.
      assert (HFrep : Forall2 (replayed h cf aidx m) ls (map lb_state lbs)).
      { clear - HFj. induction HFj as [|l lb ? ? (b & _ & (pb & lb' & _ & E2 & _ & _ & _ & _ & Hr & _) & E) HF IH]; cbn [map]; constructor; auto.
        rewrite E in E2. injection E2 as <-. exact Hr. }
      assert (HL1 : length bs = length ls) by (apply (Forall2_length' _ _ _ HFQ)).
      assert (Hlsne : ls <> []) by (destruct ls; [cbn in HL1; lia|discriminate]).
      assert (HlsQ : forall l, In l ls -> exists b, In b bs /\ Q b l).
      { intros l Hl. clear - HFQ Hl. induction HFQ as [|b l0 ? ? Hq HF IH]; [destruct Hl|].
        destruct Hl as [<-|Hl]; [exists b; split; [left; auto|auto]|]. destruct (IH Hl) as (b' & ? & ?). exists b'. split; [right; auto|auto]. }
      assert (HU : forall a, ancb A m a = (a =? m) || existsb (fun l => ancb A l a) ls).
      { intros a. unfold ancb at 1. rewrite <- Eu. unfold u. fold (vget (fold_left orvec sets (repeat false n)) a).
        rewrite (vget_fold_orvec n).
        - rewrite vget_repeat_false. cbn [orb].
          assert (Es : existsb (fun v => vget v a) sets = existsb (fun l => (a =? m) || ancb A l a) ls).
          { unfold sets. clear - HFQ Hm Hcf. induction HFQ as [|b l ? ? (pb & lb & E1 & _ & E3 & E4 & _) HF IH]; [reflexivity|].
            cbn [map existsb]. rewrite IH, E1, E3. f_equal.
            exact (DagProofs.H1_of_set h Hcf (mkPB (znth [] A l) (Some l)) m Hm eq_refl E4 a). }
          rewrite Es. clear - Hlsne. destruct ls as [|l0 ls0]; [congruence|]. cbn [existsb].
          destruct (a =? m); cbn [orb]; reflexivity.
        - intros v Hv. unfold sets in Hv. apply in_map_iff in Hv. destruct Hv as (b & <- & Hb).
          destruct (HQ b Hb) as (l & pb & lb & E1 & _ & E3 & E4 & _). rewrite E1, E3. unfold vec_set.
          destruct (m <? 0); [|rewrite setbit_length]; apply (row_len h (commits_ok h Hcf) l E4).
        - apply repeat_length. }
      assert (Hnew : forall l, In l ls -> ancb A l m = false).
      { intros l Hl. destruct (HlsQ l Hl) as (b & _ & (pb & lb & _ & _ & _ & _ & E5 & _)). exact E5. }
      assert (Hrange : forall l, In l ls -> 0 <= l < ncommits h).
      { intros l Hl. destruct (HlsQ l Hl) as (b & _ & (pb & lb & _ & _ & _ & E4 & _)). exact E4. }
      assert (Hsub : forall l, In l ls -> forall seq, old_exists A (Some l) seq = true -> path_exists A m seq = true).
      { intros l Hl seq E. destruct (HlsQ l Hl) as (b & _ & (pb & lb & _ & _ & _ & _ & _ & E6 & _)).
        unfold old_exists, path_exists in *. apply existsb_exists in E. destruct E as (x & Hx & E). apply existsb_exists. exists x. split; auto. }
      (* the handle invariant of the merged branches *)
      assert (Hhgall : forall b0, In b0 (map lb_state lbs) -> hgood cf (w_shared w) (b_files b0)).
      { intros b0 Hb0. apply in_map_iff in Hb0. destruct Hb0 as (lb & <- & Hlb).
        destruct (F2_in_r _ _ _ lb HFget Hlb) as (b & _ & Eb). apply (HHG b lb Eb). }
      destruct (analysis_merge_hgood cf _ _ _ _ Eam Hhgall) as [Hsn Hhg1].
      destruct (analysis_merge_R cf SR SR_refl SR_trans SR_ut _ _ _ _ Eam HSI) as [HSI1 Hne1].
      split; [exact HSI1|]. split.
      { intros b' lb' E. apply aget_set_all_in in E. destruct E as [E|E].
        - apply in_map_iff in E. destruct E as (pr & <- & Hpr). cbn [lb_state]. apply Hhg1. eapply in_fst_combine; eauto.
        - apply (hgood_ext cf _ _ _ (same_names_ext _ _ Hsn)). apply (HHG b' lb' E). }
      split.
      { intros P.
        rewrite (analysis_merge_spec_v h cf aidx Hcf Hmark Haidx vw keep link2 m Hm ls HU Hnew Hrange
                   (DagProofs.no_killer_of_merge h Hcf m (proj1 Hm) Hp2) Hsub (map lb_state lbs) (w_shared w) sts s1 Hlsne HFrep Eam
                   (proj1 HSI) Hhgall P).
        rewrite HV. cbn [map]. rewrite sum_z_cons. lia. }
      intros c0 [Ec0|Hc0]; [subst c0|apply (DONE_ext _ _ _ (same_names_ext _ _ Hsn) Hne1 HD c0 Hc0)].
      intros p seq l Hp Hl Hbl. split.
      { destruct (analysis_merge_spec h cf aidx Hcf Hmark Haidx m Hm ls HU Hnew Hrange
                    (DagProofs.no_killer_of_merge h Hcf m (proj1 Hm) Hp2) Hsub (map lb_state lbs) (w_shared w) sts s1 Hlsne HFrep Eam) as (B1 & _).
        destruct ls as [|l1 ls1] eqn:Els; [congruence|]. destruct (F2_head _ _ _ _ B1) as (st & sts' & Ests & Hst).
        rewrite <- Els in *. subst sts.
        specialize (Hst (p, seq) Hp). cbn [fst snd] in Hst. unfold pgood in Hst.
        change (old_exists A (Some m) seq) with (path_exists A m seq) in Hst.
        rewrite (born_exists m p seq l Hl Hbl) in Hst by (rewrite HU, Z.eqb_refl; reflexivity).
        destruct Hst as [hd Hst]. apply (proj2 (hgood_get cf s1 _ p _ (Hhg1 st (or_introl eq_refl)) Hst)). }
      intros Hk.
      apply (analysis_merge_pos h cf aidx Hcf Hmark Haidx vw keep link2 m Hm ls HU Hnew Hrange
               (DagProofs.no_killer_of_merge h Hcf m (proj1 Hm) Hp2) Hsub (map lb_state lbs) (w_shared w) sts s1 p seq l Hlsne HFrep Eam
               (proj1 HSI) Hhgall Hp Hl Hbl Hk).
    - (* delete *)
      destruct (ps_pend ps) as [[m0 bs0]|] eqn:Epend; [discriminate|].
      destruct (aget (ps_live ps) b) as [pb|] eqn:Epb; [|discriminate].
      injection Ep as <-. injection Es as <-. cbn [ps_done w_branches w_shared].
      split; [exact HSI|]. split; [|split; [exact HV|exact HD]].
      intros b' lb'. rewrite aget_adel by auto. destruct (b =? b'); [discriminate|apply HHG].
    - injection Ep as <-. injection Es as <-. split; [exact HSI|]. split; [exact HHG|split; [exact HV|exact HD]].
    - injection Ep as <-. injection Es as <-. split; [exact HSI|]. split; [exact HHG|split; [exact HV|exact HD]].
  Qed.

  Lemma run_WV : forall plan before ps w ps' w',
    WV ps w -> prun h A n before plan ps = Some ps' ->
    run_from cf (fun c => znth 0 aidx c) (tick_of h) (changes_of h A) before plan w = Ok w' -> WV ps' w'.
  Proof.
    induction plan as [|a rest IH]; intros before ps w ps' w' HW Ep Er.
    - cbn in Ep, Er. injection Ep as <-. injection Er as <-. exact HW.
    - cbn [prun run_from] in Ep, Er.
      destruct (pstep h A n before rest a ps) as [ps1|] eqn:E1; [|discriminate].
      destruct (step cf _ _ _ before rest a w) as [w1| |] eqn:E2; try discriminate.
      apply (IH (a :: before) ps1 w1 ps' w'); auto. eapply step_WV; eauto.
  Qed.

  Hypothesis HV0 : V shared0 = [].

  Lemma WV_init : WV pstate0 world0.
  Proof.
    split; [apply DagProofs.W_init|]. split.
    { split; [split; [intros; discriminate|split; [intros; discriminate|constructor]]|]. cbn [w_shared world0]. rewrite HV0. split; [apply subh_nil|]. split; [reflexivity|intros p k E; discriminate]. }
    split; [intros b lb E; discriminate|]. split; [intros P; cbn [w_shared world0]; rewrite HV0; reflexivity|].
    intros c [].
  Qed.

  (* the sparse history of the view after any validated plan *)
  Theorem view_sparse plan w :
    plan_okb h plan = true -> run_hist cf h aidx plan = Ok w ->
    (forall P, wsum P (V (w_shared w)) = sum_z (map (contribK h keep P) (zrange (ncommits h)))) /\
    subh (V (w_shared w)) (s_gh (w_shared w)) /\ NI (w_shared w) /\
    (forall b lb, aget (w_branches w) b = Some lb -> hgood cf (w_shared w) (b_files (lb_state lb))) /\
    (c_files cf = false -> s_names (w_shared w) = []) /\
    (forall p k, aget (s_names (w_shared w)) p = Some k -> In p (paths_with_lines h)) /\
    DONE (zrange (ncommits h)) (w_shared w).
  Proof.
    intros Hok Er. unfold plan_okb in Hok.
    destruct (prun h A n [] plan pstate0) as [ps|] eqn:Ep; [|discriminate].
    unfold run_hist, run in Er.
    pose proof (run_WV plan [] pstate0 world0 ps w WV_init Ep Er) as (HW & (HNI & Hsub & Hnf & Hnp) & HHG & HV & HD).
    destruct HW as (W1 & W2 & W3 & W4 & W5 & W6 & W7 & W8 & W9).
    destruct (ps_pend ps) as [[m0 bs0]|]; [discriminate|]. apply andb_prop in Hok. destruct Hok as [Hl Hnd].
    assert (Hperm : Permutation (ps_done ps) (zrange (ncommits h))).
    { apply (done_perm h); auto; [apply nodup_zb_NoDup; exact Hnd|apply Z.eqb_eq in Hl; lia]. }
    split; [|split; [exact Hsub|split; [exact HNI|split; [exact HHG|split; [exact Hnf|split; [exact Hnp|]]]]]].
    - intros P. rewrite HV. apply sum_map_perm. exact Hperm.
    - intros c Hc. apply HD. apply (Permutation_in _ (Permutation_sym Hperm)). exact Hc.
  Qed.
End VDag.
