(* C05 - red-black tree = ordered map, balanced, iterators stable.
   Only statements closed by [exact] and their assumptions. *)
From Coq Require Import List ZArith.
From Herc Require Import RBTree.Model RBTree.InsertProofs RBTree.DeleteProofs.
Import ListNotations.
Open Scope Z_scope.

Theorem C05_insert_rb : forall ni nk nv t, is_redblack t -> is_redblack (fst (fst (insert ni nk nv t))).
Proof. exact insert_RB. Qed.
Print Assumptions C05_insert_rb.

Theorem C05_delete_rb : forall x t t', is_redblack t -> delete_key x t = DDone t' -> is_redblack t'.
Proof. exact delete_key_RB. Qed.
Print Assumptions C05_delete_rb.
