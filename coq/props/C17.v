(* C17 - binary result encoding round-trips.  Only statements closed by [exact] (Examples by computation)
   and their assumptions.  Model: theories/Results/PB.v (message images of the three results, the sparse
   and CSR codecs of internal/pb/utils.go), theories/Results/Yaml.v (token grid of PrintMatrix).
   A Go string is its byte list, a Go map its canonical (key-sorted) association list, int32(x)/uint32(x)
   are explicit wraps, a panic is [Panic], a returned error [Fail].  gogo/protobuf Marshal/Unmarshal is
   external: the statements hold for EVERY pair marshal/unmarshal with unmarshal (marshal m) = Some m. *)
From Coq Require Import List ZArith Bool.
From Herc Require Import Results.PB Results.Yaml Results.MapProofs Results.SparseProofs
  Results.DevsCouplesProofs Results.BurndownProofs Results.YamlProofs Results.C17Main.
Import ListNotations.
Open Scope Z_scope.

(* ================================================================ the codecs of internal/pb/utils.go *)

(* of_sparse (to_sparse m) = clamp m.  [rect]: at least one row, all rows equally long, dimensions < 2^31;
   [cells_u32]: every cell < 2^32 (negative cells are allowed: they are clamped).  The decoded matrix has
   the full declared width although to_sparse stores every row only up to its last non-zero cell:
   the dropped trailing zero columns are restored as zeros. *)
Theorem C17_sparse_codec : forall m nm, rect m = true -> cells_u32 m = true ->
  bind (to_sparse m nm) of_sparse = Ok (clamp_matrix m).
Proof. exact sparse_roundtrip. Qed.
Print Assumptions C17_sparse_codec.

(* the truncation really happens: an all-zero row is stored as an empty row *)
Theorem C17_sparse_truncates : forall k, sparse_row (repeat 0 k) = [].
Proof. exact sparse_row_zeros. Qed.
Print Assumptions C17_sparse_truncates.

Example C17_sparse_example :
  to_sparse [[5; 0; 0]; [-1; 7; 0]; [0; 0; 0]] [109]
    = Ok {| sm_name := [109]; sm_rows := 3; sm_cols := 3; sm_data := [[5]; [0; 7]; []] |}
  /\ bind (to_sparse [[5; 0; 0]; [-1; 7; 0]; [0; 0; 0]] [109]) of_sparse = Ok [[5; 0; 0]; [0; 7; 0]; [0; 0; 0]].
Proof. split; vm_compute; reflexivity. Qed.

(* outside the range: a cell >= 2^32 is stored modulo 2^32 (uint32 cast), silently *)
Example C17_sparse_out_of_range :
  bind (to_sparse [[4294967296; 4294967301]] [109]) of_sparse = Ok [[0; 5]].
Proof. vm_compute. reflexivity. Qed.

(* csr_decode (csr_encode m) = m for the dense encoder (burndown people matrix): every int64 cell, also
   negative ones; zero cells are not stored and come back as zeros *)
Theorem C17_csr_dense_codec : forall m, rect m = true -> bind (dense_to_csr m) csr_to_dense = Ok m.
Proof. exact csr_dense_roundtrip. Qed.
Print Assumptions C17_csr_dense_codec.

Example C17_csr_dense_example :
  dense_to_csr [[3; 0; -4; 0]; [0; 0; 0; 9]]
    = Ok {| csr_rows := 2; csr_cols := 4; csr_data := [3; -4; 9]; csr_indices := [0; 2; 3]; csr_indptr := [0; 2; 3] |}
  /\ bind (dense_to_csr [[3; 0; -4; 0]; [0; 0; 0; 9]]) csr_to_dense = Ok [[3; 0; -4; 0]; [0; 0; 0; 9]].
Proof. split; vm_compute; reflexivity. Qed.

(* ... and for the map encoder (couples): rows are canonical maps column -> value with int32 columns;
   explicit zero values are kept *)
Theorem C17_csr_map_codec : forall m,
  dim_ok m = true ->
  forallb (msortedb Z.compare) m = true ->
  forallb (forallb (fun e => in_i32 (fst e))) m = true ->
  csr_to_maps (map_to_csr m) = Ok m.
Proof. exact csr_maps_roundtrip. Qed.
Print Assumptions C17_csr_map_codec.

Example C17_csr_map_example :
  csr_to_maps (map_to_csr [[(0, 2); (5, 0)]; []; [(-1, 7)]]) = Ok [[(0, 2); (5, 0)]; []; [(-1, 7)]].
Proof. vm_compute. reflexivity. Qed.

(* ================================================================ burndown *)

(* decode (encode r) = normalise r, where normalise ONLY clamps negative history cells to zero
   (see [normalise_burndown]: every other field is returned unchanged).
   shape_burndown r: every history matrix (global, per file, per developer) and the people matrix has >= 1 row,
     rows of equal length, dimensions < 2^31; the association lists are canonical maps; ownership tables belong
     to files that have a history; at least as many names as people histories (fewer: Serialize panics);
   the two alignment conditions, as explicit boolean hypotheses:
     every file history has an ownership table (same key lists), and
     there are exactly as many developer names as people histories;
   in_range_burndown r: history cells < 2^32; ownership keys and counts, sampling, granularity within int32.
   The tick size is an int64 in Go and converted by nothing. *)
Theorem C17_burndown : forall (B : Type) (marshal : burndown_msg -> B) (unmarshal : B -> option burndown_msg),
  (forall m, unmarshal (marshal m) = Some m) ->
  forall r, shape_burndown r = true ->
  names_eqb (map fst (bd_files r)) (map fst (bd_ownership r)) = true ->
  (length (bd_names r) =? length (bd_people r))%nat = true ->
  in_range_burndown r = true ->
  roundtrip_with marshal unmarshal encode_burndown decode_burndown r = Ok (normalise_burndown r).
Proof. exact burndown_wire_explicit. Qed.
Print Assumptions C17_burndown.

(* without the two alignment conditions: what the round trip computes on EVERY well-shaped result
   ([image_burndown]: clamping, names cut to the number of people histories, one ownership table per file
   history - the empty one when the input has none) *)
Theorem C17_burndown_image : forall (B : Type) (marshal : burndown_msg -> B) (unmarshal : B -> option burndown_msg),
  (forall m, unmarshal (marshal m) = Some m) ->
  forall r, shape_burndown r = true -> in_range_burndown r = true ->
  roundtrip_with marshal unmarshal encode_burndown decode_burndown r = Ok (image_burndown r).
Proof. exact burndown_wire_image. Qed.
Print Assumptions C17_burndown_image.

Theorem C17_burndown_image_aligned : forall r, shape_burndown r = true -> aligned_burndown r = true ->
  image_burndown r = normalise_burndown r.
Proof. exact image_aligned. Qed.
Print Assumptions C17_burndown_image_aligned.

(* non-vacuity: negative cells, trailing zeros, an all-zero row, 2^32-1, files, ownership, people *)
Example C17_burndown_example :
  rectangular_burndown ex_burndown = true /\ in_range_burndown ex_burndown = true
  /\ bind (encode_burndown ex_burndown) decode_burndown = Ok (normalise_burndown ex_burndown)
  /\ bd_global (normalise_burndown ex_burndown) = [[5; 0; 0]; [0; 4294967295; 0]; [0; 0; 0]].
Proof. repeat split; vm_compute; reflexivity. Qed.

(* FINDING C17-K1 (refutation of the statement on results that BurndownAnalysis.Finalize can produce):
   with a people dictionary read from a file reversedPeopleDict ends with "<unmatched>" and is one longer
   than PeopleHistories; the format stores names only as the names of the people matrices, so the extra
   name is dropped. *)
Theorem C17_burndown_names_refuted : exists r,
  shape_burndown r = true /\ in_range_burndown r = true /\
  bind (encode_burndown r) decode_burndown <> Ok (normalise_burndown r) /\
  bd_names r = [n_a; n_unmatched] /\
  exists r', bind (encode_burndown r) decode_burndown = Ok r' /\ bd_names r' = [n_a].
Proof.
  exists ex_burndown_loaded_dict. repeat split; try (vm_compute; reflexivity).
  - vm_compute. discriminate.
  - eexists. split; vm_compute; reflexivity.
Qed.
Print Assumptions C17_burndown_names_refuted.

(* FINDING C17-K2: a file history without an ownership table comes back with an empty table, because
   Deserialize creates a table for every file.  BurndownAnalysis.Finalize produced such results for a file
   living on another head only; since the repair 909b314 it makes a table for every file history, so only
   hand-made results have this shape. *)
Theorem C17_burndown_ownership_refuted : exists r,
  shape_burndown r = true /\ in_range_burndown r = true /\
  bind (encode_burndown r) decode_burndown <> Ok (normalise_burndown r) /\
  bd_ownership r = [(n_a, [(0, 1)])] /\
  exists r', bind (encode_burndown r) decode_burndown = Ok r' /\ bd_ownership r' = [(n_a, [(0, 1)]); (n_b, [])].
Proof.
  exists ex_burndown_no_ownership. repeat split; try (vm_compute; reflexivity).
  - vm_compute. discriminate.
  - eexists. split; vm_compute; reflexivity.
Qed.
Print Assumptions C17_burndown_ownership_refuted.

(* outside the range / the shape: wrapped counters, panics and errors instead of a round trip *)
Example C17_burndown_outside :
  (* sampling 2^31 comes back as -2^31 *)
  (exists r', bind (encode_burndown {| bd_global := [[1]]; bd_files := []; bd_ownership := []; bd_people := [];
                bd_matrix := None; bd_names := []; bd_tick_size := 1; bd_sampling := 2147483648; bd_granularity := 1 |})
              decode_burndown = Ok r' /\ bd_sampling r' = -2147483648)
  (* an empty GlobalHistory is written without a project matrix and Deserialize panics on it *)
  /\ bind (encode_burndown {| bd_global := []; bd_files := []; bd_ownership := []; bd_people := [];
                bd_matrix := None; bd_names := []; bd_tick_size := 1; bd_sampling := 1; bd_granularity := 1 |})
          decode_burndown = Panic
  (* an empty people history leaves a nil element that proto.Marshal refuses *)
  /\ encode_burndown {| bd_global := [[1]]; bd_files := []; bd_ownership := []; bd_people := [[]];
                bd_matrix := None; bd_names := [n_a]; bd_tick_size := 1; bd_sampling := 1; bd_granularity := 1 |} = Fail
  (* a non-nil empty people matrix panics in DenseToCompressedSparseRowMatrix *)
  /\ encode_burndown {| bd_global := [[1]]; bd_files := []; bd_ownership := []; bd_people := [];
                bd_matrix := Some []; bd_names := []; bd_tick_size := 1; bd_sampling := 1; bd_granularity := 1 |} = Panic.
Proof. repeat split; try (vm_compute; reflexivity). eexists. split; vm_compute; reflexivity. Qed.

(* ================================================================ devs *)

(* decode (encode r) = r.  shape_devs: canonical maps; in_range_devs: tick keys within int32, developer keys in
   [0, 2^31) (AuthorMissing = 262142 <-> -1 on the wire), commits and line counters within int32. *)
Theorem C17_devs : forall (B : Type) (marshal : devs_msg -> B) (unmarshal : B -> option devs_msg),
  (forall m, unmarshal (marshal m) = Some m) ->
  forall r, shape_devs r = true -> in_range_devs r = true ->
  roundtrip_with marshal unmarshal (fun r => Ok (encode_devs r)) (fun m => Ok (decode_devs m)) r = Ok r.
Proof. exact devs_wire. Qed.
Print Assumptions C17_devs.

Example C17_devs_example :
  shape_devs ex_devs = true /\ in_range_devs ex_devs = true /\ decode_devs (encode_devs ex_devs) = ex_devs
  /\ map fst (match dm_ticks (encode_devs ex_devs) with (_, dd) :: _ => dd | [] => [] end) = [-1; 0].
Proof. repeat split; vm_compute; reflexivity. Qed.

(* outside: a developer key -1 comes back as AuthorMissing; a counter 2^31 comes back negative *)
Example C17_devs_outside :
  dv_ticks (decode_devs (encode_devs {| dv_ticks := [(0, [(-1, {| dt_commits := 2147483648;
      dt_stats := {| ls_added := 0; ls_removed := 0; ls_changed := 0 |}; dt_langs := [] |})])]; dv_names := []; dv_tick_size := 0 |}))
  = [(0, [(author_missing, {| dt_commits := -2147483648;
      dt_stats := {| ls_added := 0; ls_removed := 0; ls_changed := 0 |}; dt_langs := [] |})])].
Proof. vm_compute. reflexivity. Qed.

(* ================================================================ couples *)

(* decode (encode r) = r except for the documented omission, which is exactly:
   PeopleFiles is cut to its first len(reversedPeopleDict) rows ([normalise_couples]).  CouplesAnalysis.Finalize
   makes PeopleNumber+1 rows, the last for the unmatched-author pseudo-developer; with a generated people
   dictionary there are PeopleNumber names, so that last row is not written.  PeopleMatrix keeps all its rows.
   shape_couples: at least as many PeopleFiles rows as names (fewer: Serialize panics), as many FilesLines as
   Files (otherwise Deserialize returns an error), canonical maps; in_range_couples: matrix columns, written
   file indexes and line counts within int32, fewer than 2^31 rows. *)
Theorem C17_couples : forall (B : Type) (marshal : couples_msg -> B) (unmarshal : B -> option couples_msg),
  (forall m, unmarshal (marshal m) = Some m) ->
  forall r, shape_couples r = true -> in_range_couples r = true ->
  roundtrip_with marshal unmarshal encode_couples decode_couples r = Ok (normalise_couples r).
Proof. exact couples_wire. Qed.
Print Assumptions C17_couples.

Example C17_couples_example :
  shape_couples ex_couples = true /\ in_range_couples ex_couples = true
  /\ bind (encode_couples ex_couples) decode_couples = Ok (normalise_couples ex_couples)
  /\ cp_people_files ex_couples = [[0; 1]; [1]] /\ cp_people_files (normalise_couples ex_couples) = [[0; 1]]
  /\ cp_files (normalise_couples ex_couples) = [n_b; n_a].
Proof. repeat split; vm_compute; reflexivity. Qed.

Example C17_couples_outside :
  (* more names than PeopleFiles rows: Serialize panics *)
  encode_couples {| cp_people_matrix := []; cp_people_files := []; cp_files_matrix := []; cp_files_lines := [];
                    cp_files := []; cp_names := [n_a] |} = Panic
  (* FilesLines and Files of different length: Deserialize refuses its own output *)
  /\ bind (encode_couples {| cp_people_matrix := []; cp_people_files := []; cp_files_matrix := []; cp_files_lines := [1];
                    cp_files := []; cp_names := [] |}) decode_couples = Fail.
Proof. split; vm_compute; reflexivity. Qed.

(* ================================================================ text format *)

(* PrintMatrix writes one line per row and on every line as many numbers as the LAST row is long - the
   number of columns that the binary format declares (NumberOfColumns = len(matrix[len(matrix)-1])) *)
Theorem C17_text_shape_matrix : forall m fx g, print_matrix m fx = Ok g -> shape_okb m g = true.
Proof. exact print_matrix_shape. Qed.
Print Assumptions C17_text_shape_matrix.

(* every matrix of the burndown text format (project, files, people, people_interaction) *)
Theorem C17_text_shape : forall r gs, text_burndown r = Ok gs -> shapes_okb (text_sources r) gs = true.
Proof. exact text_burndown_shape. Qed.
Print Assumptions C17_text_shape.

(* the text is produced (no panic) for every well-shaped result that has a people matrix whenever it has
   people histories, as Finalize guarantees *)
Theorem C17_text_total : forall r, shape_burndown r = true ->
  (bd_people r = [] \/ bd_matrix r <> None) -> exists gs, text_burndown r = Ok gs.
Proof. exact text_burndown_total. Qed.
Print Assumptions C17_text_total.

(* the printed numbers: the clamped cells for the history matrices (fixNegative), the cells themselves for
   the people matrix - the same matrices that the binary format carries *)
Theorem C17_text_cells : forall m fx, rect m = true ->
  print_matrix m fx = Ok (if fx then clamp_matrix m else m).
Proof. exact print_matrix_cells. Qed.
Print Assumptions C17_text_cells.

Example C17_text_example :
  text_burndown ex_burndown
  = Ok [ [[5; 0; 0]; [0; 4294967295; 0]; [0; 0; 0]];  [[3; 0; 0]];  [[0; 0; 7]; [1; 0; 0]];
         [[1; 0; 0]];  [[0; 0; 0]];  [[3; 0; -4; 0]; [0; 0; 0; 9223372036854775807]] ].
Proof. vm_compute. reflexivity. Qed.
