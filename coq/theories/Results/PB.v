(* C17 - model of the conversion between result values and protobuf MESSAGES (not bytes):
   internal/pb/utils.go (ToBurndownSparseMatrix, DenseToCompressedSparseRowMatrix,
   MapToCompressedSparseRowMatrix), and serializeBinary / Deserialize of leaves/burndown.go,
   leaves/devs.go, leaves/couples.go.  Definitions only; the proofs are in the *Proofs.v files.

   Conventions.
   - A Go string is the list of its bytes (0..255) as Z; Go compares strings bytewise.
   - A Go map is its CANONICAL association list: keys strictly increasing (Z order for int keys,
     bytewise order for string keys).  Every Go map value has exactly one such representation; a nil
     map and an empty map are both [], a nil slice and an empty slice are both [].  The one place
     where the code distinguishes nil from empty (BurndownResult.PeopleMatrix != nil) is an option.
     Writing into a map is [minsert]; a loop of writes is [map_of_list] (later writes win).
   - int32(x) is [wrap_i32 x], uint32(x) is [wrap_u32 x]; int(x) of an int32/int64 is x.
     time.Duration IS an int64 number of nanoseconds, so int64(tickSize) converts nothing.
   - A Go panic is [Panic], a returned error is [Fail]. *)
From Coq Require Import List ZArith Bool.
Import ListNotations.
Open Scope Z_scope.

Inductive res (A : Type) : Type := Ok (a : A) | Panic | Fail.
Arguments Ok {A} a.
Arguments Panic {A}.
Arguments Fail {A}.

Definition bind {A B : Type} (r : res A) (f : A -> res B) : res B :=
  match r with Ok a => f a | Panic => Panic | Fail => Fail end.

Fixpoint mapM {A B : Type} (f : A -> res B) (l : list A) : res (list B) :=
  match l with
  | [] => Ok []
  | x :: t => bind (f x) (fun y => bind (mapM f t) (fun ys => Ok (y :: ys)))
  end.

Definition len {A : Type} (l : list A) : Z := Z.of_nat (length l).
Definition is_nil {A : Type} (l : list A) : bool := match l with [] => true | _ => false end.

(* ---------------------------------------------------------------- integer conversions *)
Definition wrap_u32 (z : Z) : Z := z mod 4294967296.
Definition wrap_i32 (z : Z) : Z := (z + 2147483648) mod 4294967296 - 2147483648.
Definition in_i32 (z : Z) : bool := (-2147483648 <=? z) && (z <? 2147483648).
Definition in_u32 (z : Z) : bool := (0 <=? z) && (z <? 4294967296).

(* identity.AuthorMissing = (1 << 18) - 2 *)
Definition author_missing : Z := 262142.

(* ---------------------------------------------------------------- strings and maps *)
Fixpoint name_compare (a b : list Z) : comparison :=
  match a, b with
  | [], [] => Eq
  | [], _ :: _ => Lt
  | _ :: _, [] => Gt
  | x :: a', y :: b' => match Z.compare x y with Eq => name_compare a' b' | c => c end
  end.

Section Maps.
  Context {K V : Type}.
  Variable cmp : K -> K -> comparison.

  (* m[k] = v on the canonical representation *)
  Fixpoint minsert (k : K) (v : V) (m : list (K * V)) : list (K * V) :=
    match m with
    | [] => [(k, v)]
    | (k', v') :: t =>
        match cmp k k' with
        | Lt => (k, v) :: m
        | Eq => (k, v) :: t
        | Gt => (k', v') :: minsert k v t
        end
    end.

  (* for _, (k, v) := range l { m[k] = v } starting from the empty map *)
  Definition map_of_list (l : list (K * V)) : list (K * V) :=
    fold_left (fun m kv => minsert (fst kv) (snd kv) m) l [].

  Fixpoint mfind (k : K) (m : list (K * V)) : option V :=
    match m with
    | [] => None
    | (k', v) :: t => match cmp k k' with Eq => Some v | _ => mfind k t end
    end.

  (* keys strictly increasing: the list is the canonical representation of a map *)
  Fixpoint msortedb (m : list (K * V)) : bool :=
    match m with
    | [] => true
    | (k, _) :: t =>
        match t with
        | [] => true
        | (k', _) :: _ => match cmp k k' with Lt => msortedb t | _ => false end
        end
    end.
End Maps.

Fixpoint names_eqb (a b : list (list Z)) : bool :=
  match a, b with
  | [], [] => true
  | x :: a', y :: b' => match name_compare x y with Eq => names_eqb a' b' | _ => false end
  | _, _ => false
  end.

(* ---------------------------------------------------------------- BurndownSparseMatrix *)
Record sparse_matrix : Type := {
  sm_name : list Z;
  sm_rows : Z;                 (* NumberOfRows    int32 *)
  sm_cols : Z;                 (* NumberOfColumns int32 *)
  sm_data : list (list Z)      (* Rows[i].Columns []uint32 *)
}.

Definition clamp (v : Z) : Z := if v <? 0 then 0 else v.

(* the inner loop of ToBurndownSparseMatrix walks the row from its END: [l] is the reversed row;
   cells are clamped, skipped until the first non-zero one, then all kept as uint32 *)
Fixpoint scan_row (changed : bool) (l : list Z) : list Z :=
  match l with
  | [] => []
  | v :: t =>
      let v := clamp v in
      let changed := changed || negb (v =? 0) in
      if changed then wrap_u32 v :: scan_row changed t else scan_row changed t
  end.

Definition sparse_row (row : list Z) : list Z := rev (scan_row false (rev row)).

Definition to_sparse (m : list (list Z)) (nm : list Z) : res sparse_matrix :=
  match m with
  | [] => Panic                                   (* "matrix may not be nil or empty" *)
  | _ => Ok {| sm_name := nm;
               sm_rows := wrap_i32 (len m);
               sm_cols := wrap_i32 (len (last m []));
               sm_data := map sparse_row m |}
  end.

(* convertCSR of BurndownAnalysis.Deserialize, one row: make([]int64, cols), then copy Columns *)
Definition dense_row (cols : Z) (columns : list Z) : res (list Z) :=
  if cols <? 0 then Panic
  else if cols <? len columns then Panic
  else Ok (columns ++ repeat 0 (Z.to_nat (cols - len columns))).

Definition of_sparse (s : sparse_matrix) : res (list (list Z)) :=
  if sm_rows s <? 0 then Panic
  else if len (sm_data s) <? sm_rows s then Panic
  else mapM (dense_row (sm_cols s)) (firstn (Z.to_nat (sm_rows s)) (sm_data s)).

(* ---------------------------------------------------------------- CompressedSparseRowMatrix *)
Record csr : Type := {
  csr_rows : Z;                (* int32 *)
  csr_cols : Z;                (* int32 *)
  csr_data : list Z;           (* []int64 *)
  csr_indices : list Z;        (* []int32 *)
  csr_indptr : list Z          (* []int64 *)
}.

(* (column, value) of the non-zero cells of a dense row, columns counted from x *)
Fixpoint nz_from (x : Z) (row : list Z) : list (Z * Z) :=
  match row with
  | [] => []
  | c :: t => if c =? 0 then nz_from (x + 1) t else (x, c) :: nz_from (x + 1) t
  end.

Fixpoint indptr_from (acc : Z) (counts : list Z) : list Z :=
  match counts with
  | [] => []
  | c :: t => (acc + c) :: indptr_from (acc + c) t
  end.

Definition csr_of_rows (nrows ncols : Z) (rows : list (list (Z * Z))) : csr :=
  {| csr_rows := wrap_i32 nrows;
     csr_cols := wrap_i32 ncols;
     csr_data := concat (map (map snd) rows);
     csr_indices := concat (map (map (fun e => wrap_i32 (fst e))) rows);
     csr_indptr := 0 :: indptr_from 0 (map len rows) |}.

(* DenseToCompressedSparseRowMatrix: reads matrix[0] *)
Definition dense_to_csr (m : list (list Z)) : res csr :=
  match m with
  | [] => Panic
  | r0 :: _ => Ok (csr_of_rows (len m) (len r0) (map (nz_from 0) m))
  end.

(* MapToCompressedSparseRowMatrix: every row is a map column -> value, walked in key order;
   the matrix is declared square *)
Definition map_to_csr (m : list (list (Z * Z))) : csr := csr_of_rows (len m) (len m) m.

(* the elements l[lo], ..., l[hi-1] read one by one: out of range panics, an empty range reads nothing *)
Definition slice {A : Type} (lo hi : Z) (l : list A) : res (list A) :=
  if hi <=? lo then Ok []
  else if (lo <? 0) || (len l <? hi) then Panic
  else Ok (firstn (Z.to_nat (hi - lo)) (skipn (Z.to_nat lo) l)).

Definition csr_entries (c : csr) (lohi : Z * Z) : res (list (Z * Z)) :=
  bind (slice (fst lohi) (snd lohi) (csr_indices c)) (fun ix =>
  bind (slice (fst lohi) (snd lohi) (csr_data c)) (fun d => Ok (combine ix d))).

(* consecutive pairs (Indptr[i], Indptr[i+1]) *)
Definition pairs (l : list Z) : list (Z * Z) := combine l (tl l).

Fixpoint set_nth {A : Type} (n : nat) (v : A) (l : list A) : option (list A) :=
  match l, n with
  | [], _ => None
  | _ :: t, O => Some (v :: t)
  | x :: t, S n' => option_map (cons x) (set_nth n' v t)
  end.

(* row := make([]int64, cols); for each entry: row[index] = value *)
Definition assign_row (cols : Z) (entries : list (Z * Z)) : res (list Z) :=
  if cols <? 0 then Panic
  else fold_left (fun acc e => bind acc (fun r =>
         if fst e <? 0 then Panic
         else match set_nth (Z.to_nat (fst e)) (snd e) r with Some r' => Ok r' | None => Panic end))
       entries (Ok (repeat 0 (Z.to_nat cols))).

(* the PeopleInteraction loop of BurndownAnalysis.Deserialize *)
Definition csr_to_dense (c : csr) : res (list (list Z)) :=
  if csr_rows c <? 0 then Panic
  else if (0 <? csr_rows c) && (len (csr_indptr c) <? csr_rows c + 1) then Panic
  else mapM (fun lohi => bind (csr_entries c lohi) (assign_row (csr_cols c)))
            (firstn (Z.to_nat (csr_rows c)) (pairs (csr_indptr c))).

(* convertCSR of CouplesAnalysis.Deserialize: dest has NumberOfRows slots, one map per Indptr step *)
Definition csr_to_maps (c : csr) : res (list (list (Z * Z))) :=
  if csr_rows c <? 0 then Panic
  else if csr_rows c <? len (pairs (csr_indptr c)) then Panic
  else bind (mapM (fun lohi => bind (csr_entries c lohi) (fun es => Ok (map_of_list Z.compare es)))
                  (pairs (csr_indptr c)))
            (fun rs => Ok (rs ++ repeat [] (Z.to_nat (csr_rows c) - length rs))).

(* ================================================================ BurndownResult *)
Record burndown_result : Type := {
  bd_global : list (list Z);                        (* GlobalHistory *)
  bd_files : list (list Z * list (list Z));         (* FileHistories   map[string]DenseHistory *)
  bd_ownership : list (list Z * list (Z * Z));      (* FileOwnership   map[string]map[int]int *)
  bd_people : list (list (list Z));                 (* PeopleHistories *)
  bd_matrix : option (list (list Z));               (* PeopleMatrix, None = nil *)
  bd_names : list (list Z);                         (* reversedPeopleDict *)
  bd_tick_size : Z;                                 (* tickSize, nanoseconds *)
  bd_sampling : Z;
  bd_granularity : Z
}.

Record burndown_msg : Type := {
  bm_granularity : Z;
  bm_sampling : Z;
  bm_project : option sparse_matrix;
  bm_files : list sparse_matrix;
  bm_people : list sparse_matrix;
  bm_interaction : option csr;
  bm_ownership : list (list (Z * Z));               (* FilesOwnership[i].Value map[int32]int32 *)
  bm_tick_size : Z
}.

Definition project_name : list Z := [112; 114; 111; 106; 101; 99; 116].   (* "project" *)

Definition wrap_pair (kv : Z * Z) : Z * Z := (wrap_i32 (fst kv), wrap_i32 (snd kv)).

Definition ownership_of (r : burndown_result) (nm : list Z) : list (Z * Z) :=
  match mfind name_compare nm (bd_ownership r) with Some o => o | None => [] end.

(* the People loop: a nil element is left for an empty history, names are read by position *)
Fixpoint encode_people (ps : list (list (list Z))) (names : list (list Z)) : res (list (option sparse_matrix)) :=
  match ps with
  | [] => Ok []
  | p :: ps' =>
      bind (if is_nil p then Ok None
            else match names with
                 | [] => Panic                         (* reversedPeopleDict[key] out of range *)
                 | nm :: _ => bind (to_sparse p nm) (fun s => Ok (Some s))
                 end)
           (fun s => bind (encode_people ps' (tl names)) (fun ss => Ok (s :: ss)))
  end.

(* proto.Marshal refuses a nil element in a repeated message field *)
Fixpoint no_nil {A : Type} (l : list (option A)) : res (list A) :=
  match l with
  | [] => Ok []
  | None :: _ => Fail
  | Some a :: t => bind (no_nil t) (fun t' => Ok (a :: t'))
  end.

(* BurndownAnalysis.serializeBinary up to (excluding) proto.Marshal *)
Definition encode_burndown (r : burndown_result) : res burndown_msg :=
  bind (if is_nil (bd_global r) then Ok None
        else bind (to_sparse (bd_global r) project_name) (fun s => Ok (Some s))) (fun project =>
  bind (mapM (fun f => to_sparse (snd f) (fst f)) (bd_files r)) (fun files =>
  let own := map (fun f => map_of_list Z.compare (map wrap_pair (ownership_of r (fst f)))) (bd_files r) in
  bind (encode_people (bd_people r) (bd_names r)) (fun people =>
  bind (match bd_matrix r with
        | None => Ok None
        | Some m => bind (dense_to_csr m) (fun c => Ok (Some c))
        end) (fun inter =>
  bind (no_nil people) (fun people' =>
  Ok {| bm_granularity := wrap_i32 (bd_granularity r);
        bm_sampling := wrap_i32 (bd_sampling r);
        bm_project := project;
        bm_files := files;
        bm_people := people';
        bm_interaction := inter;
        bm_ownership := own;
        bm_tick_size := bd_tick_size r |}))))).

(* BurndownAnalysis.Deserialize after proto.Unmarshal *)
Definition decode_burndown (m : burndown_msg) : res burndown_result :=
  bind (match bm_project m with None => Panic | Some s => of_sparse s end) (fun global =>
  bind (mapM of_sparse (bm_files m)) (fun files =>
  if len (bm_ownership m) <? len (bm_files m) then Panic      (* msg.FilesOwnership[i] *)
  else
  let names := map sm_name (bm_files m) in
  let owns := map (map_of_list Z.compare) (firstn (length (bm_files m)) (bm_ownership m)) in
  bind (mapM of_sparse (bm_people m)) (fun people =>
  bind (match bm_interaction m with
        | None => Ok None
        | Some c => bind (csr_to_dense c) (fun d => Ok (Some d))
        end) (fun matrix =>
  Ok {| bd_global := global;
        bd_files := map_of_list name_compare (combine names files);
        bd_ownership := map_of_list name_compare (combine names owns);
        bd_people := people;
        bd_matrix := matrix;
        bd_names := map sm_name (bm_people m);
        bd_tick_size := bm_tick_size m;
        bd_sampling := bm_sampling m;
        bd_granularity := bm_granularity m |})))).

(* what the round trip is allowed to change: negative history cells become 0 - nothing else *)
Definition clamp_matrix (m : list (list Z)) : list (list Z) := map (map clamp) m.

Definition normalise_burndown (r : burndown_result) : burndown_result :=
  {| bd_global := clamp_matrix (bd_global r);
     bd_files := map (fun f => (fst f, clamp_matrix (snd f))) (bd_files r);
     bd_ownership := bd_ownership r;
     bd_people := map clamp_matrix (bd_people r);
     bd_matrix := bd_matrix r;
     bd_names := bd_names r;
     bd_tick_size := bd_tick_size r;
     bd_sampling := bd_sampling r;
     bd_granularity := bd_granularity r |}.

(* what the round trip really computes on every well-shaped result (see BurndownProofs):
   besides clamping, names beyond the people histories are cut and every file gets an ownership table *)
Definition image_burndown (r : burndown_result) : burndown_result :=
  {| bd_global := clamp_matrix (bd_global r);
     bd_files := map (fun f => (fst f, clamp_matrix (snd f))) (bd_files r);
     bd_ownership := map (fun f => (fst f, ownership_of r (fst f))) (bd_files r);
     bd_people := map clamp_matrix (bd_people r);
     bd_matrix := bd_matrix r;
     bd_names := firstn (length (bd_people r)) (bd_names r);
     bd_tick_size := bd_tick_size r;
     bd_sampling := bd_sampling r;
     bd_granularity := bd_granularity r |}.

(* ---- domain predicates (boolean, so that the replay driver computes them) *)
Definition dim_ok {A : Type} (l : list A) : bool := len l <? 2147483648.

(* non-empty, all rows as long as the first (hence as the last), dimensions fit int32 *)
Definition rect (m : list (list Z)) : bool :=
  match m with
  | [] => false
  | r0 :: t => forallb (fun r => len r =? len r0) t && dim_ok m && dim_ok r0
  end.

Definition cells_u32 (m : list (list Z)) : bool := forallb (forallb (fun v => v <? 4294967296)) m.

Definition pair_i32 (kv : Z * Z) : bool := in_i32 (fst kv) && in_i32 (snd kv).

(* shape of the value, including "the association lists are canonical maps" *)
Definition shape_burndown (r : burndown_result) : bool :=
  rect (bd_global r)
  && forallb (fun f => rect (snd f)) (bd_files r)
  && forallb rect (bd_people r)
  && match bd_matrix r with None => true | Some m => rect m end
  && msortedb name_compare (bd_files r)
  && msortedb name_compare (bd_ownership r)
  && forallb (fun o => msortedb Z.compare (snd o)) (bd_ownership r)
  && forallb (fun o => match mfind name_compare (fst o) (bd_files r) with Some _ => true | None => false end)
             (bd_ownership r)                          (* ownership tables belong to files with a history *)
  && (length (bd_people r) <=? length (bd_names r))%nat.

(* the two side conditions under which nothing but clamping happens.  BurndownAnalysis.Finalize
   establishes the first one (since 909b314 a table is made for every file history); the second one
   fails when the people dictionary was loaded from a file (PeopleNumber = len(dict) - 1): known finding C17-K1 *)
Definition aligned_burndown (r : burndown_result) : bool :=
  names_eqb (map fst (bd_files r)) (map fst (bd_ownership r))
  && (length (bd_names r) =? length (bd_people r))%nat.

Definition rectangular_burndown (r : burndown_result) : bool := shape_burndown r && aligned_burndown r.

Definition in_range_burndown (r : burndown_result) : bool :=
  cells_u32 (bd_global r)
  && forallb (fun f => cells_u32 (snd f)) (bd_files r)
  && forallb cells_u32 (bd_people r)
  && forallb (fun o => forallb pair_i32 (snd o)) (bd_ownership r)
  && in_i32 (bd_sampling r) && in_i32 (bd_granularity r).

(* ================================================================ DevsResult *)
Record line_stats : Type := { ls_added : Z; ls_removed : Z; ls_changed : Z }.

Record dev_tick : Type := {
  dt_commits : Z;
  dt_stats : line_stats;
  dt_langs : list (list Z * line_stats)             (* Languages map[string]LineStats *)
}.

Record devs_result : Type := {
  dv_ticks : list (Z * list (Z * dev_tick));        (* Ticks map[int]map[int]*DevTick *)
  dv_names : list (list Z);                         (* reversedPeopleDict *)
  dv_tick_size : Z
}.

(* pb.DevsAnalysisResults: same shape, int32 keys and counters *)
Record devs_msg : Type := {
  dm_ticks : list (Z * list (Z * dev_tick));
  dm_index : list (list Z);
  dm_tick_size : Z
}.

Definition wrap_stats (s : line_stats) : line_stats :=
  {| ls_added := wrap_i32 (ls_added s); ls_removed := wrap_i32 (ls_removed s); ls_changed := wrap_i32 (ls_changed s) |}.

Definition wrap_dev_tick (d : dev_tick) : dev_tick :=
  {| dt_commits := wrap_i32 (dt_commits d);
     dt_stats := wrap_stats (dt_stats d);
     dt_langs := map_of_list name_compare (map (fun l => (fst l, wrap_stats (snd l))) (dt_langs d)) |}.

Definition dev_to_pb (dev : Z) : Z := wrap_i32 (if dev =? author_missing then -1 else dev).
Definition dev_of_pb (dev : Z) : Z := if dev =? -1 then author_missing else dev.

Definition encode_devs (r : devs_result) : devs_msg :=
  {| dm_ticks := map_of_list Z.compare (map (fun t =>
        (wrap_i32 (fst t),
         map_of_list Z.compare (map (fun d => (dev_to_pb (fst d), wrap_dev_tick (snd d))) (snd t))))
        (dv_ticks r));
     dm_index := dv_names r;
     dm_tick_size := dv_tick_size r |}.

Definition unwrap_dev_tick (d : dev_tick) : dev_tick :=
  {| dt_commits := dt_commits d; dt_stats := dt_stats d;
     dt_langs := map_of_list name_compare (dt_langs d) |}.

Definition decode_devs (m : devs_msg) : devs_result :=
  {| dv_ticks := map_of_list Z.compare (map (fun t =>
        (fst t, map_of_list Z.compare (map (fun d => (dev_of_pb (fst d), unwrap_dev_tick (snd d))) (snd t))))
        (dm_ticks m));
     dv_names := dm_index m;
     dv_tick_size := dm_tick_size m |}.

Definition stats_i32 (s : line_stats) : bool := in_i32 (ls_added s) && in_i32 (ls_removed s) && in_i32 (ls_changed s).

Definition dev_tick_ok (d : dev_tick) : bool :=
  in_i32 (dt_commits d) && stats_i32 (dt_stats d)
  && forallb (fun l => stats_i32 (snd l)) (dt_langs d)
  && msortedb name_compare (dt_langs d).

(* developer keys are indexes >= 0 (AuthorMissing included) - a key -1 would come back as AuthorMissing *)
Definition dev_key_ok (d : Z) : bool := (0 <=? d) && (d <? 2147483648).

Definition shape_devs (r : devs_result) : bool :=
  msortedb Z.compare (dv_ticks r)
  && forallb (fun t => msortedb Z.compare (snd t)
                       && forallb (fun d => msortedb name_compare (dt_langs (snd d))) (snd t)) (dv_ticks r).

Definition in_range_devs (r : devs_result) : bool :=
  forallb (fun t => in_i32 (fst t)
                    && forallb (fun d => dev_key_ok (fst d) && dev_tick_ok (snd d)) (snd t)) (dv_ticks r).

(* ================================================================ CouplesResult *)
Record couples_result : Type := {
  cp_people_matrix : list (list (Z * Z));           (* PeopleMatrix []map[int]int64 *)
  cp_people_files : list (list Z);                  (* PeopleFiles  [][]int *)
  cp_files_matrix : list (list (Z * Z));            (* FilesMatrix  []map[int]int64 *)
  cp_files_lines : list Z;                          (* FilesLines   []int *)
  cp_files : list (list Z);                         (* Files *)
  cp_names : list (list Z)                          (* reversedPeopleDict *)
}.

Record couples_msg : Type := {
  cm_files_index : list (list Z);
  cm_files_matrix : csr;
  cm_people_index : list (list Z);
  cm_people_matrix : csr;
  cm_people_files : list (list Z);                  (* PeopleFiles[i].Files []int32 *)
  cm_files_lines : list Z                           (* []int32 *)
}.

Definition encode_couples (r : couples_result) : res couples_msg :=
  if (length (cp_people_files r) <? length (cp_names r))%nat then Panic     (* result.PeopleFiles[key] *)
  else Ok {| cm_files_index := cp_files r;
             cm_files_matrix := map_to_csr (cp_files_matrix r);
             cm_people_index := cp_names r;
             cm_people_matrix := map_to_csr (cp_people_matrix r);
             cm_people_files := map (map wrap_i32) (firstn (length (cp_names r)) (cp_people_files r));
             cm_files_lines := map wrap_i32 (cp_files_lines r) |}.

Definition decode_couples (m : couples_msg) : res couples_result :=
  if (csr_rows (cm_files_matrix m) <? 0) || (csr_rows (cm_people_matrix m) <? 0) then Panic     (* make *)
  else if (length (cm_people_index m) <? length (cm_people_files m))%nat then Panic             (* result.PeopleFiles[i] *)
  else if negb (length (cm_files_index m) =? length (cm_files_lines m))%nat then Fail           (* integrity error *)
  else
  bind (csr_to_maps (cm_files_matrix m)) (fun fm =>
  bind (csr_to_maps (cm_people_matrix m)) (fun pm =>
  Ok {| cp_people_matrix := pm;
        cp_people_files := cm_people_files m
            ++ repeat [] (length (cm_people_index m) - length (cm_people_files m));
        cp_files_matrix := fm;
        cp_files_lines := cm_files_lines m;
        cp_files := cm_files_index m;
        cp_names := cm_people_index m |})).

(* the documented omission: PeopleFiles is written for the developers that have a name only.
   CouplesAnalysis.Finalize makes PeopleNumber+1 rows, the last one for the unmatched-author
   pseudo-developer; with a generated people dictionary reversedPeopleDict has PeopleNumber names. *)
Definition normalise_couples (r : couples_result) : couples_result :=
  {| cp_people_matrix := cp_people_matrix r;
     cp_people_files := firstn (length (cp_names r)) (cp_people_files r);
     cp_files_matrix := cp_files_matrix r;
     cp_files_lines := cp_files_lines r;
     cp_files := cp_files r;
     cp_names := cp_names r |}.

Definition shape_couples (r : couples_result) : bool :=
  (length (cp_names r) <=? length (cp_people_files r))%nat
  && (length (cp_files r) =? length (cp_files_lines r))%nat
  && forallb (msortedb Z.compare) (cp_files_matrix r)
  && forallb (msortedb Z.compare) (cp_people_matrix r).

Definition in_range_couples (r : couples_result) : bool :=
  forallb (forallb (fun e => in_i32 (fst e))) (cp_files_matrix r)
  && forallb (forallb (fun e => in_i32 (fst e))) (cp_people_matrix r)
  && forallb (forallb in_i32) (firstn (length (cp_names r)) (cp_people_files r))
  && forallb in_i32 (cp_files_lines r)
  && dim_ok (cp_files_matrix r) && dim_ok (cp_people_matrix r).

(* ================================================================ through proto.Marshal / Unmarshal *)
Section Wire.
  Context {M B : Type}.
  Variable marshal : M -> B.
  Variable unmarshal : B -> option M.

  Definition serialize_with {R : Type} (encode : R -> res M) (r : R) : res B :=
    bind (encode r) (fun m => Ok (marshal m)).

  Definition deserialize_with {R : Type} (decode : M -> res R) (b : B) : res R :=
    match unmarshal b with None => Fail | Some m => decode m end.
End Wire.
