// Harness for C20: drives the real plumbing.TreeDiff and plumbing.BlobCache on synthetic in-memory
// repositories in planner-like and deliberately wrong replay orders and records, per Consume, the
// reported changes, the returned blob cache, the errors and the per-branch memory of both items,
// together with everything the Gallina model takes as input (flattened trees listed by an
// independent walk, the object store, the raw output of go-git's DiffTree, the verdicts of enry /
// the name regexp on every path that occurs).
package main

import (
	"fmt"
	"io"
	"os"
	"path"
	"regexp"
	"sort"
	"strings"

	"github.com/src-d/enry/v2"
	git "gopkg.in/src-d/go-git.v4"
	"gopkg.in/src-d/go-git.v4/config"
	"gopkg.in/src-d/go-git.v4/plumbing"
	"gopkg.in/src-d/go-git.v4/plumbing/filemode"
	"gopkg.in/src-d/go-git.v4/plumbing/object"
	"gopkg.in/src-d/go-git.v4/storage/memory"
	api "gopkg.in/src-d/hercules.v10/verifapi/c20"
	. "verifharness/lib"
	"verifharness/synth"
)

// ---------------------------------------------------------------------------------------------
// case description (the input part of a trace line)

type cfgT struct {
	blacklist   bool     // TreeDiff.EnableBlacklist
	skip        []string // TreeDiff.BlacklistedPrefixes
	regex       *string  // TreeDiff.FilteredRegexes (nil: fact absent)
	langs       []string // TreeDiff.LanguagesDetection (nil: fact absent)
	failMissing bool     // BlobCache.FailOnMissingSubmodules
	// decoy (only with blacklist): the TreeDiff item is first configured with THIS list of prefixes and initialised,
	// then configured with the real one and initialised again - re-use of an instance; nothing of the first
	// configuration may survive (the model knows only the real one)
	decoy []string
}

type fileT struct {
	path string
	mode int // numeric git mode; 0160000 = submodule entry (data seeds the fake hash)
	data []byte
	drop bool  // the blob is removed from the object store after the repository has been built
	gen  *genT // big contents are written into the case line as this recipe instead of byte by byte (data = gen.expand())
}

// genT is the recipe of a big blob: size bytes of text (style 0: 32-byte numbered lines) or of non-zero
// pseudo-random bytes (style 1), byte i depending on (seed, i) only - two recipes with the same seed share the
// prefix of the shorter one -, then single bytes overwritten (NUL bytes, the place where two versions differ).
type genT struct {
	size, seed, style int
	patches           [][2]int // (offset, value), applied in order, ignored beyond size
}

func (g genT) expand() []byte {
	b := make([]byte, g.size)
	pow := [7]int{1000000, 100000, 10000, 1000, 100, 10, 1}
	for i := range b {
		if g.style == 0 {
			line, col := i/32, i%32
			switch {
			case col == 31:
				b[i] = '\n'
			case col < 7:
				b[i] = byte('0' + (line/pow[col])%10)
			case col == 7:
				b[i] = ' '
			default:
				b[i] = byte('a' + (g.seed+line*7+col*3)%26)
			}
		} else {
			x := uint32(i)*2654435761 ^ uint32(g.seed)*40503
			x ^= x >> 15
			x *= 2246822519
			x ^= x >> 13
			b[i] = 1 + byte(x%255)
		}
	}
	for _, p := range g.patches {
		if p[0] >= 0 && p[0] < len(b) {
			b[p[0]] = byte(p[1])
		}
	}
	return b
}

func (g genT) sx() Sx {
	l := []Sx{I(g.size), I(g.seed), I(g.style)}
	for _, p := range g.patches {
		l = append(l, L(I(p[0]), I(p[1])))
	}
	return T("g", l...)
}

func genFromSx(s Sx) *genT {
	a := s.Args()
	g := &genT{size: a[0].Int(), seed: a[1].Int(), style: a[2].Int()}
	for _, p := range a[3:] {
		g.patches = append(g.patches, [2]int{p.List[0].Int(), p.List[1].Int()})
	}
	return g
}

// genFile makes a file whose contents come from a recipe.
func genFile(path string, mode int, g genT) fileT {
	return fileT{path: path, mode: mode, data: g.expand(), gen: &g}
}

// bigLimit: contents longer than this are written into the observations as (big <length> <checksum> <checksum2>);
// shorter ones byte by byte.
const bigLimit = 600

func checksum2(b []byte) int {
	s := 7
	for _, x := range b {
		s = (s*257 + int(x)*7 + 1) % 2147483629
	}
	return s
}

func dataSx(b []byte) Sx {
	if len(b) > bigLimit {
		return T("big", I(len(b)), I(checksum(b)), I(checksum2(b)))
	}
	return Bytes(b)
}

type commitT struct {
	parents []int
	files   []fileT
}

type opT struct {
	kind    string // consume | fork | init
	b, c, n int
}

type caseT struct {
	kind    string
	cfg     cfgT
	commits []commitT
	ops     []opT
}

func strSx(s string) Sx { return Bytes([]byte(s)) }

func sxStr(s Sx) string {
	b := make([]byte, len(s.List))
	for i, x := range s.List {
		b[i] = byte(x.Int())
	}
	return string(b)
}

func (c cfgT) sx() Sx {
	skip := make([]Sx, len(c.skip))
	for i, s := range c.skip {
		skip[i] = strSx(s)
	}
	re := T("regex")
	if c.regex != nil {
		re = T("regex", strSx(*c.regex))
	}
	la := T("langs", A("unset"))
	if c.langs != nil {
		l := []Sx{A("set")}
		for _, s := range c.langs {
			l = append(l, strSx(s))
		}
		la = T("langs", l...)
	}
	fields := []Sx{T("blacklist", B(c.blacklist)), T("skip", skip...), re, la, T("failmissing", B(c.failMissing))}
	if c.decoy != nil {
		d := make([]Sx, len(c.decoy))
		for i, s := range c.decoy {
			d[i] = strSx(s)
		}
		fields = append(fields, T("decoy", d...))
	}
	return T("cfg", fields...)
}

func cfgFromSx(s Sx) cfgT {
	var c cfgT
	f, _ := s.Field("blacklist")
	c.blacklist = f.Args()[0].Int() != 0
	f, _ = s.Field("skip")
	c.skip = []string{}
	for _, x := range f.Args() {
		c.skip = append(c.skip, sxStr(x))
	}
	f, _ = s.Field("regex")
	if len(f.Args()) > 0 {
		r := sxStr(f.Args()[0])
		c.regex = &r
	}
	f, _ = s.Field("langs")
	if f.Args()[0].Atom == "set" {
		c.langs = []string{}
		for _, x := range f.Args()[1:] {
			c.langs = append(c.langs, sxStr(x))
		}
	}
	f, _ = s.Field("failmissing")
	c.failMissing = f.Args()[0].Int() != 0
	if f, ok := s.Field("decoy"); ok {
		c.decoy = []string{}
		for _, x := range f.Args() {
			c.decoy = append(c.decoy, sxStr(x))
		}
	}
	return c
}

func (c commitT) sx() Sx {
	fs := make([]Sx, len(c.files))
	for i, f := range c.files {
		if f.gen != nil {
			fs[i] = T("f", A(f.path), I(f.mode), B(f.drop), f.gen.sx())
		} else {
			fs[i] = T("f", A(f.path), I(f.mode), B(f.drop), Bytes(f.data))
		}
	}
	return T("c", T("parents", Ints(c.parents).List...), T("files", fs...))
}

func commitFromSx(s Sx) commitT {
	var c commitT
	f, _ := s.Field("parents")
	for _, x := range f.Args() {
		c.parents = append(c.parents, x.Int())
	}
	f, _ = s.Field("files")
	for _, x := range f.Args() {
		a := x.Args()
		if a[3].Tag() == "g" {
			f := genFile(a[0].Atom, a[1].Int(), *genFromSx(a[3]))
			f.drop = a[2].Int() != 0
			c.files = append(c.files, f)
			continue
		}
		var data []byte
		for _, b := range a[3].List {
			data = append(data, byte(b.Int()))
		}
		c.files = append(c.files, fileT{path: a[0].Atom, mode: a[1].Int(), drop: a[2].Int() != 0, data: data})
	}
	return c
}

func (o opT) sx() Sx {
	switch o.kind {
	case "consume":
		return T("consume", I(o.b), I(o.c))
	case "fork":
		return T("fork", I(o.b), I(o.n))
	default:
		return T(o.kind, I(o.b))
	}
}

func opFromSx(s Sx) opT {
	o := opT{kind: s.Tag()}
	a := s.Args()
	o.b = a[0].Int()
	if len(a) > 1 {
		if o.kind == "consume" {
			o.c = a[1].Int()
		} else {
			o.n = a[1].Int()
		}
	}
	return o
}

// ---------------------------------------------------------------------------------------------
// running one case

const modeSub = 0160000

type runner struct {
	repo    *git.Repository
	st      *memory.Storage
	commits []*object.Commit
	ids     map[plumbing.Hash]int
	hashes  []plumbing.Hash
}

func (r *runner) id(h plumbing.Hash) int {
	if h == plumbing.ZeroHash {
		return 0
	}
	if i, ok := r.ids[h]; ok {
		return i
	}
	i := len(r.ids) + 1
	r.ids[h] = i
	r.hashes = append(r.hashes, h)
	return i
}

type leaf struct {
	path string
	hash plumbing.Hash
	mode filemode.FileMode
}

// walk lists the leaves of a tree (everything that is not a directory) in tree-entry order, depth first.
// It reads the tree objects directly and shares no code with object.Tree.Files / object.DiffTree.
func (r *runner) walk(h plumbing.Hash, prefix string, out *[]leaf) {
	t, err := r.repo.TreeObject(h)
	if err != nil {
		panic(err)
	}
	for _, e := range t.Entries {
		if e.Mode == filemode.Dir {
			r.walk(e.Hash, prefix+e.Name+"/", out)
		} else {
			*out = append(*out, leaf{prefix + e.Name, e.Hash, e.Mode})
		}
	}
}

func (r *runner) entrySx(name string, h plumbing.Hash, m filemode.FileMode) Sx {
	return T("e", A(name), I(r.id(h)), I(int(m)))
}

func (r *runner) changeEntrySx(e object.ChangeEntry) Sx {
	if e.Tree == nil && e.Name == "" && e.TreeEntry.Hash == plumbing.ZeroHash && e.TreeEntry.Mode == 0 {
		return A("none")
	}
	if e.Name == "" {
		return T("e", A("<empty>"), I(r.id(e.TreeEntry.Hash)), I(int(e.TreeEntry.Mode)))
	}
	return r.entrySx(e.Name, e.TreeEntry.Hash, e.TreeEntry.Mode)
}

func (r *runner) changesSx(tag string, cs object.Changes) Sx {
	l := make([]Sx, len(cs))
	for i, c := range cs {
		l[i] = T("ch", r.changeEntrySx(c.From), r.changeEntrySx(c.To))
	}
	return T(tag, l...)
}

func checksum(b []byte) int {
	s := 0
	for i, x := range b {
		s = (s*31 + int(x) + i) % 1000003
	}
	return s
}

// langVerdict repeats checkLanguage without the "all" shortcut, calling enry directly.
func langVerdict(langs map[string]bool, repo *git.Repository, name string, h plumbing.Hash) bool {
	blob, err := repo.BlobObject(h)
	if err != nil {
		return false
	}
	rd, err := blob.Reader()
	if err != nil {
		return false
	}
	defer rd.Close()
	buf := make([]byte, 1024)
	n, err := io.ReadFull(rd, buf)
	if err != nil && err != io.EOF && err != io.ErrUnexpectedEOF {
		return false
	}
	return langs[strings.ToLower(enry.GetLanguage(path.Base(name), buf[:n]))]
}

type branchT struct {
	td *api.TreeDiff
	bc *api.BlobCache
}

var parentErrRe = regexp.MustCompile(`^[0-9a-f]{40} > [0-9a-f]{40}$`)

func runCase(cs caseT) (obs []Sx, nontrivial bool, flip bool) {
	specs := make([]synth.CommitSpec, len(cs.commits))
	for i, c := range cs.commits {
		sp := synth.CommitSpec{Parents: c.parents, AuthorName: "u", AuthorEmail: "u@x"}
		for _, f := range c.files {
			fs := synth.FileSpec{Path: f.path, Data: f.data}
			if f.mode == modeSub {
				fs.Submodule = true
			} else {
				fs.Mode = filemode.FileMode(f.mode)
			}
			sp.Files = append(sp.Files, fs)
		}
		specs[i] = sp
	}
	repo, commits := synth.BuildRepo(specs)
	r := &runner{repo: repo, st: repo.Storer.(*memory.Storage), commits: commits, ids: map[plumbing.Hash]int{}}
	// remove the blobs that the case wants to be missing
	for _, c := range cs.commits {
		for _, f := range c.files {
			if f.drop && f.mode != modeSub {
				h := plumbing.ComputeHash(plumbing.BlobObject, f.data)
				delete(r.st.Objects, h)
				delete(r.st.Blobs, h)
			}
		}
	}
	// configure the items exactly as the pipeline does: Configure(facts), then Initialize(repository)
	facts := map[string]interface{}{}
	facts[api.ConfigTreeDiffEnableBlacklist] = cs.cfg.blacklist
	facts[api.ConfigTreeDiffBlacklistedPrefixes] = cs.cfg.skip
	if cs.cfg.regex != nil {
		facts[api.ConfigTreeDiffFilterRegexp] = *cs.cfg.regex
	}
	if cs.cfg.langs != nil {
		facts[api.ConfigTreeDiffLanguages] = cs.cfg.langs
	}
	facts[api.ConfigBlobCacheFailOnMissingSubmodules] = cs.cfg.failMissing
	td0 := &api.TreeDiff{}
	bc0 := &api.BlobCache{}
	if cs.cfg.decoy != nil && cs.cfg.blacklist {
		if err := td0.Configure(map[string]interface{}{api.ConfigTreeDiffEnableBlacklist: true,
			api.ConfigTreeDiffBlacklistedPrefixes: cs.cfg.decoy}); err != nil {
			panic(err)
		}
		td0.Initialize(repo)
	}
	if err := td0.Configure(facts); err != nil {
		panic(err)
	}
	if err := bc0.Configure(facts); err != nil {
		panic(err)
	}
	td0.Initialize(repo)
	bc0.Initialize(repo)

	// ---- the model's inputs
	chash := make([]Sx, len(commits))
	trees := make([]Sx, len(commits))
	mods := make([]Sx, len(commits))
	leaves := make([][]leaf, len(commits))
	pathsSeen := map[string]bool{}
	type ph struct {
		p string
		h plumbing.Hash
	}
	phSeen := map[ph]bool{}
	var phList []ph
	var blobHashes []plumbing.Hash
	blobSeen := map[plumbing.Hash]bool{}
	for i, c := range commits {
		chash[i] = I(r.id(c.Hash))
		var ls []leaf
		r.walk(c.TreeHash, "", &ls)
		leaves[i] = ls
		es := make([]Sx, len(ls))
		for j, l := range ls {
			es[j] = r.entrySx(l.path, l.hash, l.mode)
			pathsSeen[l.path] = true
			if !phSeen[ph{l.path, l.hash}] {
				phSeen[ph{l.path, l.hash}] = true
				phList = append(phList, ph{l.path, l.hash})
			}
			if !blobSeen[l.hash] {
				blobSeen[l.hash] = true
				blobHashes = append(blobHashes, l.hash)
			}
		}
		// self-check of the walk against the specification of the commit
		want := map[string]bool{}
		for _, f := range cs.commits[i].files {
			want[f.path] = true
		}
		if len(want) != len(ls) {
			panic(fmt.Sprintf("walk lists %d leaves, the specification has %d", len(ls), len(want)))
		}
		trees[i] = T("t", append([]Sx{I(r.id(c.TreeHash))}, es...)...)
		// .gitmodules of this commit as BlobCache.getBlob reads it
		mods[i] = A("err")
		if file, err := c.File(".gitmodules"); err == nil {
			if contents, err := file.Contents(); err == nil {
				m := config.NewModules()
				if err := m.Unmarshal([]byte(contents)); err == nil {
					var names []string
					for k := range m.Submodules {
						names = append(names, k)
					}
					sort.Strings(names)
					l := make([]Sx, len(names))
					for k, n := range names {
						l[k] = strSx(n)
					}
					mods[i] = L(l...)
				}
			}
		}
	}
	var blobs []Sx
	for _, h := range blobHashes {
		if b, err := repo.BlobObject(h); err == nil {
			rd, _ := b.Reader()
			data, _ := io.ReadAll(rd)
			rd.Close()
			blobs = append(blobs, L(I(r.id(h)), dataSx(data)))
		}
	}
	var paths []string
	for p := range pathsSeen {
		paths = append(paths, p)
	}
	sort.Strings(paths)
	vendor := []Sx{B(enry.IsVendor(""))}
	name := []Sx{B(td0.NameFilter != nil), B(td0.NameFilter != nil && td0.NameFilter.MatchString(""))}
	// the prefixes as CONFIGURED (not as the item keeps them: it may reorder or index them)
	var cfgSkip []string
	if cs.cfg.blacklist {
		cfgSkip = cs.cfg.skip
	}
	for _, p := range paths {
		if len(cfgSkip) > 0 { // filterDiffs does not consult enry.IsVendor otherwise (and it is slow)
			vendor = append(vendor, L(A(p), B(enry.IsVendor(p))))
		}
		if td0.NameFilter != nil {
			name = append(name, L(A(p), B(td0.NameFilter.MatchString(p))))
		}
	}
	lang := []Sx{B(td0.Languages["all"])}
	verdicts := map[ph]bool{}
	if !td0.Languages["all"] { // the table is not consulted otherwise
		for _, x := range phList {
			v := langVerdict(td0.Languages, repo, x.p, x.h)
			verdicts[x] = v
			lang = append(lang, L(A(x.p), I(r.id(x.h)), B(v)))
		}
	}
	// does the language verdict of some path differ between a commit and one of its parents?
	verdict := func(l leaf) bool { return td0.Languages["all"] || verdicts[ph{l.path, l.hash}] }
	for i := range commits {
		for _, p := range cs.commits[i].parents {
			if p < 0 || p >= len(commits) {
				continue
			}
			before := map[string]bool{}
			for _, l := range leaves[p] {
				before[l.path] = verdict(l)
			}
			for _, l := range leaves[i] {
				if v, ok := before[l.path]; ok && v != verdict(l) {
					flip = true
				}
			}
		}
	}
	fskip := make([]Sx, len(cfgSkip))
	for i, s := range cfgSkip {
		fskip[i] = strSx(s)
	}
	obs = append(obs, T("chash", chash...), T("trees", trees...), T("mods", mods...), T("blobs", blobs...),
		T("fskip", fskip...), T("vendor", vendor...), T("name", name...), T("lang", lang...),
		T("failmissing", B(bc0.FailOnMissingSubmodules)))

	// ---- the replay
	treeByHash := map[plumbing.Hash]*object.Tree{}
	for _, c := range commits {
		if t, err := c.Tree(); err == nil {
			treeByHash[t.Hash] = t
		}
	}
	branches := []branchT{{td0, bc0}}
	// the per-branch memory of every branch after a step; a branch whose memory reads exactly as after
	// the previous step is not repeated (the driver then requires the model's branch to be unchanged too)
	// With more than 64 branches a step looks at the branch it touched, at the new branches, at a window of 16
	// further branches that moves on with every step, and the last step looks at all of them.
	var lastSnap []string
	stepNo := 0
	snapshot := func(touched int, last bool) Sx {
		l := []Sx{I(len(branches))}
		stepNo++
		nb := len(branches)
		for i, b := range branches {
			if nb > 64 && !last && i != touched && i < len(lastSnap) && (i-stepNo*16%nb+nb)%nb >= 16 {
				continue
			}
			pc, has, pt := api.TreeDiffState(b.td)
			st := api.BlobCacheState(b.bc)
			var keys []plumbing.Hash
			for k := range st {
				keys = append(keys, k)
			}
			sort.Slice(keys, func(x, y int) bool { return r.id(keys[x]) < r.id(keys[y]) })
			ks := make([]Sx, len(keys))
			for j, k := range keys {
				ks[j] = L(I(r.id(k)), I(r.id(st[k].Hash)), I(len(st[k].Data)), I(checksum(st[k].Data)))
			}
			s := T("b", I(i), I(r.id(pc)), B(has), I(r.id(pt)), L(ks...))
			str := s.String()
			if i < len(lastSnap) && lastSnap[i] == str {
				continue
			}
			if i < len(lastSnap) {
				lastSnap[i] = str
			} else {
				lastSnap = append(lastSnap, str)
			}
			l = append(l, s)
		}
		return T("all", l...)
	}
	var steps []Sx
	for oi, o := range cs.ops {
		lastStep := oi == len(cs.ops)-1
		if o.b < 0 || o.b >= len(branches) || (o.kind == "consume" && (o.c < 0 || o.c >= len(commits))) {
			steps = append(steps, T("s", T("skip")))
			continue
		}
		br := branches[o.b]
		switch o.kind {
		case "init":
			br.td.Initialize(repo)
			br.bc.Initialize(repo)
			steps = append(steps, T("s", T("init"), snapshot(o.b, lastStep)))
		case "fork":
			tds := br.td.Fork(o.n)
			bcs := br.bc.Fork(o.n)
			for i := range tds {
				branches = append(branches, branchT{tds[i].(*api.TreeDiff), bcs[i].(*api.BlobCache)})
			}
			steps = append(steps, T("s", T("fork"), snapshot(o.b, lastStep)))
		case "consume":
			commit := commits[o.c]
			pc, has, pt := api.TreeDiffState(br.td)
			pre := T("pre", I(r.id(pc)), B(has), I(r.id(pt)))
			// what go-git's DiffTree says about the step (the model takes it as an input)
			dt := T("dt")
			if has {
				cur, err := commit.Tree()
				if err != nil {
					panic(err)
				}
				raw, err := object.DiffTree(treeByHash[pt], cur)
				if err != nil {
					panic(err)
				}
				dt = r.changesSx("dt", raw)
			}
			deps := map[string]interface{}{api.DependencyCommit: commit, api.DependencyIndex: 0, api.DependencyIsMerge: len(commit.ParentHashes) > 1}
			var res map[string]interface{}
			var err error
			msg, panicked := Catch(func() { res, err = br.td.Consume(deps) })
			_ = msg
			fields := []Sx{T("consume"), pre, dt}
			switch {
			case panicked:
				fields = append(fields, T("td", A("panic")))
			case err != nil && parentErrRe.MatchString(err.Error()):
				fields = append(fields, T("td", A("errparent"), B(res == nil)))
			case err != nil:
				fields = append(fields, T("td", A("errother"), B(res == nil)))
			default:
				changes := res[api.DependencyTreeChanges].(object.Changes)
				fields = append(fields, T("td", A("ok")), r.changesSx("changes", changes))
				if has && len(changes) > 0 {
					nontrivial = true
				}
				deps[api.DependencyTreeChanges] = changes
				var bres map[string]interface{}
				var berr error
				bmsg, bpanicked := Catch(func() { bres, berr = br.bc.Consume(deps) })
				if bpanicked && os.Getenv("C20_DEBUG") != "" {
					fmt.Println("BC PANIC", bmsg)
				}
				switch {
				case bpanicked:
					fields = append(fields, T("bc", A("panic")))
				case berr != nil:
					fields = append(fields, T("bc", A("err"), B(bres == nil)))
				default:
					cache := bres[api.DependencyBlobCache].(map[plumbing.Hash]*api.CachedBlob)
					var keys []plumbing.Hash
					for k := range cache {
						keys = append(keys, k)
					}
					sort.Slice(keys, func(x, y int) bool { return r.id(keys[x]) < r.id(keys[y]) })
					ks := make([]Sx, len(keys))
					for j, k := range keys {
						cb := cache[k]
						ks[j] = L(I(r.id(k)), I(r.id(cb.Hash)), I64(cb.Size), dataSx(cb.Data))
					}
					fields = append(fields, T("bc", A("ok")), T("cache", ks...))
				}
			}
			fields = append(fields, snapshot(o.b, lastStep))
			steps = append(steps, T("s", fields...))
		default:
			panic("unknown op " + o.kind)
		}
	}
	obs = append(obs, T("steps", steps...))
	return
}

func emit(c *Config, cs caseT) {
	obs, nt, flip := runCase(cs)
	if flip {
		// the open finding "language-flip" has its own stream; the ordinary streams stay free of it
		cs.kind = "langflip"
	}
	commits := make([]Sx, len(cs.commits))
	for i, x := range cs.commits {
		commits[i] = x.sx()
	}
	ops := make([]Sx, len(cs.ops))
	for i, o := range cs.ops {
		ops[i] = o.sx()
	}
	c.Emit(T("kind", A(cs.kind)), T("nt", B(nt)), cs.cfg.sx(), T("commits", commits...), T("ops", ops...), T("obs", obs...))
}

func caseFromSx(s Sx) caseT {
	var cs caseT
	f, _ := s.Field("kind")
	cs.kind = f.Args()[0].Atom
	f, _ = s.Field("cfg")
	cs.cfg = cfgFromSx(f)
	f, _ = s.Field("commits")
	for _, x := range f.Args() {
		cs.commits = append(cs.commits, commitFromSx(x))
	}
	f, _ = s.Field("ops")
	for _, x := range f.Args() {
		cs.ops = append(cs.ops, opFromSx(x))
	}
	return cs
}

func main() {
	c := Setup()
	defer c.Close()
	// the items log every refused commit and every unreadable blob with a stack trace: silence them
	if null, err := os.OpenFile(os.DevNull, os.O_WRONLY, 0); err == nil {
		os.Stderr = null
	}
	if c.Replay != "" {
		for _, s := range c.ReplayCases() {
			emit(c, caseFromSx(s))
		}
		return
	}
	generate(c)
}
