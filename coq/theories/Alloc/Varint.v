(* C06 - go-git's variable-width integer (utils/binary WriteVariableWidthInt / ReadVariableWidthInt),
   the "offset" varint of git pack files, over lists of bytes (a byte is an [N] below 256).

     func WriteVariableWidthInt(w, n int64):            func ReadVariableWidthInt(r) (int64, error):
       buf := []byte{byte(n & 0x7f)}                       read c (error -> return it)
       n >>= 7                                              v := int64(c & 0x7f)
       for n != 0 {                                         for c&0x80 > 0 {
         n--                                                  v++
         buf = append([]byte{0x80 | byte(n&0x7f)}, buf...)    read c (error -> return it)
         n >>= 7 }                                            v = (v << 7) + int64(c&0x7f) }
       w.Write(buf)                                         return v

   The writer is only ever called with lengths (0 <= n < 2^63); the loop runs at most 9 times for
   those, the model uses fuel 10 and the round-trip theorem carries the range hypothesis.  The reader
   is structural on the byte list; its int64 accumulator is unbounded here (it wraps in Go only for
   hostile inputs of 10 and more bytes, which no prefix of a file written by Serialize contains). *)
From Coq Require Import List NArith Lia.
Import ListNotations.
Open Scope N_scope.

Inductive vres : Type :=
| VOk (v : N) (rest : list N)
| VEof.                                 (* io.EOF / io.ErrUnexpectedEOF from the one-byte read *)

(* the bytes prepended by the loop, most significant first *)
Fixpoint enc (fuel : nat) (m : N) : list N :=
  match fuel with
  | O => []
  | S f => if m =? 0 then [] else enc f ((m - 1) / 128) ++ [128 + (m - 1) mod 128]
  end.

Definition write_varint (n : N) : list N := enc 10 (n / 128) ++ [n mod 128].

(* reader state: None = nothing read yet, Some (v, c) = accumulator and last byte *)
Fixpoint rd (st : option (N * N)) (bytes : list N) {struct bytes} : vres :=
  match st with
  | Some (v, c) =>
      if c <? 128 then VOk v bytes
      else match bytes with
           | [] => VEof
           | b :: rest => rd (Some ((v + 1) * 128 + b mod 128, b)) rest
           end
  | None =>
      match bytes with
      | [] => VEof
      | b :: rest => rd (Some (b mod 128, b)) rest
      end
  end.

(* [rd (Some (v,c)) []] with c < 128 must still answer: the check precedes the read *)
Definition read_varint (bytes : list N) : vres := rd None bytes.

(* ------------------------------------------------------------------------------------------ *)

Lemma rd_last : forall v c rest, c < 128 -> rd (Some (v, c)) rest = VOk v rest.
Proof.
  intros v c rest Hc. destruct rest; cbn [rd]; apply N.ltb_lt in Hc; rewrite Hc; reflexivity.
Qed.

Lemma pow128_succ : forall f, 128 ^ N.of_nat (S f) = 128 * 128 ^ N.of_nat f.
Proof. intros f. rewrite Nat2N.inj_succ, N.pow_succ_r'. reflexivity. Qed.

Lemma enc_zero : forall f, enc f 0 = [].
Proof. destruct f; reflexivity. Qed.

Lemma enc_read : forall f m tail, 0 < m -> m < 128 ^ N.of_nat f ->
  exists c, 128 <= c /\ rd None (enc f m ++ tail) = rd (Some (m - 1, c)) tail.
Proof.
  induction f as [|f IH]; intros m tail Hpos Hlt.
  - cbn in Hlt. lia.
  - cbn [enc]. destruct (m =? 0) eqn:Hm; [apply N.eqb_eq in Hm; lia|].
    rewrite pow128_succ in Hlt.
    set (m' := (m - 1) / 128). set (b := 128 + (m - 1) mod 128).
    assert (Hb : b mod 128 = (m - 1) mod 128).
    { unfold b. replace (128 + (m - 1) mod 128) with ((m - 1) mod 128 + 1 * 128) by lia.
      rewrite N.mod_add by lia. apply N.mod_mod. lia. }
    assert (Hdm : m - 1 = 128 * m' + (m - 1) mod 128) by (apply N.div_mod'; lia).
    assert (Hb128 : 128 <= b) by (unfold b; apply N.le_add_r).
    assert (Hmodlt : (m - 1) mod 128 < 128) by (apply N.mod_lt; lia).
    rewrite <- app_assoc. cbn [app].
    destruct (N.eq_dec m' 0) as [Hz|Hnz].
    + rewrite Hz, enc_zero. cbn [app rd]. exists b. split; [exact Hb128|].
      rewrite Hb. f_equal. f_equal. f_equal. lia.
    + assert (Hm'lt : m' < 128 ^ N.of_nat f).
      { unfold m'. apply N.div_lt_upper_bound; lia. }
      destruct (IH m' (b :: tail) ltac:(lia) Hm'lt) as (c & Hc & Heq).
      rewrite Heq. cbn [rd].
      assert (Hcf : (c <? 128) = false) by (apply N.ltb_ge; exact Hc).
      rewrite Hcf. exists b. split; [exact Hb128|].
      rewrite Hb. f_equal. f_equal. f_equal. lia.
Qed.

Theorem varint_roundtrip : forall n rest, n < 2 ^ 63 ->
  read_varint (write_varint n ++ rest) = VOk n rest.
Proof.
  intros n rest Hn. unfold read_varint, write_varint.
  assert (Hdm : n = 128 * (n / 128) + n mod 128) by (apply N.div_mod'; lia).
  assert (Hmodlt : n mod 128 < 128) by (apply N.mod_lt; lia).
  rewrite <- app_assoc. cbn [app].
  destruct (N.eq_dec (n / 128) 0) as [Hz|Hnz].
  - rewrite Hz, enc_zero. cbn [app rd]. rewrite N.mod_mod by lia.
    rewrite rd_last by exact Hmodlt. f_equal. lia.
  - assert (Hlt : n / 128 < 128 ^ N.of_nat 10).
    { apply N.div_lt_upper_bound; [lia|].
      change (128 ^ N.of_nat 10) with 1180591620717411303424.
      change (2 ^ 63) with 9223372036854775808 in Hn. lia. }
    destruct (enc_read 10 (n / 128) (n mod 128 :: rest) ltac:(lia) Hlt) as (c & Hc & Heq).
    rewrite Heq. cbn [rd].
    assert (Hcf : (c <? 128) = false) by (apply N.ltb_ge; exact Hc).
    rewrite Hcf, N.mod_mod by lia. rewrite rd_last by exact Hmodlt. f_equal. lia.
Qed.

(* every byte the loop prepends carries the continuation bit *)
Lemma enc_cont : forall f m, Forall (fun b => 128 <= b) (enc f m).
Proof.
  induction f as [|f IH]; intros m; cbn [enc]; [constructor|].
  destruct (m =? 0); [constructor|].
  apply Forall_app. split; [apply IH|]. constructor; [apply N.le_add_r|constructor].
Qed.

Lemma rd_cont_eof : forall l st,
  Forall (fun b => 128 <= b) l ->
  (st = None \/ exists v c, st = Some (v, c) /\ 128 <= c) ->
  rd st l = VEof.
Proof.
  induction l as [|b l IH]; intros st Hall Hst.
  - destruct Hst as [->|(v & c & -> & Hc)]; cbn [rd]; [reflexivity|].
    apply N.ltb_ge in Hc. rewrite Hc. reflexivity.
  - inversion Hall as [|? ? Hb Hl]; subst.
    destruct Hst as [->|(v & c & -> & Hc)]; cbn [rd].
    + apply IH; [exact Hl|]. right. eauto.
    + apply N.ltb_ge in Hc. rewrite Hc. apply IH; [exact Hl|]. right. eauto.
Qed.

Lemma firstn_Forall : forall (A : Type) (P : A -> Prop) k l, Forall P l -> Forall P (firstn k l).
Proof.
  intros A P k. induction k as [|k IH]; intros l H; cbn [firstn]; [constructor|].
  destruct l; [constructor|]. inversion H; subst. constructor; auto.
Qed.

(* every strict prefix of an encoding is rejected *)
Theorem varint_truncated : forall n k, (k < length (write_varint n))%nat ->
  read_varint (firstn k (write_varint n)) = VEof.
Proof.
  intros n k Hk. unfold read_varint, write_varint in *.
  rewrite app_length in Hk. cbn [length] in Hk.
  rewrite firstn_app.
  replace (k - length (enc 10 (n / 128)))%nat with 0%nat by lia.
  cbn [firstn]. rewrite app_nil_r.
  apply rd_cont_eof; [|left; reflexivity].
  apply firstn_Forall, enc_cont.
Qed.

Lemma write_varint_bytes : forall n, Forall (fun b => b < 256) (write_varint n).
Proof.
  intros n. unfold write_varint. apply Forall_app. split.
  - generalize (n / 128). generalize 10%nat.
    induction n0 as [|f IH]; intros m; cbn [enc]; [constructor|].
    destruct (m =? 0); [constructor|].
    apply Forall_app. split; [apply IH|].
    constructor; [|constructor].
    assert (H : (m - 1) mod 128 < 128) by (apply N.mod_lt; lia).
    revert H. generalize ((m - 1) mod 128). intros; lia.
  - constructor; [|constructor].
    assert (n mod 128 < 128) by (apply N.mod_lt; lia). lia.
Qed.

Lemma write_varint_nonempty : forall n, (0 < length (write_varint n))%nat.
Proof. intros n. unfold write_varint. rewrite app_length. cbn [length]. lia. Qed.

Example varint_examples :
  write_varint 0 = [0] /\ write_varint 127 = [127] /\ write_varint 128 = [128; 0] /\
  write_varint 16511 = [255; 127] /\ write_varint 16512 = [128; 128; 0] /\
  write_varint 10001 = [205; 17] /\
  read_varint [205; 17; 9] = VOk 10001 [9] /\ read_varint [205] = VEof /\ read_varint [] = VEof.
Proof. vm_compute. repeat split. Qed.
