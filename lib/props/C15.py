CONFIG = dict(
        level='proof',
        streams=[dict(harness='c15', driver='c15', shrink_field='ops')],
        rule='operation sequences on one toposort.Graph (AddNode/AddEdge/RemoveEdge/ReindexNode, then Toposort on a copy x5 and on 3 graphs '
             'rebuilt from the same operation sequence, FindCycle, FindChildren, FindParents): all digraphs on <=3 nodes with self loops and on '
             '4 nodes (quick: without self loops) in two insertion orders, random graphs up to 30 nodes with removal+reindex rounds, a '
             'DAG-biased stream and a malformed stream (duplicates, unknown endpoints, missing reindex). Non-trivial = at least 2 nodes and '
             '1 edge; distinct = distinct operation list.',
        exhaustive_note='digraphs on <=3 nodes (with self loops) x 2 insertion orders enumerated completely; 4 nodes without self loops (quick) / with (thorough)',
        assumptions=['node names are fixed-width so that Go string order equals numeric order of the model (sort.Strings is modelled as a sort of integers)',
                     'the empty string is not used as a node name (it is FindCycle\'s sentinel; hypothesis is_node s nobody = false of the FindCycle '
                     'theorems, part of valid_ops, proved to hold in every reachable state)',
                     'FindCycle/FindParents iterate Go maps: the model takes the iteration order as an argument; the theorems hold for every order, '
                     'and only order-independent facts are compared (validity of the returned cycle, emptiness, parent set)',
                     'independence of Toposort from Go map iteration order is not proved about the Go code (the model has no map order); it is what '
                     'the correspondence check tests: every Sort is run on 5 copies and on 3 graphs rebuilt from the same operations and all must '
                     'give the model\'s single answer'],
        trusted_base=['hand-written Gallina model coq/theories/Toposort/Model.v of internal/toposort/toposort.go, tied to the code by the replay '
                      'of every harness case (zero mismatches on all generated cases incl. exhaustive small scopes and malformed sequences)'],
        level_text='Coq proof, over ALL states reached by valid operation sequences (induction over the operation list) of the executable model '
                   'that the harness replays against the Go code: Toposort never panics, returns success iff the graph is acyclic, and on success a '
                   'permutation of the nodes with every edge forward (refinement to an abstract Kahn algorithm, fuel bound proved); FindCycle, for '
                   'every map iteration order, returns a real cycle through the seed and returns one whenever one exists; removal followed by '
                   'ReindexNode restores the domain (two-level invariant). All 19 theorems closed under the global context (no axioms).',
        level_note='Trusted: the correspondence between Model.v and toposort.go (tested, not proved: 15 752 cases per quick run, all digraphs on <=3 '
                   'nodes / 4 nodes, random graphs to 30 nodes, malformed sequences; fine comparison of every return value and of the exact order), '
                   'Coq kernel, extraction, OCaml driver, Go harness. Modelled rather than verified: Go strings as integers (fixed-width names), '
                   'Go maps as association lists, map iteration as an explicit order argument (theorems quantify over it for FindCycle; Toposort, '
                   'AddEdge, ReindexNode are order-independent by construction in the model and their independence in Go is covered by repeated '
                   'runs only). BreadthSort, Serialize and DebugDump are not modelled (not part of the property).',
        technique='machine-checked proof in Coq 8.16 (refinement of the state-machine model to an abstract Kahn model; BFS invariants; invariant '
                  'over operation sequences) + model/implementation correspondence replay through the extracted OCaml model with an extracted '
                  'property oracle (cycle_ok, wfb) + exhaustive small-scope enumeration',
    )
