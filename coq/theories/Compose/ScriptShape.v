(* Composition C11 -> C12 on diff scripts.

   C11 (Plumbing/Script.v) validates every script FileDiff produces with [script_ok] and proves what an
   accepted script is ([script_ok_iff]: [canonical], totals, equal runs equal).  C12 (LineStats/Model.v)
   has its own script type (rune counts in N), its own shape predicates ([canonical], [no_del_del]) and
   its own model of the Modify loop of LinesStatsCalculator.Consume.  This file

     - translates C11 scripts to C12 scripts ([tr_script]),
     - relates the shape predicates: C12.canonical (tr ds) -> C11.canonical ds -> C12.no_del_del (tr ds);
       the first implication has no converse (C11 allows two neighbouring equal runs, which the engine
       does not emit but the property does not forbid) - and C12's conservation theorem needs only
       [no_del_del],
     - proves that the two independently written models of the loop agree on EVERY script,
     - derives C12's conservation equalities for every script C11's validator accepts, with the totals
       tied to the lengths of the two line lists. *)
From Coq Require Import List NArith ZArith Bool Arith Lia.
From Herc Require Plumbing.LineCount Plumbing.Script Plumbing.ScriptProofs.
From Herc Require LineStats.Model LineStats.Conserve.
Import ListNotations.

Module SC := Herc.Plumbing.Script.
Module SCP := Herc.Plumbing.ScriptProofs.
Module LM := Herc.LineStats.Model.
Module LC := Herc.LineStats.Conserve.

Definition tr_op (o : SC.op) : LM.op :=
  match o with SC.Equal => LM.OEq | SC.Delete => LM.ODel | SC.Insert => LM.OIns end.
Definition tr_script (ds : list (SC.op * nat)) : list (LM.op * N) :=
  map (fun e => (tr_op (fst e), N.of_nat (snd e))) ds.

(* ---------- shapes ---------- *)

Lemma canon_no_del_del : forall ds p, SC.canon p ds = true -> LM.no_del_del (tr_script ds) = true.
Proof.
  induction ds as [|[o n] r IH]; intros p H; [reflexivity|].
  cbn [SC.canon] in H. apply andb_true_iff in H. destruct H as [_ H].
  destruct r as [|[o2 n2] r2].
  - destruct o; reflexivity.
  - pose proof (IH o H) as IH'. cbn [SC.canon] in H. apply andb_true_iff in H. destruct H as [F _].
    destruct o, o2; try discriminate F; exact IH'.
Qed.

Theorem c11_canonical_no_del_del ds : SC.canonical ds = true -> LM.no_del_del (tr_script ds) = true.
Proof. exact (canon_no_del_del ds SC.Equal). Qed.

Lemma c12_canonical_canon : forall ds p,
  LM.canonical (tr_script ((p, 0) :: ds)) = true -> SC.canon p ds = true.
Proof.
  induction ds as [|[o n] r IH]; intros p H; [reflexivity|].
  cbn [SC.canon]. change (tr_script ((p, 0) :: (o, n) :: r))
    with ((tr_op p, 0%N) :: tr_script ((o, n) :: r)) in H.
  cbn [tr_script map fst snd LM.canonical] in H. rewrite !andb_true_iff in H. destruct H as [[H1 H2] H3].
  apply andb_true_iff. split.
  - destruct p, o; try reflexivity; try discriminate H1; discriminate H2.
  - apply IH. destruct r as [|[o2 n2] r2]; [reflexivity|]. exact H3.
Qed.

Theorem c12_canonical_c11 ds : LM.canonical (tr_script ds) = true -> SC.canonical ds = true.
Proof.
  intro H. unfold SC.canonical. destruct ds as [|[o n] r]; [reflexivity|].
  cbn [SC.canon]. apply andb_true_iff. split; [destruct o; reflexivity|].
  apply c12_canonical_canon. destruct r as [|[o2 n2] r2]; [reflexivity|].
  cbn [tr_script map fst snd LM.canonical] in *. exact H.
Qed.

(* no converse: two neighbouring equal runs are canonical for C11, not for C12 *)
Theorem c11_canonical_not_c12 :
  exists ds, SC.canonical ds = true /\ LM.canonical (tr_script ds) = false /\ LM.no_del_del (tr_script ds) = true.
Proof. exists [(SC.Equal, 1); (SC.Equal, 1)]. repeat split. Qed.

(* ---------- totals ---------- *)

Lemma inserted_tr ds : LM.inserted (tr_script ds) = N.of_nat (SCP.ins_total ds).
Proof.
  induction ds as [|[o n] r IH]; [reflexivity|].
  destruct o; cbn [tr_script map fst snd tr_op LM.inserted SCP.ins_total]; fold (tr_script r); rewrite IH; lia.
Qed.

Lemma deleted_tr ds : LM.deleted (tr_script ds) = N.of_nat (SCP.del_total ds).
Proof.
  induction ds as [|[o n] r IH]; [reflexivity|].
  destruct o; cbn [tr_script map fst snd tr_op LM.deleted SCP.del_total]; fold (tr_script r); rewrite IH; lia.
Qed.

(* ---------- the two models of the loop agree ---------- *)

Definition tr_acc (s : SC.lstats) : LM.lsacc :=
  LM.mkAcc (N.of_nat (SC.ls_added s)) (N.of_nat (SC.ls_removed s)) (N.of_nat (SC.ls_changed s))
           (N.of_nat (SC.ls_pending s)).
Definition tr_stats (s : SC.lstats) : LM.stats :=
  LM.mkStats (N.of_nat (SC.ls_added s)) (N.of_nat (SC.ls_removed s)) (N.of_nat (SC.ls_changed s)).

Lemma acc_eq a r c p a' r' c' p' : a = a' -> r = r' -> c = c' -> p = p' -> LM.mkAcc a r c p = LM.mkAcc a' r' c' p'.
Proof. intros; subst; reflexivity. Qed.

Lemma step_agree o n s :
  exists s', LM.ls_step (tr_acc s) (tr_op o, N.of_nat n) = tr_acc s' /\
             forall r, SC.ls_loop ((o, n) :: r) s = SC.ls_loop r s'.
Proof.
  destruct o; cbn [tr_op SC.ls_loop LM.ls_step].
  - eexists. split; [|intro r; reflexivity]. unfold tr_acc.
    cbn [LM.acc_added LM.acc_removed LM.acc_changed LM.acc_pending SC.ls_added SC.ls_removed SC.ls_changed SC.ls_pending].
    apply acc_eq; try reflexivity.
    destruct (N.ltb_spec 0 (N.of_nat (SC.ls_pending s))); lia.
  - eexists. split; [|intro r; reflexivity]. reflexivity.
  - destruct (Nat.ltb_spec n (SC.ls_pending s)) as [Hlt|Hge].
    + exists (SC.mkL (SC.ls_added s) (SC.ls_removed s + (SC.ls_pending s - n)) (SC.ls_changed s + n) 0).
      split; [|intro r; reflexivity]. unfold tr_acc.
      cbn [LM.acc_added LM.acc_removed LM.acc_changed LM.acc_pending SC.ls_added SC.ls_removed SC.ls_changed SC.ls_pending].
      destruct (N.ltb_spec (N.of_nat n) (N.of_nat (SC.ls_pending s))); [|lia]. apply acc_eq; lia.
    + exists (SC.mkL (SC.ls_added s + (n - SC.ls_pending s)) (SC.ls_removed s) (SC.ls_changed s + SC.ls_pending s) 0).
      split; [|intro r; reflexivity]. unfold tr_acc.
      cbn [LM.acc_added LM.acc_removed LM.acc_changed LM.acc_pending SC.ls_added SC.ls_removed SC.ls_changed SC.ls_pending].
      destruct (N.ltb_spec (N.of_nat n) (N.of_nat (SC.ls_pending s))); [lia|]. apply acc_eq; lia.
Qed.

Lemma models_agree_from : forall ds s,
  LM.ls_finish (fold_left LM.ls_step (tr_script ds) (tr_acc s)) = tr_stats (SC.ls_loop ds s).
Proof.
  induction ds as [|[o n] r IH]; intro s.
  - cbn [tr_script map fold_left SC.ls_loop]. unfold LM.ls_finish, tr_acc, tr_stats.
    cbn [LM.acc_added LM.acc_removed LM.acc_changed LM.acc_pending SC.ls_added SC.ls_removed SC.ls_changed].
    f_equal. destruct (N.ltb_spec 0 (N.of_nat (SC.ls_pending s))); lia.
  - cbn [tr_script map fold_left fst snd]. fold (tr_script r).
    destruct (step_agree o n s) as [s' [E1 E2]]. rewrite E1, E2. apply IH.
Qed.

(* for EVERY script (valid or not) the line-statistics loop of C12's model computes what C11's model computes *)
Theorem models_agree ds : LM.line_stats (tr_script ds) = tr_stats (SC.line_stats ds).
Proof. exact (models_agree_from ds (SC.mkL 0 0 0 0)). Qed.

(* ---------- conservation on validated scripts ---------- *)

Theorem linestats_composed {A} (eqb : A -> A -> bool) (old new : list A) ds :
  (forall x y, eqb x y = true <-> x = y) -> SC.script_ok eqb old new ds = true ->
  let st := LM.line_stats (tr_script ds) in
  LM.no_del_del (tr_script ds) = true /\
  (LM.added st + LM.changed st = LM.inserted (tr_script ds))%N /\
  (LM.removed st + LM.changed st = LM.deleted (tr_script ds))%N /\
  (Z.of_N (LM.added st) - Z.of_N (LM.removed st) = Z.of_nat (length new) - Z.of_nat (length old))%Z.
Proof.
  intros He H. pose proof H as H0.
  apply (SCP.script_ok_iff eqb He) in H. destruct H as [Hc [Ho [Hn _]]].
  pose proof (c11_canonical_no_del_del ds Hc) as ND.
  destruct (LC.line_stats_conserves _ ND) as [L1 [L2 L3]].
  cbn zeta. split; [exact ND|]. split; [exact L1|]. split; [exact L2|].
  rewrite L3, inserted_tr, deleted_tr. destruct (SCP.totals_split ds) as [T1 T2]. lia.
Qed.
