(* The executable plan validator [plan_ok : dag -> plan -> bool] (DESIGN.md appendix C).
   Definitions only; soundness is in CheckerSound.v.

   The validator runs the abstract executor of Exec.v over the plan and looks at the state before
   every action.  The replays of one commit are consumed as one block:
       commit c @ b1 ; ... ; commit c @ bk ; [merge {b1..bk} when k >= 2]
   and a merge is accepted nowhere else. *)
From Coq Require Import List ZArith Bool Arith Lia.
From Herc Require Import Plan.Syntax Plan.Exec Plan.Graph.
Import ListNotations.
Open Scope Z_scope.

Definition memz (x : Z) (l : list Z) : bool := existsb (Z.eqb x) l.
Fixpoint nodupz (l : list Z) : bool :=
  match l with [] => true | x :: r => negb (memz x r) && nodupz r end.
Fixpoint nodupn (l : list nat) : bool :=
  match l with [] => true | x :: r => negb (memn x r) && nodupn r end.
(* l1 and l2 are duplicate free and have the same elements *)
Definition permz (l1 l2 : list Z) : bool :=
  nodupz l1 && nodupz l2 && (length l1 =? length l2)%nat && forallb (fun x => memz x l2) l1.

Fixpoint sequence {A} (l : list (option A)) : option (list A) :=
  match l with
  | [] => Some []
  | None :: _ => None
  | Some x :: r => match sequence r with Some r' => Some (x :: r') | None => None end
  end.

(* the maximal run of "commit c @ _" actions at the front of p *)
Fixpoint take_block (c : nat) (p : plan) : list Z * plan :=
  match p with
  | [] => ([], [])
  | a :: r =>
      match kind a, commit a, items a with
      | KCommit, Some c', [b] =>
          if (c' =? c)%nat then let (bs, rest) := take_block c r in (b :: bs, rest) else ([], p)
      | _, _, _ => ([], p)
      end
  end.

Section Check.
  Variable g : dag.
  Variable tab : list (list nat).   (* = anc_tab g *)

  Definition opt_eqb (a b : option nat) : bool :=
    match a, b with
    | Some x, Some y => (x =? y)%nat
    | None, None => true
    | _, _ => false
    end.

  (* rule "commit c@b" of appendix C *)
  Definition commit_okb (s : state) (c : nat) (b : Z) : bool :=
    (c <? length g)%nat &&
    match get s b with
    | Live x =>
        match last x with
        | None => match inc x, parents g c with [], [] => true | _, _ => false end
        | Some q => memn q (parents g c) && seteqn (inc x) (anc_of tab q)
        end
    | _ => false
    end.

  Fixpoint commits_okb (s : state) (c : nat) (bs : list Z) : bool :=
    match bs with
    | [] => true
    | b :: r => commit_okb s c b && commits_okb (step s (commit_on c b)) c r
    end.

  (* one replay per non-redundant parent, each on the branch that analysed that parent last *)
  Definition lasts_okb (c : nat) (ls : list (option nat)) : bool :=
    match parents g c with
    | [] => match ls with [None] => true | _ => false end
    | _ :: _ =>
        match sequence ls with
        | Some qs => nodupn qs && forallb (nonredb g tab c) qs &&
                     forallb (fun q => memn q qs) (nonred_list g tab c)
        | None => false
        end
    end.

  (* rule "merge" of appendix C, [s] = the state before the merge, [c] = the commit just replayed *)
  Definition merge_okb (s : state) (c : nat) (ms : list Z) : bool :=
    forallb (fun m => match get s m with Live x => opt_eqb (last x) (Some c) | _ => false end) ms &&
    seteqn (flat_map (fun m => inc_of (get s m)) ms) (anc_of tab c).

  Fixpoint minz (l : list Z) : option Z :=
    match l with
    | [] => None
    | x :: r => match minz r with None => Some x | Some m => Some (Z.min x m) end
    end.
  (* getMasterBranch: the smallest key of the branches map *)
  Definition master (s : state) : option Z := minz (filter (survivingb s) (map fst s)).

  Definition finalb (s : state) (A : list nat) : bool :=
    retainedb g A &&
    forallb (fun k => negb (hibernatedb s k)) (map fst s) &&
    (if (length (headsb g A) <=? 1)%nat
     then match master s with
          | Some b => subsetn A (inc_of (get s b))
          | None => false
          end
     else true).

  Fixpoint check (fuel : nat) (s : state) (done : list nat) (p : plan) : bool :=
    match fuel with
    | O => false
    | S f =>
        match p with
        | [] => finalb s done
        | a :: p' =>
            match kind a, items a with
            | KCommit, [b] =>
                match commit a with
                | None => false
                | Some c =>
                    let (bs, rest) := take_block c p in
                    let s1 := run s (map (commit_on c) bs) in
                    negb (memn c done) && nodupz bs && commits_okb s c bs &&
                    lasts_okb c (map (last_on s) bs) &&
                    match bs with
                    | [] => false
                    | [_] => check f s1 (c :: done) rest
                    | _ :: _ :: _ =>
                        match rest with
                        | [] => false
                        | m :: rest' =>
                            is_kind KMerge m && permz (items m) bs && merge_okb s1 c (items m) &&
                            check f (step s1 m) (c :: done) rest'
                        end
                    end
                end
            | KEmerge, [b] => absentb s b && check f (step s a) done p'
            | KFork, b :: t :: ts =>
                awakeb s b && nodupz (t :: ts) && forallb (absentb s) (t :: ts) &&
                check f (step s a) done p'
            | KDelete, [b] => awakeb s b && check f (step s a) done p'
            | KHibernate, b :: bs =>
                nodupz (b :: bs) && forallb (awakeb s) (b :: bs) && check f (step s a) done p'
            | KBoot, b :: bs =>
                nodupz (b :: bs) && forallb (hibernatedb s) (b :: bs) && check f (step s a) done p'
            | _, _ => false
            end
        end
    end.
End Check.

Definition plan_ok (g : dag) (p : plan) : bool :=
  topob g && check g (anc_tab g) (S (length p)) init [] p.
