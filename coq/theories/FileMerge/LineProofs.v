(* C07 - the two loops of File.Merge on flattened copies: the per-line rule, the reports, length,
   marks, refusal. *)
From Coq Require Import List ZArith Lia Bool Arith.
From Herc Require Import FileMerge.Model.
Import ListNotations.
Open Scope Z_scope.

(* ------------------------------------------------------------------ the specification *)
(* [b] is the value of the FIRST copy among the copies without the mark whose tick is minimal *)
Definition first_min (b : Z) (vs : list Z) : Prop :=
  exists pre post, vs = pre ++ b :: post /\ mark b = false /\
    (forall w, In w pre -> mark w = false -> tick b < tick w) /\
    (forall w, In w post -> mark w = false -> tick b <= tick w).

Definition all_marked_P (vs : list Z) : Prop := forall w, In w vs -> mark w = true.

Lemma all_marked_iff vs : all_marked vs = true <-> all_marked_P vs.
Proof. unfold all_marked, all_marked_P. apply forallb_forall. Qed.

Lemma first_min_unique b b' vs : first_min b vs -> first_min b' vs -> b = b'.
Proof.
  intros (p1 & q1 & E1 & M1 & P1 & Q1) (p2 & q2 & E2 & M2 & P2 & Q2).
  subst vs. revert p2 E2 P2. induction p1 as [|x p1 IH]; intros p2 E2 P2.
  - destruct p2 as [|y p2]; cbn in E2.
    + congruence.
    + injection E2 as -> E2.
      assert (Hin : In b' q1) by (rewrite E2; apply in_or_app; right; left; reflexivity).
      specialize (Q1 b' Hin M2). specialize (P2 y (or_introl eq_refl) M1). lia.
  - destruct p2 as [|y p2]; cbn in E2.
    + injection E2 as -> E2.
      assert (Hin : In b q2) by (rewrite <- E2; apply in_or_app; right; left; reflexivity).
      specialize (Q2 b Hin M1). specialize (P1 b' (or_introl eq_refl) M2). lia.
    + injection E2 as -> E2. apply (IH (fun w Hw => P1 w (or_intror Hw)) p2 E2 (fun w Hw => P2 w (or_intror Hw))).
Qed.

Lemma first_min_not_all_marked b vs : first_min b vs -> all_marked_P vs -> False.
Proof.
  intros (p & q & -> & M & _) H. rewrite (H b) in M; [discriminate|].
  apply in_or_app. right. left. reflexivity.
Qed.

(* ------------------------------------------------------------------ one line through the first loop *)
Lemma fold_step_spec : forall others seen cur,
  (mark cur = true -> all_marked_P seen) ->
  (mark cur = false -> first_min cur seen) ->
  let r := fold_left step others cur in
  (mark r = true -> all_marked_P (seen ++ others)) /\
  (mark r = false -> first_min r (seen ++ others)).
Proof.
  induction others as [|ol others IH]; intros seen cur Hm Hf.
  - cbn [fold_left]. rewrite app_nil_r. auto.
  - cbn [fold_left].
    replace (seen ++ ol :: others) with ((seen ++ [ol]) ++ others) by (rewrite <- app_assoc; reflexivity).
    apply IH.
    + unfold step. destruct (mark ol) eqn:Eo.
      * intros Hc w Hw. apply in_app_or in Hw. destruct Hw as [Hw|[<-|[]]]; auto. apply Hm; auto.
      * destruct (mark cur) eqn:Ec; cbn [orb].
        -- intros Hc. congruence.
        -- destruct (tick cur >? tick ol); intros Hc; congruence.
    + unfold step. destruct (mark ol) eqn:Eo.
      * intros Hc. destruct (Hf Hc) as (pre & post & -> & Hb & Hpre & Hpost).
        exists pre, (post ++ [ol]). rewrite <- app_assoc. cbn [app]. repeat split; auto.
        intros w Hw Hmw. apply in_app_or in Hw. destruct Hw as [Hw|[<-|[]]]; auto. congruence.
      * destruct (mark cur) eqn:Ec; cbn [orb].
        -- intros _. exists seen, []. repeat split; auto.
           ++ intros w Hw Hmw. rewrite (Hm eq_refl w Hw) in Hmw. discriminate.
           ++ intros w [].
        -- destruct (Z.gtb_spec (tick cur) (tick ol)) as [Hgt|Hle].
           ++ intros _. destruct (Hf eq_refl) as (pre & post & -> & Hb & Hpre & Hpost).
              exists (pre ++ cur :: post), []. repeat split; auto.
              ** intros w Hw Hmw. apply in_app_or in Hw. destruct Hw as [Hw|[<-|Hw]].
                 --- specialize (Hpre w Hw Hmw). lia.
                 --- lia.
                 --- specialize (Hpost w Hw Hmw). lia.
              ** intros w [].
           ++ intros _. destruct (Hf eq_refl) as (pre & post & -> & Hb & Hpre & Hpost).
              exists pre, (post ++ [ol]). rewrite <- app_assoc. cbn [app]. repeat split; auto.
              intros w Hw Hmw. apply in_app_or in Hw. destruct Hw as [Hw|[<-|[]]]; auto.
Qed.

Lemma fold_step_line mine others :
  let r := fold_left step others mine in
  (mark r = true -> all_marked_P (mine :: others)) /\
  (mark r = false -> first_min r (mine :: others)).
Proof.
  apply (fold_step_spec others [mine] mine).
  - intros Hc w [<-|[]]. exact Hc.
  - intros Hc. exists [], []. repeat split; auto; intros w [].
Qed.

(* ------------------------------------------------------------------ the executable specification *)
Lemma fold_min_le : forall l a, fold_left Z.min l a <= a /\ forall x, In x l -> fold_left Z.min l a <= x.
Proof.
  induction l as [|y l IH]; intros a; cbn [fold_left].
  - split; [lia|intros x []].
  - destruct (IH (Z.min a y)) as [H1 H2]. split; [lia|].
    intros x [<-|Hx]; [lia|auto].
Qed.

Lemma fold_min_in : forall l a, fold_left Z.min l a = a \/ In (fold_left Z.min l a) l.
Proof.
  induction l as [|y l IH]; intros a; cbn [fold_left]; [auto|].
  destruct (IH (Z.min a y)) as [H|H].
  - destruct (Z.min_spec a y) as [[_ E]|[_ E]]; rewrite E in *; [left; exact H|right; left; symmetry; exact H].
  - right. right. exact H.
Qed.

Lemma real_all_marked vs : real vs = [] <-> all_marked_P vs.
Proof.
  unfold real, all_marked_P. induction vs as [|v vs IH]; cbn [filter].
  - split; [intros _ w []|reflexivity].
  - destruct (mark v) eqn:E; cbn [negb].
    + rewrite IH. split; [intros H w [<-|Hw]; auto|intros H w Hw; apply H; right; exact Hw].
    + split; [discriminate|]. intros H. rewrite (H v (or_introl eq_refl)) in E. discriminate.
Qed.

(* find on the real values = find on all values (marked ones cannot be the first minimum) *)
Lemma find_first_min : forall vs m,
  (forall w, In w vs -> mark w = false -> m <= tick w) ->
  (exists w, In w vs /\ mark w = false /\ tick w = m) ->
  exists b, find (fun w => tick w =? m) (real vs) = Some b /\ first_min b vs.
Proof.
  induction vs as [|v vs IH]; intros m Hlow (w & Hw & Hmw & Htw); [destruct Hw|].
  unfold real. cbn [filter]. destruct (mark v) eqn:Ev; cbn [negb].
  - destruct Hw as [->|Hw]; [congruence|].
    destruct (IH m (fun x Hx => Hlow x (or_intror Hx)) (ex_intro _ w (conj Hw (conj Hmw Htw)))) as (b & Hf & pre & post & -> & Hb & Hpre & Hpost).
    exists b. split; [exact Hf|]. exists (v :: pre), post. repeat split; auto.
    intros x [<-|Hx] Hmx; [congruence|auto].
  - cbn [find]. destruct (Z.eqb_spec (tick v) m) as [E|E].
    + exists v. split; [reflexivity|]. exists [], vs. repeat split; auto; [intros x []|].
      intros x Hx Hmx. specialize (Hlow x (or_intror Hx) Hmx). lia.
    + destruct Hw as [->|Hw]; [congruence|].
      destruct (IH m (fun x Hx => Hlow x (or_intror Hx)) (ex_intro _ w (conj Hw (conj Hmw Htw)))) as (b & Hf & pre & post & -> & Hb & Hpre & Hpost).
      exists b. split; [exact Hf|]. exists (v :: pre), post. repeat split; auto.
      intros x [Hx|Hx] Hmx; [|auto]. subst x.
      assert (Hbm : tick b = m).
      { apply find_some in Hf. destruct Hf as [_ Hf]. apply Z.eqb_eq in Hf. exact Hf. }
      specialize (Hlow v (or_introl eq_refl) Hmx). lia.
Qed.

Lemma real_In vs w : In w (real vs) <-> In w vs /\ mark w = false.
Proof. unfold real. rewrite filter_In. rewrite negb_true_iff. reflexivity. Qed.

Theorem first_min_val_spec vs :
  match first_min_val vs with
  | Some b => first_min b vs
  | None => all_marked_P vs
  end.
Proof.
  unfold first_min_val. destruct (real vs) as [|v r] eqn:E.
  - apply real_all_marked. exact E.
  - set (m := fold_left Z.min (map tick r) (tick v)).
    destruct (find_first_min vs m) as (b & Hf & Hb).
    + intros w Hw Hmw. assert (Hin : In w (v :: r)) by (rewrite <- E; apply real_In; auto).
      destruct (fold_min_le (map tick r) (tick v)) as [H1 H2]. fold m in H1, H2.
      destruct Hin as [<-|Hin]; [exact H1|]. apply H2. apply in_map. exact Hin.
    + destruct (fold_min_in (map tick r) (tick v)) as [H|H]; fold m in H.
      * exists v. assert (Hin : In v (real vs)) by (rewrite E; left; reflexivity).
        apply real_In in Hin. destruct Hin. auto.
      * apply in_map_iff in H. destruct H as (w & Hw & Hin).
        assert (Hin' : In w (real vs)) by (rewrite E; right; exact Hin).
        apply real_In in Hin'. destruct Hin'. exists w. auto.
    + rewrite E in Hf. rewrite Hf. exact Hb.
Qed.

Lemma spec_line_first_min day vs b : first_min b vs -> spec_line day vs = b.
Proof.
  intros H. unfold spec_line. pose proof (first_min_val_spec vs) as S.
  destruct (first_min_val vs) as [b'|].
  - apply (first_min_unique _ _ _ S H).
  - exfalso. apply (first_min_not_all_marked _ _ H S).
Qed.

Lemma spec_line_all_marked day vs : all_marked_P vs -> spec_line day vs = day.
Proof.
  intros H. unfold spec_line. pose proof (first_min_val_spec vs) as S.
  destruct (first_min_val vs) as [b'|]; [|reflexivity].
  exfalso. apply (first_min_not_all_marked _ _ S H).
Qed.

(* ------------------------------------------------------------------ the first loop over all lines *)
Lemma merge_one_length : forall a o, length (merge_one a o) = length a.
Proof.
  induction a as [|x a IH]; intros o; destruct o; cbn [merge_one length]; auto.
Qed.

Lemma merge_one_nth : forall a o i x y, nth_error a i = Some x -> nth_error o i = Some y ->
  nth_error (merge_one a o) i = Some (step x y).
Proof.
  induction a as [|x0 a IH]; intros o i x y Ha Ho; destruct i; cbn in Ha; try discriminate;
    destruct o as [|y0 o]; cbn in Ho; try discriminate; cbn [merge_one nth_error].
  - congruence.
  - apply IH; assumption.
Qed.

Lemma merge_others_ok : forall others acc m,
  merge_others acc (map Some others) = Ok m ->
  Forall (fun o => length o = length acc) others /\ length m = length acc /\
  forall i a col, nth_error acc i = Some a -> Forall2 (fun o v => nth_error o i = Some v) others col ->
    nth_error m i = Some (fold_left step col a).
Proof.
  induction others as [|o others IH]; intros acc m H; cbn [map merge_others] in H.
  - injection H as <-. repeat split; auto. intros i a col Ha Hc. inversion Hc. exact Ha.
  - destruct (Nat.eqb_spec (length acc) (length o)) as [E|E]; [|discriminate].
    destruct (IH _ _ H) as (HF & HL & HN). rewrite merge_one_length in HF, HL. repeat split.
    + constructor; [auto|exact HF].
    + exact HL.
    + intros i a col Ha Hc. inversion Hc as [|o' v others' col' Hv Hc']; subst. cbn [fold_left].
      apply HN; [|exact Hc']. apply merge_one_nth; assumption.
Qed.

Lemma merge_others_accepts : forall others acc,
  Forall (fun o => length o = length acc) others -> exists m, merge_others acc (map Some others) = Ok m.
Proof.
  induction others as [|o others IH]; intros acc HF; cbn [map merge_others].
  - eauto.
  - inversion HF as [|? ? Ho HF']; subst. rewrite Ho, Nat.eqb_refl. apply IH.
    rewrite merge_one_length. exact HF'.
Qed.

Lemma merge_others_refuses : forall others acc,
  In None others \/ (exists o, In (Some o) others /\ length o <> length acc) ->
  exists c, merge_others acc others = Panic c.
Proof.
  induction others as [|o others IH]; intros acc H.
  - destruct H as [[]|(o & [] & _)].
  - cbn [merge_others]. destruct o as [l|]; [|eauto].
    destruct (Nat.eqb_spec (length acc) (length l)) as [E|E]; [|eauto].
    apply IH. destruct H as [[H|H]|(o & [H|H] & Hl)].
    + discriminate.
    + left. exact H.
    + injection H as ->. congruence.
    + right. exists o. rewrite merge_one_length. auto.
Qed.

(* ------------------------------------------------------------------ the second loop *)
Lemma update_time_same day : update_time day day 1 = Ok (if mark day then [] else [(day, day, 1)]).
Proof. unfold update_time. destruct (mark day); [rewrite Z.eqb_refl|]; reflexivity. Qed.

Definition stamp (day l : Z) : Z := if mark l then day else l.

Lemma stamp_pass_spec : forall day m,
  stamp_pass day m = Ok (map (stamp day) m,
                         if mark day then [] else repeat (day, day, 1) (length (filter mark m))).
Proof.
  intros day. induction m as [|l m IH]; cbn [stamp_pass map filter].
  - destruct (mark day); reflexivity.
  - rewrite IH. change (stamp day l) with (if mark l then day else l). destruct (mark l) eqn:El.
    + rewrite update_time_same. destruct (mark day); reflexivity.
    + reflexivity.
Qed.

(* ------------------------------------------------------------------ columns *)
Lemma zipcons_length : forall c cols, length (zipcons c cols) = Nat.min (length c) (length cols).
Proof.
  induction c as [|x c IH]; intros cols; destruct cols; cbn [zipcons length Nat.min]; auto.
Qed.

Lemma zipcons_nth : forall c cols i col, nth_error (zipcons c cols) i = Some col ->
  exists x t, col = x :: t /\ nth_error c i = Some x /\ nth_error cols i = Some t.
Proof.
  induction c as [|x c IH]; intros cols i col H; destruct cols as [|t cols]; cbn [zipcons] in H;
    try (destruct i; discriminate).
  destruct i; cbn [nth_error] in *.
  - injection H as <-. eauto.
  - apply IH. exact H.
Qed.

Lemma columns_spec : forall copies n, Forall (fun c => length c = n) copies ->
  length (columns n copies) = n /\
  forall i col, nth_error (columns n copies) i = Some col ->
    Forall2 (fun c v => nth_error c i = Some v) copies col.
Proof.
  induction copies as [|c copies IH]; intros n HF; cbn [columns].
  - split; [apply repeat_length|]. intros i col H.
    assert (Hin : In col (repeat [] n)) by (eapply nth_error_In; eauto).
    apply repeat_spec in Hin. subst. constructor.
  - inversion HF as [|? ? Hc HF']; subst. destruct (IH _ HF') as [HL HN]. split.
    + rewrite zipcons_length, HL. apply Nat.min_id.
    + intros i col H. apply zipcons_nth in H. destruct H as (x & t & -> & Hx & Ht).
      constructor; [exact Hx|apply HN; exact Ht].
Qed.

(* i-th value of a copy, for a column made of the i-th values *)
Lemma column_exists : forall (others : list (list Z)) i n, Forall (fun o => length o = n) others -> (i < n)%nat ->
  exists col, Forall2 (fun o v => nth_error o i = Some v) others col.
Proof.
  induction others as [|o others IH]; intros i n HF Hi.
  - exists []. constructor.
  - inversion HF as [|? ? Ho HF']; subst. destruct (IH i _ HF' Hi) as (col & Hc).
    destruct (nth_error o i) as [v|] eqn:E.
    + exists (v :: col). constructor; assumption.
    + apply nth_error_None in E. lia.
Qed.

Lemma Forall2_fun {A B} (R : A -> B -> Prop) : (forall a b b', R a b -> R a b' -> b = b') ->
  forall l l1 l2, Forall2 R l l1 -> Forall2 R l l2 -> l1 = l2.
Proof.
  intros HR. induction l as [|a l IH]; intros l1 l2 H1 H2; inversion H1; inversion H2; subst; [reflexivity|].
  f_equal; [eapply HR; eauto|apply IH; assumption].
Qed.

Lemma Forall2_nth {A B} (R : A -> B -> Prop) : forall l l',
  length l = length l' ->
  (forall i a b, nth_error l i = Some a -> nth_error l' i = Some b -> R a b) ->
  Forall2 R l l'.
Proof.
  induction l as [|a l IH]; intros l' HL HN; destruct l' as [|b l']; try discriminate; constructor.
  - apply (HN 0%nat); reflexivity.
  - apply IH; [cbn in HL; lia|]. intros i x y Hx Hy. apply (HN (S i)); assumption.
Qed.

(* ------------------------------------------------------------------ the theorems at line level *)
Definition line_ok (day : Z) (col : list Z) (r : Z) : Prop :=
  (all_marked_P col /\ r = day) \/ first_min r col.

Theorem lines_merge_rule : forall day self others m reps,
  lines_merge day self (map Some others) = Ok (m, reps) ->
  let cols := columns (length self) (self :: others) in
  (* the columns really are the i-th values of all copies, in the order self, others *)
  length cols = length self /\
  (forall i col, nth_error cols i = Some col -> Forall2 (fun c v => nth_error c i = Some v) (self :: others) col) /\
  (* the rule *)
  Forall2 (line_ok day) cols m /\
  (* the reports *)
  (mark day = false -> reps = repeat (day, day, 1) (length (filter all_marked cols))) /\
  (mark day = true -> reps = []).
Proof.
  intros day self others m reps H cols. unfold lines_merge in H.
  destruct (merge_others self (map Some others)) as [m0|c] eqn:E; [|discriminate].
  rewrite stamp_pass_spec in H. injection H as <- <-.
  destruct (merge_others_ok _ _ _ E) as (HF & HL & HN).
  assert (HFall : Forall (fun c => length c = length self) (self :: others)) by (constructor; auto).
  destruct (columns_spec _ _ HFall) as [CL CN]. fold cols in CL, CN.
  (* per index: the merged value before stamping is the fold over the column *)
  assert (Hpt : forall i col v, nth_error cols i = Some col -> nth_error m0 i = Some v ->
                  (mark v = true -> all_marked_P col) /\ (mark v = false -> first_min v col)).
  { intros i col v Hc Hv. specialize (CN i col Hc). inversion CN as [|? a ? t Ha Ht]; subst.
    rewrite (HN i a t Ha Ht) in Hv. injection Hv as <-. apply fold_step_line. }
  assert (Hrule : Forall2 (line_ok day) cols (map (stamp day) m0)).
  { apply Forall2_nth; [rewrite map_length; lia|].
    intros i col r Hc Hr. rewrite nth_error_map in Hr. destruct (nth_error m0 i) as [v|] eqn:Hv; [|discriminate].
    injection Hr as <-. destruct (Hpt i col v Hc Hv) as [H1 H2]. unfold stamp, line_ok.
    destruct (mark v); [left|right]; auto. }
  assert (Hcnt : length (filter mark m0) = length (filter all_marked cols)).
  { assert (HR : Forall2 (fun col v => all_marked col = mark v) cols m0).
    { apply Forall2_nth; [lia|]. intros i col v Hc Hv. destruct (Hpt i col v Hc Hv) as [H1 H2].
      destruct (mark v) eqn:Ev.
      - apply all_marked_iff. auto.
      - destruct (all_marked col) eqn:Ea; [|reflexivity]. exfalso.
        apply all_marked_iff in Ea. apply (first_min_not_all_marked _ _ (H2 eq_refl) Ea). }
    clear -HR. induction HR as [|col v cols m0 Hh _ IH]; [reflexivity|].
    cbn [filter]. rewrite Hh. destruct (mark v); cbn [length]; congruence. }
  repeat split; auto.
  - intros Hd. rewrite Hd, Hcnt. reflexivity.
  - intros Hd. rewrite Hd. reflexivity.
Qed.

(* the same, as an equation with the executable specification (what the replay driver evaluates) *)
Theorem lines_merge_spec : forall day self others m reps,
  lines_merge day self (map Some others) = Ok (m, reps) ->
  m = spec_lines day self others /\
  (mark day = false -> reps = repeat (day, day, 1) (spec_report_count self others)).
Proof.
  intros day self others m reps H. destruct (lines_merge_rule _ _ _ _ _ H) as (_ & _ & HR & Hrep & _).
  split; [|exact Hrep]. unfold spec_lines. clear H Hrep.
  induction HR as [|col r cols m' Hh _ IH]; [reflexivity|]. cbn [map]. f_equal; [|exact IH].
  destruct Hh as [[Ha ->]|Hf]; [symmetry; apply spec_line_all_marked; exact Ha|symmetry; apply spec_line_first_min; exact Hf].
Qed.

Theorem lines_merge_length_no_mark : forall day self others m reps,
  lines_merge day self others = Ok (m, reps) ->
  length m = length self /\ (mark day = false -> Forall (fun v => mark v = false) m).
Proof.
  intros day self others m reps H. unfold lines_merge in H.
  destruct (merge_others self others) as [m0|c] eqn:E; [|discriminate].
  rewrite stamp_pass_spec in H. injection H as <- _. split.
  - rewrite map_length. clear -E. revert self m0 E. induction others as [|o others IH]; intros self m0 E; cbn [merge_others] in E.
    + congruence.
    + destruct o as [l|]; [|discriminate]. destruct (Nat.eqb (length self) (length l)); [|discriminate].
      rewrite (IH _ _ E). apply merge_one_length.
  - intros Hd. apply Forall_forall. intros v Hv. apply in_map_iff in Hv. destruct Hv as (l & <- & _).
    unfold stamp. destruct (mark l) eqn:El; assumption.
Qed.

Theorem lines_merge_refuses : forall day self others,
  In None others \/ (exists o, In (Some o) others /\ length o <> length self) ->
  exists c, lines_merge day self others = Panic c.
Proof.
  intros day self others H. destruct (merge_others_refuses others self H) as (c & E).
  exists c. unfold lines_merge. rewrite E. reflexivity.
Qed.

Theorem lines_merge_accepts : forall day self others,
  Forall (fun o => length o = length self) others ->
  exists m reps, lines_merge day self (map Some others) = Ok (m, reps).
Proof.
  intros day self others H. destruct (merge_others_accepts others self H) as (m & E).
  unfold lines_merge. rewrite E, stamp_pass_spec. eauto.
Qed.

(* the form the burndown invariant (C01) needs: if all real values agree, that value is the result *)
Corollary lines_merge_agree : forall day self others m reps v,
  lines_merge day self (map Some others) = Ok (m, reps) ->
  forall i col r, nth_error (columns (length self) (self :: others)) i = Some col -> nth_error m i = Some r ->
  (forall w, In w col -> mark w = false -> w = v) -> (exists w, In w col /\ mark w = false) -> r = v.
Proof.
  intros day self others m reps v H i col r Hc Hr Hall (w & Hw & Hmw).
  destruct (lines_merge_rule _ _ _ _ _ H) as (_ & _ & HR & _).
  assert (Hok : line_ok day col r).
  { clear -HR Hc Hr. revert i Hc Hr. induction HR as [|c0 r0 cols m' Hh _ IH]; intros i Hc Hr; destruct i; cbn in Hc, Hr; try discriminate.
    - congruence.
    - eapply IH; eauto. }
  destruct Hok as [[Ha _]|(p & q & -> & Hb & _)].
  - rewrite (Ha w Hw) in Hmw. discriminate.
  - apply Hall; [apply in_or_app; right; left; reflexivity|exact Hb].
Qed.
