// Sequence stream of the C16 harness (round 3: object re-use): SEVERAL commit lists go through ONE identity.Detector
// value, one after the other - generate, consume, regenerate for another list or another mode, consume again.
//
//	(case n (kind seq-*) (nt b) (exact 0) (seq 1) (commits (st EXACT INIT HOW PRE (cs (name email)...) [(mailmap bytes)])...) (obs ...))
//
// Stage: INIT = 1: Detector.Initialize(nil) is called first (the pipeline does that between two analyses; a caller that
// only regenerates the dictionary does not); ExactSignatures is set to EXACT; PRE = 1: every commit of the new list is
// passed to Consume once BEFORE the dictionary is regenerated (legal: the answers, computed with the old dictionary, are
// discarded); HOW = 0: GeneratePeopleDict(commits), HOW = 1: PeopleDict and ReversedPeopleDict are set to nil and
// Configure(facts) with Pipeline.Commits and IdentityDetector.ExactSignatures regenerates; then Consume for every commit
// of the list.  An empty list makes GeneratePeopleDict panic (captured): the detector is used again afterwards.
// Observation: (obs (st <what a single case observes>)... [(late i (dict ...) (rev ...))]): every stage is judged by the
// driver exactly like a case of its own on a new Detector; after the last stage the dictionaries handed out by the
// earlier stages are serialised again and reported when they have changed (late).
package main

import (
	"fmt"
	"sort"
	"strings"

	"gopkg.in/src-d/go-git.v4/plumbing/object"
	"gopkg.in/src-d/hercules.v10/verifapi/c16"

	. "verifharness/lib"
)

type stage struct {
	exact   bool
	init    bool
	how     int
	pre     bool
	sigs    []sig
	mailmap *string
	extra   []cextra // round 4: committers and times (nil: committer = author)
}

func (s *stage) sx() Sx {
	cs := make([]Sx, len(s.sigs))
	for i, g := range s.sigs {
		cs[i] = L(str(g.name), str(g.email))
		if s.extra != nil {
			x := s.extra[i]
			cs[i] = L(str(g.name), str(g.email), str(x.cname), str(x.cemail), I64(x.aw), I64(x.cw))
		}
	}
	f := []Sx{B(s.exact), B(s.init), I(s.how), B(s.pre), T("cs", cs...)}
	if s.mailmap != nil {
		f = append(f, T("mailmap", str(*s.mailmap)))
	}
	return T("st", f...)
}

func parseStage(x Sx) *stage {
	a := x.Args()
	s := &stage{exact: a[0].Int() != 0, init: a[1].Int() != 0, how: a[2].Int(), pre: a[3].Int() != 0}
	for _, f := range a[4:] {
		switch f.Tag() {
		case "cs":
			for _, g := range f.Args() {
				s.sigs = append(s.sigs, sig{unstr(g.List[0]), unstr(g.List[1])})
				if len(g.List) >= 6 {
					s.extra = append(s.extra, cextra{unstr(g.List[2]), unstr(g.List[3]), int64(g.List[4].Int()), int64(g.List[5].Int())})
				}
			}
			if len(s.extra) != 0 && len(s.extra) != len(s.sigs) {
				panic("replay: commits with and without committer in one stage")
			}
		case "mailmap":
			t := unstr(f.Args()[0])
			s.mailmap = &t
		}
	}
	return s
}

func dictSx(pd map[string]int, rpd []string) (Sx, Sx) {
	keys := make([]string, 0, len(pd))
	for k := range pd {
		keys = append(keys, k)
	}
	sort.Strings(keys)
	dict := make([]Sx, len(keys))
	for i, k := range keys {
		dict[i] = L(str(k), I(pd[k]))
	}
	rev := make([]Sx, len(rpd))
	for i, s := range rpd {
		rev[i] = str(s)
	}
	return T("dict", dict...), T("rev", rev...)
}

const (
	factCommits = "Pipeline.Commits"                 // core.ConfigPipelineCommits
	factExact   = "IdentityDetector.ExactSignatures" // identity.ConfigIdentityDetectorExactSignatures
)

// runSeq drives ONE detector through the stages.
func runSeq(stages []*stage) Sx {
	d := &c16.Detector{}
	type held struct {
		pd    map[string]int
		rpd   []string
		first string
		ok    bool
	}
	helds := make([]held, len(stages))
	var obs []Sx
	for i, s := range stages {
		g := &gcase{exact: s.exact, sigs: s.sigs, mailmap: s.mailmap, extra: s.extra}
		var fields []Sx
		lt := &lowerTable{}
		for _, x := range s.sigs {
			lt.add(x.name)
			lt.add(x.email)
			if s.exact {
				lt.add((&object.Signature{Name: x.name, Email: x.email}).String())
			}
		}
		var mmField []Sx
		if s.mailmap != nil {
			var table map[string]object.Signature
			if _, p := Catch(func() { table = c16.ParseMailmap(*s.mailmap) }); p {
				mmField = append(mmField, T("mmpanic"))
			} else {
				keys := make([]string, 0, len(table))
				for k := range table {
					keys = append(keys, k)
				}
				sort.Strings(keys)
				ents := make([]Sx, len(keys))
				for j, k := range keys {
					ents[j] = L(str(k), str(table[k].Name), str(table[k].Email))
					lt.add(k)
					lt.add(table[k].Name)
					lt.add(table[k].Email)
				}
				mmField = append(mmField, T("mm", ents...))
			}
		}
		if len(lt.out) > 0 {
			fields = append(fields, T("lower", lt.out...))
		}
		fields = append(fields, mmField...)
		_, p := Catch(func() {
			commits := commitsOf(g)
			if s.init {
				if err := d.Initialize(nil); err != nil {
					panic(err)
				}
			}
			if s.pre {
				for _, c := range commits {
					if _, err := d.Consume(map[string]interface{}{c16.DependencyCommit: c}); err != nil {
						panic(err)
					}
				}
			}
			d.ExactSignatures = s.exact
			if s.how == 1 {
				d.PeopleDict, d.ReversedPeopleDict = nil, nil
				if err := d.Configure(map[string]interface{}{factCommits: commits, factExact: s.exact}); err != nil {
					panic(err)
				}
			} else {
				d.GeneratePeopleDict(commits)
			}
			helds[i] = held{pd: d.PeopleDict, rpd: d.ReversedPeopleDict, ok: true}
			dict, rev := dictSx(d.PeopleDict, d.ReversedPeopleDict)
			helds[i].first = dict.String() + rev.String()
			authors := make([]int, len(commits))
			for j, c := range commits {
				res, err := d.Consume(map[string]interface{}{c16.DependencyCommit: c})
				if err != nil {
					panic(err)
				}
				authors[j] = res[c16.DependencyAuthor].(int)
			}
			fields = append(fields, dict, rev, T("authors", Ints(authors)))
		})
		if p {
			helds[i].ok = false
			fields = append(fields, T("panic"))
		}
		obs = append(obs, T("st", fields...))
	}
	for i, h := range helds {
		if !h.ok {
			continue
		}
		if dict, rev := dictSx(h.pd, h.rpd); dict.String()+rev.String() != h.first {
			obs = append(obs, T("late", I(i), dict, rev))
		}
	}
	return T("obs", obs...)
}

func emitSeq(c *Config, kind string, stages []*stage) {
	var sts []Sx
	seen := map[string]int{}
	shared := false
	for i, s := range stages {
		sts = append(sts, s.sx())
		for _, g := range s.sigs {
			for _, k := range []string{strings.ToLower(g.name), strings.ToLower(g.email)} {
				if j, ok := seen[k]; ok && j != i {
					shared = true
				}
				seen[k] = i
			}
		}
	}
	c.Emit(T("kind", A(kind)), T("nt", B(len(stages) >= 2 && shared)), T("exact", B(false)), T("seq", I(1)), T("commits", sts...), runSeq(stages))
}

// ---- generators ----

// seqExhaustive: every ordered pair of commit lists of length <= 2 over six signatures (a name that is also an e-mail, case
// variants), every combination of the two modes; Initialize / pre-consume / Configure vary with the pair.
func seqExhaustive(c *Config) {
	var alpha []sig
	for _, n := range []string{"a", "b"} {
		for _, m := range []string{"a", "E", "e"} {
			alpha = append(alpha, sig{n, m})
		}
	}
	var lists [][]sig
	for _, s := range alpha {
		lists = append(lists, []sig{s})
	}
	for _, s := range alpha {
		for _, t := range alpha {
			lists = append(lists, []sig{s, t})
		}
	}
	k := 0
	for i, l1 := range lists {
		for j, l2 := range lists {
			for m := 0; m < 4; m++ {
				if !c.Thorough() && m != 0 && (i+j+m)%3 != 0 {
					// quick: both lists opportunistic always, the other mode combinations for a third of the pairs
					continue
				}
				k++
				emitSeq(c, "seq-exh", []*stage{
					{exact: m&1 != 0, init: true, sigs: l1},
					{exact: m&2 != 0, init: k%4 == 0, pre: k%3 == 0, how: (k / 5) % 2, sigs: l2}})
			}
		}
	}
}

// seqRandom: 2..4 lists over ONE pool (signatures recur between the stages): a new random list, a permutation / window /
// extension of an earlier one, the same list in the other mode.
func seqRandom(c *Config) {
	n := c.Count(2500, 40000)
	for i := 0; i < n; i++ {
		names, mails := 5, 5
		kind := "seq-dense"
		switch c.Rng.Intn(4) {
		case 1:
			names, mails, kind = 9, 8, "seq-mid"
		case 2:
			names, mails, kind = nOldNames, nOldMails, "seq-wide"
		case 3:
			names, mails, kind = len(namePool), len(mailPool), "seq-attr"
		}
		nst := 2 + c.Rng.Intn(3)
		var stages []*stage
		withMM := c.Rng.Intn(6) == 0
		for k := 0; k < nst; k++ {
			s := &stage{exact: c.Rng.Intn(3) == 0, init: c.Rng.Intn(3) == 0, pre: c.Rng.Intn(4) == 0}
			if c.Rng.Intn(5) == 0 {
				s.how = 1
			}
			switch r := c.Rng.Intn(6); {
			case k > 0 && r == 0: // a permutation of an earlier list
				s.sigs = append([]sig{}, stages[c.Rng.Intn(k)].sigs...)
				c.Rng.Shuffle(len(s.sigs), func(a, b int) { s.sigs[a], s.sigs[b] = s.sigs[b], s.sigs[a] })
			case k > 0 && r == 1: // a window of an earlier list (authors dropped, the others renumbered)
				p := stages[c.Rng.Intn(k)].sigs
				if len(p) > 0 {
					lo := c.Rng.Intn(len(p))
					s.sigs = append([]sig{}, p[lo:lo+1+c.Rng.Intn(len(p)-lo)]...)
				}
			case k > 0 && r == 2: // an earlier list with new commits in front: every index moves
				p := stages[c.Rng.Intn(k)].sigs
				s.sigs = append(randomSigs(c, 1+c.Rng.Intn(3), names, mails, false), p...)
			case k > 0 && r == 3: // the same signatures with other case
				for _, g := range stages[k-1].sigs {
					s.sigs = append(s.sigs, sig{mixCase(c, g.name), mixCase(c, g.email)})
				}
				if len(s.sigs) > 1 && c.Rng.Intn(2) == 0 {
					s.sigs = s.sigs[1:]
				}
			default:
				s.sigs = randomSigs(c, 1+c.Rng.Intn(10), names, mails, false)
			}
			if c.Rng.Intn(40) == 0 {
				s.sigs = nil // GeneratePeopleDict panics; the detector is used again
				kind = "seq-panic"
			}
			if withMM && !s.exact && len(s.sigs) > 0 && c.Rng.Intn(2) == 0 {
				var lines []string
				for q := 1 + c.Rng.Intn(3); q > 0; q-- {
					g := s.sigs[c.Rng.Intn(len(s.sigs))]
					l := mline{fromE: fmt.Sprintf("old%d@x", c.Rng.Intn(3))}
					if c.Rng.Intn(2) == 0 {
						l.fromE = g.email
						l.toN, l.toE = pick(c, namePool, 6), fmt.Sprintf("new%d@x", c.Rng.Intn(2))
					} else {
						l.toN, l.toE = g.name, g.email
					}
					if l.fromE == "" || strings.ContainsAny(l.fromE+l.toE+l.toN, "<>|\n") || (l.toN == "" && l.toE == "") {
						continue
					}
					lines = append(lines, l.render())
				}
				if len(lines) > 0 {
					txt := strings.Join(lines, "\n")
					s.mailmap = &txt
				}
			}
			stages = append(stages, s)
		}
		if withMM && kind != "seq-panic" {
			kind = "seq-mm"
		}
		emitSeq(c, kind, stages)
	}
}

// seqScale: long lists on one detector: 10^4 commits over 17 x 15 names and e-mails, the same list backwards (every
// index changes), a window of it in exact mode; 300 (thorough 1000, 5000) developers, then the middle of them only, then all again.
func seqScale(c *Config) {
	rev := func(l []sig) []sig {
		r := make([]sig, len(l))
		for i, s := range l {
			r[len(l)-1-i] = s
		}
		return r
	}
	few := fewSigs(10000, 17, 15)
	emitSeq(c, "seq-scale", []*stage{{init: true, sigs: few}, {sigs: rev(few), pre: true}, {exact: true, sigs: few[3000:7000]}, {init: true, sigs: few[5000:]}})
	many := manySigs(300)
	emitSeq(c, "seq-scale", []*stage{{init: true, sigs: many}, {sigs: many[150:450]}, {how: 1, sigs: rev(many)}, {exact: true, sigs: many}})
	if c.Thorough() {
		many = manySigs(1000)
		emitSeq(c, "seq-scale", []*stage{{init: true, sigs: many}, {sigs: many[500:1500]}, {how: 1, sigs: rev(many)}, {exact: true, sigs: many}})
		few = fewSigs(100000, 257, 255)
		emitSeq(c, "seq-scale", []*stage{{init: true, sigs: few}, {sigs: rev(few)}, {exact: true, pre: true, sigs: few[30000:70000]}})
		many = manySigs(5000) // 10^4 commits: judged per commit by the driver (above its limit for the quadratic oracles)
		emitSeq(c, "seq-scale", []*stage{{init: true, sigs: many}, {sigs: many[2000:7500]}, {exact: true, sigs: rev(many)}})
	}
}

func seqStreams(c *Config) {
	seqExhaustive(c)
	seqRandom(c)
	seqScale(c)
}

func replaySeq(c *Config, kind string, cs Sx) {
	cm, _ := cs.Field("commits")
	var stages []*stage
	for _, x := range cm.Args() {
		stages = append(stages, parseStage(x))
	}
	emitSeq(c, kind, stages)
}
