(* C09 - Hibernate / Boot of one item and of a list of branches preserve the invariant or end in an
   I/O error; simulation of the run of a plan by the run of its erasure. *)
From Coq Require Import List ZArith Bool NArith Lia.
From Herc Require Import Hibernation.Model Hibernation.Tables Hibernation.Inv.
Import ListNotations.
Open Scope Z_scope.

Section Sim.
  Context {S H K R byte : Type}.
  Variable o : ops S H K R byte.
  Notation item := (ist S H K).
  Notation fsys := (list (N * list byte)).
  Notation rst := (@rstate S H K byte).

  Hypothesis boot_hibernate : forall s, size o s <> 0 -> decompress o (compress o s) = s.
  Hypothesis file_roundtrip : forall h, decode o (strip o h) (encode o h) = Some h.
  Hypothesis truncation_detected : forall h j,
      (j < length (encode o h))%nat -> decode o (strip o h) (firstn j (encode o h)) = None.

  Variable cfg : config.
  Variable io : nat -> io_choice.
  Variable adv : nat -> list (@tamper).
  Variable fs0 : fsys.
  Hypothesis names_inj : forall i j, io_name (io i) = io_name (io j) -> i = j.
  Hypothesis names_new : forall i, fs_mem (io_name (io i)) fs0 = false.

  Variable strict : bool.
  Hypothesis strict_io : strict = true -> forall i, io_result (io i) = IoOk.
  Hypothesis strict_adv : strict = true -> forall i, adv i = [].

  Notation Inv := (Inv o io fs0 strict).
  Notation rel_item := (rel_item o strict).

  (* ------------------------------------------------------------------------------------ *)
  (* BurndownAnalysis.Hibernate of the awake item of branch b *)
  Lemma hibernate_item_spec : forall stt (st : rst) b0 b s,
      Inv stt (br st) (fs st) (nio st) b0 ->
      tget b stt = Some false ->
      tget b b0 = Some (Awake s) ->
      match hibernate_item o cfg io b st (Awake s) with
      | (Ok it', st') =>
          Inv (tset b true stt) (tset b it' (br st')) (fs st') (nio st') b0 /\ cidx st' = cidx st
      | (Err e, _) => io_err e = true /\ strict = false
      | (Panic _, _) => False
      end.
  Proof.
    intros stt st b0 b s I Hb H0.
    assert (Hfree := inv_next_name_free o io fs0 names_inj names_new strict _ _ _ _ _ I).
    unfold hibernate_item.
    destruct (disk cfg && (0 <? size o s) && (thr cfg <=? size o s)) eqn:Ed.
    - (* to disk *)
      apply andb_prop in Ed. destruct Ed as [Ed Ethr]. apply andb_prop in Ed. destruct Ed as [_ Epos].
      apply Z.ltb_lt in Epos. apply Z.leb_le in Ethr.
      replace ((size o s <? thr cfg) || (size o s =? 0)) with false.
      2:{ symmetry. apply orb_false_iff. split; [apply Z.ltb_ge; lia|apply Z.eqb_neq; lia]. }
      assert (Hstrict : strict = true -> io_result (io (nio st)) = IoOk) by (intros E; now apply strict_io).
      destruct (io_result (io (nio st))) as [|stage] eqn:Er.
      + (* all operations succeed *)
        cbn [tick_io fs]. rewrite Hfree. cbn.
        rewrite N.eqb_refl. cbn. split; [|reflexivity].
        eapply (inv_update o io fs0 strict) with (s := s) (ni := nio st); try exact I; eauto.
        * cbn. split; [reflexivity|]. exists (compress o s). repeat split.
          -- apply boot_hibernate. lia.
          -- left. unfold intact. cbn. now rewrite N.eqb_refl.
        * intros b' k n Hne Hh. cbn.
          destruct (N.eqb (io_name (io (nio st))) n) eqn:E; [|reflexivity].
          apply N.eqb_eq in E. destruct (inv_issued _ _ _ _ _ _ _ _ _ I _ _ _ Hh) as (i & Hi & Hn).
          rewrite Hn in E. apply names_inj in E. lia.
        * intros m Hm. unfold fs_mem in Hm. cbn in Hm.
          destruct (N.eqb (io_name (io (nio st))) m) eqn:E.
          -- apply N.eqb_eq in E. right. right. exists (strip o (compress o s)). now rewrite E.
          -- destruct (inv_held _ _ _ _ _ _ _ _ _ I m) as [Hl|(b' & k & Hh)]; [exact Hm|now left|].
             right. left. exists b', k. split; [|exact Hh]. intros ->.
             destruct (inv_live o io fs0 strict _ _ _ _ _ _ I Hb) as (s' & Hs' & _). congruence.
        * intros k n Hit. inversion Hit. exists (nio st). split; [lia|reflexivity].
        * intros k n Hit b' k' Hne Hh. inversion Hit; subst.
          destruct (inv_issued _ _ _ _ _ _ _ _ _ I _ _ _ Hh) as (i & Hi & Hn).
          apply names_inj in Hn. lia.
      + (* some operation fails *)
        assert (Hs : strict = false).
        { destruct strict; [|reflexivity]. now specialize (Hstrict eq_refl). }
        destruct stage as [|[|[|k]]]; cbn [tick_io fs]; try rewrite Hfree; cbn; auto.
    - (* in memory, or not at all *)
      destruct ((size o s <? thr cfg) || (size o s =? 0)) eqn:Eh; cbn; (split; [|reflexivity]).
      + eapply (inv_update o io fs0 strict) with (s := s) (ni := nio st); try exact I; eauto; cbn; try discriminate; auto.
        intros m Hm. destruct (inv_held _ _ _ _ _ _ _ _ _ I m Hm) as [Hl|(b' & k & Hh)]; [now left|].
        right. left. exists b', k. split; [|exact Hh]. intros ->.
        destruct (inv_live o io fs0 strict _ _ _ _ _ _ I Hb) as (s' & Hs' & _). congruence.
      + apply orb_false_iff in Eh. destruct Eh as [_ Ez]. apply Z.eqb_neq in Ez.
        eapply (inv_update o io fs0 strict) with (s := s) (ni := nio st); try exact I; eauto; cbn; try discriminate; auto.
        intros m Hm. destruct (inv_held _ _ _ _ _ _ _ _ _ I m Hm) as [Hl|(b' & k & Hh)]; [now left|].
        right. left. exists b', k. split; [|exact Hh]. intros ->.
        destruct (inv_live o io fs0 strict _ _ _ _ _ _ I Hb) as (s' & Hs' & _). congruence.
  Qed.

  (* BurndownAnalysis.Boot of the item of a branch that the plan put to sleep *)
  Lemma boot_item_spec : forall stt (st : rst) b0 b it,
      Inv stt (br st) (fs st) (nio st) b0 ->
      tget b stt = Some true ->
      tget b (br st) = Some it ->
      match boot_item o io b st it with
      | (Ok it', st') =>
          Inv (tset b false stt) (tset b it' (br st')) (fs st') (nio st') b0 /\ cidx st' = cidx st
      | (Err e, _) => io_err e = true /\ strict = false
      | (Panic _, _) => False
      end.
  Proof.
    intros stt st b0 b it I Hb Hit.
    destruct (inv_rel _ _ _ _ _ _ _ _ _ I _ _ Hit) as (s & hib & H0 & Hst & Hr).
    assert (Hheld_other : forall m, fs_mem m (fs st) = true -> (forall k, it <> HibDisk k m) ->
              fs_mem m fs0 = true \/ (exists b' k, b' <> b /\ tget b' (br st) = Some (HibDisk k m)) \/
              (exists k, @Awake S H K s = HibDisk k m)).
    { intros m Hm Hnot. destruct (inv_held _ _ _ _ _ _ _ _ _ I m Hm) as [Hl|(b' & k & Hh)]; [now left|].
      right. left. exists b', k. split; [|exact Hh]. intros ->. rewrite Hit in Hh. inversion Hh.
      now apply (Hnot k). }
    destruct it as [s'|h|k n]; cbn in Hr.
    - (* stayed awake *)
      subst s'. cbn. split; [|reflexivity].
      eapply (inv_update o io fs0 strict) with (s := s) (ni := nio st); try exact I; eauto; cbn; try discriminate; auto.
      intros m Hm. apply Hheld_other; [exact Hm|discriminate].
    - (* compressed in memory *)
      destruct Hr as [_ Hd]. cbn. rewrite Hd. split; [|reflexivity].
      eapply (inv_update o io fs0 strict) with (s := s) (ni := nio st); try exact I; eauto; cbn; try discriminate; auto.
      intros m Hm. apply Hheld_other; [exact Hm|discriminate].
    - (* on disk *)
      destruct Hr as (_ & h & Hk & Hd & Hfile).
      assert (Hstrict : strict = true -> io_result (io (nio st)) = IoOk) by (intros E; now apply strict_io).
      unfold boot_item. cbn [tick_io fs].
      destruct Hfile as [Hi|[Hs [Hn|(j & Hj & Hp)]]].
      + (* the file is intact *)
        unfold intact in Hi. rewrite Hi. subst k. rewrite file_roundtrip.
        destruct (io_result (io (nio st))) as [|stage] eqn:Er.
        * cbn. rewrite Hd. split; [|reflexivity].
          eapply (inv_update o io fs0 strict) with (s := s) (ni := nio st); try exact I; eauto; cbn; try discriminate; auto.
          -- intros b' k n' Hne Hh. rewrite fs_get_remove.
             destruct (N.eqb n n') eqn:E; [|reflexivity].
             apply N.eqb_eq in E. subst n'. exfalso. apply Hne.
             eapply (inv_distinct _ _ _ _ _ _ _ _ _ I); eauto.
          -- intros m Hm. unfold fs_mem in Hm. rewrite fs_get_remove in Hm.
             destruct (N.eqb n m) eqn:E; [discriminate|]. apply N.eqb_neq in E.
             apply Hheld_other; [exact Hm|]. intros k Hx. inversion Hx. congruence.
        * assert (Hs : strict = false).
          { destruct strict; [|reflexivity]. now specialize (Hstrict eq_refl). }
          destruct stage as [|[|k]]; cbn; auto.
      + (* the file is gone *)
        rewrite Hn. destruct (io_result (io (nio st))) as [|[|[|k']]]; cbn; auto.
      + (* the file was truncated *)
        rewrite Hp. subst k. rewrite (truncation_detected _ _ Hj).
        destruct (io_result (io (nio st))) as [|[|[|k']]]; cbn; auto.
  Qed.

  (* ------------------------------------------------------------------------------------ *)
  (* a Hibernate / Boot action over its list of branches *)
  Lemma tget_tset_all_const : forall {V} (bs : list Z) (v : V) (l : list (Z * V)) b,
      tget b (tset_all l (map (fun n => (n, v)) bs)) = if kmem b bs then Some v else tget b l.
  Proof.
    intros V bs v. induction bs as [|x bs IH]; intros l b; cbn; [reflexivity|].
    rewrite IH. rewrite tget_tset. rewrite (Z.eqb_sym x b). unfold kmem. cbn.
    destruct (existsb (Z.eqb b) bs); destruct (Z.eqb b x); reflexivity.
  Qed.

  Lemma nodupb_cons : forall x l, nodupb (x :: l) = true -> kmem x l = false /\ nodupb l = true.
  Proof.
    intros x l Hn. cbn in Hn. apply andb_prop in Hn. destruct Hn as [Hn Hl].
    split; [|exact Hl]. unfold kmem. now apply negb_true_iff in Hn.
  Qed.

  Lemma kmem_false_neq : forall b x l, kmem x l = false -> In b l -> b <> x.
  Proof.
    intros b x l Hk Hin ->. unfold kmem in Hk.
    assert (existsb (Z.eqb x) l = true) by (apply existsb_exists; exists x; split; [exact Hin|apply Z.eqb_refl]).
    congruence.
  Qed.

  Lemma hibernate_all : forall bs stt (st : rst) b0,
      Inv stt (br st) (fs st) (nio st) b0 ->
      nodupb bs = true -> forallb (live stt) bs = true ->
      match for_branches (hibernate_item o cfg io) bs st with
      | (Ok _, st') =>
          Inv (tset_all stt (map (fun n => (n, true)) bs)) (br st') (fs st') (nio st') b0 /\ cidx st' = cidx st
      | (Err e, _) => io_err e = true /\ strict = false
      | (Panic _, _) => False
      end.
  Proof.
    induction bs as [|b bs IH]; intros stt st b0 I Hnd Hlive; cbn [for_branches map tset_all].
    - auto.
    - apply nodupb_cons in Hnd. destruct Hnd as [Hnot Hnd].
      cbn in Hlive. apply andb_prop in Hlive. destruct Hlive as [Hb Hlive].
      unfold live in Hb. destruct (tget b stt) as [[|]|] eqn:Est; try discriminate.
      destruct (inv_live o io fs0 strict _ _ _ _ _ _ I Est) as (s & Hs1 & Hs0).
      rewrite Hs1.
      pose proof (hibernate_item_spec stt st b0 b s I Est Hs0) as Hspec.
      destruct (hibernate_item o cfg io b st (Awake s)) as [[it'|c|e] st'].
      + destruct Hspec as [I' Hc].
        specialize (IH (tset b true stt) (with_br st' (tset b it' (br st'))) b0).
        cbn [br fs nio with_br cidx] in IH.
        assert (Hl' : forallb (live (tset b true stt)) bs = true).
        { apply forallb_forall. intros x Hx. rewrite forallb_forall in Hlive. specialize (Hlive x Hx).
          unfold live in *. rewrite tget_tset_other; [exact Hlive|].
          intros ->. eapply kmem_false_neq; eauto. }
        specialize (IH I' Hnd Hl').
        destruct (for_branches (hibernate_item o cfg io) bs (with_br st' (tset b it' (br st')))) as [[u|c|e] st''];
          try exact IH.
        destruct IH as [I'' Hc']. split; [exact I''|]. now rewrite Hc'.
      + exact Hspec.
      + exact Hspec.
  Qed.

  Lemma boot_all : forall bs stt (st : rst) b0,
      Inv stt (br st) (fs st) (nio st) b0 ->
      nodupb bs = true -> forallb (asleep stt) bs = true ->
      match for_branches (boot_item o io) bs st with
      | (Ok _, st') =>
          Inv (tset_all stt (map (fun n => (n, false)) bs)) (br st') (fs st') (nio st') b0 /\ cidx st' = cidx st
      | (Err e, _) => io_err e = true /\ strict = false
      | (Panic _, _) => False
      end.
  Proof.
    induction bs as [|b bs IH]; intros stt st b0 I Hnd Hlive; cbn [for_branches map tset_all].
    - auto.
    - apply nodupb_cons in Hnd. destruct Hnd as [Hnot Hnd].
      cbn in Hlive. apply andb_prop in Hlive. destruct Hlive as [Hb Hlive].
      unfold asleep in Hb. destruct (tget b stt) as [[|]|] eqn:Est; try discriminate.
      destruct (tget b (br st)) as [it|] eqn:Eit.
      2:{ exfalso. apply tget_none_not_key in Eit. rewrite (inv_keys1 _ _ _ _ _ _ _ _ _ I) in Eit.
          apply Eit. eapply tget_in_keys; eauto. }
      pose proof (boot_item_spec stt st b0 b it I Est Eit) as Hspec.
      destruct (boot_item o io b st it) as [[it'|c|e] st'].
      + destruct Hspec as [I' Hc].
        specialize (IH (tset b false stt) (with_br st' (tset b it' (br st'))) b0).
        cbn [br fs nio with_br cidx] in IH.
        assert (Hl' : forallb (asleep (tset b false stt)) bs = true).
        { apply forallb_forall. intros x Hx. rewrite forallb_forall in Hlive. specialize (Hlive x Hx).
          unfold asleep in *. rewrite tget_tset_other; [exact Hlive|].
          intros ->. eapply kmem_false_neq; eauto. }
        specialize (IH I' Hnd Hl').
        destruct (for_branches (boot_item o io) bs (with_br st' (tset b it' (br st')))) as [[u|c|e] st''];
          try exact IH.
        destruct IH as [I'' Hc']. split; [exact I''|]. now rewrite Hc'.
      + exact Hspec.
      + exact Hspec.
  Qed.
End Sim.
