(* A red-black tree is at most 2*log2(size+1) deep; the executable check rb_okb is sound. *)
From Coq Require Import List ZArith Lia Bool Arith.
Import ListNotations.
From Herc Require Import RBTree.Model RBTree.Spec RBTree.Arena RBTree.InsertProofs RBTree.MapProofs.
Open Scope Z_scope.

Lemma RB_height t c n : RB t c n ->
  (height t <= match c with Red => 2 * n | Black => 2 * n + 1 end)%nat.
Proof.
  induction 1 as [c|l i k v r n Hl IHl Hr IHr|c l i k v r n Hl IHl Hr IHr]; cbn [height].
  - destruct c; lia.
  - lia.
  - destruct c; lia.
Qed.

Lemma RB_size t c n : RB t c n -> 2 ^ Z.of_nat n <= tsize t + 1.
Proof.
  induction 1 as [c|l i k v r n Hl IHl Hr IHr|c l i k v r n Hl IHl Hr IHr]; cbn [tsize].
  - simpl. lia.
  - lia.
  - rewrite Nat2Z.inj_succ, Z.pow_succ_r by lia. lia.
Qed.

Lemma tsize_nonneg t : 0 <= tsize t.
Proof. induction t; cbn [tsize]; lia. Qed.

(* black height n, at least 2^n - 1 nodes, no path longer than 2n nodes *)
Theorem redblack_height_pow t : is_redblack t ->
  exists n, (height t <= 2 * n)%nat /\ 2 ^ Z.of_nat n <= tsize t + 1.
Proof.
  intros [n H]. exists n. split; [apply (RB_height _ _ _ H)|apply (RB_size _ _ _ H)].
Qed.

Theorem redblack_height_log t : is_redblack t ->
  Z.of_nat (height t) <= 2 * Z.log2 (tsize t + 1).
Proof.
  intros H. destruct (redblack_height_pow t H) as (n & Hh & Hs).
  pose proof (tsize_nonneg t).
  assert (Z.of_nat n <= Z.log2 (tsize t + 1)).
  { apply Z.log2_le_pow2; lia. }
  lia.
Qed.

(* ---------- the executable checker ---------- *)

Lemma bh_RB : forall t n, bh t = Some n -> no_red_red t = true ->
  RB t Black n /\ (is_red t = false -> RB t Red n).
Proof.
  induction t as [|c l IHl i k v r IHr]; intros n Hb Hr.
  - inversion Hb; subst. split; intros; constructor.
  - cbn [bh] in Hb. destruct (bh l) as [x|] eqn:El; [|discriminate].
    destruct (bh r) as [y|] eqn:Er; [|discriminate].
    destruct (Nat.eqb_spec x y); [|discriminate]. subst y.
    cbn [no_red_red] in Hr. apply andb_prop in Hr. destruct Hr as [Hr Hr3].
    apply andb_prop in Hr. destruct Hr as [Hr1 Hr2].
    destruct (IHl x eq_refl Hr2) as [Hl1 Hl2]. destruct (IHr x eq_refl Hr3) as [Hr4 Hr5].
    destruct c; inversion Hb; subst.
    + apply andb_prop in Hr1. destruct Hr1 as [Ha Hb'].
      apply negb_true_iff in Ha. apply negb_true_iff in Hb'.
      split; [|discriminate]. apply RB_r; auto.
    + split; intros; apply RB_b; auto.
Qed.

Theorem rb_okb_sound t : rb_okb t = true -> is_redblack t /\ bst t.
Proof.
  unfold rb_okb. intros H. apply andb_prop in H. destruct H as [H H4].
  apply andb_prop in H. destruct H as [H H3]. apply andb_prop in H. destruct H as [H1 H2].
  apply negb_true_iff in H1. destruct (bh t) as [n|] eqn:E; [|discriminate].
  split.
  - exists n. apply (bh_RB t n E H2); auto.
  - apply bst_sorted, sortedb_sorted; auto.
Qed.

(* the inductive invariant RB says: black root (in context Red), no red node with a red child, the
   same number of black nodes on every path *)
Lemma RB_bh t c n : RB t c n ->
  bh t = Some n /\ no_red_red t = true /\ (c = Red -> is_red t = false).
Proof.
  induction 1 as [c|l i k v r n Hl IHl Hr IHr|c l i k v r n Hl IHl Hr IHr].
  - repeat split; auto.
  - destruct IHl as (A1 & A2 & A3). destruct IHr as (B1 & B2 & B3).
    cbn [bh no_red_red]. rewrite A1, B1, Nat.eqb_refl, A2, B2, A3, B3 by auto.
    repeat split; auto. discriminate.
  - destruct IHl as (A1 & A2 & A3). destruct IHr as (B1 & B2 & B3).
    cbn [bh no_red_red]. rewrite A1, B1, Nat.eqb_refl, A2, B2. repeat split; auto.
Qed.

Theorem redblack_iff t :
  is_redblack t <-> is_red t = false /\ no_red_red t = true /\ exists n, bh t = Some n.
Proof.
  split.
  - intros [n H]. destruct (RB_bh _ _ _ H) as (A & B & C). repeat split; eauto.
  - intros (A & B & n & C). exists n. apply (bh_RB t n C B); auto.
Qed.
