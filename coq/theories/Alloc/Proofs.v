(* C06 - allocator invariants: sets as sorted lists, malloc / free / write preserve the invariant
   that ties the arena, the gap set and the owners together. *)
From Coq Require Import List NArith ZArith Bool Lia Sorted.
From Herc Require Import Alloc.Model.
Import ListNotations.
Open Scope N_scope.

(* ---------------------------------------------------------------------------------------------
   finite sets as strictly increasing lists *)

Lemma memb_In : forall x l, memb x l = true <-> In x l.
Proof.
  intros x l. unfold memb. rewrite existsb_exists. split.
  - intros (y & Hy & He). apply N.eqb_eq in He. subst. exact Hy.
  - intros H. exists x. split; [exact H|apply N.eqb_refl].
Qed.

Lemma memb_false : forall x l, memb x l = false <-> ~ In x l.
Proof.
  intros x l. rewrite <- memb_In. destruct (memb x l); split; intros H;
    try reflexivity; try discriminate; try (exfalso; apply H; reflexivity); try (intros H'; discriminate).
Qed.

Lemma ins_sorted_In : forall x y l, In y (ins_sorted x l) <-> y = x \/ In y l.
Proof.
  intros x y l. induction l as [|a l IH]; cbn [ins_sorted].
  - cbn [In]. intuition.
  - destruct (x <? a) eqn:E1.
    + cbn [In]. intuition.
    + destruct (x =? a) eqn:E2.
      * apply N.eqb_eq in E2. subst. cbn [In]. intuition.
      * cbn [In]. rewrite IH. intuition.
Qed.

Lemma ins_sorted_sorted : forall x l, StronglySorted N.lt l -> StronglySorted N.lt (ins_sorted x l).
Proof.
  intros x l H. induction H as [|a l Hs IH Hall]; cbn [ins_sorted].
  - constructor; constructor.
  - destruct (x <? a) eqn:E1.
    + apply N.ltb_lt in E1. constructor.
      * constructor; assumption.
      * constructor; [exact E1|]. eapply Forall_impl; [|exact Hall]. intros y Hy. cbn beta in Hy. lia.
    + destruct (x =? a) eqn:E2.
      * constructor; assumption.
      * apply N.ltb_ge in E1. apply N.eqb_neq in E2. constructor; [exact IH|].
        apply Forall_forall. intros y Hy. apply ins_sorted_In in Hy. destruct Hy as [->|Hy].
        -- lia.
        -- rewrite Forall_forall in Hall. apply Hall. exact Hy.
Qed.

Lemma ins_sorted_length : forall x l, ~ In x l -> length (ins_sorted x l) = S (length l).
Proof.
  intros x l. induction l as [|a l IH]; intros Hn; cbn [ins_sorted]; [reflexivity|].
  destruct (x <? a) eqn:E1; [reflexivity|].
  destruct (x =? a) eqn:E2.
  - apply N.eqb_eq in E2. subst. exfalso. apply Hn. left. reflexivity.
  - cbn [length]. rewrite IH; [reflexivity|]. intros H. apply Hn. right. exact H.
Qed.

Lemma ins_sorted_last : forall x l, Forall (fun y => y < x) l -> ins_sorted x l = l ++ [x].
Proof.
  intros x l H. induction H as [|a l Ha Hl IH]; cbn [ins_sorted app]; [reflexivity|].
  assert (E1 : (x <? a) = false) by (apply N.ltb_ge; lia).
  assert (E2 : (x =? a) = false) by (apply N.eqb_neq; lia).
  rewrite E1, E2, IH. reflexivity.
Qed.

Lemma remove_n_incl : forall x y l, In y (remove_n x l) -> In y l.
Proof.
  intros x y l. induction l as [|a l IH]; cbn [remove_n]; [intros []|].
  destruct (x =? a); cbn [In]; intuition.
Qed.

Lemma remove_n_In : forall x y l, StronglySorted N.lt l -> (In y (remove_n x l) <-> In y l /\ y <> x).
Proof.
  intros x y l H. induction H as [|a l Hs IH Hall]; cbn [remove_n].
  - cbn [In]. intuition.
  - rewrite Forall_forall in Hall. destruct (x =? a) eqn:E.
    + apply N.eqb_eq in E. subst a. cbn [In]. split.
      * intros Hy. split; [right; exact Hy|]. specialize (Hall y Hy). lia.
      * intros [[->|Hy] Hne]; [congruence|exact Hy].
    + apply N.eqb_neq in E. cbn [In]. rewrite IH. split.
      * intros [->|[Hy Hne]]; [split; [left; reflexivity|congruence]|split; [right; exact Hy|exact Hne]].
      * intros [[->|Hy] Hne]; [left; reflexivity|right; split; assumption].
Qed.

Lemma remove_n_sorted : forall x l, StronglySorted N.lt l -> StronglySorted N.lt (remove_n x l).
Proof.
  intros x l H. induction H as [|a l Hs IH Hall]; cbn [remove_n]; [constructor|].
  destruct (x =? a); [exact Hs|]. constructor; [exact IH|].
  rewrite Forall_forall in *. intros y Hy. apply Hall. eapply remove_n_incl. exact Hy.
Qed.

Lemma remove_n_length : forall x l, In x l -> S (length (remove_n x l)) = length l.
Proof.
  intros x l. induction l as [|a l IH]; intros Hin; [destruct Hin|]. cbn [remove_n].
  destruct (x =? a) eqn:E; [reflexivity|]. apply N.eqb_neq in E.
  destruct Hin as [->|Hin]; [congruence|]. cbn [length]. rewrite IH; [reflexivity|exact Hin].
Qed.

Lemma sorted_app_lt : forall l1 x l2, StronglySorted N.lt (l1 ++ x :: l2) -> Forall (fun y => y < x) l1.
Proof.
  induction l1 as [|a l1 IH]; intros x l2 H; [constructor|].
  cbn [app] in H. inversion H as [|? ? Hs Hall]; subst. constructor.
  - rewrite Forall_forall in Hall. apply Hall. apply in_or_app. right. left. reflexivity.
  - eapply IH. exact Hs.
Qed.

Lemma set_of_app : forall l acc, StronglySorted N.lt (acc ++ l) ->
  fold_left (fun a x => ins_sorted x a) l acc = acc ++ l.
Proof.
  induction l as [|x l IH]; intros acc H; cbn [fold_left].
  - rewrite app_nil_r. reflexivity.
  - rewrite (ins_sorted_last x acc) by (eapply sorted_app_lt; exact H).
    rewrite IH; rewrite <- app_assoc; [reflexivity|exact H].
Qed.

Lemma set_of_sorted : forall l, StronglySorted N.lt l -> set_of l = l.
Proof. intros l H. unfold set_of. rewrite set_of_app; [reflexivity|exact H]. Qed.

Lemma sorted_NoDup : forall l, StronglySorted N.lt l -> NoDup l.
Proof.
  intros l H. induction H as [|a l Hs IH Hall]; constructor; [|exact IH].
  intros Hin. rewrite Forall_forall in Hall. specialize (Hall a Hin). lia.
Qed.

(* ---------------------------------------------------------------------------------------------
   lists *)

Lemma set_nth_length : forall (A : Type) i (v : A) l, length (set_nth i v l) = length l.
Proof.
  intros A i v l. revert i. induction l as [|y l IH]; intros i; cbn [set_nth]; [reflexivity|].
  destruct i; cbn [length]; [reflexivity|]. rewrite IH. reflexivity.
Qed.

Lemma nth_set_nth_other : forall (A : Type) i j (v d : A) l, i <> j -> nth j (set_nth i v l) d = nth j l d.
Proof.
  intros A i j v d l. revert i j. induction l as [|y l IH]; intros i j Hne; cbn [set_nth]; [reflexivity|].
  destruct i, j; cbn [nth]; try reflexivity; try congruence. apply IH. congruence.
Qed.

Lemma nth_set_nth_same : forall (A : Type) i (v d : A) l, (i < length l)%nat -> nth i (set_nth i v l) d = v.
Proof.
  intros A i v d l. revert i. induction l as [|y l IH]; intros i Hlt; cbn [length] in Hlt; [lia|].
  cbn [set_nth]. destruct i; cbn [nth]; [reflexivity|]. apply IH. lia.
Qed.

(* owners *)
Lemma owns_In : forall w o id, owns w o id = true <-> In (id, o) (owned w).
Proof.
  intros w o id. unfold owns. rewrite existsb_exists. split.
  - intros ((x, y) & Hin & He). cbn [fst snd] in He. apply andb_true_iff in He. destruct He as [E1 E2].
    apply N.eqb_eq in E1. apply Nat.eqb_eq in E2. subst. exact Hin.
  - intros Hin. exists (id, o). split; [exact Hin|]. cbn [fst snd]. rewrite N.eqb_refl, Nat.eqb_refl. reflexivity.
Qed.

Lemma nodup_fst_fun : forall (l : list (N * nat)) a b c,
  NoDup (map fst l) -> In (a, b) l -> In (a, c) l -> b = c.
Proof.
  induction l as [|(x, y) l IH]; intros a b c Hnd H1 H2; [destruct H1|].
  cbn [map fst] in Hnd. inversion Hnd as [|? ? Hnot Hnd']; subst.
  destruct H1 as [E1|H1], H2 as [E2|H2].
  - congruence.
  - inversion E1; subst. exfalso. apply Hnot. apply (in_map fst) in H2. exact H2.
  - inversion E2; subst. exfalso. apply Hnot. apply (in_map fst) in H1. exact H1.
  - eapply IH; eassumption.
Qed.

Lemma disown_In : forall id x (l : list (N * nat)), In x (map fst (disown id l)) <-> In x (map fst l) /\ x <> id.
Proof.
  intros id x l. unfold disown. rewrite !in_map_iff. split.
  - intros ((a, b) & Hf & Hin). apply filter_In in Hin. destruct Hin as [Hin Hb]. cbn [fst] in *. subst a.
    apply negb_true_iff, N.eqb_neq in Hb. split; [exists (x, b); split; [reflexivity|exact Hin]|exact Hb].
  - intros (((a, b) & Hf & Hin) & Hne). cbn [fst] in Hf. subst a. exists (x, b). split; [reflexivity|].
    apply filter_In. split; [exact Hin|]. cbn [fst]. apply negb_true_iff, N.eqb_neq. exact Hne.
Qed.

Lemma disown_pairs : forall id p (l : list (N * nat)), In p (disown id l) <-> In p l /\ fst p <> id.
Proof.
  intros id p l. unfold disown. rewrite filter_In. rewrite negb_true_iff, N.eqb_neq. reflexivity.
Qed.

Lemma disown_NoDup : forall id (l : list (N * nat)), NoDup (map fst l) -> NoDup (map fst (disown id l)).
Proof.
  intros id l. induction l as [|(a, b) l IH]; intros H; [constructor|].
  cbn [map fst] in H. inversion H as [|? ? Hnot Hnd]; subst. unfold disown. cbn [filter fst].
  destruct (negb (a =? id)); [|apply IH; exact Hnd].
  cbn [map fst]. constructor; [|apply IH; exact Hnd].
  intros Hin. apply Hnot. apply (disown_In id a l). exact Hin.
Qed.

Lemma disown_length : forall id (l : list (N * nat)), NoDup (map fst l) -> In id (map fst l) ->
  S (length (disown id l)) = length l.
Proof.
  intros id l. induction l as [|(a, b) l IH]; intros Hnd Hin; [destruct Hin|].
  cbn [map fst] in Hnd, Hin. inversion Hnd as [|? ? Hnot Hnd']; subst. unfold disown. cbn [filter fst].
  destruct (N.eq_dec a id) as [->|Hne].
  - rewrite N.eqb_refl. cbn [negb]. f_equal.
    assert (Hall : forall p, In p l -> negb (fst p =? id) = true).
    { intros p Hp. apply negb_true_iff, N.eqb_neq. intros E. apply Hnot. rewrite <- E. apply in_map. exact Hp. }
    clear -Hall. induction l as [|p l IH]; [reflexivity|]. cbn [filter]. rewrite Hall by (left; reflexivity).
    cbn [length]. f_equal. apply IH. intros q Hq. apply Hall. right. exact Hq.
  - destruct Hin as [E|Hin]; [congruence|].
    assert (E : (a =? id) = false) by (apply N.eqb_neq; exact Hne). rewrite E. cbn [negb length].
    f_equal. apply IH; assumption.
Qed.

(* ---------------------------------------------------------------------------------------------
   the invariant of an awake allocator with n cells, gap set g and owner table ow *)

Record AInv (n : nat) (g : list N) (ow : list (N * nat)) : Prop := mkAInv {
  ai_sorted : StronglySorted N.lt g;
  ai_gaps : forall x, In x g -> 0 < x < N.of_nat n;
  ai_nodup : NoDup (map fst ow);
  ai_live : forall x, In x (map fst ow) -> 0 < x < N.of_nat n /\ ~ In x g;
  ai_complete : forall x, 0 < x < N.of_nat n -> ~ In x g -> In x (map fst ow);
  ai_empty : n = 0%nat -> g = [] /\ ow = [];
  ai_count : n <> 0%nat -> (length ow + 1 + length g = n)%nat;
  ai_max : N.of_nat n <= max_u32 - 1 }.

Lemma AInv_init : AInv 0 [] [].
Proof.
  constructor.
  - constructor.
  - intros x [].
  - constructor.
  - intros x [].
  - intros x [H1 H2] _. cbn in H2. lia.
  - auto.
  - intros H. congruence.
  - unfold max_u32. cbn. lia.
Qed.

Definition awake_inv (a : alloc) (ow : list (N * nat)) : Prop :=
  exists s g, storage a = Some s /\ gaps a = Some g /\ hslen a = 0%Z /\ hglen a = 0%Z /\ AInv (length s) g ow.

(* malloc *)
Lemma malloc_spec : forall ch a ow s g o,
  storage a = Some s -> gaps a = Some g -> AInv (length s) g ow ->
  malloc ch a = Panic PMaxSize \/
  (exists id s' g',
     malloc ch a = Ok (mkalloc (thr a) (Some s') (Some g') (hdata a) (hslen a) (hglen a), id) /\
     AInv (length s') g' ((id, o) :: ow) /\
     id <> 0 /\ ~ In id (map fst ow) /\ (In id g \/ N.of_nat (length s) <= id) /\
     (forall k, (k < length s)%nat -> nth k s' zero_cell = nth k s zero_cell)).
Proof.
  intros ch a ow s g o Hs Hg Hinv. destruct Hinv as [Hsorted Hgaps Hnodup Hlive Hcomplete Hempty Hcount Hmax].
  unfold malloc. rewrite Hs, Hg.
  destruct g as [|g0 g'].
  - (* the fresh end of the storage *)
    destruct s as [|c0 s0].
    + (* first use: slot 0 is reserved *)
      right. destruct (Hempty eq_refl) as [_ ->].
      exists 1, [zero_cell; zero_cell], []. split; [|split; [|split; [|split; [|split]]]].
      * unfold with_storage. rewrite Hg. reflexivity.
      * constructor.
        -- constructor.
        -- intros x [].
        -- cbn. constructor; [intros []|constructor].
        -- intros x Hx. cbn [map fst In] in Hx. destruct Hx as [<-|[]]. cbn. split; [lia|intros []].
        -- intros x Hx _. cbn [map fst In]. left. cbn in Hx. lia.
        -- cbn. intros H; discriminate.
        -- cbn. intros _. reflexivity.
        -- unfold max_u32. cbn. lia.
      * lia.
      * intros [].
      * right. cbn. lia.
      * intros k Hk. cbn in Hk. lia.
    + set (s := c0 :: s0) in *.
      assert (Hlen : length s <> 0%nat) by (unfold s; cbn; lia).
      specialize (Hcount Hlen). cbn [length] in Hcount.
      change (match s with [] => [zero_cell] | _ :: _ => s end) with s.
      destruct (N.of_nat (length s) =? max_u32 - 1) eqn:E1; [left; reflexivity|].
      right. apply N.eqb_neq in E1.
      assert (E2 : (N.of_nat (length s) <? max_u32) = true) by (apply N.ltb_lt; unfold max_u32 in *; lia).
      rewrite E2. cbn [negb].
      assert (Hid : N.of_nat (length s) mod two32 = N.of_nat (length s)).
      { apply N.mod_small. unfold two32, max_u32 in *. lia. }
      rewrite Hid.
      assert (Hl' : length (s ++ [zero_cell]) = S (length s)) by (rewrite app_length; cbn; lia).
      exists (N.of_nat (length s)), (s ++ [zero_cell]), []. split; [|split; [|split; [|split; [|split]]]].
      * unfold with_storage. rewrite Hg. reflexivity.
      * rewrite Hl'. constructor.
        -- constructor.
        -- intros x [].
        -- cbn [map fst]. constructor; [|exact Hnodup]. intros Hin. apply Hlive in Hin. lia.
        -- intros x Hx. cbn [map fst In] in Hx. split; [|intros []].
           destruct Hx as [<-|Hin]; [lia|]. apply Hlive in Hin. lia.
        -- intros x Hx Hn. cbn [map fst In].
           destruct (N.eq_dec x (N.of_nat (length s))) as [->|Hne]; [left; reflexivity|].
           right. apply Hcomplete; [lia|exact Hn].
        -- intros H; discriminate.
        -- intros _. cbn [length]. lia.
        -- unfold max_u32 in *. lia.
      * lia.
      * intros Hin. apply Hlive in Hin. lia.
      * right. lia.
      * intros k Hk. apply app_nth1. exact Hk.
  - (* a gap *)
    right. set (g := g0 :: g') in *.
    set (key := nth (Nat.modulo ch (length g)) g 0).
    assert (Hkey : In key g).
    { apply nth_In. apply Nat.mod_upper_bound. unfold g. cbn. lia. }
    assert (Hlen : length s <> 0%nat).
    { intros E. specialize (Hgaps key Hkey). rewrite E in Hgaps. cbn in Hgaps. lia. }
    exists key, s, (remove_n key g). split; [|split; [|split; [|split; [|split]]]].
    + unfold with_gaps. rewrite Hs. reflexivity.
    + constructor.
      * apply remove_n_sorted. exact Hsorted.
      * intros x Hx. apply Hgaps. eapply remove_n_incl. exact Hx.
      * cbn [map fst]. constructor; [|exact Hnodup]. intros Hin. apply Hlive in Hin. tauto.
      * intros x Hx. cbn [map fst In] in Hx. split.
        -- destruct Hx as [<-|Hin]; [apply Hgaps; exact Hkey|apply Hlive; exact Hin].
        -- intros Hr. apply remove_n_In in Hr; [|exact Hsorted]. destruct Hr as [Hr Hne].
           destruct Hx as [<-|Hin]; [congruence|]. apply Hlive in Hin. tauto.
      * intros x Hx Hn. cbn [map fst In].
        destruct (N.eq_dec x key) as [->|Hne]; [left; reflexivity|].
        right. apply Hcomplete; [exact Hx|]. intros Hin. apply Hn. apply remove_n_In; [exact Hsorted|]. tauto.
      * intros E. contradiction.
      * intros _. specialize (Hcount Hlen). pose proof (remove_n_length key g Hkey) as Hr. cbn [length]. lia.
      * exact Hmax.
    + intros E. specialize (Hgaps key Hkey). lia.
    + intros Hin. apply Hlive in Hin. tauto.
    + left. exact Hkey.
    + intros k Hk. reflexivity.
Qed.

(* free of an owned id *)
Lemma free_spec : forall a ow s g id,
  storage a = Some s -> gaps a = Some g -> AInv (length s) g ow -> In id (map fst ow) ->
  free id a = Ok (mkalloc (thr a) (Some (set_nth (N.to_nat id) zero_cell s)) (Some (ins_sorted id g))
                          (hdata a) (hslen a) (hglen a)) /\
  AInv (length s) (ins_sorted id g) (disown id ow) /\ 0 < id < N.of_nat (length s).
Proof.
  intros a ow s g id Hs Hg Hinv Hown. destruct Hinv as [Hsorted Hgaps Hnodup Hlive Hcomplete Hempty Hcount Hmax].
  destruct (Hlive id Hown) as [Hrange Hnotgap].
  unfold free. rewrite Hs, Hg.
  assert (E0 : (id =? 0) = false) by (apply N.eqb_neq; lia). rewrite E0.
  assert (E1 : memb id g = false) by (apply memb_false; exact Hnotgap). rewrite E1.
  assert (E2 : (N.of_nat (length s) <=? id) = false) by (apply N.leb_gt; lia). rewrite E2.
  split; [reflexivity|]. split; [|exact Hrange].
  constructor.
  - apply ins_sorted_sorted. exact Hsorted.
  - intros x Hx. apply ins_sorted_In in Hx. destruct Hx as [->|Hx]; [lia|apply Hgaps; exact Hx].
  - apply disown_NoDup. exact Hnodup.
  - intros x Hx. apply disown_In in Hx. destruct Hx as [Hx Hne]. split; [apply Hlive; exact Hx|].
    intros Hin. apply ins_sorted_In in Hin.
    destruct Hin as [->|Hin]; [congruence|]. apply Hlive in Hx. tauto.
  - intros x Hx Hn. apply disown_In. split.
    + apply Hcomplete; [exact Hx|]. intros Hin. apply Hn. apply ins_sorted_In. right. exact Hin.
    + intros ->. apply Hn. apply ins_sorted_In. left. reflexivity.
  - intros E. rewrite E in Hrange. cbn in Hrange. lia.
  - intros Hn. specialize (Hcount Hn).
    rewrite ins_sorted_length by exact Hnotgap.
    pose proof (disown_length id ow Hnodup Hown). lia.
  - exact Hmax.
Qed.
