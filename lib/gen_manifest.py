#!/usr/bin/env python3
"""Regenerates MANIFEST.json from lib/props/Cxx.py (claimed properties) and lib/not_applicable.json."""
import json
import os
import subprocess
import sys

ROOT = os.path.dirname(os.path.dirname(os.path.abspath(__file__)))
sys.path.insert(0, os.path.join(ROOT, 'lib'))
from propsload import PROPS  # noqa: E402

props = [json.loads(l) for l in open(os.path.join(ROOT, 'properties.jsonl'))]
na_path = os.path.join(ROOT, 'lib', 'not_applicable.json')
na = json.load(open(na_path)) if os.path.exists(na_path) else {}
try:
    hooks = subprocess.run(['git', '-C', '/repo', 'log', '--format=%h %s', '--grep=^verif hooks'], capture_output=True, text=True).stdout.strip().split('\n')
    hooks = [h for h in hooks if h]
except Exception:
    hooks = []
m = dict(
    version=1, setup_cmd='./setup.sh',
    hooks=dict(guard='verif', enable='go build -tags verif  (every hook file starts with //go:build verif; files verif_*.go in internal packages and the package verifapi/)',
               baseline_off_cmd='./baseline_off.sh', source_commits=hooks, add_only=True),
    engines=[dict(name='coq-model-correspondence', path='check', serves_properties=sorted(PROPS),
                  kind_free_text='Coq 8.16 theorems over hand-written Gallina models (coq/), extracted to OCaml (ocaml/) and replayed on the traces '
                                 'of a Go harness (harness/) that drives /repo built with -tags verif; orchestration lib/check.py')],
    checks=[], not_applicable=[],
    notes='DESIGN.md describes the approach, the trusted base and which seeded changes each check catches; known_findings.json lists repaired and open defects.')
for p in props:
    pid = p['id']
    if pid in PROPS:
        c = PROPS[pid]
        m['checks'].append(dict(
            property_id=pid, quick_cmd='./check %s --tier quick' % pid, thorough_cmd='./check %s --tier thorough' % pid,
            evidence_file='evidence/%s.json' % pid, replay_cmd_template='./check %s --replay {path}' % pid,
            engine='coq-model-correspondence',
            level_claimed=dict(category=c.get('level', 'proof'), text=c.get('level_text', ''), design_ref=c.get('design_ref', 'DESIGN.md section 3, ' + pid)),
            level_note=c.get('level_note', ''), technique=c.get('technique', 'machine-checked proof in Coq over a Gallina model + model/implementation correspondence replay')))
    else:
        m['not_applicable'].append(dict(property_id=pid, reason=na.get(pid, 'no check is registered yet: the Coq model and correspondence harness for this property are still being built (DESIGN.md section 7)')))
json.dump(m, open(os.path.join(ROOT, 'MANIFEST.json'), 'w'), indent=1)
print('claimed:', ' '.join(sorted(PROPS)))
