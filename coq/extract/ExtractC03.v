Require Extraction.
Require Import ExtrOcamlBasic.
From Herc Require Import Base.Conv File.Model File.Spec.
Extraction "c03_model.ml" conv_anchor new_file update len flatten arr_update hist sumv wfb validb in_rangeb mark_okb must_panicb is_mark.
