Require Extraction.
Require Import ExtrOcamlBasic.
From Herc Require Import Base.Conv Plumbing.LineCount Plumbing.Script.
Extraction "c11_model.ml" conv_anchor count_lines textb split_lines strip diff_loc diff_lines_to_runes shift_id
  lines_script_ok spec_ok canonical old_total new_total burndown_accepts line_stats.
