(* Re-use of a TreeDiff instance: after Initialize the item is as good as new - ANY commit (an unrelated root, the
   first commit of a second analysis) is accepted and listed as a first commit.  Before commit 3598ee8 Initialize kept
   previousCommit, and the first commit of a second analysis was refused by the parent check (finding F24). *)
From Coq Require Import List NArith Bool.
From Herc Require Import TreeDiff.Model TreeDiff.FilterProofs.
Import ListNotations.
Open Scope N_scope.

Theorem initialize_fresh : forall s, td_initialize s = td_zero.
Proof. reflexivity. Qed.

Theorem initialize_never_refuses : forall f s c dt, td_consume f (td_initialize s) c dt <> Err EParent.
Proof.
  intros f s c dt H. apply parent_refusal_only in H. destruct H as [H _]. apply H. reflexivity.
Qed.

Theorem initialize_first_commit : forall f s c dt,
  (forall e, In e (cm_tree c) -> is_submodule e = false -> f_has_blob f (e_hash e) = true) ->
  tree_wfb (cm_tree c) = true -> f_vendor f [] = false ->
  td_consume f (td_initialize s) c dt =
    Ok (mkTD (Some (cm_tree c)) (cm_hash c), map ins (restrict f (filter is_file (cm_tree c)))).
Proof.
  intros f s c dt HB WF HV. apply first_commit; auto.
  unfold parent_ok. simpl. apply orb_true_r.
Qed.

(* ---- the code before 3598ee8 ---- *)

Definition td_initialize_before_fix (s : td_state) : td_state := mkTD None (td_commit s).

(* a re-initialised item refused every commit that is not a child of the last commit of the previous analysis *)
Theorem initialize_refused_before_fix : forall f s c dt,
  td_commit s <> 0 -> ~ In (td_commit s) (cm_parents c) ->
  td_consume f (td_initialize_before_fix s) c dt = Err EParent.
Proof.
  intros f s c dt H1 H2. apply parent_refusal; simpl; assumption.
Qed.

Example initialize_refused_before_fix_witness :
  let f := mkF [] (fun _ => false) false (fun _ => true) true (fun _ _ => true) (fun _ => true) in
  let s := mkTD (Some [mkE [97] 1 33188]) 7 in
  let root := mkCommit 9 [] [mkE [98] 2 33188] in
  td_consume f (td_initialize_before_fix s) root [] = Err EParent /\
  td_consume f (td_initialize s) root [] = Ok (mkTD (Some [mkE [98] 2 33188]) 9, [ins (mkE [98] 2 33188)]).
Proof. vm_compute. split; reflexivity. Qed.
