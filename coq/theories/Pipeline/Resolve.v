(* Executable model of Pipeline.resolve in internal/core/pipeline.go (definitions only; the
   proofs are in ResolveProofs.v / CheckerProofs.v).

   Strings.  The Go code uses item names and entity keys only through equality (map keys) and
   through Go's string order (sort.Sort of the items, sort.Strings of seeds / children / ambiguous
   keys).  The model therefore works on integer codes: the replay driver ranks every string that can
   become a graph node (item names, disambiguated names "<name>_<k>", bracketed keys "[key]") by
   byte-wise order and hands the ranks to the model.  An entity is represented by the code of its
   bracketed node name.  The formatting of a disambiguated name is the argument [dis]
   ([dis n k] = code of Sprintf("%s_%d", n, k)); theorems quantify over every [dis].

   Map iteration.  FindParents, BreadthSort and FindCycle iterate Go maps; each order is a field of
   [choices] and every theorem quantifies over all of them.

   The toposort.Graph operations are those of Toposort/Model.v. *)
From Coq Require Import List ZArith Lia Bool.
From Herc Require Import Toposort.Model.
Import ListNotations.
Open Scope Z_scope.

Record item := mkItem { iid : Z; iname : Z; iprov : list Z; ireq : list Z }.

Record choices := mkCh {
  ch_parents : Z -> list Z -> list Z;       (* FindParents(key): order of the result *)
  ch_roots : list Z -> list Z;              (* BreadthSort: order of the seeds *)
  ch_bfs : Z -> list Z -> list Z;           (* BreadthSort: order of one node's children *)
  ch_cycle : Z -> Z -> list Z -> list Z     (* FindCycle(key): order of one node's children *)
}.

Inductive err := Ambiguous | Unsatisfied | SortFailure.

Inductive res (A : Type) :=
| Ok (a : A)
| Err (e : err)
| Panic                 (* index out of range: pair[1] or Toposort's ms[i-1] *)
| Unspec                (* Toposort on duplicate ranks: depends on Go's map order (Model.SortUnspec) *)
| Fuel.
Arguments Ok {A} a.
Arguments Err {A} e.
Arguments Panic {A}.
Arguments Unspec {A}.
Arguments Fuel {A}.

(* sort.Sort(sortablePipelineItems(items)): for at most 12 elements Go's pdqsort is the insertion
   sort, which is stable; with pairwise distinct names every sorting algorithm gives this list. *)
Fixpoint insert_item (x : item) (l : list item) : list item :=
  match l with
  | [] => [x]
  | y :: r => if iname x <=? iname y then x :: l else y :: insert_item x r
  end.
Definition sort_items (l : list item) : list item := fold_right insert_item [] l.

Definition count_name (n : Z) (l : list Z) : Z := Z.of_nat (length (filter (Z.eqb n) l)).

(* nameUsages / counters: the graph node of every item, in the sorted order.  Both loops of
   resolve compute the same names. *)
Fixpoint assign_names (dis : Z -> Z -> Z) (all seen : list Z) (l : list item) : list (Z * item) :=
  match l with
  | [] => []
  | it :: r =>
      let n := iname it in
      let nm := if 1 <? count_name n all then dis n (count_name n seen + 1) else n in
      (nm, it) :: assign_names dis all (n :: seen) r
  end.

Definition named_items (dis : Z -> Z -> Z) (items : list item) : list (Z * item) :=
  let sorted := sort_items items in
  assign_names dis (map iname sorted) [] sorted.

(* ---- first loop: nodes, provides edges, ambiguousMap ---- *)
Fixpoint provide_loop (ch : choices) (nm : Z) (keys : list Z) (s : st) (amb : list (Z * list Z))
  : option (st * list (Z * list Z)) :=
  match keys with
  | [] => Some (s, amb)
  | key :: r =>
      let s1 := fst (add_node s key) in
      let '(s2, n) := add_edge s1 nm key in
      if 1 <? n then
        match aget amb key with
        | Some _ => None                       (* "ambiguous graph" *)
        | None => provide_loop ch nm r s2 (aset amb key (ch_parents ch key (find_parents s2 key)))
        end
      else provide_loop ch nm r s2 amb
  end.

Record build := mkB { bg : st; bn2i : list (Z * item); bamb : list (Z * list Z) }.

Fixpoint items_loop1 (ch : choices) (l : list (Z * item)) (s : st) (n2i : list (Z * item))
  (amb : list (Z * list Z)) : option build :=
  match l with
  | [] => Some (mkB s n2i amb)
  | (nm, it) :: r =>
      let s1 := fst (add_node s nm) in
      let n2i' := aset n2i nm it in
      match provide_loop ch nm (iprov it) s1 amb with
      | None => None
      | Some (s2, amb') => items_loop1 ch r s2 n2i' amb'
      end
  end.

(* ---- second loop: requires edges ---- *)
Fixpoint require_loop (nm : Z) (keys : list Z) (s : st) : option st :=
  match keys with
  | [] => Some s
  | key :: r =>
      let '(s1, n) := add_edge s key nm in
      if n =? 0 then None                      (* "unsatisfied dependency" *)
      else require_loop nm r s1
  end.

Fixpoint items_loop2 (l : list (Z * item)) (s : st) : option st :=
  match l with
  | [] => Some s
  | (nm, it) :: r =>
      match require_loop nm (ireq it) s with
      | None => None
      | Some s1 => items_loop2 r s1
      end
  end.

(* ---- Graph.BreadthSort ---- *)
Definition children_of (s : st) (n : Z) : list Z :=
  match aget (outs s) n with Some m => map fst m | None => [] end.

Fixpoint bsort_loop (fuel : nat) (ord : Z -> list Z -> list Z) (s : st) (S visited L : list Z)
  : option (list Z) :=
  match fuel with
  | O => None
  | Datatypes.S f =>
      match S with
      | [] => Some L
      | node :: S' =>
          if existsb (Z.eqb node) visited then bsort_loop f ord s S' visited L
          else bsort_loop f ord s (S' ++ ord node (children_of s node)) (node :: visited) (L ++ [node])
      end
  end.

Definition breadth_sort (ch : choices) (s : st) : option (list Z) :=
  let roots := ch_roots ch (filter (fun n => get_in s n =? 0) (map fst (outs s))) in
  bsort_loop (Datatypes.S (length roots + edge_count s)) (ch_bfs ch) s roots [] [].

(* bfsindex[x]: a missing key reads as 0 *)
Fixpoint index_of (l : list Z) (x : Z) (i : Z) : Z :=
  match l with
  | [] => 0
  | y :: r => if y =? x then i else index_of r x (i + 1)
  end.

(* ---- the chaining block for one ambiguous key ---- *)
Definition move_child (inh key : Z) (cycle : list Z) (s : st) (node : Z) : st :=
  if existsb (Z.eqb node) cycle then s
  else fst (remove_edge (fst (add_edge s inh node)) key node).

Definition chain_key (ch : choices) (idx : Z -> Z) (amb : list (Z * list Z)) (s : st) (key : Z)
  : option st :=
  match aget amb key with
  | Some (p0 :: p1 :: _) =>
      let inh := if idx p1 <? idx p0 then p0 else p1 in
      let '(s1, removed) := remove_edge s key inh in
      let cyc := find_cycle (ch_cycle ch key) s1 key in
      let cycle := match cyc with [] => [inh] | _ => cyc end in
      let s2 := if removed then fst (add_edge s1 key inh) else s1 in
      let s3 := fst (remove_edge s2 inh key) in
      let s4 := reindex s3 inh in
      let s5 := fold_left (move_child inh key cycle) (find_children s4 key) s4 in
      Some (reindex s5 key)
  | _ => None                                  (* pair[1]: index out of range *)
  end.

Fixpoint chain_loop (ch : choices) (idx : Z -> Z) (amb : list (Z * list Z)) (keys : list Z) (s : st)
  : option st :=
  match keys with
  | [] => Some s
  | key :: r =>
      match chain_key ch idx amb s key with
      | None => None
      | Some s' => chain_loop ch idx amb r s'
      end
  end.

Definition chain (ch : choices) (amb : list (Z * list Z)) (s : st) : res st :=
  match amb with
  | [] => Ok s
  | _ =>
      match breadth_sort ch s with
      | None => Fuel
      | Some order =>
          match chain_loop ch (fun x => index_of order x 0) amb (sortZ (map fst amb)) s with
          | None => Panic
          | Some s' => Ok s'
          end
      end
  end.

(* ---- the plan: the sorted nodes that are items ---- *)
Fixpoint filter_items (n2i : list (Z * item)) (L : list Z) : list item :=
  match L with
  | [] => []
  | k :: r => match aget n2i k with
              | Some it => it :: filter_items n2i r
              | None => filter_items n2i r
              end
  end.

Definition build_graph (ch : choices) (dis : Z -> Z -> Z) (items : list item) : res (build * st) :=
  let named := named_items dis items in
  match items_loop1 ch named empty [] [] with
  | None => Err Ambiguous
  | Some b =>
      match items_loop2 named (bg b) with
      | None => Err Unsatisfied
      | Some s => Ok (b, s)
      end
  end.

Definition resolve (ch : choices) (dis : Z -> Z -> Z) (items : list item) : res (list item) :=
  match build_graph ch dis items with
  | Ok (b, s) =>
      match chain ch (bamb b) s with
      | Ok s' =>
          match snd (toposort s') with
          | SortOk L true => Ok (filter_items (bn2i b) L)
          | SortOk _ false => Err SortFailure
          | SortPanic => Panic
          | SortUnspec => Unspec
          | SortFuel => Fuel
          end
      | Err e => Err e
      | Panic => Panic
      | Unspec => Unspec
      | Fuel => Fuel
      end
  | Err e => Err e
  | Panic => Panic
  | Unspec => Unspec
  | Fuel => Fuel
  end.

(* the keys that went through the chaining block (for the statistics of the replay driver) *)
Definition ambiguous_keys (ch : choices) (dis : Z -> Z -> Z) (items : list item) : list Z :=
  match build_graph ch dis items with
  | Ok (b, _) => map fst (bamb b)
  | _ => []
  end.

(* ---- the domain of the property: graph node names do not collide ---- *)
Definition entities (items : list item) : list Z := flat_map (fun it => iprov it ++ ireq it) items.

Definition names_okb (dis : Z -> Z -> Z) (items : list item) : bool :=
  let nodes := map fst (named_items dis items) in
  nodupb nodes && forallb (fun n => negb (existsb (Z.eqb n) (entities items))) nodes.

(* provides / requires are sets: no key listed twice by one item *)
Definition lists_okb (items : list item) : bool :=
  forallb (fun it => nodupb (iprov it) && nodupb (ireq it)) items.

Definition domain_okb (dis : Z -> Z -> Z) (items : list item) : bool :=
  names_okb dis items && lists_okb items.

(* ================= the validator ================= *)

Definition memZ (x : Z) (l : list Z) : bool := existsb (Z.eqb x) l.
Definition providesb (p : item) (e : Z) : bool := memZ e (iprov p).
Definition intersects (a b : list Z) : bool := existsb (fun x => memZ x b) a.

(* entities derived from the outputs of c: the outputs themselves and the outputs of every item
   that requires a derived entity *)
Fixpoint downstream_b (fuel : nat) (items : list item) (E : list Z) : list Z :=
  match fuel with
  | O => E
  | Datatypes.S f =>
      downstream_b f items
        (E ++ flat_map (fun x => if intersects (ireq x) E then iprov x else []) items)
  end.

(* p transitively requires an output of c *)
Definition feedsb (items : list item) (c p : item) : bool :=
  intersects (ireq p) (downstream_b (length items) items (iprov c)).

Definition item_eq_dec (a b : item) : {a = b} + {a <> b}.
Proof. decide equality; try apply (list_eq_dec Z.eq_dec); apply Z.eq_dec. Defined.

Definition perm_b (l1 l2 : list item) : bool :=
  forallb (fun x => Nat.eqb (count_occ item_eq_dec l1 x) (count_occ item_eq_dec l2 x)) (l1 ++ l2).

(* c at its position: every requirement has a provider strictly before, and every provider that is
   not strictly before transitively requires an output of c *)
Definition req_ok (items before : list item) (c : item) (rest : list item) (e : Z) : bool :=
  existsb (fun p => providesb p e) before &&
  forallb (fun p => negb (providesb p e) || feedsb items c p) rest.

Fixpoint positions_ok (items before rest : list item) : bool :=
  match rest with
  | [] => true
  | c :: after =>
      forallb (req_ok items before c rest) (ireq c) && positions_ok items (before ++ [c]) after
  end.

Definition order_ok (items order : list item) : bool :=
  perm_b order items && positions_ok items [] order.

(* the unchained case: every provider strictly before, none at or after *)
Definition req_strict (before rest : list item) (e : Z) : bool :=
  existsb (fun p => providesb p e) before && forallb (fun p => negb (providesb p e)) rest.

Fixpoint positions_strict (before rest : list item) : bool :=
  match rest with
  | [] => true
  | c :: after =>
      forallb (req_strict before rest) (ireq c) && positions_strict (before ++ [c]) after
  end.

(* what the error branch is about, computed on the item set itself (no graph) *)
Definition providers (items : list item) (e : Z) : list item := filter (fun p => providesb p e) items.
Definition unsatisfiedb (items : list item) : bool :=
  existsb (fun c => existsb (fun e => match providers items e with [] => true | _ => false end) (ireq c)) items.
Definition max_providers (items : list item) : nat :=
  fold_right (fun e acc => Nat.max (length (providers items e)) acc) O (entities items).
(* the shape the chaining block of resolve is written for (TreeDiff / RenameAnalysis): exactly one entity has
   two providers, none has more, and one of the two providers requires the entity itself *)
Fixpoint dedupZ (l : list Z) : list Z :=
  match l with [] => [] | x :: r => if memZ x r then dedupZ r else x :: dedupZ r end.
Definition two_provider_keys (items : list item) : list Z :=
  filter (fun e => Nat.eqb (length (providers items e)) 2) (dedupZ (entities items)).
(* regions of the input space, decided from the item set alone (used to name where a failure lies) *)
Definition norequire_keyb (items : list item) (e : Z) : bool :=
  negb (existsb (fun p => memZ e (ireq p)) (providers items e)).
(* some doubly provided entity is required by neither of its providers *)
Definition region_norequire (items : list item) : bool :=
  existsb (norequire_keyb items) (two_provider_keys items).
(* some item provides two doubly provided entities *)
Definition region_shared (items : list item) : bool :=
  existsb (fun p => Nat.leb 2 (length (filter (fun e => memZ e (iprov p)) (two_provider_keys items)))) items.

Inductive region := RUnchained | RThree | RNoRequire | RShared | RSeveral | RRenames.

Definition region_of (items : list item) : region :=
  if Nat.leb (max_providers items) 1 then RUnchained
  else if Nat.leb 3 (max_providers items) then RThree
  else if region_norequire items then RNoRequire
  else if region_shared items then RShared
  else if Nat.leb 2 (length (two_provider_keys items)) then RSeveral
  else RRenames.
(* cyclic requirements: some item transitively requires one of its own outputs *)
Definition cyclicb (items : list item) : bool := existsb (fun c => feedsb items c c) items.
