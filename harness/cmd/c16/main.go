// Harness for C16 (first half): drives the real identity.Detector - GeneratePeopleDict on generated
// commit lists, then Consume for every commit of the list - and records PeopleDict (sorted by key),
// ReversedPeopleDict and the resolved author indices.
//
// The commits belong to an in-memory repository.  GeneratePeopleDict asks the LAST commit of the list
// for the file ".mailmap": cases without the input field (mailmap ...) use a commit whose tree is empty
// (the mailmap branch is not entered), cases with it use a commit whose tree holds that blob (streams
// mm-*, mmx-*, mmp-*, see mailmap.go).  (decoy ...) puts a .mailmap into every commit BUT the last one
// (it must be ignored).  scale.go holds the large cases.
//
// Observations: (obs [(lower (raw lowered)...)] [(mm (key name email)...) | (mmpanic)] RUN...) where RUN is
// (dict ...) (rev ...) (authors ...) directly (cases without mailmap) or (run (dict ...) (rev ...) (authors ...))
// once per execution (the outcome with a mailmap depends on Go's map iteration order), or (panic).
// (lower ...) lists strings.ToLower for every string of the case on which it differs from ASCII
// lower-casing; (mm ...) is identity.ParseMailmap on the blob, sorted by key.
package main

import (
	"fmt"
	"os"
	"sort"
	"strings"
	"time"

	"gopkg.in/src-d/go-git.v4/plumbing"
	"gopkg.in/src-d/go-git.v4/plumbing/filemode"
	"gopkg.in/src-d/go-git.v4/plumbing/object"
	"gopkg.in/src-d/go-git.v4/storage/memory"
	"gopkg.in/src-d/hercules.v10/verifapi/c16"
	. "verifharness/lib"
)

type sig struct{ name, email string }

// gcase is one input: the mode, the commit list, optionally the .mailmap of the last commit and the
// .mailmap of all other commits.
type gcase struct {
	exact   bool
	sigs    []sig
	mailmap *string
	decoy   *string
	runs    int
	// round 4: per commit the committer signature and the two times (nil: committer = author, times ascending), and
	// the kind of the tree entry ".mailmap" (0 regular, 1 executable, 2 symlink, 3 submodule)
	extra  []cextra
	mmMode int
}

// cextra is what a commit carries besides the author's name and e-mail: the property does not speak about any of it.
type cextra struct {
	cname, cemail string
	aw, cw        int64
}

var mmModes = []filemode.FileMode{filemode.Regular, filemode.Executable, filemode.Symlink, filemode.Submodule}

func whenOf(t int64) time.Time {
	off := int(((t%53)+53)%53-26) * 1800
	return time.Unix(t, 0).In(time.FixedZone("", off))
}

// carrierWith makes a real commit of a fresh in-memory repository whose tree holds the given .mailmap
// (nil: an empty tree).
func carrierWith(mailmap *string, mode int) *object.Commit {
	st := memory.NewStorage()
	tree := &object.Tree{}
	if mailmap != nil {
		o := st.NewEncodedObject()
		o.SetType(plumbing.BlobObject)
		w, err := o.Writer()
		if err != nil {
			panic(err)
		}
		if _, err := w.Write([]byte(*mailmap)); err != nil {
			panic(err)
		}
		w.Close()
		bh, err := st.SetEncodedObject(o)
		if err != nil {
			panic(err)
		}
		if mode == 3 {
			// a submodule entry: the hash is a commit of another repository, not an object of this one
			bh = plumbing.NewHash("5ca1ab1e5ca1ab1e5ca1ab1e5ca1ab1e5ca1ab1e")
		}
		tree.Entries = append(tree.Entries, object.TreeEntry{Name: ".mailmap", Mode: mmModes[mode], Hash: bh})
	}
	o := st.NewEncodedObject()
	if err := tree.Encode(o); err != nil {
		panic(err)
	}
	th, err := st.SetEncodedObject(o)
	if err != nil {
		panic(err)
	}
	s := object.Signature{Name: "carrier", Email: "carrier@x", When: time.Unix(1500000000, 0)}
	cm := &object.Commit{Author: s, Committer: s, Message: "carrier", TreeHash: th}
	o = st.NewEncodedObject()
	if err := cm.Encode(o); err != nil {
		panic(err)
	}
	h, err := st.SetEncodedObject(o)
	if err != nil {
		panic(err)
	}
	c, err := object.GetCommit(st, h)
	if err != nil {
		panic(err)
	}
	f, err := c.File(".mailmap")
	if (err == nil) != (mailmap != nil && mode != 3) {
		panic("carrier commit: unexpected .mailmap lookup result")
	}
	if mailmap != nil && mode != 3 {
		if txt, err := f.Contents(); err != nil || txt != *mailmap {
			panic("carrier commit: .mailmap does not read back")
		}
	}
	return c
}

var plainCarrier *object.Commit
var carrierCache = map[string]*object.Commit{}

func carrierFor(mailmap *string, mode int) *object.Commit {
	if mailmap == nil {
		return plainCarrier
	}
	key := string(rune('0'+mode)) + *mailmap
	if c, ok := carrierCache[key]; ok {
		return c
	}
	if len(carrierCache) > 4096 {
		carrierCache = map[string]*object.Commit{}
	}
	c := carrierWith(mailmap, mode)
	carrierCache[key] = c
	return c
}

func commitsOf(g *gcase) []*object.Commit {
	res := make([]*object.Commit, len(g.sigs))
	last := carrierFor(g.mailmap, g.mmMode)
	other := carrierFor(g.decoy, 0)
	for i, s := range g.sigs {
		c := *other // keeps the object store of the carrier
		if i == len(g.sigs)-1 {
			c = *last
		}
		c.Hash = plumbing.NewHash(fmt.Sprintf("%040x", i+1))
		c.Author = object.Signature{Name: s.name, Email: s.email, When: time.Unix(1500000000+int64(i), 0)}
		c.Committer = c.Author
		if g.extra != nil {
			x := g.extra[i]
			c.Author.When = whenOf(x.aw)
			c.Committer = object.Signature{Name: x.cname, Email: x.cemail, When: whenOf(x.cw)}
			if x.cname == "" && x.cemail == "" && x.cw == 0 {
				c.Committer = object.Signature{} // the zero value: a commit object without committer
			}
		}
		res[i] = &c
	}
	return res
}

func str(s string) Sx { return Bytes([]byte(s)) }

func unstr(x Sx) string {
	b := make([]byte, len(x.List))
	for i, v := range x.List {
		b[i] = byte(v.Int())
	}
	return string(b)
}

func asciiLower(s string) string {
	b := []byte(s)
	for i, ch := range b {
		if ch >= 'A' && ch <= 'Z' {
			b[i] = ch + 32
		}
	}
	return string(b)
}

// lowerTable observes strings.ToLower on every string the analysed code may pass to it.
type lowerTable struct {
	seen map[string]bool
	out  []Sx
}

func (t *lowerTable) add(s string) {
	if t.seen == nil {
		t.seen = map[string]bool{}
	}
	if t.seen[s] {
		return
	}
	t.seen[s] = true
	if l := strings.ToLower(s); l != asciiLower(s) {
		t.out = append(t.out, L(str(s), str(l)))
	}
}

// runOnce observes one execution of GeneratePeopleDict + Consume.
func runOnce(g *gcase) (Sx, bool) {
	var obs Sx
	_, p := Catch(func() {
		d := &c16.Detector{ExactSignatures: g.exact}
		if err := d.Initialize(nil); err != nil {
			panic(err)
		}
		commits := commitsOf(g)
		d.GeneratePeopleDict(commits)
		keys := make([]string, 0, len(d.PeopleDict))
		for k := range d.PeopleDict {
			keys = append(keys, k)
		}
		sort.Strings(keys)
		dict := make([]Sx, len(keys))
		for i, k := range keys {
			dict[i] = L(str(k), I(d.PeopleDict[k]))
		}
		rev := make([]Sx, len(d.ReversedPeopleDict))
		for i, s := range d.ReversedPeopleDict {
			rev[i] = str(s)
		}
		authors := make([]int, len(commits))
		for i, c := range commits {
			res, err := d.Consume(map[string]interface{}{c16.DependencyCommit: c})
			if err != nil {
				panic(err)
			}
			authors[i] = res[c16.DependencyAuthor].(int)
		}
		obs = L(T("dict", dict...), T("rev", rev...), T("authors", Ints(authors)))
	})
	return obs, p
}

// run observes the implementation on one case.
func run(g *gcase) Sx {
	var fields []Sx
	lt := &lowerTable{}
	for _, s := range g.sigs {
		lt.add(s.name)
		lt.add(s.email)
		if g.exact {
			lt.add((&object.Signature{Name: s.name, Email: s.email}).String())
		}
	}
	var mmField []Sx
	if g.mailmap != nil && g.mmMode != 3 {
		var table map[string]object.Signature
		if _, p := Catch(func() { table = c16.ParseMailmap(*g.mailmap) }); p {
			mmField = append(mmField, T("mmpanic"))
		} else {
			keys := make([]string, 0, len(table))
			for k := range table {
				keys = append(keys, k)
			}
			sort.Strings(keys)
			ents := make([]Sx, len(keys))
			for i, k := range keys {
				ents[i] = L(str(k), str(table[k].Name), str(table[k].Email))
				lt.add(k)
				lt.add(table[k].Name)
				lt.add(table[k].Email)
			}
			mmField = append(mmField, T("mm", ents...))
		}
	}
	if len(lt.out) > 0 {
		fields = append(fields, T("lower", lt.out...))
	}
	fields = append(fields, mmField...)
	runs := g.runs
	if runs < 1 {
		runs = 1
	}
	for r := 0; r < runs; r++ {
		o, p := runOnce(g)
		if p {
			fields = append(fields, T("panic"))
			break
		}
		if g.mailmap == nil {
			fields = append(fields, o.List...)
		} else {
			fields = append(fields, T("run", o.List...))
		}
	}
	return T("obs", fields...)
}

func emitCase(c *Config, kind string, g *gcase) {
	cs := make([]Sx, len(g.sigs))
	seenE := map[string]bool{}
	overlap := false
	for i, s := range g.sigs {
		cs[i] = L(str(s.name), str(s.email))
		if g.extra != nil {
			x := g.extra[i]
			cs[i] = L(str(s.name), str(s.email), str(x.cname), str(x.cemail), I64(x.aw), I64(x.cw))
		}
		le, ln := strings.ToLower(s.email), strings.ToLower(s.name)
		if seenE[le] || seenE[ln] {
			overlap = true
		}
		seenE[le] = true
		seenE[ln] = true
	}
	nt := len(g.sigs) >= 2 && overlap
	fields := []Sx{T("kind", A(kind)), T("exact", B(g.exact)), T("commits", cs...)}
	if g.mailmap != nil {
		fields = append(fields, T("mailmap", str(*g.mailmap)))
		if g.mmMode != 0 {
			fields = append(fields, T("mmode", I(g.mmMode)))
		}
		// non-trivial: the mailmap has an entry that touches an author of the list
		if table, ok := safeParse(*g.mailmap); ok && !g.exact {
			for k, v := range table {
				if seenE[strings.ToLower(k)] || (v.Email != "" && seenE[strings.ToLower(v.Email)]) || (v.Name != "" && seenE[strings.ToLower(v.Name)]) {
					nt = true
				}
			}
		}
	}
	if g.decoy != nil {
		fields = append(fields, T("decoy", str(*g.decoy)))
	}
	fields = append([]Sx{fields[0], T("nt", B(nt))}, fields[1:]...)
	fields = append(fields, run(g))
	c.Emit(fields...)
}

func safeParse(txt string) (table map[string]object.Signature, ok bool) {
	_, p := Catch(func() { table = c16.ParseMailmap(txt) })
	return table, !p
}

func emit(c *Config, kind string, exact bool, sigs []sig) {
	emitCase(c, kind, &gcase{exact: exact, sigs: sigs})
}

// ---- generators ----

// Names and e-mails.  The first 17 / 14 entries are the original pools (ASCII, and valid UTF-8 of characters
// that have no upper-case form to be mapped from); the rest is the class "input attributes": "|", "<", ">",
// " <" inside a name, spaces and tabs inside and around, upper/lower pairs outside ASCII (Latin-1, Greek with
// the final sigma, Cyrillic, the Kelvin sign whose lower case is the ASCII k, the dotted capital I whose lower
// case is two runes), an invalid UTF-8 byte (strings.ToLower replaces it by U+FFFD).
var namePool = []string{"a", "b", "ab", "Bob", "bob", "BOB", "al ice", "", "x", "\u00e9", "\u00dfa", "\u4e2d", "a@x", "d <e>", "Zed", "zed", "o'k",
	"Bob Smith <bob@old.x>", "x <y", "z>", "<", ">", " <", "a|b", "|", " bob", "bob ", "b\tob", "\tbob", "Bob  Smith", "bob smith",
	"\u00c9", "E\u0301", "e\u0301", "\u00c4rger", "\u00e4rger", "\u03a3\u0391\u03a3", "\u03c3\u03b1\u03c2", "\u03c3\u03b1\u03c3", "\u0416\u0443\u043a", "\u0436\u0443\u043a",
	"\u212a", "k", "\u0130", "i\u0307", "i", "\u01c5", "\u01c6", "\xc3", "\xff@x", "Bob <>", "a <a@x>"}
var mailPool = []string{"a@x", "A@X", "b@y", "B@y", "", "bob@z.org", "Bob@Z.org", "\u00e9@x", "a", "bob", "c@\u4e2d", "noat", "q@q", "Q@q",
	"\u00c9@x", "\u00c4@\u00d6", "\u00e4@\u00f6", "\u03a3@x", "\u03c3@x", "\u03c2@x", "\u212a@x", "k@x", "K@x", "\u0130@x", "i\u0307@x", "a|b@x", "|", "<a@x>", "a@x>", "<a@x",
	"a @x", " a@x", "a@x ", "a\t@x", "\u0416@x", "\u0436@x", "\xc3@x", "bob@old.x", "a@x> <b@y"}

const nOldNames, nOldMails = 17, 14

func mixCase(c *Config, s string) string {
	b := []byte(s)
	for i, ch := range b {
		if c.Rng.Intn(3) == 0 {
			if ch >= 'a' && ch <= 'z' {
				b[i] = ch - 32
			} else if ch >= 'A' && ch <= 'Z' {
				b[i] = ch + 32
			}
		}
	}
	return string(b)
}

func randomSigs(c *Config, n, names, mails int, bars bool) []sig {
	res := make([]sig, n)
	for i := range res {
		nm := namePool[c.Rng.Intn(names)]
		em := mailPool[c.Rng.Intn(mails)]
		if bars && c.Rng.Intn(3) == 0 {
			nm = nm + "|" + namePool[c.Rng.Intn(names)]
		}
		if bars && c.Rng.Intn(5) == 0 {
			em = "|" + em
		}
		res[i] = sig{mixCase(c, nm), mixCase(c, em)}
	}
	return res
}

// attrSigs draws from the whole pools (input attributes), without ASCII case flips half of the time so
// that the non-ASCII case pairs meet each other
func attrSigs(c *Config, n int) []sig {
	res := make([]sig, n)
	lo := c.Rng.Intn(2) * nOldNames
	for i := range res {
		nm := namePool[lo+c.Rng.Intn(len(namePool)-lo)]
		em := mailPool[c.Rng.Intn(len(mailPool))]
		if c.Rng.Intn(2) == 0 {
			nm, em = mixCase(c, nm), mixCase(c, em)
		}
		res[i] = sig{nm, em}
	}
	return res
}

// exhaustive: every commit list of the given length over a small signature alphabet in which a name
// equals an e-mail, case variants exist and fields are empty
func exhaustive(c *Config, maxLen int) {
	names := []string{"a", "A", "b"}
	mails := []string{"a", "E", "e", ""}
	var alpha []sig
	for _, n := range names {
		for _, m := range mails {
			alpha = append(alpha, sig{n, m})
		}
	}
	var rec func(cur []sig, l int)
	rec = func(cur []sig, l int) {
		if len(cur) == l {
			for _, exact := range []bool{false, true} {
				emit(c, fmt.Sprintf("exh%d", l), exact, append([]sig{}, cur...))
			}
			return
		}
		for _, s := range alpha {
			rec(append(cur, s), l)
		}
	}
	for l := 1; l <= maxLen; l++ {
		rec(nil, l)
	}
}

// attrExhaustive: every list of 1..2 commits over signatures built from the delimiters of the signature
// and description formats and from non-ASCII case pairs
func attrExhaustive(c *Config) {
	names := []string{"a <", "a", "A <B>", "|", "É", "é", " ", "a\t"}
	mails := []string{"e", "<e>", "e> <f", "é@", "É@", "|", "e "}
	var alpha []sig
	for _, n := range names {
		for _, m := range mails {
			alpha = append(alpha, sig{n, m})
		}
	}
	for _, exact := range []bool{false, true} {
		for _, s := range alpha {
			emit(c, "attr-exh1", exact, []sig{s})
		}
		for i, s := range alpha {
			for j, t := range alpha {
				if (i*31+j*17)%3 == 0 || c.Thorough() {
					emit(c, "attr-exh2", exact, []sig{s, t})
				}
			}
		}
	}
}

func main() {
	c := Setup()
	defer c.Close()
	plainCarrier = carrierWith(nil, 0)
	if c.Replay != "" {
		for _, cs := range c.ReplayCases() {
			kind, _ := cs.Field("kind")
			ex, _ := cs.Field("exact")
			g := &gcase{exact: ex.Args()[0].Int() != 0}
			if gen, ok := cs.Field("gen"); ok {
				a := gen.Args()
				if a[0].Atom == "many" {
					scaleMany(c, a[1].Int(), g.exact)
				} else {
					emitFew(c, a[1].Int(), a[2].Int(), a[3].Int(), g.exact)
				}
				continue
			}
			if _, ok := cs.Field("seq"); ok {
				k := "replay"
				if len(kind.Args()) > 0 {
					k = kind.Args()[0].Atom
				}
				replaySeq(c, k, cs)
				continue
			}
			cm, _ := cs.Field("commits")
			for _, x := range cm.Args() {
				g.sigs = append(g.sigs, sig{unstr(x.List[0]), unstr(x.List[1])})
				if len(x.List) >= 6 {
					g.extra = append(g.extra, cextra{unstr(x.List[2]), unstr(x.List[3]), int64(x.List[4].Int()), int64(x.List[5].Int())})
				}
			}
			if len(g.extra) != 0 && len(g.extra) != len(g.sigs) {
				panic("replay: commits with and without committer in one case")
			}
			if m, ok := cs.Field("mmode"); ok {
				g.mmMode = m.Args()[0].Int()
			}
			if m, ok := cs.Field("mailmap"); ok {
				s := unstr(m.Args()[0])
				g.mailmap = &s
				g.runs = 8
			}
			if m, ok := cs.Field("decoy"); ok {
				s := unstr(m.Args()[0])
				g.decoy = &s
			}
			k := "replay"
			if len(kind.Args()) > 0 {
				k = kind.Args()[0].Atom
			}
			emitCase(c, k, g)
		}
		return
	}
	if os.Getenv("VERIF_C16_ONLY") == "r4" {
		// development aid: the round-4 streams alone
		round4Streams(c)
		return
	}
	if c.Thorough() {
		exhaustive(c, 4)
	} else {
		exhaustive(c, 3)
	}
	attrExhaustive(c)
	// an empty commit list: commits[len(commits)-1] panics (index out of range) in both modes
	emit(c, "empty", false, nil)
	emit(c, "empty", true, nil)
	n := c.Count(3000, 40000)
	for i := 0; i < n; i++ {
		exact := c.Rng.Intn(3) == 0
		switch c.Rng.Intn(6) {
		case 0: // few names, few mails: heavy overlap
			emit(c, "dense", exact, randomSigs(c, 1+c.Rng.Intn(12), 5, 5, false))
		case 1:
			emit(c, "wide", exact, randomSigs(c, 1+c.Rng.Intn(40), nOldNames, nOldMails, false))
		case 2: // names and e-mails drawn from the same strings
			l := randomSigs(c, 1+c.Rng.Intn(10), 6, 6, false)
			for j := range l {
				if c.Rng.Intn(2) == 0 {
					l[j].email = mixCase(c, namePool[c.Rng.Intn(6)])
				}
			}
			emit(c, "crossed", exact, l)
		case 3:
			emit(c, "bars", exact, randomSigs(c, 1+c.Rng.Intn(10), 6, 6, true))
		case 4:
			emit(c, "attr", exact, attrSigs(c, 1+c.Rng.Intn(12)))
		default:
			emit(c, "mid", exact, randomSigs(c, 1+c.Rng.Intn(20), 9, 8, false))
		}
	}
	mailmapStreams(c)
	scaleStreams(c)
	seqStreams(c)
	round4Streams(c)
}
