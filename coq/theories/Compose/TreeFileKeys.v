(* Composition C03 on C05, part 1: rewriting keys in place.

   File.Update (internal/burndown/file.go) changes the keys of tree nodes THROUGH ITERATORS
   ("iter.Item().Key = uint32(pos)", "iter.Item().Key += uint32(insLength)",
   "iter.Item().Key = uint32(int(iter.Item().Key) + delta)") - an operation the rbtree package
   itself does not offer and C05 therefore does not cover.  [map_keys p f t] applies f to the key of
   every node whose id (arena index = iterator) satisfies p and touches nothing else.

   Facts proved here: the entry list is rewritten pointwise; node ids, shape, colours, values, the
   red-black colour invariants and every id-based navigation (Next, Prev, Min, Max, Len, the item
   behind an iterator up to the rewritten key) are unchanged; the search-tree order holds of the
   result exactly when the rewritten in-order key list is still strictly increasing (no rebalancing
   is needed, as the comment in file.go says). *)
From Coq Require Import List ZArith Lia Bool.
Import ListNotations.
From Herc Require Import RBTree.Model RBTree.Spec RBTree.Arena RBTree.InsertProofs RBTree.MapProofs
  RBTree.LookupProofs.
Open Scope Z_scope.

Fixpoint map_keys (p : Z -> bool) (f : Z -> Z) (t : tree) : tree :=
  match t with
  | E => E
  | T c l i k v r => T c (map_keys p f l) i (if p i then f k else k) v (map_keys p f r)
  end.

(* the same rewriting on one (id, key, value) entry *)
Definition rewrite_key (p : Z -> bool) (f : Z -> Z) (e : Z * Z * Z) : Z * Z * Z :=
  (eid e, (if p (eid e) then f (ekey e) else ekey e), eval e).

(* iter.Item().Key = k *)
Definition set_key (it k : Z) (t : tree) : tree := map_keys (Z.eqb it) (fun _ => k) t.

(* everything but the keys: shape, colours, node ids, values *)
Fixpoint skeleton (t : tree) : tree :=
  match t with E => E | T c l i _ v r => T c (skeleton l) i 0 v (skeleton r) end.

Lemma map_keys_elems p f t : elems (map_keys p f t) = map (rewrite_key p f) (elems t).
Proof.
  induction t as [|c l IHl i k v r IHr]; [reflexivity|].
  cbn [map_keys elems]. rewrite map_app. cbn [map]. rewrite IHl, IHr. reflexivity.
Qed.

Lemma map_keys_ids p f t : ids (map_keys p f t) = ids t.
Proof.
  induction t as [|c l IHl i k v r IHr]; [reflexivity|].
  cbn [map_keys ids]. rewrite IHl, IHr. reflexivity.
Qed.

Lemma map_keys_skeleton p f t : skeleton (map_keys p f t) = skeleton t.
Proof.
  induction t as [|c l IHl i k v r IHr]; [reflexivity|].
  cbn [map_keys skeleton]. rewrite IHl, IHr. reflexivity.
Qed.

Lemma map_keys_RB p f t c n : RB t c n -> RB (map_keys p f t) c n.
Proof.
  induction 1 as [c|l i k v r n Hl IHl Hr IHr|c l i k v r n Hl IHl Hr IHr]; cbn [map_keys].
  - apply RB_E.
  - apply RB_r; auto.
  - apply RB_b; auto.
Qed.

Lemma map_keys_redblack p f t : is_redblack t -> is_redblack (map_keys p f t).
Proof. intros [n H]. exists n. apply map_keys_RB. exact H. Qed.

Lemma map_keys_bst p f t : sorted (map (rewrite_key p f) (elems t)) -> bst (map_keys p f t).
Proof. intros H. apply bst_sorted. rewrite map_keys_elems. exact H. Qed.

Lemma map_keys_bst_iff p f t : bst (map_keys p f t) <-> sorted (map (rewrite_key p f) (elems t)).
Proof. rewrite bst_sorted, map_keys_elems. tauto. Qed.

Lemma map_keys_ids_ok p f t : ids_ok t -> ids_ok (map_keys p f t).
Proof. unfold ids_ok. rewrite map_keys_ids. auto. Qed.

Lemma map_keys_leftmost p f t : forall d, leftmost d (map_keys p f t) = leftmost d t.
Proof. induction t as [|c l IHl i k v r IHr]; intros d; [reflexivity|]. cbn [map_keys leftmost]. apply IHl. Qed.

Lemma map_keys_rightmost p f t : forall d, rightmost d (map_keys p f t) = rightmost d t.
Proof. induction t as [|c l IHl i k v r IHr]; intros d; [reflexivity|]. cbn [map_keys rightmost]. apply IHr. Qed.

Lemma map_keys_min_id p f t : min_id (map_keys p f t) = min_id t.
Proof. apply map_keys_leftmost. Qed.

Lemma map_keys_max_id p f t : max_id (map_keys p f t) = max_id t.
Proof. apply map_keys_rightmost. Qed.

Lemma map_keys_it_max p f t : it_max (map_keys p f t) = it_max t.
Proof. unfold it_max. rewrite map_keys_max_id. reflexivity. Qed.

Lemma map_keys_tsize p f t : tsize (map_keys p f t) = tsize t.
Proof.
  induction t as [|c l IHl i k v r IHr]; [reflexivity|]. cbn [map_keys tsize]. rewrite IHl, IHr. reflexivity.
Qed.

Lemma map_keys_root_id p f t : root_id (map_keys p f t) = root_id t.
Proof. destruct t; reflexivity. Qed.

Lemma map_keys_next_in p f x t : forall up, next_in x (map_keys p f t) up = next_in x t up.
Proof.
  induction t as [|c l IHl i k v r IHr]; intros up; [reflexivity|].
  cbn [map_keys next_in]. rewrite IHl, IHr, map_keys_leftmost. reflexivity.
Qed.

Lemma map_keys_prev_in p f x t : forall down, prev_in x (map_keys p f t) down = prev_in x t down.
Proof.
  induction t as [|c l IHl i k v r IHr]; intros down; [reflexivity|].
  cbn [map_keys prev_in]. rewrite IHl, IHr, map_keys_rightmost. reflexivity.
Qed.

Lemma map_keys_item_of p f x t :
  item_of x (map_keys p f t) =
  match item_of x t with Some (k, v) => Some ((if p x then f k else k), v) | None => None end.
Proof.
  induction t as [|c l IHl i k v r IHr]; [reflexivity|].
  cbn [map_keys item_of]. rewrite IHl. destruct (item_of x l) as [[k0 v0]|]; [reflexivity|].
  destruct (Z.eqb_spec x i) as [->|Hne]; [reflexivity|]. apply IHr.
Qed.

(* the arena image (what C05 compares cell for cell with the real Allocator.storage): only the key field
   of the rewritten cells changes; links, colours, values and the tree header stay *)
Definition rewrite_cell (p : Z -> bool) (f : Z -> Z) (ic : Z * cell) : Z * cell :=
  (fst ic, mkCell (if p (fst ic) then f (ckey (snd ic)) else ckey (snd ic)) (cval (snd ic)) (cparent (snd ic))
                  (cleft (snd ic)) (cright (snd ic)) (cblack (snd ic))).

Lemma map_keys_cells p f t : forall up, cells up (map_keys p f t) = map (rewrite_cell p f) (cells up t).
Proof.
  induction t as [|c l IHl i k v r IHr]; intros up; [reflexivity|].
  cbn [map_keys cells]. rewrite map_app. cbn [map]. rewrite IHl, IHr, !map_keys_root_id. reflexivity.
Qed.

Lemma map_keys_header p f t : header_of (map_keys p f t) = header_of t.
Proof.
  unfold header_of. rewrite map_keys_root_id, map_keys_min_id, map_keys_max_id, map_keys_tsize. reflexivity.
Qed.

Theorem map_keys_arena p f t :
  cells 0 (map_keys p f t) = map (rewrite_cell p f) (cells 0 t) /\ header_of (map_keys p f t) = header_of t.
Proof. split; [apply map_keys_cells|apply map_keys_header]. Qed.

(* the deliverable in one statement *)
Theorem map_keys_spec p f t :
  elems (map_keys p f t) = map (rewrite_key p f) (elems t) /\
  ids (map_keys p f t) = ids t /\
  skeleton (map_keys p f t) = skeleton t /\
  (is_redblack t -> is_redblack (map_keys p f t)) /\
  (bst (map_keys p f t) <-> sorted (map (rewrite_key p f) (elems t))) /\
  (sortedb (keys (map (rewrite_key p f) (elems t))) = true -> bst (map_keys p f t)) /\
  (forall m, item_of m (map_keys p f t) =
             match item_of m t with Some (k, v) => Some ((if p m then f k else k), v) | None => None end) /\
  (forall m up, next_in m (map_keys p f t) up = next_in m t up) /\
  (forall m down, prev_in m (map_keys p f t) down = prev_in m t down) /\
  min_id (map_keys p f t) = min_id t /\ it_max (map_keys p f t) = it_max t /\
  tsize (map_keys p f t) = tsize t.
Proof.
  split; [apply map_keys_elems|]. split; [apply map_keys_ids|]. split; [apply map_keys_skeleton|].
  split; [apply map_keys_redblack|]. split; [apply map_keys_bst_iff|].
  split; [intros H; apply map_keys_bst; apply sortedb_sorted; exact H|].
  split; [intros m; apply map_keys_item_of|].
  split; [intros m up; apply map_keys_next_in|].
  split; [intros m down; apply map_keys_prev_in|].
  split; [apply map_keys_min_id|]. split; [apply map_keys_it_max|apply map_keys_tsize].
Qed.
