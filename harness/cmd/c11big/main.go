// Harness for C11, stream of very large blobs (see verifharness/c11core).
package main

import "verifharness/c11core"

func main() { c11core.Main(true) }
