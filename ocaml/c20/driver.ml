(* C20: replay the harness trace through the extracted Gallina model of tree_diff.go / blob_cache.go and
   judge the implementation's outputs with the extracted validators. *)
open C20_model
open Conv

(* bytes and paths are shared: one value per byte, one list per distinct path string *)
let byte_n = Array.init 256 n_of_int
let n_of_byte i = if i >= 0 && i < 256 then byte_n.(i) else n_of_int i
let path_memo : (string, n list) Hashtbl.t = Hashtbl.create 4096
let path_of_string s =
  if s = "<empty>" then [] else
  match Hashtbl.find_opt path_memo s with
  | Some p -> p
  | None -> let p = List.init (String.length s) (fun i -> byte_n.(Char.code s.[i])) in Hashtbl.replace path_memo s p; p
let string_of_path p = let b = Buffer.create 32 in List.iter (fun c -> Buffer.add_char b (Char.chr (int_of_n c))) p; Buffer.contents b
let ns_of_sx s = List.map (fun x -> n_of_byte (int_of_sx x)) (list_of_sx s)

let entry_of_sx s =
  match args s with
  | [p; h; m] -> { e_path = path_of_string (atom p); e_hash = n_of_int (int_of_sx h); e_mode = n_of_int (int_of_sx m) }
  | _ -> failwith "entry"
let oentry_of_sx = function A "none" -> None | s -> Some (entry_of_sx s)
let change_of_sx s =
  match args s with
  | [f; t] -> { c_from = oentry_of_sx f; c_to = oentry_of_sx t }
  | _ -> failwith "change"

let show_entry e = Printf.sprintf "%s:%d:%o" (string_of_path e.e_path) (int_of_n e.e_hash) (int_of_n e.e_mode)
let show_oentry = function None -> "-" | Some e -> show_entry e
let show_change c = show_oentry c.c_from ^ ">" ^ show_oentry c.c_to
let show_changes cs =
  let n = List.length cs in
  if n <= 12 then "[" ^ String.concat " " (List.map show_change cs) ^ "]"
  else "[" ^ String.concat " " (List.map show_change (List.filteri (fun i _ -> i < 12) cs)) ^ Printf.sprintf " ... %d changes]" n

let checksum (d : n list) =
  let s = ref 0 in
  List.iteri (fun i x -> s := (!s * 31 + int_of_n x + i) mod 1000003) d; !s

(* Contents longer than 600 bytes are written by the harness as (big <length> <checksum> <checksum2>), computed from
   the bytes it read (from the repository for the object store, from CachedBlob.Data for a cache).  They enter the
   model as the three-element stand-in [256 + length; checksum; checksum2], which no real byte string equals (its
   first element is not a byte); the model only ever copies and the oracles only ever compare contents, so equality
   of stand-ins is equality of length and of both checksums. *)
let data_of_sx = function
  | L [A "big"; ln; c1; c2] -> [n_of_int (256 + int_of_sx ln); n_of_int (int_of_sx c1); n_of_int (int_of_sx c2)]
  | s -> ns_of_sx s
let is_standin = function x :: _ when int_of_n x >= 256 -> true | _ -> false
let dlen d = match d with x :: _ when int_of_n x >= 256 -> int_of_n x - 256 | _ -> List.length d
let dsum d = match d with x :: c1 :: _ when int_of_n x >= 256 -> int_of_n c1 | _ -> checksum d
let show_data d = if is_standin d then Printf.sprintf "%d bytes (checksum %d)" (dlen d) (dsum d) else Printf.sprintf "%d bytes" (List.length d)

(* The validator changes_ok is quadratic in the size of the trees.  It is a conjunction of conditions on single paths
   (no path reported twice; every reported change is the expected change of its path; every path whose restricted
   entries differ is reported), and expected f prev cur p only looks at the first entry of path p in each tree.  So
   for any partition of the set of paths, changes_ok holds of the whole iff it holds of every class (trees and change
   list restricted to the class, order kept).  Big steps (more than 600 entries in the two trees together: the
   scale-tree stream) are judged path by path - the finest partition -, everything else in one piece. *)
let big_limit = 600
let cpath_of c = match c.c_to, c.c_from with Some e, _ -> e.e_path | None, Some e -> e.e_path | _ -> []
let by_path prev cur cs =
  let t = Hashtbl.create 4096 in
  let cell key = match Hashtbl.find_opt t key with Some c -> c | None -> let c = (ref [], ref [], ref []) in Hashtbl.replace t key c; c in
  List.iter (fun e -> let (a, _, _) = cell (string_of_path e.e_path) in a := e :: !a) (List.rev prev);
  List.iter (fun e -> let (_, b, _) = cell (string_of_path e.e_path) in b := e :: !b) (List.rev cur);
  List.iter (fun c -> let (_, _, x) = cell (string_of_path (cpath_of c)) in x := c :: !x) (List.rev cs);
  t
let changes_ok_big f prev cur cs =
  if List.length prev + List.length cur <= big_limit then changes_ok f prev cur cs
  else Hashtbl.fold (fun _ (a, b, x) ok -> ok && changes_ok f !a !b !x) (by_path prev cur cs) true
let tree_wfb_big t =
  if List.length t <= big_limit then tree_wfb t
  else Hashtbl.fold (fun _ (a, _, _) ok -> ok && tree_wfb !a) (by_path t [] []) true

let sub_mode = 0o160000

let key_of_change c = (string_of_path (match c.c_to, c.c_from with Some e, _ -> e.e_path | None, Some e -> e.e_path | _ -> []), show_change c)

(* The lines of the scale streams are several megabytes long: a parser that reads the line in place (no token list)
   and shares the atoms of byte values; otherwise Conv.iter_cases. *)
let small_atoms = Array.init 1000 (fun i -> A (string_of_int i))
let parse_line (s : string) : sx =
  let n = String.length s in
  let pos = ref 0 in
  let is_space c = c = ' ' || c = '\t' || c = '\n' || c = '\r' in
  let rec parse () =
    while !pos < n && is_space s.[!pos] do incr pos done;
    if !pos >= n then failwith "sx: unexpected end";
    if s.[!pos] = '(' then begin
      incr pos;
      let items = ref [] in
      let fin = ref false in
      while not !fin do
        while !pos < n && is_space s.[!pos] do incr pos done;
        if !pos >= n then failwith "sx: missing )";
        if s.[!pos] = ')' then begin incr pos; fin := true end
        else items := parse () :: !items
      done;
      L (List.rev !items)
    end else if s.[!pos] = ')' then failwith "sx: unexpected )"
    else begin
      let st = !pos in
      while !pos < n && not (is_space s.[!pos]) && s.[!pos] <> '(' && s.[!pos] <> ')' do incr pos done;
      let len = !pos - st in
      let v = ref 0 and digits = ref (len <= 3) in
      if !digits then for i = st to !pos - 1 do
        let c = s.[i] in if c >= '0' && c <= '9' then v := !v * 10 + Char.code c - 48 else digits := false done;
      if !digits && (len = 1 || s.[st] <> '0') then small_atoms.(!v) else A (String.sub s st len)
    end in
  parse ()

let iter_cases (f : int -> sx -> unit) =
  (try while true do
     let line = input_line stdin in
     if String.length line > 5 && String.sub line 0 5 = "(case" then begin
       incr n_cases;
       (try
          let s = parse_line line in
          let id = match s with L (_ :: i :: _) -> int_of_sx i | _ -> -1 in
          (try f id s with
           | Failure m -> mismatch id ("driver-failure " ^ m)
           | Stack_overflow -> mismatch id "driver-stack-overflow"
           | Not_found -> mismatch id "driver-not-found")
        with Failure m -> mismatch (-1) ("driver-failure " ^ m))
     end
   done with End_of_file -> ());
  finish ()

let () =
  Gc.set { (Gc.get ()) with Gc.minor_heap_size = 8 * 1024 * 1024; Gc.space_overhead = 200 };
  iter_cases (fun id c ->
    Hashtbl.reset path_memo;
    let kind = atom (List.hd (args (field "kind" c))) in
    let obs = field "obs" c in
    (* ---- tables *)
    let chash = Array.of_list (List.map int_of_sx (args (field "chash" obs))) in
    let tree_by_hid = Hashtbl.create 16 in
    let trees = Array.of_list (List.map (fun t ->
      match args t with
      | thid :: es -> let l = List.map entry_of_sx es in Hashtbl.replace tree_by_hid (int_of_sx thid) l; l
      | [] -> failwith "tree") (args (field "trees" obs))) in
    let mods = Array.of_list (List.map (function
      | A "err" -> None
      | L l -> Some (List.map ns_of_sx l)
      | _ -> failwith "mods") (args (field "mods" obs))) in
    let store = Hashtbl.create 16 in
    List.iter (fun b -> match b with L [h; d] -> Hashtbl.replace store (int_of_sx h) (data_of_sx d) | _ -> failwith "blob") (args (field "blobs" obs));
    let tree_hid = Array.of_list (List.map (fun t -> match args t with thid :: _ -> int_of_sx thid | [] -> -1) (args (field "trees" obs))) in
    let parents = Array.of_list (List.map (fun cm -> List.map int_of_sx (args (field "parents" cm))) (args (field "commits" c))) in
    let commit i = { cm_hash = n_of_int chash.(i); cm_parents = List.map (fun p -> n_of_int chash.(p)) parents.(i); cm_tree = trees.(i) } in
    let table name =
      let t = Hashtbl.create 16 in
      match args (field name obs) with
      | first :: rest ->
          (t, first, rest)
      | [] -> failwith name in
    let (vt, v_empty, vrest) = table "vendor" in
    List.iter (function L [p; b] -> Hashtbl.replace vt (atom p) (bool_of_sx b) | _ -> failwith "vendor") vrest;
    let name_args = args (field "name" obs) in
    let name_set = bool_of_sx (List.nth name_args 0) and name_empty = bool_of_sx (List.nth name_args 1) in
    let nt = Hashtbl.create 16 in
    List.iter (function L [p; b] -> Hashtbl.replace nt (atom p) (bool_of_sx b) | _ -> failwith "name") (List.tl (List.tl name_args));
    let (lt, lang_all, lrest) = table "lang" in
    List.iter (function L [p; h; b] -> Hashtbl.replace lt (atom p, int_of_sx h) (bool_of_sx b) | _ -> failwith "lang") lrest;
    let find t k what = try Hashtbl.find t k with Not_found -> failwith ("predicate table miss: " ^ what) in
    (* the harness records a table only when the configuration makes filterDiffs consult the predicate *)
    let fskip = List.map ns_of_sx (args (field "fskip" obs)) in
    let f = {
      f_skip = fskip;
      f_vendor = (fun p -> if p = [] then bool_of_sx v_empty else if fskip = [] then false else find vt (string_of_path p) "vendor");
      f_name_set = name_set;
      f_name = (fun p -> if p = [] then name_empty else if not name_set then false else find nt (string_of_path p) "name");
      f_lang_all = bool_of_sx lang_all;
      f_lang = (fun p h -> if p = [] then false else if bool_of_sx lang_all then true else find lt (string_of_path p, int_of_n h) "lang");
      f_has_blob = (fun h -> Hashtbl.mem store (int_of_n h)) } in
    let failmissing = bool_of_sx (List.hd (args (field "failmissing" obs))) in
    let benv i = { b_store = (fun h -> Hashtbl.find_opt store (int_of_n h)); b_fail_missing = failmissing; b_modules = mods.(i) } in
    (* ---- replay *)
    let bs = ref [br_zero] in
    (* the commit that each branch really consumed last (as accepted by the implementation; inherited by
       fork clones), tracked from the operation list alone: the reference for the parent check *)
    let last = ref [None] in
    let ops = args (field "ops" c) and steps = args (field "steps" obs) in
    if List.length ops <> List.length steps then failwith "ops/steps length";
    let prev_bs = ref [] in
    let compare_snapshot here snap =
      let n, gl = (match args snap with n :: gl -> int_of_sx n, gl | [] -> failwith "snapshot") in
      if n <> List.length !bs then mismatch id (here ^ Printf.sprintf " number of branches: impl=%d model=%d" n (List.length !bs))
      else begin
        let listed = Hashtbl.create 8 in
        let bsa = Array.of_list !bs and prev_a = Array.of_list !prev_bs in
        List.iter (fun g ->
          match args g with
          | [bi; pc; has; pt; L keys] ->
              let i = int_of_sx bi in
              Hashtbl.replace listed i ();
              let m = bsa.(i) in
              let where = Printf.sprintf "%s branch %d" here i in
              if int_of_sx pc <> int_of_n m.br_td.td_commit then
                mismatch id (Printf.sprintf "%s previous commit: impl=%d model=%d" where (int_of_sx pc) (int_of_n m.br_td.td_commit));
              (match m.br_td.td_tree, bool_of_sx has with
               | None, false -> ()
               | Some t, true ->
                   (match Hashtbl.find_opt tree_by_hid (int_of_sx pt) with
                    | Some t' when t = t' -> ()
                    | _ -> mismatch id (where ^ " previous tree differs"))
               | _ -> mismatch id (where ^ " previous tree presence differs"));
              let gk = List.map (function L [h; ch; ln; sm] -> (int_of_sx h, int_of_sx ch, int_of_sx ln, int_of_sx sm) | _ -> failwith "key") keys in
              let mk = List.sort compare (List.map (fun (h, cb) -> (int_of_n h, int_of_n cb.cb_hash, dlen cb.cb_data, dsum cb.cb_data)) m.br_bc.bc_cache) in
              if gk <> mk then mismatch id (where ^ " rotating blob cache differs")
          | _ -> failwith "snapshot") gl;
        (* a branch that the implementation did not touch must be untouched in the model
           (the logger flag of the model has no counterpart in the snapshot) *)
        Array.iteri (fun i m ->
          if not (Hashtbl.mem listed i) then
            match (if i < Array.length prev_a then Some prev_a.(i) else None) with
            | Some m' when m' == m || (m'.br_td = m.br_td && m'.br_bc.bc_cache = m.br_bc.bc_cache) -> ()
            | _ -> mismatch id (Printf.sprintf "%s branch %d: unchanged in the implementation, changed in the model" here i)) bsa
      end;
      prev_bs := !bs in
    List.iteri (fun si (o, st) ->
      let here = Printf.sprintf "step#%d %s" si (string_of_sx o) in
      let sa = args st in
      match tag o, tag (List.hd sa) with
      | _, "skip" -> count "steps_skipped"
      | "init", "init" ->
          count "inits";
          bs := run_op f !bs (OInit (nat_of_int (int_of_sx (List.nth (args o) 0))));
          (* a re-initialised branch is fresh: it has consumed nothing, any commit must be accepted as its first
             (C20_initialize_never_refuses; before 3598ee8 the previous commit survived Initialize, finding F24) *)
          let bi = int_of_sx (List.nth (args o) 0) in
          last := List.mapi (fun i x -> if i = bi then None else x) !last;
          compare_snapshot here (field "all" st)
      | "fork", "fork" ->
          count "forks";
          bs := run_op f !bs (OFork (nat_of_int (int_of_sx (List.nth (args o) 0)), nat_of_int (int_of_sx (List.nth (args o) 1))));
          last := !last @ List.init (int_of_sx (List.nth (args o) 1)) (fun _ -> List.nth !last (int_of_sx (List.nth (args o) 0)));
          compare_snapshot here (field "all" st)
      | "consume", "consume" ->
          count "consumes";
          let b = int_of_sx (List.nth (args o) 0) and ci = int_of_sx (List.nth (args o) 1) in
          let cm = commit ci in
          let pre = args (field "pre" st) in
          let pc = int_of_sx (List.nth pre 0) and phas = bool_of_sx (List.nth pre 1) and pt = int_of_sx (List.nth pre 2) in
          let dt = List.map change_of_sx (args (field "dt" st)) in
          let br = List.nth !bs b in
          let tdk = atom (List.hd (args (field "td" st))) in
          let model = td_consume f br.br_td cm dt in
          let bmodel_of_step = ref None in
          (* ---- property: the parent check, judged against the commit that the branch really consumed last *)
          let must_refuse = (match List.nth !last b with Some p -> not (List.mem p parents.(ci)) | None -> false) in
          ignore pc;
          if must_refuse then count "wrong_parent_steps";
          if must_refuse && tdk <> "errparent" then
            propfail id (here ^ " parent-refusal: the previous commit of the branch is not among the parents, but the commit was not refused (" ^ tdk ^ ")")
          else if (not must_refuse) && tdk = "errparent" then
            propfail id (here ^ " parent-refusal: refused although the previous commit is among the parents (or the branch is fresh)");
          if tdk = "errparent" || tdk = "errother" then begin
            if not (bool_of_sx (List.nth (args (field "td" st)) 1)) then
              propfail id (here ^ " parent-refusal: an error was returned together with a result");
            (* the per-branch memory must not move *)
            List.iter (fun g ->
              match g with
              | L [_; bi; pc'; has'; pt'; _] when int_of_sx bi = b ->
                  if int_of_sx pc' <> pc || bool_of_sx has' <> phas || int_of_sx pt' <> pt then
                    propfail id (here ^ " parent-refusal: the branch memory changed although the commit was refused")
              | _ -> ()) (List.tl (args (field "all" st)))
          end;
          (* ---- correspondence of the result kind *)
          (match model, tdk with
           | Ok _, "ok" -> ()
           | Err e, "errparent" when int_of_n e = 1 -> count "td_errparent"
           | Err e, "errother" when int_of_n e <> 1 -> count "td_errother"
           | _ -> mismatch id (Printf.sprintf "%s TreeDiff result kind: impl=%s model=%s" here tdk
                                 (match model with Ok _ -> "ok" | Err e -> "err" ^ string_of_int (int_of_n e) | Panic -> "panic")));
          if tdk = "ok" then begin
            (match List.nth !last b with
             | Some p when phas && tree_hid.(p) <> pt ->
                 propfail id (here ^ " parent-refusal: the commit was diffed against a tree that is not the tree of the branch's previous commit")
             | _ -> ());
            last := List.mapi (fun i x -> if i = b then Some ci else x) !last;
            let gcs = List.map change_of_sx (args (field "changes" st)) in
            (match model with
             | Ok (_, mcs) -> if mcs <> gcs then mismatch id (here ^ " changes differ: impl=" ^ show_changes gcs ^ " model=" ^ show_changes mcs)
             | _ -> ());
            let cur = trees.(ci) in
            if phas then begin
              count "diff_steps";
              let prev = (try Hashtbl.find tree_by_hid pt with Not_found -> failwith "unknown previous tree") in
              if not (tree_wfb_big prev && tree_wfb_big cur) then count "outside_domain_tree"
              else begin
                if not (changes_ok_big all_pass prev cur dt) then
                  propfail id (here ^ " difftree: go-git's DiffTree output is not the difference of the two trees: " ^ show_changes dt);
                if gcs <> [] then count "diff_steps_nonempty";
                if not (changes_ok_big f prev cur gcs) then begin
                  let why =
                    if not (flip_free f prev cur) then "language-flip: the language verdict of a path flips across its modification, which filterDiffs judges on one side only; "
                    else if not (empty_name_inert f) then "vendor-empty-name: enry.IsVendor accepts the empty name; "
                    else "" in
                  propfail id (here ^ " changes-apply: " ^ why ^ "applying the reported changes to the filtered previous file set does not give the filtered current file set: " ^ show_changes gcs)
                end
              end
            end else begin
              count "first_steps";
              let want = List.map (fun e -> { c_from = None; c_to = Some e }) (restrict f (List.filter is_file cur)) in
              let srt l = List.sort compare (List.map key_of_change l) in
              if srt want <> srt gcs then begin
                let why = if not (empty_name_inert f) then "vendor-empty-name: enry.IsVendor accepts the empty name; " else "" in
                propfail id (here ^ " first-commit: " ^ why ^ "the first commit of the branch does not report exactly the passing files as additions: " ^ show_changes gcs)
              end
            end;
            (* ---- BlobCache *)
            let bck = atom (List.hd (args (field "bc" st))) in
            (* bc_consume keeps its maps as association lists: quadratic.  A step with more than 12000 changes (scale-tree
               stream of the thorough tier only) is judged by the property oracle alone; the model's rotating cache is
               then continued from the returned cache, which the oracle has just compared with the object store. *)
            let bmodel =
              if List.length gcs <= 12000 || bck <> "ok" then bc_consume (benv ci) br.br_bc gcs
              else begin
                count "bc_model_skipped_huge_step";
                let tab = Hashtbl.create 4096 in
                List.iter (function
                  | L [h; ch; _; d] -> Hashtbl.replace tab (int_of_sx h) { cb_hash = n_of_int (int_of_sx ch); cb_data = data_of_sx d }
                  | _ -> failwith "cache") (args (field "cache" st));
                let seen = Hashtbl.create 4096 in
                let order = ref [] in
                let add e = let h = int_of_n e.e_hash in
                  if not (Hashtbl.mem seen h) then begin Hashtbl.replace seen h (); order := h :: !order end in
                List.iter (fun ch -> (match ch.c_to with Some e -> add e | None -> ())) gcs;
                let newc = List.rev_map (fun h -> (n_of_int h, (try Hashtbl.find tab h with Not_found -> empty_cb))) !order in
                Hashtbl.reset seen; order := [];
                List.iter (fun ch -> (match ch.c_to with Some e -> add e | None -> ()); (match ch.c_from with Some e -> add e | None -> ())) gcs;
                let full = List.rev_map (fun h -> (n_of_int h, (try Hashtbl.find tab h with Not_found -> empty_cb))) !order in
                Ok ({ bc_cache = newc; bc_log = br.br_bc.bc_log }, full)
              end in
            (match model with Ok (_, mcs) when mcs = gcs -> bmodel_of_step := Some bmodel | _ -> ());
            let sides = List.concat_map (fun ch -> (match ch.c_from with Some e -> [e] | None -> []) @ (match ch.c_to with Some e -> [e] | None -> [])) gcs in
            (* the domain of "every referenced blob is available": integral_b (extracted; C20_cache_no_refusal_strict) - the
               object is in the store, or the entry is a submodule entry and (lenient mode or the path is registered in
               the .gitmodules of THIS commit); judged on the recorded environment of the commit alone *)
            let integral = integral_b (benv ci) gcs in
            if not integral then count "outside_domain_missing_blob"
            else if failmissing && List.exists (fun e -> int_of_n e.e_mode = sub_mode && not (Hashtbl.mem store (int_of_n e.e_hash))) sides then
              count "strict_steps_with_registered_submodules";
            (match bck with
             | "ok" ->
                 count "bc_ok";
                 let gcache = List.map (function
                   | L [h; ch; sz; d] -> (int_of_sx h, (int_of_sx ch, int_of_sx sz, data_of_sx d))
                   | _ -> failwith "cache") (args (field "cache" st)) in
                 let gtab = Hashtbl.create 16 in
                 List.iter (fun (h, v) -> Hashtbl.replace gtab h v) gcache;
                 (* property: every blob referenced by a change is there with its exact bytes *)
                 List.iter (fun e ->
                   let h = int_of_n e.e_hash in
                   match Hashtbl.find_opt gtab h with
                   | None -> propfail id (Printf.sprintf "%s cache-covers: hash %d of %s is not a key of the returned cache" here h (show_entry e))
                   | Some (ch, sz, d) ->
                       (match Hashtbl.find_opt store h with
                        | Some bytes ->
                            if is_standin bytes then count "big_blobs_checked";
                            if d <> bytes || ch <> h || sz <> dlen bytes then
                              propfail id (Printf.sprintf "%s cache-covers: the cached blob of %s does not hold the exact bytes of the object: the cache holds %s, declared size %d, the repository holds %s"
                                             here (show_entry e) (show_data d) sz (show_data bytes))
                        | None ->
                            if int_of_n e.e_mode = sub_mode then begin
                              count "submodule_placeholders";
                              if d <> [] || sz <> 0 then
                                propfail id (Printf.sprintf "%s cache-covers: the placeholder of submodule entry %s is not empty" here (show_entry e))
                            end)) sides;
                 (match bmodel with
                  | Ok (_, mcache) ->
                      let mc = List.sort compare (List.map (fun (h, cb) -> (int_of_n h, (int_of_n cb.cb_hash, dlen cb.cb_data, cb.cb_data))) mcache) in
                      if mc <> gcache then mismatch id (here ^ " returned blob cache differs")
                  | _ -> mismatch id (here ^ " BlobCache: impl=ok, model fails"))
             | "err" ->
                 count "bc_err";
                 if not (bool_of_sx (List.nth (args (field "bc" st)) 1)) then mismatch id (here ^ " BlobCache: error together with a result");
                 if integral then
                   propfail id (here ^ " cache-covers: BlobCache refused a change list whose blobs are all available"
                                ^ (if failmissing then " (strict submodule mode: every submodule entry of the step is registered in the .gitmodules of the commit): " else ": ")
                                ^ show_changes gcs);
                 (match bmodel with Err _ -> () | _ -> mismatch id (here ^ " BlobCache: impl=err, model=" ^ (match bmodel with Ok _ -> "ok" | _ -> "panic")))
             | "panic" ->
                 count "bc_panic";
                 if integral then
                   propfail id (here ^ " cache-covers: BlobCache panicked on a change list whose blobs are all available: " ^ show_changes gcs);
                 (match bmodel with Panic -> () | _ -> mismatch id (here ^ " BlobCache: impl=panic, model=" ^ (match bmodel with Ok _ -> "ok" | _ -> "err")))
             | k -> failwith ("bc kind " ^ k))
          end else if tdk = "panic" then mismatch id (here ^ " TreeDiff panicked");
          (* the state after the step: run_op; for a big tree the same composition from the results computed above
             (run_op would evaluate td_consume and bc_consume, which is quadratic, a second time) *)
          if List.length cm.cm_tree <= big_limit || !bmodel_of_step = None then
            bs := run_op f !bs (OConsume (nat_of_int b, cm, dt, benv ci))
          else begin
            match model, !bmodel_of_step with
            | Ok (s', _), Some (Ok (nw, _)) -> bs := List.mapi (fun i x -> if i = b then { br_td = s'; br_bc = nw } else x) !bs
            | Ok (s', _), Some _ -> bs := List.mapi (fun i x -> if i = b then { br_td = s'; br_bc = x.br_bc } else x) !bs
            | _ -> ()
          end;
          compare_snapshot here (field "all" st)
      | _ -> failwith ("step shape " ^ string_of_sx o)) (List.combine ops steps);
    count ("kind_" ^ kind))
