(* C06 - the hibernation file of Allocator.Serialize / Deserialize over lists of bytes.  Definitions only.

   layout:  varint(hibernatedStorageLen) varint(hibernatedGapsLen)
            then for each of the 7 buffers: varint(len(buffer)) buffer

   Deserialize assigns the fields as it goes, so a failed read leaves a partly updated allocator
   behind (and returns the error); the model does the same: [parse_file] reports how far it came. *)
From Coq Require Import List NArith ZArith Bool.
From Herc Require Import Alloc.Varint Alloc.Model.
Import ListNotations.

Definition buf_bytes (d : option (list N)) : list N := match d with Some b => b | None => [] end.

Definition wsection (d : option (list N)) : list N :=
  write_varint (N.of_nat (length (buf_bytes d))) ++ buf_bytes d.

Definition file_bytes (sl gl : Z) (hd : list (option (list N))) : list N :=
  write_varint (Z.to_N sl) ++ write_varint (Z.to_N gl) ++ flat_map wsection hd.

(* Serialize(path) when the file can be written: the buffers are dropped (set to nil) *)
Definition serialize (a : alloc) : result (alloc * list N) :=
  match storage a with
  | Some _ => Panic PSerAwake
  | None => Ok (mkalloc (thr a) None (gaps a) (map (fun _ => None) (hdata a)) (hslen a) (hglen a),
                file_bytes (hslen a) (hglen a) (hdata a))
  end.

(* Serialize(path) when os.Create fails: the error is returned, nothing changes *)
Definition serialize_fail (a : alloc) : result alloc :=
  match storage a with
  | Some _ => Panic PSerAwake
  | None => Err EOpen
  end.

(* file.Read(buf) with len(buf) = x on a regular file: a zero-length read succeeds even at the end
   of the file; at the end of the file (0, io.EOF); fewer bytes than asked for: n < x, no error from
   Read, "incomplete read" from Deserialize.  The buffer was allocated (zeroed) before the read. *)
Inductive rbuf : Type :=
| RBok (b rest : list N)
| RBerr (e : eclass) (b : list N).

Definition read_buf (x : N) (rest : list N) : rbuf :=
  if (x =? 0)%N then RBok [] rest
  else match rest with
       | [] => RBerr EEof (repeat 0%N (N.to_nat x))
       | _ :: _ =>
           if (N.of_nat (length rest) <? x)%N
           then RBerr EIncomplete (rest ++ repeat 0%N (N.to_nat x - length rest))
           else RBok (firstn (N.to_nat x) rest) (skipn (N.to_nat x) rest)
       end.

Fixpoint read_sections (k : nat) (bytes : list N) : list (list N) * option eclass :=
  match k with
  | O => ([], None)
  | S k' =>
      match read_varint bytes with
      | VEof => ([], Some EEof)
      | VOk x rest =>
          match read_buf x rest with
          | RBerr e b => ([b], Some e)
          | RBok b rest' => let (bs, e) := read_sections k' rest' in (b :: bs, e)
          end
      end
  end.

Record parsed : Type := mkparsed {
  p_slen : option N; p_glen : option N; p_bufs : list (list N); p_err : option eclass }.

Definition parse_file (bytes : list N) : parsed :=
  match read_varint bytes with
  | VEof => mkparsed None None [] (Some EEof)
  | VOk sl r1 =>
      match read_varint r1 with
      | VEof => mkparsed (Some sl) None [] (Some EEof)
      | VOk gl r2 => let (bs, e) := read_sections 7 r2 in mkparsed (Some sl) (Some gl) bs e
      end
  end.

(* Deserialize(path): [file] = None when the file cannot be opened or read at all.
   The second component is the returned error (None = nil). *)
Definition deserialize (a : alloc) (file : option (list N)) : result (alloc * option eclass) :=
  match storage a with
  | Some _ => Panic PDeserAwake
  | None =>
      match file with
      | None => Ok (a, Some EOpen)
      | Some bytes =>
          let p := parse_file bytes in
          Ok (mkalloc (thr a) None (gaps a)
                      (map Some (p_bufs p) ++ skipn (length (p_bufs p)) (hdata a))
                      (match p_slen p with Some x => Z.of_N x | None => hslen a end)
                      (match p_glen p with Some x => Z.of_N x | None => hglen a end),
              p_err p)
      end
  end.
