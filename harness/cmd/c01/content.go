// Round 4 (content of values): the declarative histories of the DAG kinds speak about line IDENTITIES and path NAMES; what
// bytes a line identity is written with, what bytes a path name is written with and which mode a tree entry has do not
// change the ground truth.  The fields (enc E) (nenc N) (modes 1) of a case select the rendering; the observation is mapped
// back to the plain names, so the driver judges the case exactly like its plain twin.
//
//	enc 1  lines that are NOT well-formed UTF-8 and differ only inside the ill-formed runs: "caf" + digits + " au lait", the digits
//	       drawn from lone continuation bytes, lone lead bytes, 0xC0 / 0xC1 / 0xF5 / 0xF8 / 0xFE / 0xFF, a CESU lead 0xED, Latin-1
//	       letters 0xE8..0xEA and U+FFFD as REAL content (a sanitiser maps the others onto it)
//	enc 2  lines that differ only in the case of their letters
//	enc 3  lines that differ only in leading / inner / trailing white space: space, tab, CR (CRLF endings, lone CR), VT, NBSP,
//	       U+3000, U+2028 and the BOM U+FEFF (at the start of the file and inside)
//	enc 4  decimal numbers 0, 1, .. 9, 10, 11, .. 99, 100, 101 .. (widths), every third one zero-padded / signed ("007", "+7")
//	enc 5  lines of white space ONLY (the alphabet of enc 3; identity 0 is the empty line): blobs of blanks, BOM-only blobs
//	nenc 1 path names that differ only in case;  nenc 2  only in trailing / leading blanks (space, NBSP, U+3000, dot);
//	nenc 3 names that are not UTF-8;  nenc 4 names with common prefixes and decimal suffixes f9 f10 f11 f99 f100 f101 ...
//	modes  tree entries alternate between regular and executable (also from one commit to the next with the blob unchanged)
package main

import (
	"encoding/hex"
	"fmt"
	"sort"
	"strconv"
	"strings"
	"time"

	git "gopkg.in/src-d/go-git.v4"
	"gopkg.in/src-d/go-git.v4/plumbing/filemode"
	"gopkg.in/src-d/go-git.v4/plumbing/object"

	"verifharness/synth"
)

var badDigits = []string{"\x80", "\x81", "\xbf", "\xc0", "\xc1", "\xc3", "\xe9", "\xea", "\xe8", "\xed", "\xf5", "\xf8", "\xfe", "\xff", "\xa0", "\xef\xbf\xbd"}
var wsDigits = []string{" ", "\t", "\r", "\u00a0", "\u3000", "\u2028", "\ufeff", "\v"}

// digits writes n in base len(alphabet), most significant first, at least width symbols (a prefix-free alphabet: injective)
func digits(n int, alphabet []string, width int) string {
	var ds []string
	b := len(alphabet)
	for n > 0 {
		ds = append([]string{alphabet[n%b]}, ds...)
		n /= b
	}
	for len(ds) < width {
		ds = append([]string{alphabet[0]}, ds...)
	}
	return strings.Join(ds, "")
}

const caseWord = "thequickbrownfoxjumpsoverthelazydog"

func caseBits(word string, n int) string {
	b := []byte(word)
	for i := 0; i < len(b) && n > 0; i++ {
		if n&1 == 1 {
			b[i] -= 'a' - 'A'
		}
		n >>= 1
	}
	return string(b)
}

// lineText renders line identity id (without the newline); injective for every enc, never contains LF or NUL
func lineText(enc, id int) string {
	switch enc {
	case 1:
		return "caf" + digits(id, badDigits, 2) + " au lait"
	case 2:
		return caseBits(caseWord, id+1)
	case 3:
		d := digits(id, wsDigits, 1)
		return d + "key" + d + "=" + d + "value" + d
	case 4:
		switch id % 3 {
		case 1:
			return "00" + strconv.Itoa(id)
		case 2:
			return "+" + strconv.Itoa(id)
		}
		return strconv.Itoa(id)
	case 5:
		return digits(id, wsDigits, 0)
	}
	return "L" + strconv.Itoa(id)
}

var blankNames = []string{"name", "name ", " name", "name\u00a0", "name\u3000", "name.", "\u00a0name", "name  ", "name\t", "na me", "name \u00a0", "\ufeffname",
	"Name", "name\u2028", "\u3000name", " name ", "name\r", "n\u00a0me", "name..", ".name", "name\v", "nam\u00e9", "name\u0301", "name\u200b"}

var nameNumbers = []int{9, 10, 11, 99, 100, 101, 999, 1000, 1001, 1, 0, 8, 12, 98, 102, 998, 1002, 2, 3, 4, 5, 6, 7}

// nameText renders the i-th path name of a case; injective for every nenc, no slash, no NUL
func nameText(nenc, i int, plain string) string {
	switch nenc {
	case 1:
		return caseBits("makefile", i) + ".mk"
	case 2:
		if i < len(blankNames) {
			return blankNames[i]
		}
		return "name" + digits(i, []string{" ", "\u00a0", "\u3000", "."}, 3)
	case 3:
		return "n" + digits(i, badDigits, 1)
	case 4:
		if i < len(nameNumbers) {
			return "f" + strconv.Itoa(nameNumbers[i])
		}
		return strings.Repeat("f", i)
	}
	return plain
}

// nameTable maps the plain path names of one case to their rendering and back
type nameTable struct {
	fwd, back map[string]string
}

func newNameTable(nenc int, plain []string, rot int) *nameTable {
	t := &nameTable{fwd: map[string]string{}, back: map[string]string{}}
	seen := map[string]bool{}
	var names []string
	for _, n := range plain {
		if n != "" && !seen[n] {
			seen[n] = true
			names = append(names, n)
		}
	}
	sort.Strings(names)
	m := 24
	if len(names) > m {
		m = len(names)
	}
	for i, n := range names {
		r := nameText(nenc, (i+rot)%m, n) // rot: which names of the family a case gets depends on its size
		t.fwd[n] = r
		t.back[r] = n
	}
	return t
}

// plainName maps a name reported by the pipeline back; a name the case never used is rendered in hex
func (t *nameTable) plainName(k string) string {
	if t == nil {
		return k
	}
	if p, ok := t.back[k]; ok {
		return p
	}
	return "raw_" + hex.EncodeToString([]byte(k))
}

// buildRendered makes the repository of history h (path events pd, or nil) with the given renderings
func buildRendered(h *synth.Hist, pd *pdInfo, enc int, nt *nameTable, modes bool) (*git.Repository, []*object.Commit) {
	var cs []synth.CommitSpec
	anc := h.Anc()
	for c := 0; c < h.N; c++ {
		var files []synth.FileSpec
		for pi, id := range h.Paths {
			name := id
			exists := false
			var sb strings.Builder
			for _, l := range h.Seqs[id] {
				if anc[c][l.Born] {
					exists = true
				}
				if h.Alive(c, l) {
					sb.WriteString(lineText(enc, l.ID))
					sb.WriteByte('\n')
				}
			}
			if pd != nil {
				name = pd.where(h, id, c)
				exists = name != ""
			}
			if !exists {
				continue
			}
			if nt != nil {
				name = nt.fwd[name]
			}
			f := synth.FileSpec{Path: name, Data: []byte(sb.String())}
			if modes && (pi+c)%3 == 0 {
				f.Mode = filemode.Executable
			}
			files = append(files, f)
		}
		au := fmt.Sprintf("dev%d", h.Author[c])
		when := time.Unix(synth.BaseTime+int64(h.Tick[c])*86400+int64(c), 0)
		cs = append(cs, synth.CommitSpec{Parents: h.Parents[c], AuthorName: au, AuthorEmail: au + "@x", AuthorWhen: when, Files: files})
	}
	return synth.BuildRepo(cs)
}

// caseNames lists the plain path names a case uses
func caseNames(h *synth.Hist, pd *pdInfo) []string {
	if pd == nil {
		return append([]string{}, h.Paths...)
	}
	var r []string
	for _, id := range h.Paths {
		r = append(r, pd.Name0[id])
	}
	for _, e := range pd.Events {
		r = append(r, e.Name)
	}
	return r
}

// drawContent draws the renderings of a DAG case (a third of the cases each)
func drawContent(rnd func(int) int, in *input) {
	in.enc, in.nenc, in.modes = 0, 0, false
	if rnd(3) == 0 {
		in.enc = 1 + rnd(5)
	}
	if rnd(3) == 0 {
		in.nenc = 1 + rnd(4)
	}
	if rnd(4) == 0 {
		in.modes = true
	}
}
