// The scale family of C15: a handful of LARGE graphs in the shapes that are adversarial for the queue of
// FindCycle, the root list and the work list of Toposort and the child tables of ReindexNode: rings, rings
// with a tail, rings that share only the seed, long paths, combs, banded DAGs, dense DAGs, a dense blob
// followed by a long chain back to the seed, stars with the removal + re-index of many edges of one node,
// many parents of one node, many roots, random functional graphs.  Sizes 10^3, 3*10^3, 10^4 (quick), 10^5
// and, for rings and paths, 10^6 (thorough), plus ring lengths / degrees / root counts that straddle 2^8,
// 2^10, 2^11, 2^12, 2^15, 2^16.  Regular patterns are written as bulk operations, so a replay file stays a
// few operations long whatever the size.
package main

import (
	"fmt"
	"math/rand"
	"os"
	"time"

	. "verifharness/lib"
)

type scaleCase struct {
	kind string
	nm   *namer
	ops  []op
}

func q(kind string, a int) op { return op{kind: kind, a: a} }

func widthFor(n int) int {
	w := 5
	for lim := 100000; n > lim; lim *= 10 {
		w++
	}
	return w
}

// a stride coprime with n, far from 1 and from n-1: (i*stride) mod n is a scrambled permutation of 0..n-1
func strideFor(n int) int {
	gcd := func(a, b int) int {
		for b != 0 {
			a, b = b, a%b
		}
		return a
	}
	s := int(float64(n)*0.6180339887) | 1
	for s > 1 && gcd(s, n) != 1 {
		s += 2
	}
	if s <= 1 || s >= n {
		return 1
	}
	return s
}

// insertion of the nodes 0..n-1 in ascending (0), descending (1) or scrambled (2) order
func insertNodes(n, order int) op {
	switch order {
	case 1:
		return addNodes(n-1, n, n-1, n) // n-1, 2n-2 = n-2 (mod n), ...
	case 2:
		return addNodes(0, n, strideFor(n), n)
	}
	return addNodes(0, n, 1, 0)
}

// ring 0 -> 1 -> ... -> n-1 -> 0; the edges are inserted in the same kind of order as the nodes
func ring(n, order int) []op {
	ops := []op{insertNodes(n, order)}
	switch order {
	case 1:
		ops = append(ops, addEdges(n-1, 0, n, n-1, n-1, n))
	case 2:
		s := strideFor(n)
		ops = append(ops, addEdges(0, 1, n, s, s, n))
	default:
		ops = append(ops, addEdges(0, 1, n, 1, 1, n))
	}
	return ops
}

func ringQueries(n int) []op {
	ops := []op{q("sort", 0), q("cycle", 0), q("cycle", n/2), q("cycle", n-1)}
	if n > 2 {
		ops = append(ops, q("cycle", 1), q("parents", 0), q("children", n-1))
	}
	return ops
}

// path 0 -> 1 -> ... -> n-1
func path(n, order int) []op {
	ops := []op{insertNodes(n, order)}
	switch order {
	case 1:
		ops = append(ops, addEdges(n-2, n-1, n-1, n-1, n-1, n)) // n-2 -> n-1, n-3 -> n-2, ...: needs wrap of -1 = n-1
	default:
		ops = append(ops, addEdges(0, 1, n-1, 1, 1, 0))
	}
	return ops
}

func scale(c *Config) {
	var cases []scaleCase
	add := func(kind string, n int, ops []op) {
		cases = append(cases, scaleCase{kind, fixedNames(widthFor(n)), ops})
	}
	addNamed := func(kind string, tab []string, ops []op) {
		cases = append(cases, scaleCase{kind, tableNames(tab), ops})
	}
	sizes := []int{1000, 3000, 10000}
	if c.Thorough() {
		sizes = append(sizes, 100000)
	}
	// ---- rings: every length that straddles a power of two, and the sizes
	ringLens := []int{2, 3, 255, 256, 257, 511, 512, 513, 1023, 1024, 1025, 1026, 1027, 2047, 2048, 2049, 2050, 3000, 3071, 3072, 3073,
		4095, 4096, 4097, 5000, 8193, 10000, 16385, 32769, 65537}
	if c.Thorough() {
		ringLens = append(ringLens, 8191, 8192, 16383, 16384, 32767, 32768, 65535, 65536, 100000, 131071, 131072, 131073, 1000000, 1048575, 1048576, 1048577)
	}
	for i, n := range ringLens {
		add("scale_ring", n, append(ring(n, i%3), ringQueries(n)...))
	}
	for _, n := range sizes {
		for order := 0; order < 3; order++ {
			add("scale_ring", n, append(ring(n, order), ringQueries(n)...))
		}
		// ring t..n-1 with a tail 0 -> ... -> t leading into it: no cycle through the tail nodes
		t := n / 3
		ops := []op{insertNodes(n, 2), addEdges(0, 1, t, 1, 1, 0), addEdges(t, t+1, n-1-t, 1, 1, 0), op{kind: "addedge", a: n - 1, b: t},
			q("sort", 0), q("cycle", 0), q("cycle", t-1), q("cycle", t), q("cycle", n-1), q("cycle", (t+n)/2)}
		add("scale_ringtail", n, ops)
		// ring with chords i -> i+2 on the first half (the frontier is two wide, the queue holds duplicates)
		ops = append(ring(n, 0), addEdges(0, 2, n/2, 1, 1, 0), q("sort", 0), q("cycle", 0), q("cycle", n/2), q("cycle", n-1))
		add("scale_ringchords", n, ops)
	}
	// ---- rings that share only the seed 0: ring A = 0,1..a-1 ; ring B = 0,a..a+b-2 ; ring C likewise
	shared := [][]int{{1023, 1024}, {1024, 1025}, {1025, 1026}, {1025, 1025}, {2500, 3000}, {3000, 2500}, {700, 1500, 2600}, {5000, 5001}, {10000, 100}, {100, 10000}}
	if c.Thorough() {
		shared = append(shared, []int{50000, 60000}, []int{100000, 1030}, []int{30000, 40000, 50000})
	}
	for _, lens := range shared {
		n := 1
		for _, l := range lens {
			n += l - 1
		}
		ops := []op{insertNodes(n, 0)}
		var seeds []int
		base := 1
		for _, l := range lens { // ring of l nodes: 0 -> base -> base+1 -> ... -> base+l-2 -> 0
			ops = append(ops, op{kind: "addedge", a: 0, b: base}, addEdges(base, base+1, l-2, 1, 1, 0), op{kind: "addedge", a: base + l - 2, b: 0})
			seeds = append(seeds, base+(l-2)/2)
			base += l - 1
		}
		ops = append(ops, q("sort", 0), q("cycle", 0))
		for _, s := range seeds {
			ops = append(ops, q("cycle", s))
		}
		ops = append(ops, q("children", 0), q("parents", 0))
		add("scale_sharedseed", n, ops)
	}
	// ---- long paths, combs, banded DAGs
	pathLens := append([]int{257, 1025, 65537}, sizes...)
	if c.Thorough() {
		pathLens = append(pathLens, 1000000)
	}
	for i, n := range pathLens {
		for order := 0; order < 3; order++ {
			if (n > 100000 || (n > 10000 && !c.Thorough())) && order != i%3 {
				continue
			}
			add("scale_path", n, append(path(n, order), q("sort", 0), q("cycle", 0), q("cycle", n/2), q("cycle", n-1), q("parents", n-1), q("children", 0)))
		}
	}
	for _, n := range sizes {
		k := n / 2 // spine 0..k-1, teeth k..2k-1
		for variant := 0; variant < 4; variant++ {
			ops := []op{insertNodes(2*k, variant%3)}
			spine, teeth := addEdges(0, 1, k-1, 1, 1, 0), addEdges(0, k, k, 1, 1, 0)
			if variant%2 == 0 {
				ops = append(ops, spine, teeth)
			} else {
				ops = append(ops, teeth, spine)
			}
			if variant >= 2 { // closed comb: the only cycle runs along the spine, every tooth is a dead end
				ops = append(ops, op{kind: "addedge", a: k - 1, b: 0})
			}
			ops = append(ops, q("sort", 0), q("cycle", 0), q("cycle", k/2), q("cycle", k-1), q("cycle", k), q("cycle", 2*k-1), q("children", k/2))
			add("scale_comb", 2*k, ops)
		}
		// banded DAG: i -> i+w, i -> i+w+1, i -> i+2w-1 ; then the same with the back edge n-1 -> 0
		w := 1
		for w*w < n {
			w++
		}
		band := []op{insertNodes(n, 2), addEdges(0, w, n-w, 1, 1, 0), addEdges(0, w+1, n-w-1, 1, 1, 0), addEdges(0, 2*w-1, n-2*w+1, 1, 1, 0)}
		add("scale_band", n, append(append([]op{}, band...), q("sort", 0), q("cycle", 0), q("cycle", n/2), q("children", 0), q("parents", n-1)))
		add("scale_band", n, append(append([]op{}, band...), op{kind: "addedge", a: n - 1, b: 0}, q("sort", 0), q("cycle", 0), q("cycle", 1), q("cycle", n/2), q("cycle", n-1)))
	}
	// ---- dense DAGs (every i -> j, i < j), optionally closed by k-1 -> 0; the BFS queue holds an element per edge
	dense := []int{46, 47, 142, 143}
	if c.Thorough() {
		dense = append(dense, 448, 1415)
	}
	for i, k := range dense {
		ops := []op{insertNodes(k, i%3)}
		for a := 0; a < k-1; a++ {
			ops = append(ops, addEdges(a, a+1, k-1-a, 0, 1, 0))
		}
		if i%2 == 0 {
			ops = append(ops, op{kind: "addedge", a: k - 1, b: 0})
		}
		ops = append(ops, q("sort", 0), q("cycle", 0), q("cycle", k/2), q("cycle", k-1))
		add("scale_dense", k, ops)
	}
	// ---- lollipop: seed 0 -> dense blob on 1..k (k(k-1)/2 edges fill the queue) -> chain of l nodes -> seed
	lolli := [][2]int{{40, 1100}, {60, 3000}, {100, 1000}, {142, 10000}, {20, 2047}, {33, 1024}}
	if c.Thorough() {
		lolli = append(lolli, [2]int{448, 100000}, [2]int{1415, 3000})
	}
	for _, kl := range lolli {
		k, l := kl[0], kl[1]
		n := 1 + k + l
		ops := []op{insertNodes(n, 0), op{kind: "addedge", a: 0, b: 1}}
		for a := 1; a < k; a++ {
			ops = append(ops, addEdges(a, a+1, k-a, 0, 1, 0))
		}
		ops = append(ops, addEdges(k, k+1, l, 1, 1, 0), op{kind: "addedge", a: n - 1, b: 0},
			q("sort", 0), q("cycle", 0), q("cycle", k/2), q("cycle", k), q("cycle", k+l/2), q("cycle", n-1))
		add("scale_lollipop", n, ops)
	}
	// ---- stars: hub 0 with m children, each child -> sink m+1; removal of many edges of the hub in several
	// patterns, some edges added back, ReindexNode, Sort.  And m parents of one node.
	starSizes := append([]int{255, 256, 257, 1023, 1024, 1025, 4096}, sizes...)
	if c.Thorough() {
		starSizes = append(starSizes, 65535, 65536, 65537)
	}
	for i, m := range starSizes {
		n := m + 2
		ops := []op{insertNodes(n, i%3), addEdges(0, 1, m, 0, 1, 0), addEdges(1, m+1, m, 1, 0, 0), q("sort", 0)}
		back := 1 // a removed child that comes back before the re-index (its rank collides until then)
		switch i % 4 {
		case 0: // every other child
			ops = append(ops, rmEdges(0, 1, (m+1)/2, 0, 2, 0))
		case 1: // the first half
			ops = append(ops, rmEdges(0, 1, m/2, 0, 1, 0))
		case 2: // the last half, from the end
			ops = append(ops, rmEdges(0, m, m/2, 0, n-1, n))
			back = m
		case 3: // all but the first
			ops = append(ops, rmEdges(0, 2, m-1, 0, 1, 0))
			back = 2
		}
		if i%2 == 0 {
			ops = append(ops, op{kind: "addedge", a: 0, b: back})
		}
		ops = append(ops, q("reindex", 0), op{kind: "addedge", a: 0, b: m + 1}, q("sort", 0), q("children", 0), q("parents", m+1), q("cycle", 0))
		// a second round on the same hub
		ops = append(ops, op{kind: "rmedge", a: 0, b: m + 1}, q("reindex", 0), q("sort", 0))
		add("scale_star", n, ops)
		// m parents: 1..m -> 0, then 0 -> m+1
		ops = []op{insertNodes(n, (i+1)%3), addEdges(1, 0, m, 1, 0, 0), op{kind: "addedge", a: 0, b: m + 1}, q("sort", 0), q("parents", 0), q("cycle", 0),
			rmEdges(1, 0, m/2, 2, 0, 0), reindexes(1, m/2, 2, 0), q("sort", 0), q("parents", 0)}
		add("scale_fanin", n, ops)
	}
	// ---- many roots: n isolated nodes inserted scrambled, a few edges
	rootSizes := append([]int{256, 257, 1025}, sizes...)
	if c.Thorough() {
		rootSizes = append(rootSizes, 65537)
	}
	for i, n := range rootSizes {
		ops := []op{insertNodes(n, 2-i%2), addEdges(n-1, 0, n/10, n-1, 1, n), q("sort", 0), q("cycle", 0)}
		add("scale_roots", n, ops)
	}
	// ---- random functional graphs (every node has one random child: rho shapes, long cycles of length ~ sqrt n)
	// and random sparse graphs, explicit operations
	rnd := rand.New(rand.NewSource(c.Seed*7919 + 15))
	fsizes := []int{1000, 2000, 3000}
	for _, n := range fsizes {
		for rep := 0; rep < 2; rep++ {
			ops := []op{insertNodes(n, 2)}
			for _, a := range rnd.Perm(n) {
				ops = append(ops, op{kind: "addedge", a: a, b: rnd.Intn(n)})
			}
			if rep == 1 { // a second child for a tenth of the nodes
				have := map[[2]int]bool{}
				for _, o := range ops[1:] {
					have[[2]int{o.a, o.b}] = true
				}
				for j := 0; j < n/10; j++ {
					a, b := rnd.Intn(n), rnd.Intn(n)
					if !have[[2]int{a, b}] {
						have[[2]int{a, b}] = true
						ops = append(ops, op{kind: "addedge", a: a, b: b})
					}
				}
			}
			ops = append(ops, q("sort", 0))
			for j := 0; j < 12; j++ {
				ops = append(ops, q("cycle", rnd.Intn(n)))
			}
			add("scale_functional", n, ops)
		}
	}
	// ---- the same shapes under adversarial name tables: numbered names without padding (string order is not
	// the numeric order), two spellings of every number, long common prefixes
	nsizes := []int{1030, 3000}
	if c.Thorough() {
		nsizes = append(nsizes, 100000)
	}
	for _, n := range nsizes {
		unpadded := make([]string, n)
		twospell := make([]string, n)
		longpre := make([]string, n)
		for i := 0; i < n; i++ {
			unpadded[i] = fmt.Sprintf("Item_%d", i)
			if i%2 == 0 {
				twospell[i] = fmt.Sprintf("x_%d", i/2)
			} else {
				twospell[i] = fmt.Sprintf("x_0%d", i/2)
			}
			longpre[i] = fmt.Sprintf("%064d", 0) + fmt.Sprintf("%x", (i*2654435761)%4294967296) + fmt.Sprintf("_%d", i)
		}
		tabs := [][]string{unpadded, twospell, longpre}
		if n > 10000 {
			tabs = tabs[:2]
		}
		for ti, tab := range tabs {
			addNamed("scale_names_ring", tab, append(ring(n, ti%3), ringQueries(n)...))
			m := n - 2
			ops := []op{insertNodes(n, (ti+1)%3), addEdges(0, 1, m, 0, 1, 0), addEdges(1, m+1, m, 1, 0, 0), q("sort", 0),
				rmEdges(0, 1, (m+1)/2, 0, 2, 0), q("reindex", 0), q("sort", 0), q("children", 0)}
			addNamed("scale_names_star", tab, ops)
			addNamed("scale_names_roots", tab, []op{insertNodes(n, 2), addEdges(n-1, 0, n/10, n-1, 1, n), q("sort", 0)})
		}
	}
	// ---- copy then mutate at scale: many sinks (star, isolated nodes) or one far sink (path); copy; bulk edges from
	// the former sinks on ONE side; sort and cycle queries on BOTH; a destructive sort of one side, then the other
	// side again; finally the consumed graph is re-used.  600 is inside the model's reach.
	csizes := []int{600, 1000, 10000}
	if c.Thorough() {
		csizes = append(csizes, 100000)
	}
	for i, n := range csizes {
		for side := 0; side < 2; side++ {
			other := 1 - side
			m := n - 1
			var ops []op
			add2 := func(g int, o ...op) { ops = append(ops, at(g, o...)...) }
			both := func(o ...op) {
				if (i+side)%2 == 0 {
					add2(other, o...)
					add2(side, o...)
				} else {
					add2(side, o...)
					add2(other, o...)
				}
			}
			// star: hub 0 -> 1..m, the m children are sinks; on one side they are chained 1 -> 2 -> ... -> m
			ops = []op{insertNodes(n, (i+side)%3), addEdges(0, 1, m, 0, 1, 0), {kind: "copy", a: 0, b: 1}}
			add2(side, addEdges(1, 2, m-1, 1, 1, 0))
			both(q("sort", 0), q("cycle", 0), q("cycle", m/2), q("children", m/2), q("parents", m/2+1))
			add2(side, op{kind: "addedge", a: m, b: 0}) // closes 0 -> 1 -> ... -> m -> 0 on that side only
			both(q("cycle", 0), q("cycle", m), q("sort", 0), q("children", m))
			add2(other, q("sortd", 0))
			add2(side, q("sort", 0), q("cycle", m/2), q("sortd", 0), q("sort", 0))
			add2(other, q("sort", 0), op{kind: "addedge", a: m, b: 0}, q("sort", 0), q("cycle", 0))
			add("scale_copy_star", n, ops)
			// quick tier: at 10^4 the path is mutated on the copy only, the isolated nodes on the original only
			doPath := c.Thorough() || n < 10000 || side == 1
			doRoots := c.Thorough() || n < 10000 || side == 0
			// path 0 -> ... -> n-1 with the one sink n-1; the copy (or the original) is closed to a ring, opened again,
			// then the former sink gets 100 new children
			ops = append(path(n, (i+side+1)%3), op{kind: "copy", a: 0, b: 1})
			add2(side, op{kind: "addedge", a: n - 1, b: 0})
			both(q("sort", 0), q("cycle", n/2), q("cycle", n-1), q("children", n-1))
			add2(side, op{kind: "rmedge", a: n - 1, b: 0}, q("reindex", n-1), addNodes(n, 100, 1, 0), addEdges(n-1, n, 100, 0, 1, 0))
			both(q("sort", 0), q("children", n-1), q("cycle", n-1))
			add2(side, q("sortd", 0))
			both(q("sort", 0), q("children", n-1), q("children", n/2))
			if doPath {
				add("scale_copy_path", n+100, ops)
			}
			// n isolated nodes (every node is a sink and a root); one side becomes a path; both sorted; the other side is
			// consumed, then this side; the consumed graph is re-used for the reversed path
			ops = []op{insertNodes(n, (i+side+2)%3), {kind: "copy", a: 0, b: 1}}
			add2(side, addEdges(0, 1, n-1, 1, 1, 0))
			both(q("sort", 0), q("cycle", n/2), q("parents", n/2))
			add2(other, q("sortd", 0))
			add2(side, q("sort", 0), q("sortd", 0), q("sort", 0), addEdges(1, 0, n-1, 1, 1, 0), q("sort", 0), q("children", n/2), q("cycle", 0),
				op{kind: "addedge", a: 0, b: n - 1}, q("sort", 0), q("cycle", 0))
			add2(other, q("sort", 0), q("children", n/2))
			if doRoots {
				add("scale_copy_roots", n, ops)
			}
		}
	}
	for _, sc := range cases {
		t0 := time.Now()
		emit(c, sc.kind, sc.nm, sc.ops)
		if os.Getenv("C15_TIMING") != "" {
			fmt.Fprintf(os.Stderr, "%s %v %v\n", sc.kind, sc.ops[0].sx(), time.Since(t0))
		}
	}
}
