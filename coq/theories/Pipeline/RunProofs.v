(* C14 - proofs about the model of Pipeline.Run (RunModel.v). *)
From Coq Require Import List NArith ZArith Bool Arith Lia.
From Herc Require Import Pipeline.RunModel.
Import ListNotations.

(* ------------------------------------------------------------------------------------------ *)
(* small facts *)

Lemma mem_true_iff e l : mem e l = true <-> In e l.
Proof.
  induction l as [|x r IH]; simpl; [split; [discriminate|tauto]|].
  rewrite orb_true_iff, N.eqb_eq, IH. tauto.
Qed.

Lemma nth_error_nil_none {A} i : nth_error (@nil A) i = None.
Proof. destruct i; reflexivity. Qed.

(* ------------------------------------------------------------------------------------------ *)
(* the isMerge scan *)

Definition run_ok (h : N) (a : action) : bool := is_hb a || is_commit_of h a.

Lemma scan_run h l2 b l3 :
  Forall (fun x => run_ok h x = true) l2 -> is_hb b = false -> is_commit_of h b = true ->
  scan h (l2 ++ b :: l3) = true.
Proof.
  intros HF Hb Hc. induction HF as [|x l Hx _ IH]; simpl.
  - rewrite Hb. exact Hc.
  - unfold run_ok in Hx. destruct (is_hb x); [exact IH|]. simpl in Hx. exact Hx.
Qed.

Lemma scan_true_in h l : scan h l = true -> exists a, In a l /\ is_commit_of h a = true.
Proof.
  induction l as [|a r IH]; simpl; [discriminate|].
  destruct (is_hb a).
  - intros H. destruct (IH H) as [x [Hin Hx]]. exists x. auto.
  - intros H. exists a. auto.
Qed.

Lemma commit_not_hb h a : is_commit_of h a = true -> is_hb a = false.
Proof. destruct a as [c l|k oc l]; simpl; [reflexivity|discriminate]. Qed.

Lemma after_run_forall h l2 b l3 :
  is_commit_of h b = true ->
  existsb (is_commit_of h) (after_run h (l2 ++ b :: l3)) = false ->
  Forall (fun x => run_ok h x = true) l2.
Proof.
  intros Hb. induction l2 as [|x l IH]; intros H; [constructor|].
  simpl in H. fold (run_ok h x) in H. destruct (run_ok h x) eqn:Hx.
  - constructor; auto.
  - exfalso. simpl in H. apply orb_false_iff in H. destruct H as [_ H].
    rewrite existsb_app in H. apply orb_false_iff in H. destruct H as [_ H].
    simpl in H. rewrite Hb in H. discriminate.
Qed.

Lemma contigb_suffix l1 l : contigb (l1 ++ l) = true -> contigb l = true.
Proof.
  induction l1 as [|a r IH]; simpl; [auto|].
  destruct a as [c its|k oc its]; [|exact IH].
  intros H. apply andb_true_iff in H. destruct H as [_ H]. exact (IH H).
Qed.

Lemma contigb_between l1 c its l2 b l3 :
  contigb (l1 ++ ACommit c its :: l2 ++ b :: l3) = true -> is_commit_of (c_id c) b = true ->
  Forall (fun x => run_ok (c_id c) x = true) l2.
Proof.
  intros H Hb. apply contigb_suffix in H. simpl in H.
  apply andb_true_iff in H. destruct H as [H _]. apply negb_true_iff in H.
  eapply after_run_forall; eauto.
Qed.

Lemma replays_app l1 l2 : replays (l1 ++ l2) = replays l1 ++ replays l2.
Proof.
  induction l1 as [|a r IH]; simpl; [reflexivity|].
  destruct a as [c its|k oc its]; simpl; rewrite IH; reflexivity.
Qed.

Definition hcount (h : N) (plan : list action) : nat :=
  length (filter (fun p => N.eqb (fst p) h) (replays plan)).

Lemma hcount_app h l1 l2 : hcount h (l1 ++ l2) = hcount h l1 + hcount h l2.
Proof. unfold hcount. rewrite replays_app, filter_app, app_length. reflexivity. Qed.

Lemma hcount_pos_iff h l : 1 <= hcount h l <-> exists a, In a l /\ is_commit_of h a = true.
Proof.
  unfold hcount. induction l as [|a r IH]; simpl.
  - split; [lia|intros [a [[] _]]].
  - destruct a as [c its|k oc its]; simpl.
    + destruct (N.eqb (c_id c) h) eqn:E; simpl.
      * split; [intros _|lia]. exists (ACommit c its). simpl. auto.
      * rewrite IH. split.
        -- intros [x [Hin Hx]]. exists x. auto.
        -- intros [x [[Hx|Hin] Hc]]; [subst x; simpl in Hc; congruence|]. exists x. auto.
    + rewrite IH. split.
      * intros [x [Hin Hx]]. exists x. auto.
      * intros [x [[Hx|Hin] Hc]]; [subst x; discriminate|]. exists x. auto.
Qed.

Lemma hcount_commit h c its : is_commit_of h (ACommit c its) = true -> hcount h [ACommit c its] = 1.
Proof. unfold hcount. simpl. intros ->. reflexivity. Qed.

(* is_merge, first direction: a neighbour found means a second replay *)
Lemma is_merge_count plan pre c its post :
  plan = pre ++ ACommit c its :: post ->
  is_merge plan (length pre) (c_id c) = true -> 2 <= hcount (c_id c) plan.
Proof.
  intros -> H. unfold is_merge in H.
  rewrite firstn_app, Nat.sub_diag, firstn_all in H. simpl firstn in H. rewrite app_nil_r in H.
  replace (S (length pre)) with (length (pre ++ [ACommit c its])) in H by (rewrite app_length; simpl; lia).
  replace (pre ++ ACommit c its :: post) with ((pre ++ [ACommit c its]) ++ post) in H
    by (rewrite <- app_assoc; reflexivity).
  rewrite skipn_app, Nat.sub_diag, skipn_all in H. simpl in H.
  rewrite hcount_app. simpl. change (ACommit c its :: post) with ([ACommit c its] ++ post).
  rewrite hcount_app, hcount_commit by (simpl; apply N.eqb_refl).
  apply orb_true_iff in H. destruct H as [H|H]; apply scan_true_in in H; destruct H as [a [Hin Ha]].
  - assert (1 <= hcount (c_id c) pre); [|lia]. apply hcount_pos_iff. exists a. split; [|exact Ha].
    apply in_rev in Hin. destruct pre; [destruct Hin|]. simpl in Hin. right. exact Hin.
  - assert (1 <= hcount (c_id c) post); [|lia]. apply hcount_pos_iff. eauto.
Qed.

Lemma in_split_commit h l : (exists a, In a l /\ is_commit_of h a = true) ->
  exists l1 b l2, l = l1 ++ b :: l2 /\ is_commit_of h b = true.
Proof.
  intros [a [Hin Ha]]. apply in_split in Hin. destruct Hin as [l1 [l2 ->]]. eauto.
Qed.

(* second direction: under contiguity the other replay is found by the scan *)
Lemma count_is_merge plan pre c its post :
  plan = pre ++ ACommit c its :: post ->
  head_emergeb plan = true -> contigb plan = true ->
  2 <= hcount (c_id c) plan -> is_merge plan (length pre) (c_id c) = true.
Proof.
  intros -> Hhead Hcont Hcnt. unfold is_merge.
  rewrite firstn_app, Nat.sub_diag, firstn_all. simpl firstn. rewrite app_nil_r.
  replace (S (length pre)) with (length (pre ++ [ACommit c its])) by (rewrite app_length; simpl; lia).
  replace (pre ++ ACommit c its :: post) with ((pre ++ [ACommit c its]) ++ post)
    by (rewrite <- app_assoc; reflexivity).
  rewrite skipn_app, Nat.sub_diag, skipn_all. simpl.
  rewrite hcount_app in Hcnt. change (ACommit c its :: post) with ([ACommit c its] ++ post) in Hcnt.
  rewrite hcount_app, hcount_commit in Hcnt by (simpl; apply N.eqb_refl).
  apply orb_true_iff.
  assert (Hor : 1 <= hcount (c_id c) post \/ 1 <= hcount (c_id c) pre) by lia.
  destruct Hor as [Hp|Hp]; apply hcount_pos_iff, in_split_commit in Hp; destruct Hp as [l1 [b [l2 [E Hb]]]].
  - right. subst post. apply scan_run; [|apply (commit_not_hb _ _ Hb)|exact Hb].
    eapply contigb_between with (l1 := pre); eauto.
  - left. subst pre.
    (* the earlier replay is not plan[0]: that one is an emerge *)
    destruct l1 as [|x l1].
    { exfalso. simpl in Hhead. destruct b as [cb ib|k oc ib]; [discriminate|discriminate Hb]. }
    simpl. rewrite rev_app_distr. simpl. rewrite <- app_assoc. simpl.
    apply scan_run; [|apply (commit_not_hb _ _ Hb)|exact Hb].
    apply Forall_rev.
    destruct b as [cb ib|k oc ib]; [|discriminate Hb].
    assert (Hf : Forall (fun y => run_ok (c_id cb) y = true) l2).
    { eapply contigb_between with (l1 := x :: l1) (its := ib) (b := ACommit c its) (l3 := post).
      - simpl. simpl in Hcont. rewrite <- app_assoc in Hcont. exact Hcont.
      - simpl. simpl in Hb. apply N.eqb_eq in Hb. rewrite Hb. apply N.eqb_refl. }
    simpl in Hb. apply N.eqb_eq in Hb. rewrite Hb in Hf. exact Hf.
Qed.

(* replayed on more than one branch = replayed more than once, when no branch repeats *)
Lemma nodup_pairs_filter l h :
  nodup_pairs l = true -> NoDup (map snd (filter (fun p => N.eqb (fst p) h) l)).
Proof.
  induction l as [|[h' b] r IH]; simpl; [constructor|].
  intros H. apply andb_true_iff in H. destruct H as [Hn H]. apply negb_true_iff in Hn.
  destruct (N.eqb h' h) eqn:E; simpl; [|auto].
  constructor; [|auto]. intros Hin. apply in_map_iff in Hin. destruct Hin as [[h2 b2] [Hb Hin]].
  simpl in Hb. subst b2. apply filter_In in Hin. destruct Hin as [Hin Hh]. simpl in Hh.
  apply N.eqb_eq in E. apply N.eqb_eq in Hh. subst h' h2.
  assert (existsb (fun q => N.eqb (fst q) h && N.eqb (snd q) b) r = true).
  { apply existsb_exists. exists (h, b). simpl. rewrite !N.eqb_refl. auto. }
  congruence.
Qed.

Lemma replay_branches_count plan h :
  distinctb plan = true -> length (replay_branches plan h) = hcount h plan.
Proof.
  intros H. unfold replay_branches, hcount.
  rewrite nodup_fixed_point by (apply nodup_pairs_filter; exact H).
  apply map_length.
Qed.

Theorem is_merge_spec plan pre c its post :
  plan = pre ++ ACommit c its :: post ->
  head_emergeb plan = true -> contigb plan = true -> distinctb plan = true ->
  (is_merge plan (length pre) (c_id c) = true <-> 2 <= length (replay_branches plan (c_id c))).
Proof.
  intros E Hh Hc Hd. rewrite replay_branches_count by exact Hd. split.
  - eapply is_merge_count; eauto.
  - eapply count_is_merge; eauto.
Qed.

(* ------------------------------------------------------------------------------------------ *)
(* the state map and one commit step *)

Section Proofs.
  Variables St U : Type.
  Variable sm : sem St U.

  Notation deps := (list (N * value U)) (only parsing).

  Lemma dlookup_bdel e k (d : deps) : dlookup e (bdel k d) = if N.eqb k e then None else dlookup e d.
  Proof.
    induction d as [|[k' v] r IH]; simpl; [destruct (N.eqb k e); reflexivity|].
    destruct (N.eqb k' k) eqn:E1.
    - apply N.eqb_eq in E1. subst k'. rewrite IH. destruct (N.eqb k e); reflexivity.
    - simpl. rewrite IH. destruct (N.eqb k' e) eqn:E2; [|reflexivity].
      apply N.eqb_eq in E2. subst k'. rewrite N.eqb_sym, E1. reflexivity.
  Qed.

  Lemma dlookup_dset e k v (d : deps) : dlookup e (dset k v d) = if N.eqb k e then Some v else dlookup e d.
  Proof. unfold dset. simpl. rewrite dlookup_bdel. destruct (N.eqb k e); reflexivity. Qed.

  Definition offered (e : N) (upd : list (N * U)) : option (value U) :=
    match ulookup e upd with Some u => Some (VUser u) | None => None end.

  Definition present (upd : list (N * U)) (e : N) : bool :=
    match ulookup e upd with Some _ => true | None => false end.

  Lemma apply_provides_inl ps upd (d d' : deps) :
    apply_provides U ps upd d = inl d' ->
    (forall e, dlookup e d' = if mem e ps then offered e upd else dlookup e d) /\
    forallb (present upd) ps = true.
  Proof.
    revert d. induction ps as [|p r IH]; simpl; intros d H.
    - inversion H. subst. auto.
    - destruct (ulookup p upd) as [u|] eqn:E; [|discriminate].
      destruct (IH _ H) as [H1 H2]. split.
      + intros e. rewrite H1, dlookup_dset.
        destruct (mem e r); [rewrite orb_true_r; reflexivity|]. rewrite orb_false_r.
        destruct (N.eqb p e) eqn:E2; [|reflexivity].
        apply N.eqb_eq in E2. subst e. unfold offered. rewrite E. reflexivity.
      + unfold present at 1. rewrite E. exact H2.
  Qed.

  Lemma apply_provides_inr ps upd (d : deps) e :
    apply_provides U ps upd d = inr e ->
    find (fun x => negb (present upd x)) ps = Some e.
  Proof.
    revert d. induction ps as [|p r IH]; simpl; intros d H; [discriminate|].
    unfold present at 1. destruct (ulookup p upd) as [u|] eqn:E; simpl.
    - eapply IH; eauto.
    - inversion H. reflexivity.
  Qed.

  Lemma complete_ok it dsc inst d upd :
    complete (mkCall it dsc inst d (COk upd)) = forallb (present upd) (i_provides dsc).
  Proof. reflexivity. Qed.

  Lemma call_error_ok it dsc inst d upd :
    call_error (mkCall it dsc inst d (COk upd)) =
    match find (fun x => negb (present upd x)) (i_provides dsc) with
    | Some e => Some (EMissing it e) | None => None end.
  Proof.
    unfold call_error. simpl.
    replace (find (fun e => match ulookup e upd with Some _ => false | None => true end) (i_provides dsc))
      with (find (fun x => negb (present upd x)) (i_provides dsc)); [reflexivity|].
    induction (i_provides dsc) as [|a l IHl]; simpl; [reflexivity|].
    unfold present at 1. destruct (ulookup a upd); simpl; [exact IHl|reflexivity].
  Qed.

  Definition call_binst (c : call U) : binst := mkB (k_item c) (k_desc c) (k_inst c).

  Lemma binst_eta b : mkB (b_item b) (b_desc b) (b_inst b) = b.
  Proof. destruct b; reflexivity. Qed.

  (* the calls of one step: a prefix of the branch's items in order; every call but a failing last
     one is complete; the error is the one of the failing call *)
  Lemma consume_loop_calls bs m d m' calls err :
    consume_loop St U sm bs m d = (m', calls, err) ->
    map call_binst calls = firstn (length calls) bs /\
    (err = None -> length calls = length bs /\ forallb complete calls = true) /\
    (forall e, err = Some e -> exists pre c, calls = pre ++ [c] /\ forallb complete pre = true /\
                                        complete c = false /\ call_error c = Some e).
  Proof.
    revert m d m' calls err. induction bs as [|b r IH]; intros m d m' calls err H; simpl in H.
    - inversion H. subst. simpl. repeat split; auto. intros e He. discriminate.
    - destruct (s_consume St U sm (b_item b) (m (b_inst b)) d) as [st' res].
      destruct res as [upd|code].
      + destruct (apply_provides U (i_provides (b_desc b)) upd d) as [d'|e] eqn:EA.
        * destruct (consume_loop St U sm r (sset St (b_inst b) st' m) d') as [[m2 calls2] err2] eqn:EL.
          inversion H. subst m' calls err. clear H.
          destruct (IH _ _ _ _ _ EL) as [H1 [H2 H3]].
          apply apply_provides_inl in EA. destruct EA as [_ Hall].
          split; [|split].
          -- simpl. unfold call_binst at 1. simpl. rewrite binst_eta, H1. reflexivity.
          -- intros He. destruct (H2 He) as [Hl Hc]. split; [simpl; lia|].
             simpl. rewrite complete_ok, Hall. exact Hc.
          -- intros e He. destruct (H3 e He) as [pre [c [E [Hp [Hc He']]]]].
             exists (mkCall (b_item b) (b_desc b) (b_inst b) d (COk upd) :: pre), c.
             rewrite E. split; [reflexivity|]. split; [|auto].
             simpl. rewrite complete_ok, Hall. exact Hp.
        * inversion H. subst m' calls err. clear H.
          apply apply_provides_inr in EA.
          split; [|split].
          -- simpl. unfold call_binst. simpl. rewrite binst_eta. reflexivity.
          -- discriminate.
          -- intros e0 He. inversion He. subst e0. exists [], (mkCall (b_item b) (b_desc b) (b_inst b) d (COk upd)).
             split; [reflexivity|]. split; [reflexivity|]. rewrite complete_ok, call_error_ok, EA.
             split; [|reflexivity].
             apply find_some in EA. destruct EA as [Hin Hn]. apply negb_true_iff in Hn.
             apply not_true_is_false. intros Hall. rewrite forallb_forall in Hall.
             rewrite (Hall _ Hin) in Hn. discriminate.
      + inversion H. subst m' calls err. clear H.
        split; [|split].
        * simpl. unfold call_binst. simpl. rewrite binst_eta. reflexivity.
        * discriminate.
        * intros e He. inversion He. subst e. exists [], (mkCall (b_item b) (b_desc b) (b_inst b) d (CErr code)).
          repeat split; reflexivity.
  Qed.

  Lemma last_provider_cons e (c : call U) l :
    last_provider e (c :: l) =
    match last_provider e l with
    | Some p => Some p
    | None => if mem e (i_provides (k_desc c)) then Some c else None
    end.
  Proof. reflexivity. Qed.

  (* what every call of a step sees in the state map *)
  Lemma consume_loop_inputs bs m d m' calls err :
    consume_loop St U sm bs m d = (m', calls, err) ->
    forall pre c post, calls = pre ++ c :: post ->
    forall e, dlookup e (k_deps c) = expected e pre d.
  Proof.
    revert m d m' calls err. induction bs as [|b r IH]; intros m d m' calls err H pre c post E e; simpl in H.
    - inversion H. subst. destruct pre; discriminate.
    - destruct (s_consume St U sm (b_item b) (m (b_inst b)) d) as [st' res].
      assert (Hone : forall c0, calls = [c0] -> k_deps c0 = d -> dlookup e (k_deps c) = expected e pre d).
      { intros c0 E0 Hd. rewrite E0 in E. destruct pre as [|x pre]; simpl in E.
        - injection E as Ec Ep. subst c. rewrite Hd. reflexivity.
        - injection E as Ec Ep. destruct pre; discriminate. }
      destruct res as [upd|code].
      + destruct (apply_provides U (i_provides (b_desc b)) upd d) as [d'|e1] eqn:EA.
        * destruct (consume_loop St U sm r (sset St (b_inst b) st' m) d') as [[m2 calls2] err2] eqn:EL.
          injection H as Hm Hc He. clear Hone. rewrite <- Hc in E.
          destruct pre as [|x pre]; simpl in E.
          -- injection E as Ec Ep. subst c. reflexivity.
          -- injection E as Ec Ep. subst x calls2.
             rewrite (IH _ _ _ _ _ EL pre c post eq_refl e).
             unfold expected. rewrite last_provider_cons.
             destruct (last_provider e pre) as [p|]; [reflexivity|].
             apply apply_provides_inl in EA. destruct EA as [Hd _]. rewrite Hd. simpl.
             destruct (mem e (i_provides (b_desc b))); reflexivity.
        * injection H as Hm Hc He. eapply Hone; [symmetry; exact Hc|reflexivity].
      + injection H as Hm Hc He. eapply Hone; [symmetry; exact Hc|reflexivity].
  Qed.
End Proofs.

(* ------------------------------------------------------------------------------------------ *)
(* the action loop *)

Arguments SOk {St U}. Arguments SFail {St U}. Arguments SPanic {St U}.
Arguments StEnd {St}. Arguments StErr {St}. Arguments StPanic {St}.
Arguments mkR {St}. Arguments r_br {St}. Arguments r_store {St}. Arguments r_next {St}.
Arguments r_idx {St}. Arguments r_newest {St}.

Section RunLevel.
  Variables St U : Type.
  Variable sm : sem St U.
  Variable plan : list action.
  Variables items0 rootc : list binst.

  Notation exec := (exec St U sm plan items0 rootc).
  Notation run_loop := (run_loop St U sm plan items0 rootc).
  Notation consume_loop := (consume_loop St U sm).

  Definition not_commit_rec (rc : srec U) : Prop := match rc with RCommit _ => False | _ => True end.

  (* a commit action: the step record and the next state *)
  Lemma exec_commit pos c its st :
    match exec pos (ACommit c its) st with
    | SOk st' rc =>
        exists first rest m' calls,
          its = first :: rest /\
          consume_loop (bget first (r_br st)) (r_store st)
                       (meta_deps c (r_idx st) (is_merge plan pos (c_id c))) = (m', calls, None) /\
          rc = RCommit (mkStep first c (r_idx st) (is_merge plan pos (c_id c)) calls) /\
          st' = mkR (r_br st) m' (r_next st) (r_idx st + 1) (Z.max (r_newest st) (c_time c))
    | SFail rc e =>
        exists first rest m' calls,
          its = first :: rest /\
          consume_loop (bget first (r_br st)) (r_store st)
                       (meta_deps c (r_idx st) (is_merge plan pos (c_id c))) = (m', calls, Some e) /\
          rc = RCommit (mkStep first c (r_idx st) (is_merge plan pos (c_id c)) calls)
    | SPanic => its = []
    end.
  Proof.
    unfold RunModel.exec. destruct its as [|first rest]; simpl; [reflexivity|].
    destruct (consume_loop (bget first (r_br st)) (r_store st)
                (meta_deps c (r_idx st) (is_merge plan pos (c_id c)))) as [[m' calls] [e|]] eqn:E.
    - exists first, rest, m', calls. auto.
    - exists first, rest, m', calls. auto.
  Qed.

  (* any other action: never a commit record; index and newest time unchanged *)
  Lemma exec_other pos k oc its st :
    match exec pos (AOther k oc its) st with
    | SOk st' rc => not_commit_rec rc /\ r_idx st' = r_idx st /\ r_newest st' = r_newest st
    | SFail rc e => not_commit_rec rc
    | SPanic => True
    end.
  Proof.
    unfold RunModel.exec. destruct its as [|first rest]; simpl; [exact I|].
    destruct k.
    - destruct (clone_items St (bget first (r_br st)) (length rest) (r_store st) (r_next st)) as [[[m' n'] cl] calls].
      simpl. auto.
    - destruct (merge_loop St U sm 0 (bget first (r_br st)) (map (fun b => bget b (r_br st)) rest) (r_store st))
        as [[m' calls]|]; simpl; auto.
    - destruct (N.eqb first 1); simpl; [auto|].
      destruct (clone_items St rootc 1 (r_store st) (r_next st)) as [[[m' n'] cl] calls].
      destruct cl; simpl; auto.
    - simpl. auto.
    - destruct (hb_loop St (s_hibernate St U sm) EHibernate (bget first (r_br st) ++ flat_map (fun b => bget b (r_br st)) rest) (r_store st))
        as [[m' calls] [e|]]; simpl; auto.
    - destruct (hb_loop St (s_boot St U sm) EBoot (bget first (r_br st) ++ flat_map (fun b => bget b (r_br st)) rest) (r_store st))
        as [[m' calls] [e|]]; simpl; auto.
  Qed.

  (* invariant-carrying induction over the loop *)
  Lemma run_loop_inv (I : list action -> rstate St -> Prop) (P : nat -> action -> rstate St -> srec U -> Prop) :
    (forall pos a r st st' rc, I (a :: r) st -> exec pos a st = SOk st' rc -> I r st' /\ P pos a st rc) ->
    (forall pos a r st rc e, I (a :: r) st -> exec pos a st = SFail rc e -> P pos a st rc) ->
    forall todo pos st recs s, I todo st -> run_loop pos todo st = (recs, s) ->
      (forall i rc, nth_error recs i = Some rc ->
                    exists a st_i, nth_error todo i = Some a /\ P (pos + i) a st_i rc) /\
      (forall st', s = StEnd st' -> I [] st' /\ length recs = length todo).
  Proof.
    intros Hok Hfail. induction todo as [|a r IH]; intros pos st recs s HI H; simpl in H.
    - inversion H. subst. split.
      + intros i rc Hn. rewrite nth_error_nil_none in Hn. discriminate.
      + intros st' E. inversion E. subst. auto.
    - destruct (exec pos a st) as [st1 rc1|rc1 e|] eqn:E.
      + destruct (run_loop (S pos) r st1) as [recs' s'] eqn:EL. inversion H. subst recs s. clear H.
        destruct (Hok _ _ _ _ _ _ HI E) as [HI1 HP].
        destruct (IH _ _ _ _ HI1 EL) as [H1 H2]. split.
        * intros [|i] rc Hn; simpl in Hn.
          -- inversion Hn. subst rc. exists a, st. rewrite Nat.add_0_r. auto.
          -- destruct (H1 _ _ Hn) as [a' [st_i [Ha HP']]]. exists a', st_i.
             rewrite Nat.add_succ_r. simpl. auto.
        * intros st' Es. destruct (H2 _ Es) as [Hi Hl]. simpl. auto.
      + inversion H. subst recs s. clear H. split.
        * intros [|i] rc Hn; simpl in Hn.
          -- inversion Hn. subst rc. exists a, st. rewrite Nat.add_0_r. split; [reflexivity|].
             eapply Hfail; eauto.
          -- rewrite nth_error_nil_none in Hn. discriminate.
        * intros st' Es. discriminate.
      + inversion H. subst recs s. split.
        * intros i rc Hn. rewrite nth_error_nil_none in Hn. discriminate.
        * intros st' Es. discriminate.
  Qed.

  (* 1. every commit record stands at the position of its commit action and carries its metadata *)
  Definition step_meta (pos : nat) (a : action) (st : rstate St) (rc : srec U) : Prop :=
    match rc with
    | RCommit s => exists its, a = ACommit (cs_commit s) its /\ cs_branch s = first_item its /\
                               cs_merge s = is_merge plan pos (c_id (cs_commit s)) /\
                               cs_index s = r_idx st
    | _ => is_commit a = false
    end.

  Lemma exec_step_meta pos a st :
    match exec pos a st with
    | SOk _ rc => step_meta pos a st rc
    | SFail rc _ => step_meta pos a st rc
    | SPanic => True
    end.
  Proof.
    destruct a as [c its|k oc its].
    - pose proof (exec_commit pos c its st) as H.
      destruct (exec pos (ACommit c its) st) as [st' rc|rc e|]; [| |exact I].
      + destruct H as [first [rest [m' [calls [E1 [_ [E2 _]]]]]]]. subst rc its. simpl.
        exists (first :: rest). auto.
      + destruct H as [first [rest [m' [calls [E1 [_ E2]]]]]]. subst rc its. simpl.
        exists (first :: rest). auto.
    - pose proof (exec_other pos k oc its st) as H.
      destruct (exec pos (AOther k oc its) st) as [st' rc|rc e|]; [| |exact I].
      + destruct H as [H _]. destruct rc; simpl in *; auto; contradiction.
      + destruct rc; simpl in *; auto; contradiction.
  Qed.

  Lemma run_loop_meta todo pos st recs s :
    run_loop pos todo st = (recs, s) ->
    forall i rc, nth_error recs i = Some rc ->
    exists a st_i, nth_error todo i = Some a /\ step_meta (pos + i) a st_i rc.
  Proof.
    intros H. refine (proj1 (run_loop_inv (fun _ _ => True) step_meta _ _ todo pos st recs s I H)).
    - intros p a r st0 st' rc _ E. split; [exact I|].
      pose proof (exec_step_meta p a st0) as Hm. rewrite E in Hm. exact Hm.
    - intros p a r st0 rc e _ E.
      pose proof (exec_step_meta p a st0) as Hm. rewrite E in Hm. exact Hm.
  Qed.

  (* 2. the commit index *)
  Lemma run_loop_index todo pos st recs s :
    run_loop pos todo st = (recs, s) ->
    forall i cs, nth_error (csteps recs) i = Some cs -> cs_index cs = (r_idx st + N.of_nat i)%N.
  Proof.
    revert pos st recs s. induction todo as [|a r IH]; intros pos st recs s H i cs Hn; simpl in H.
    - inversion H. subst. simpl in Hn. rewrite nth_error_nil_none in Hn. discriminate.
    - destruct a as [c its|k oc its].
      + pose proof (exec_commit pos c its st) as HE.
        destruct (exec pos (ACommit c its) st) as [st1 rc1|rc1 e|].
        * destruct (run_loop (S pos) r st1) as [recs' s'] eqn:EL. inversion H. subst recs s. clear H.
          destruct HE as [first [rest [m' [calls [_ [_ [E2 E3]]]]]]]. subst rc1. simpl in Hn.
          destruct i as [|i]; simpl in Hn.
          -- inversion Hn. subst cs. simpl. lia.
          -- rewrite (IH _ _ _ _ EL _ _ Hn). subst st1. simpl. lia.
        * inversion H. subst recs s. clear H.
          destruct HE as [first [rest [m' [calls [_ [_ E2]]]]]]. subst rc1. simpl in Hn.
          destruct i as [|i]; simpl in Hn; [|rewrite nth_error_nil_none in Hn; discriminate].
          inversion Hn. subst cs. simpl. lia.
        * inversion H. subst. simpl in Hn. rewrite nth_error_nil_none in Hn. discriminate.
      + pose proof (exec_other pos k oc its st) as HE.
        destruct (exec pos (AOther k oc its) st) as [st1 rc1|rc1 e|].
        * destruct (run_loop (S pos) r st1) as [recs' s'] eqn:EL. inversion H. subst recs s. clear H.
          destruct HE as [Hnc [Hi _]].
          assert (Hcs : csteps (rc1 :: recs') = csteps recs') by (destruct rc1; simpl in *; tauto).
          rewrite Hcs in Hn. rewrite (IH _ _ _ _ EL _ _ Hn), Hi. reflexivity.
        * inversion H. subst recs s. clear H.
          assert (Hcs : csteps [rc1] = []) by (destruct rc1; simpl in *; tauto).
          rewrite Hcs in Hn. rewrite nth_error_nil_none in Hn. discriminate.
        * inversion H. subst. simpl in Hn. rewrite nth_error_nil_none in Hn. discriminate.
  Qed.

  (* 3. inputs *)
  Definition step_inputs (rc : srec U) : Prop :=
    match rc with
    | RCommit s => forall pre c post, cs_calls s = pre ++ c :: post ->
                   forall e, dlookup e (k_deps c) =
                             expected e pre (meta_deps (cs_commit s) (cs_index s) (cs_merge s))
    | _ => True
    end.

  Lemma exec_step_inputs pos a st :
    match exec pos a st with
    | SOk _ rc => step_inputs rc
    | SFail rc _ => step_inputs rc
    | SPanic => True
    end.
  Proof.
    destruct a as [c its|k oc its].
    - pose proof (exec_commit pos c its st) as H.
      destruct (exec pos (ACommit c its) st) as [st' rc|rc e|]; [| |exact I].
      + destruct H as [first [rest [m' [calls [E1 [EC [E2 _]]]]]]]. subst rc. simpl.
        intros pre c0 post Ec e. eapply consume_loop_inputs; eauto.
      + destruct H as [first [rest [m' [calls [E1 [EC E2]]]]]]. subst rc. simpl.
        intros pre c0 post Ec e0. eapply consume_loop_inputs; eauto.
    - pose proof (exec_other pos k oc its st) as H.
      destruct (exec pos (AOther k oc its) st) as [st' rc|rc e|]; [| |exact I].
      + destruct H as [H _]. destruct rc; simpl in *; auto; contradiction.
      + destruct rc; simpl in *; auto; contradiction.
  Qed.

  Lemma run_loop_inputs todo pos st recs s :
    run_loop pos todo st = (recs, s) -> forall rc, In rc recs -> step_inputs rc.
  Proof.
    intros H rc Hin. apply In_nth_error in Hin. destruct Hin as [i Hn].
    destruct (proj1 (run_loop_inv (fun _ _ => True) (fun _ _ _ rc => step_inputs rc)
                (fun p a r st0 st' rc0 _ E => conj I
                   (eq_ind _ (fun x => match x with SOk _ rc => step_inputs rc | SFail rc _ => step_inputs rc | SPanic => True end)
                           (exec_step_inputs p a st0) _ E))
                (fun p a r st0 rc0 e _ E =>
                   (eq_ind _ (fun x => match x with SOk _ rc => step_inputs rc | SFail rc _ => step_inputs rc | SPanic => True end)
                           (exec_step_inputs p a st0) _ E))
                todo pos st recs s I H) i rc Hn) as [a [st_i [_ HP]]].
    exact HP.
  Qed.
End RunLevel.

(* ------------------------------------------------------------------------------------------ *)
(* errors abort; the newest time *)

Lemma tail_incomplete {A} (f : A -> bool) pre c post pre' c' :
  pre ++ c :: post = pre' ++ [c'] -> forallb f pre' = true -> f c = false -> post = [] /\ c = c'.
Proof.
  intros E Hp Hc. destruct (rev post) as [|z rp] eqn:ER.
  - assert (post = []) by (rewrite <- (rev_involutive post), ER; reflexivity). subst post.
    change (pre ++ [c]) with (pre ++ [c]) in E. apply app_inj_tail in E. destruct E; auto.
  - exfalso. assert (post = rev rp ++ [z]) by (rewrite <- (rev_involutive post), ER; reflexivity). subst post.
    replace (pre ++ c :: rev rp ++ [z]) with ((pre ++ c :: rev rp) ++ [z]) in E
      by (rewrite <- app_assoc; reflexivity).
    apply app_inj_tail in E. destruct E as [E _]. subst pre'.
    rewrite forallb_app in Hp. apply andb_true_iff in Hp. destruct Hp as [_ Hp]. simpl in Hp.
    rewrite Hc in Hp. discriminate.
Qed.

Lemma fold_max_shift l a t : fold_right Z.max (Z.max a t) l = Z.max t (fold_right Z.max a l).
Proof. induction l as [|x r IH]; simpl; [lia|]. rewrite IH. lia. Qed.

Lemma fold_left_max l a : fold_left Z.max l a = fold_right Z.max a l.
Proof.
  revert a. induction l as [|x r IH]; intros a; simpl; [reflexivity|].
  rewrite IH. apply fold_max_shift.
Qed.

Section RunLevel2.
  Variables St U : Type.
  Variable sm : sem St U.
  Variable plan : list action.
  Variables items0 rootc : list binst.

  Notation exec := (exec St U sm plan items0 rootc).
  Notation run_loop := (run_loop St U sm plan items0 rootc).
  Notation consume_loop := (consume_loop St U sm).

  Lemma run_loop_errors todo pos st recs s :
    run_loop pos todo st = (recs, s) ->
    forall i cs, nth_error recs i = Some (RCommit cs) ->
    forall pre c post, cs_calls cs = pre ++ c :: post -> complete c = false ->
    post = [] /\ S i = length recs /\ exists e, call_error c = Some e /\ s = StErr e.
  Proof.
    revert pos st recs s. induction todo as [|a r IH]; intros pos st recs s H i cs Hn pre c post Ec Hc; simpl in H.
    - inversion H. subst. rewrite nth_error_nil_none in Hn. discriminate.
    - destruct (exec pos a st) as [st1 rc1|rc1 e|] eqn:E.
      + destruct (run_loop (S pos) r st1) as [recs' s'] eqn:EL. inversion H. subst recs s. clear H.
        destruct i as [|i]; simpl in Hn.
        * exfalso. inversion Hn. subst rc1. clear Hn.
          destruct a as [c0 its|k oc its].
          -- pose proof (exec_commit St U sm plan items0 rootc pos c0 its st) as HE. rewrite E in HE.
             destruct HE as [first [rest [m' [calls [_ [EC [E2 _]]]]]]]. inversion E2. subst cs. simpl in Ec.
             apply consume_loop_calls in EC. destruct EC as [_ [H2 _]]. destruct (H2 eq_refl) as [_ Hall].
             rewrite Ec, forallb_app in Hall. apply andb_true_iff in Hall. destruct Hall as [_ Hall].
             simpl in Hall. rewrite Hc in Hall. discriminate.
          -- pose proof (exec_other St U sm plan items0 rootc pos k oc its st) as HE. rewrite E in HE.
             destruct HE as [HE _]. exact HE.
        * destruct (IH _ _ _ _ EL _ _ Hn _ _ _ Ec Hc) as [H1 [H2 H3]]. simpl. auto.
      + inversion H. subst recs s. clear H.
        destruct i as [|i]; simpl in Hn; [|rewrite nth_error_nil_none in Hn; discriminate].
        inversion Hn. subst rc1. clear Hn.
        destruct a as [c0 its|k oc its].
        * pose proof (exec_commit St U sm plan items0 rootc pos c0 its st) as HE. rewrite E in HE.
          destruct HE as [first [rest [m' [calls [_ [EC E2]]]]]]. inversion E2. subst cs. simpl in Ec.
          apply consume_loop_calls in EC. destruct EC as [_ [_ H3]].
          destruct (H3 e eq_refl) as [pre' [c' [Ecalls [Hp [Hc' He]]]]].
          rewrite Ecalls in Ec. symmetry in Ec.
          destruct (tail_incomplete complete _ _ _ _ _ Ec Hp Hc) as [Hpost Heq]. subst c'.
          split; [exact Hpost|]. split; [reflexivity|]. exists e. auto.
        * pose proof (exec_other St U sm plan items0 rootc pos k oc its st) as HE. rewrite E in HE.
          simpl in HE. contradiction.
      + inversion H. subst. rewrite nth_error_nil_none in Hn. discriminate.
  Qed.

  Lemma run_loop_newest todo pos st recs st' :
    run_loop pos todo st = (recs, StEnd st') ->
    r_newest st' = fold_left Z.max (commit_times todo) (r_newest st) /\ length recs = length todo.
  Proof.
    revert pos st recs. induction todo as [|a r IH]; intros pos st recs H; simpl in H.
    - inversion H. subst. auto.
    - destruct (exec pos a st) as [st1 rc1|rc1 e|] eqn:E; [|discriminate|discriminate].
      destruct (run_loop (S pos) r st1) as [recs' s'] eqn:EL. inversion H. subst recs s'. clear H.
      destruct (IH _ _ _ EL) as [H1 H2]. rewrite H1. split; [|simpl; lia].
      destruct a as [c0 its|k oc its]; simpl.
      + pose proof (exec_commit St U sm plan items0 rootc pos c0 its st) as HE. rewrite E in HE.
        destruct HE as [first [rest [m' [calls [_ [_ [_ E3]]]]]]]. subst st1. reflexivity.
      + pose proof (exec_other St U sm plan items0 rootc pos k oc its st) as HE. rewrite E in HE.
        destruct HE as [_ [_ Hn]]. rewrite Hn. reflexivity.
  Qed.
End RunLevel2.

(* ------------------------------------------------------------------------------------------ *)
(* branch maps, clones, liveness: every live branch holds one object per item, in resolved order *)

Definition bsig (b : binst) : nat * item := (b_item b, b_desc b).

Section BMapFacts.
  Context {V : Type}.
  Lemma keys_bdel k (m : list (N * V)) : map fst (bdel k m) = kdel k (map fst m).
  Proof.
    induction m as [|[k' v] r IH]; simpl; [reflexivity|].
    destruct (N.eqb k' k); simpl; rewrite IH; reflexivity.
  Qed.
  Lemma keys_bset k v (m : list (N * V)) : map fst (bset k v m) = kset k (map fst m).
  Proof. unfold bset, kset. simpl. rewrite keys_bdel. reflexivity. Qed.
  Lemma bfind_bdel k k' (m : list (N * V)) x : bfind k (bdel k' m) = Some x -> bfind k m = Some x.
  Proof.
    induction m as [|[k2 v] r IH]; simpl; [auto|].
    destruct (N.eqb k2 k') eqn:E1.
    - intros H. destruct (N.eqb k2 k) eqn:E2; [|auto].
      exfalso. apply N.eqb_eq in E1. apply N.eqb_eq in E2. subst k' k2.
      clear IH. induction r as [|[k3 v3] r IHr]; simpl in H; [discriminate|].
      destruct (N.eqb k3 k) eqn:E3; [auto|]. simpl in H. rewrite E3 in H. auto.
    - simpl. destruct (N.eqb k2 k); auto.
  Qed.
  Lemma bfind_bset k k' v (m : list (N * V)) x :
    bfind k (bset k' v m) = Some x -> x = v \/ bfind k m = Some x.
  Proof.
    unfold bset. simpl. destruct (N.eqb k' k).
    - intros H. inversion H. auto.
    - intros H. right. eapply bfind_bdel; eauto.
  Qed.
  Lemma mem_keys_bfind k (m : list (N * V)) : mem k (map fst m) = true -> exists v, bfind k m = Some v.
  Proof.
    induction m as [|[k' v] r IH]; simpl; [discriminate|].
    destruct (N.eqb k' k); simpl; [eauto|auto].
  Qed.
End BMapFacts.

Definition all_sig (sig : list (nat * item)) (acc : list (list binst)) : Prop :=
  Forall (fun a => map bsig a = sig) acc.

Lemma zip_snoc_sig sig s acc xs :
  all_sig sig acc -> Forall (fun x => bsig x = s) xs -> length xs = length acc ->
  all_sig (sig ++ [s]) (zip_snoc acc xs) /\ length (zip_snoc acc xs) = length acc.
Proof.
  revert xs. induction acc as [|a ar IH]; intros xs Ha Hx Hl.
  - destruct xs; simpl; split; auto; constructor.
  - destruct xs as [|x xr]; [discriminate|]. simpl.
    apply Forall_cons_iff in Ha. destruct Ha as [Ha1 Ha2].
    apply Forall_cons_iff in Hx. destruct Hx as [Hx1 Hx2]. simpl in Hl.
    destruct (IH xr) as [IH1 IH2]; auto.
    split; [|simpl; rewrite IH2; reflexivity].
    constructor; [|exact IH1]. rewrite map_app. simpl. rewrite Ha1, Hx1. reflexivity.
Qed.

Section CloneFacts.
  Variables St : Type.

  Lemma fork_inst_len b n (m : nat -> St) next m' next' ids :
    fork_inst St b n m next = (m', next', ids) -> length ids = n.
  Proof.
    unfold fork_inst. destruct (i_copy (b_desc b)); intros H; inversion H; subst.
    - apply seq_length.
    - apply repeat_length.
  Qed.

  Lemma clone_loop_shape origin : forall n (m : nat -> St) next acc sig m' next' acc' calls,
    clone_loop St origin n m next acc = (m', next', acc', calls) ->
    length acc = n -> all_sig sig acc ->
    length acc' = n /\ all_sig (sig ++ map bsig origin) acc'.
  Proof.
    induction origin as [|b r IH]; intros n m next acc sig m' next' acc' calls H Hl Ha; simpl in H.
    - inversion H. subst. rewrite app_nil_r. auto.
    - destruct (fork_inst St b n m next) as [[m1 next1] ids] eqn:EF.
      destruct (clone_loop St r n m1 next1
                  (zip_snoc acc (map (fun i => mkB (b_item b) (b_desc b) i) ids))) as [[[m2 next2] acc2] calls2] eqn:EC.
      inversion H. subst m' next' acc' calls. clear H.
      apply fork_inst_len in EF.
      destruct (zip_snoc_sig sig (bsig b) acc (map (fun i => mkB (b_item b) (b_desc b) i) ids)) as [H1 H2]; auto.
      { apply Forall_forall. intros x Hx. apply in_map_iff in Hx. destruct Hx as [i [Hx _]]. subst x. reflexivity. }
      { rewrite map_length. congruence. }
      destruct (IH _ _ _ _ (sig ++ [bsig b]) _ _ _ _ EC) as [H3 H4]; [congruence|exact H1|].
      split; [exact H3|]. simpl. rewrite <- app_assoc in H4. exact H4.
  Qed.

  Lemma clone_items_shape origin n (m : nat -> St) next m' next' clones calls :
    clone_items St origin n m next = (m', next', clones, calls) ->
    length clones = n /\ all_sig (map bsig origin) clones.
  Proof.
    unfold clone_items. intros H.
    apply clone_loop_shape with (sig := []) in H; [exact H|apply repeat_length|].
    apply Forall_forall. intros x Hx. apply repeat_spec in Hx. subst x. reflexivity.
  Qed.
End CloneFacts.

Lemma assign_keys_eq ks : forall vs m, length vs = length ks ->
  map fst (assign ks vs m) = assign_keys ks (map fst m).
Proof.
  induction ks as [|k kr IH]; intros vs m Hl; simpl.
  - destruct vs; reflexivity.
  - destruct vs as [|v vr]; [discriminate|]. simpl. rewrite IH by (simpl in Hl; lia).
    rewrite keys_bset. reflexivity.
Qed.

Lemma assign_find ks : forall vs m k x,
  bfind k (assign ks vs m) = Some x -> In x vs \/ bfind k m = Some x.
Proof.
  induction ks as [|k0 kr IH]; intros vs m k x H; simpl in H.
  - destruct vs; auto.
  - destruct vs as [|v vr]; [auto|].
    destruct (IH _ _ _ _ H) as [Hin|Hf]; [left; right; exact Hin|].
    apply bfind_bset in Hf. destruct Hf as [->|Hf]; [left; left; reflexivity|auto].
Qed.

Section Live.
  Variables St U : Type.
  Variable sm : sem St U.
  Variable plan : list action.
  Variables items0 rootc : list binst.
  Hypothesis root_shape : map bsig rootc = map bsig items0.

  Notation exec := (exec St U sm plan items0 rootc).
  Notation run_loop := (run_loop St U sm plan items0 rootc).

  Definition shaped (st : rstate St) : Prop :=
    forall k br, bfind k (r_br st) = Some br -> map bsig br = map bsig items0.

  Definition live_inv (todo : list action) (st : rstate St) : Prop :=
    liveb_from todo (map fst (r_br st)) = true /\ shaped st.

  (* the calls of a step are the items in resolved order; all of them when every call is complete *)
  Definition step_order (rc : srec U) : Prop :=
    match rc with
    | RCommit s => map bsig (map (call_binst U) (cs_calls s)) = firstn (length (cs_calls s)) (map bsig items0) /\
                   (forallb complete (cs_calls s) = true -> length (cs_calls s) = length items0)
    | _ => True
    end.

  Lemma commit_step_order first st d m' calls err :
    shaped st -> mem first (map fst (r_br st)) = true ->
    consume_loop St U sm (bget first (r_br st)) (r_store st) d = (m', calls, err) ->
    map bsig (map (call_binst U) calls) = firstn (length calls) (map bsig items0) /\
    (forallb complete calls = true -> length calls = length items0).
  Proof.
    intros Hs Hm EC. apply mem_keys_bfind in Hm. destruct Hm as [br Hb].
    unfold bget in EC. rewrite Hb in EC. pose proof (Hs _ _ Hb) as Hsig.
    apply consume_loop_calls in EC. destruct EC as [H1 [H2 H3]]. split.
    - rewrite H1, <- Hsig. symmetry. apply firstn_map.
    - intros Hall. destruct err as [e|].
      + exfalso. destruct (H3 e eq_refl) as [pre [c [E [_ [Hc _]]]]]. subst calls.
        rewrite forallb_app in Hall. apply andb_true_iff in Hall. destruct Hall as [_ Hall].
        simpl in Hall. rewrite Hc in Hall. discriminate.
      + destruct (H2 eq_refl) as [Hl _]. rewrite Hl, <- (map_length bsig br), Hsig, map_length. reflexivity.
  Qed.

  Lemma exec_live pos a r st :
    live_inv (a :: r) st ->
    match exec pos a st with
    | SOk st' rc => live_inv r st' /\ step_order rc
    | SFail rc _ => step_order rc
    | SPanic => True
    end.
  Proof.
    intros [Hl Hs]. simpl in Hl.
    destruct a as [c its|k oc its].
    - pose proof (exec_commit St U sm plan items0 rootc pos c its st) as HE.
      destruct (exec pos (ACommit c its) st) as [st' rc|rc e|]; [| |exact I].
      + destruct HE as [first [rest [m' [calls [E1 [EC [E2 E3]]]]]]]. subst its rc st'. simpl in Hl.
        apply andb_true_iff in Hl. destruct Hl as [Hm Hl]. split.
        * split; [exact Hl|]. intros k br Hb. simpl in Hb. eauto.
        * simpl. eapply commit_step_order; eauto.
      + destruct HE as [first [rest [m' [calls [E1 [EC E2]]]]]]. subst its rc. simpl in Hl.
        apply andb_true_iff in Hl. destruct Hl as [Hm Hl].
        simpl. eapply commit_step_order; eauto.
    - unfold RunModel.exec. destruct its as [|first rest]; simpl; [exact I|].
      simpl in Hl. destruct k.
      + (* fork *)
        apply andb_true_iff in Hl. destruct Hl as [Hm Hl].
        destruct (clone_items St (bget first (r_br st)) (length rest) (r_store st) (r_next st))
          as [[[m' n'] cl] calls] eqn:EC.
        apply clone_items_shape in EC. destruct EC as [Hlen Hsig].
        split; [|exact I]. split; simpl.
        * rewrite assign_keys_eq by exact Hlen. exact Hl.
        * intros k br Hb. simpl in Hb. apply assign_find in Hb. destruct Hb as [Hin|Hb]; [|eauto].
          unfold all_sig in Hsig. rewrite Forall_forall in Hsig. rewrite (Hsig _ Hin).
          apply mem_keys_bfind in Hm. destruct Hm as [br0 Hb0]. unfold bget. rewrite Hb0. eauto.
      + (* merge *)
        apply andb_true_iff in Hl. destruct Hl as [_ Hl].
        destruct (merge_loop St U sm 0 (bget first (r_br st)) (map (fun b => bget b (r_br st)) rest) (r_store st))
          as [[m' calls]|]; [|exact I].
        split; [|exact I]. split; [exact Hl|]. intros k br Hb. simpl in Hb. eauto.
      + (* emerge *)
        destruct (N.eqb first 1).
        * split; [|exact I]. split.
          -- cbn [r_br]. rewrite keys_bset. exact Hl.
          -- intros k br Hb. cbn [r_br] in Hb. apply bfind_bset in Hb. destruct Hb as [->|Hb]; [reflexivity|eauto].
        * destruct (clone_items St rootc 1 (r_store st) (r_next st)) as [[[m' n'] cl] calls] eqn:EC.
          apply clone_items_shape in EC. destruct EC as [Hlen Hsig].
          destruct cl as [|c0 cl]; [exact I|].
          split; [|exact I]. split.
          -- cbn [r_br]. rewrite keys_bset. exact Hl.
          -- intros k br Hb. cbn [r_br] in Hb. apply bfind_bset in Hb. destruct Hb as [->|Hb]; [|eauto].
             apply Forall_cons_iff in Hsig. destruct Hsig as [Hsig _]. congruence.
      + (* delete *)
        split; [|exact I]. split.
        * cbn [r_br]. rewrite keys_bdel. exact Hl.
        * intros k br Hb. cbn [r_br] in Hb. apply bfind_bdel in Hb. eauto.
      + (* hibernate *)
        destruct (hb_loop St (s_hibernate St U sm) EHibernate (bget first (r_br st) ++ flat_map (fun b => bget b (r_br st)) rest) (r_store st))
          as [[m' calls] [e|]]; [exact I|].
        split; [|exact I]. split; [exact Hl|]. intros k br Hb. simpl in Hb. eauto.
      + (* boot *)
        destruct (hb_loop St (s_boot St U sm) EBoot (bget first (r_br st) ++ flat_map (fun b => bget b (r_br st)) rest) (r_store st))
          as [[m' calls] [e|]]; [exact I|].
        split; [|exact I]. split; [exact Hl|]. intros k br Hb. simpl in Hb. eauto.
  Qed.

  Lemma run_loop_order todo pos st recs s :
    live_inv todo st -> run_loop pos todo st = (recs, s) -> forall rc, In rc recs -> step_order rc.
  Proof.
    intros HI H rc Hin. apply In_nth_error in Hin. destruct Hin as [i Hn].
    destruct (proj1 (run_loop_inv St U sm plan items0 rootc live_inv (fun _ _ _ rc => step_order rc)
                (fun p a r st0 st' rc0 Hi E =>
                   (eq_ind _ (fun x => match x with SOk st' rc => live_inv r st' /\ step_order rc | SFail rc _ => step_order rc | SPanic => True end)
                           (exec_live p a r st0 Hi) _ E))
                (fun p a r st0 rc0 e Hi E =>
                   (eq_ind _ (fun x => match x with SOk st' rc => live_inv r st' /\ step_order rc | SFail rc _ => step_order rc | SPanic => True end)
                           (exec_live p a r st0 Hi) _ E))
                todo pos st recs s HI H) i rc Hn) as [a [st_i [_ HP]]].
    exact HP.
  Qed.
End Live.

(* ------------------------------------------------------------------------------------------ *)
(* the whole run *)

Lemma items_from_sig its : forall j, map bsig (items_from j its) = combine (seq j (length its)) its.
Proof. induction its as [|it r IH]; intros j; simpl; [reflexivity|]. rewrite IH. reflexivity. Qed.

Lemma items_from_length its : forall j, length (items_from j its) = length its.
Proof. induction its as [|it r IH]; intros j; simpl; auto. Qed.

Section Top.
  Variables St U : Type.
  Variable sm : sem St U.
  Variables (items : list item) (plan : list action) (nc : N).

  Notation out := (run St U sm items plan nc).
  Notation items0 := (items_from 0 items).

  Definition final_fins (st : rstate St) : list (fincall U) :=
    match bmin (r_br st) with
    | Some (_, br) => finalize_loop St U sm br (r_store st)
    | None => []
    end.

  Lemma run_unfold : exists rootc m1 next1 recs s,
    map bsig rootc = map bsig items0 /\
    run_loop St U sm plan items0 rootc 0 plan (mkR [] m1 next1 0%N 0%Z) = (recs, s) /\
    ro_recs out = recs /\
    ro_out out = match s with
                 | StPanic => Panicked
                 | StErr e => Failed e
                 | StEnd st => match plan with
                               | [] => Panicked
                               | a :: _ => match a_commit a with
                                           | None => Panicked
                                           | Some c => Done (final_fins st) (mkSum (c_time c) (r_newest st) nc)
                                           end
                               end
                 end.
  Proof.
    unfold run.
    destruct (clone_items St items0 1 (s_init St U sm) (length items)) as [[[m1 next1] clones] pre] eqn:EC.
    apply clone_items_shape in EC. destruct EC as [Hlen Hsig].
    destruct clones as [|rootc cl]; [discriminate|].
    apply Forall_cons_iff in Hsig. destruct Hsig as [Hsig _].
    destruct (run_loop St U sm plan items0 rootc 0 plan (mkR [] m1 next1 0%N 0%Z)) as [recs s] eqn:EL.
    exists rootc, m1, next1, recs, s. split; [exact Hsig|]. split; [exact EL|].
    destruct s as [st|e|]; simpl; [|auto|auto].
    destruct plan as [|a r]; simpl; [auto|]. destruct (a_commit a); simpl; auto.
  Qed.

  (* every commit record stands where its commit action stands and has its branch and flag *)
  Theorem run_steps i rc : nth_error (ro_recs out) i = Some rc ->
    exists a, nth_error plan i = Some a /\
    match rc with
    | RCommit s => exists its, a = ACommit (cs_commit s) its /\ cs_branch s = first_item its /\
                               cs_merge s = is_merge plan i (c_id (cs_commit s))
    | _ => is_commit a = false
    end.
  Proof.
    destruct run_unfold as [rootc [m1 [next1 [recs [s [_ [EL [ER _]]]]]]]]. rewrite ER. intros Hn.
    destruct (run_loop_meta _ _ _ _ _ _ _ _ _ _ _ EL _ _ Hn) as [a [st_i [Ha Hm]]].
    exists a. split; [exact Ha|]. simpl in Hm. destruct rc; simpl in Hm; auto.
    destruct Hm as [its [H1 [H2 [H3 _]]]]. eauto.
  Qed.

  Theorem run_index i s : nth_error (csteps (ro_recs out)) i = Some s -> cs_index s = N.of_nat i.
  Proof.
    destruct run_unfold as [rootc [m1 [next1 [recs [st [_ [EL [ER _]]]]]]]]. rewrite ER. intros Hn.
    rewrite (run_loop_index _ _ _ _ _ _ _ _ _ _ _ EL _ _ Hn). simpl. reflexivity.
  Qed.

  Theorem run_is_merge :
    head_emergeb plan = true -> contigb plan = true -> distinctb plan = true ->
    forall i s, nth_error (ro_recs out) i = Some (RCommit s) ->
    (cs_merge s = true <-> 2 <= length (replay_branches plan (c_id (cs_commit s)))).
  Proof.
    intros Hh Hc Hd i s Hn. destruct (run_steps _ _ Hn) as [a [Ha [its [E1 [_ E3]]]]]. subst a.
    apply nth_error_split in Ha. destruct Ha as [l1 [l2 [Ep Hl]]]. rewrite E3, <- Hl.
    apply is_merge_spec with (its := its) (post := l2); auto.
  Qed.

  Theorem run_inputs s : In (RCommit s) (ro_recs out) ->
    forall pre c post, cs_calls s = pre ++ c :: post ->
    forall e, dlookup e (k_deps c) = expected e pre (meta_deps (cs_commit s) (cs_index s) (cs_merge s)).
  Proof.
    destruct run_unfold as [rootc [m1 [next1 [recs [st [_ [EL [ER _]]]]]]]]. rewrite ER. intros Hin.
    exact (run_loop_inputs _ _ _ _ _ _ _ _ _ _ _ EL _ Hin).
  Qed.

  Theorem run_order : liveb plan = true ->
    forall s, In (RCommit s) (ro_recs out) ->
    map (fun c => (k_item c, k_desc c)) (cs_calls s) =
      firstn (length (cs_calls s)) (combine (seq 0 (length items)) items) /\
    (forallb complete (cs_calls s) = true -> length (cs_calls s) = length items).
  Proof.
    intros Hl s. destruct run_unfold as [rootc [m1 [next1 [recs [st [Hroot [EL [ER _]]]]]]]]. rewrite ER. intros Hin.
    assert (HI : live_inv St items0 plan (mkR [] m1 next1 0%N 0%Z)).
    { split; [exact Hl|]. intros k br Hb. discriminate. }
    pose proof (run_loop_order _ _ _ _ _ _ Hroot _ _ _ _ _ HI EL _ Hin) as H. simpl in H.
    rewrite map_map, items_from_sig in H. destruct H as [H1 H2]. split; [exact H1|].
    intros Hc. rewrite (H2 Hc). clear. generalize 0. induction items; intros j; simpl; auto.
  Qed.

  Theorem run_errors i s : nth_error (ro_recs out) i = Some (RCommit s) ->
    forall pre c post, cs_calls s = pre ++ c :: post -> complete c = false ->
    post = [] /\ S i = length (ro_recs out) /\ exists e, call_error c = Some e /\ ro_out out = Failed e.
  Proof.
    destruct run_unfold as [rootc [m1 [next1 [recs [st [_ [EL [ER EO]]]]]]]]. rewrite ER, EO. intros Hn pre c post Ec Hc.
    destruct (run_loop_errors _ _ _ _ _ _ _ _ _ _ _ EL _ _ Hn _ _ _ Ec Hc) as [H1 [H2 [e [H3 H4]]]].
    subst st. eauto 6.
  Qed.

  Theorem run_done fins sm' : ro_out out = Done fins sm' ->
    length (ro_recs out) = length plan /\
    (forall s, In (RCommit s) (ro_recs out) -> forallb complete (cs_calls s) = true) /\
    sm_commits sm' = nc /\
    sm_end sm' = fold_right Z.max 0%Z (commit_times plan) /\
    exists a r c, plan = a :: r /\ a_commit a = Some c /\ sm_begin sm' = c_time c.
  Proof.
    intros HD. pose proof run_errors as HErr.
    destruct run_unfold as [rootc [m1 [next1 [recs [st [_ [EL [ER EO]]]]]]]].
    rewrite ER in *. rewrite EO in HD.
    destruct st as [st|e|]; [|discriminate|discriminate].
    destruct (run_loop_newest _ _ _ _ _ _ _ _ _ _ _ EL) as [Hnew Hlen].
    destruct plan as [|a r] eqn:EP; [discriminate|]. destruct (a_commit a) as [c|] eqn:EA; [|discriminate].
    inversion HD. subst fins sm'. clear HD. simpl.
    split; [exact Hlen|]. split.
    - intros s Hin. apply In_nth_error in Hin. destruct Hin as [i Hn].
      apply not_false_is_true. intros Hf.
      assert (exists c0, In c0 (cs_calls s) /\ complete c0 = false) as [c0 [Hin0 Hc0]].
      { clear -Hf. induction (cs_calls s) as [|x l IH]; simpl in Hf; [discriminate|].
        destruct (complete x) eqn:E; simpl in Hf.
        - destruct (IH Hf) as [c0 [H1 H2]]. exists c0. simpl. auto.
        - exists x. simpl. auto. }
      apply in_split in Hin0. destruct Hin0 as [l1 [l2 El]].
      destruct (HErr _ _ Hn _ _ _ El Hc0) as [_ [_ [e [_ HF]]]]. rewrite EO in HF. discriminate.
    - split; [reflexivity|]. split.
      + rewrite Hnew. simpl. apply fold_left_max.
      + exists a, r, c. auto.
  Qed.

  Lemma first_commit_times p c : first_commit p = Some c -> commit_times p <> [].
  Proof.
    induction p as [|a r IH]; simpl; [discriminate|].
    destruct a; [discriminate|auto].
  Qed.

  Theorem run_summary fins sm' : ro_out out = Done fins sm' -> head_firstb plan = true ->
    summary_ok plan nc sm' = true.
  Proof.
    intros HD Hh. destruct (run_done _ _ HD) as [_ [_ [H1 [H2 [a [r [c [Ep [Ea H3]]]]]]]]].
    unfold summary_ok. rewrite H1, H2, N.eqb_refl, Z.eqb_refl, !andb_true_r.
    unfold head_firstb in Hh. rewrite Ep in Hh. rewrite Ep.
    destruct a as [c0 its|k oc its]; [discriminate|]. destruct k; try discriminate.
    destruct oc as [c1|]; [|discriminate]. simpl in Ea. inversion Ea. subst c1.
    destruct (first_commit (AOther KEmerge (Some c) its :: r)) as [c'|]; [|discriminate].
    apply andb_true_iff in Hh. destruct Hh as [_ Ht]. apply Z.eqb_eq in Ht. rewrite H3, Ht. apply Z.eqb_refl.
  Qed.
End Top.

(* ------------------------------------------------------------------------------------------ *)
(* the log oracle accepts every log of the model interpreter (so a log the oracle rejects is not a
   log the model can produce, whatever the items do) *)

Section OracleProofs.
  Variables St U : Type.
  Variable ueqb : U -> U -> bool.
  Hypothesis ueqb_refl : forall u, ueqb u u = true.
  Variable sm : sem St U.

  Lemma veqb_refl v : veqb U ueqb v v = true.
  Proof.
    destruct v; simpl; auto using N.eqb_refl, eqb_reflx.
    rewrite N.eqb_refl, Z.eqb_refl. reflexivity.
  Qed.

  Lemma oveqb_refl o : oveqb U ueqb o o = true.
  Proof. destruct o; simpl; auto using veqb_refl. Qed.

  Lemma step_calls_ok_intro : forall its j calls pre d0,
    map (fun c : call U => (k_item c, k_desc c)) calls = firstn (length calls) (combine (seq j (length its)) its) ->
    (forall pre' c post, calls = pre' ++ c :: post -> forall e, dlookup e (k_deps c) = expected e (pre ++ pre') d0) ->
    (forall pre' c post, calls = pre' ++ c :: post -> complete c = false -> post = []) ->
    (forallb complete calls = true -> length calls = length its) ->
    step_calls_ok U ueqb j its calls pre d0 = true.
  Proof.
    induction its as [|it ir IH]; intros j calls pre d0 H1 H2 H3 H4.
    - simpl in H1. rewrite firstn_nil in H1. destruct calls; [reflexivity|discriminate].
    - destruct calls as [|c cr].
      + exfalso. specialize (H4 eq_refl). discriminate.
      + simpl in H1. injection H1 as Hj Hd Ht.
        cbn [step_calls_ok]. rewrite Hj, Hd, Nat.eqb_refl. unfold item_eqb. rewrite N.eqb_refl. cbn [andb].
        assert (Hin : forallb (fun e => oveqb U ueqb (dlookup e (k_deps c)) (expected e pre d0))
                        (k_commit :: k_index :: k_merge :: i_requires it ++ map fst (k_deps c)) = true).
        { apply forallb_forall. intros e _. rewrite (H2 [] c cr eq_refl e), app_nil_r. apply oveqb_refl. }
        rewrite Hin. cbn [andb].
        destruct (complete c) eqn:Ec.
        * apply IH.
          -- exact Ht.
          -- intros pre' c' post E e. rewrite <- app_assoc. simpl. apply (H2 (c :: pre') c' post). rewrite E. reflexivity.
          -- intros pre' c' post E Hc. apply (H3 (c :: pre') c' post); [rewrite E; reflexivity|exact Hc].
          -- intros Hall. simpl in H4. rewrite Ec, Hall in H4. specialize (H4 eq_refl). lia.
        * rewrite (H3 [] c cr eq_refl Ec). reflexivity.
  Qed.

  Lemma log_ok_nil_early full its todo idx : log_ok U ueqb true full its todo idx [] = true.
  Proof.
    revert idx. induction todo as [|a r IH]; intros idx; simpl; [reflexivity|].
    destruct a as [c l|k oc l]; [|apply IH].
    destruct (Nat.eqb (length its) 0) eqn:E; simpl; [|reflexivity].
    apply Nat.eqb_eq in E. destruct its; [|discriminate]. simpl. apply IH.
  Qed.

  Lemma consume_loop_last bs m d m' calls err :
    consume_loop St U sm bs m d = (m', calls, err) ->
    forall pre c post, calls = pre ++ c :: post -> complete c = false -> post = [].
  Proof.
    intros H pre c post E Hc. apply consume_loop_calls in H. destruct H as [_ [H2 H3]].
    destruct err as [e|].
    - destruct (H3 e eq_refl) as [pre' [c' [E' [Hp [_ _]]]]]. rewrite E' in E. symmetry in E.
      destruct (tail_incomplete complete _ _ _ _ _ E Hp Hc); auto.
    - exfalso. destruct (H2 eq_refl) as [_ Hall]. rewrite E, forallb_app in Hall.
      apply andb_true_iff in Hall. destruct Hall as [_ Hall]. simpl in Hall. rewrite Hc in Hall. discriminate.
  Qed.

  Variable plan : list action.
  Variable items : list item.
  Variable rootc : list binst.
  Notation items0 := (items_from 0 items).
  Hypothesis root_shape : map bsig rootc = map bsig items0.
  Hypothesis Hhead : head_emergeb plan = true.
  Hypothesis Hcont : contigb plan = true.
  Hypothesis Hdist : distinctb plan = true.

  Notation run_loop := (run_loop St U sm plan items0 rootc).

  Definition consume_stop (s : stop St) : Prop :=
    match s with
    | StEnd _ => True
    | StErr (EConsume _ _) => True
    | StErr (EMissing _ _) => True
    | _ => False
    end.

  Lemma consume_log_cons_commit cs (recs : list (srec U)) :
    consume_log (RCommit cs :: recs) = cs_calls cs ++ consume_log recs.
  Proof. reflexivity. Qed.

  Lemma consume_log_cons_other rc (recs : list (srec U)) :
    not_commit_rec U rc -> consume_log (rc :: recs) = consume_log recs.
  Proof. destruct rc; simpl; intros H; [contradiction|reflexivity..]. Qed.

  Lemma items0_length : length items0 = length items.
  Proof. apply items_from_length. Qed.

  Lemma run_loop_log_ok early : forall todo done pos st recs s,
    plan = done ++ todo -> length done = pos ->
    live_inv St items0 todo st ->
    run_loop pos todo st = (recs, s) ->
    (early = true \/ consume_stop s) ->
    log_ok U ueqb early plan items todo (r_idx st) (consume_log recs) = true.
  Proof.
    induction todo as [|a r IH]; intros done pos st recs s Ep Hpos HI H Hstop; simpl in H.
    - inversion H. subst. reflexivity.
    - assert (Epr : plan = (done ++ [a]) ++ r) by (rewrite <- app_assoc; exact Ep).
      assert (Hposr : length (done ++ [a]) = S pos) by (rewrite app_length; simpl; lia).
      pose proof (exec_live St U sm plan items0 rootc root_shape pos a r st HI) as HL.
      destruct a as [c its|k oc its].
      + pose proof (exec_commit St U sm plan items0 rootc pos c its st) as HE.
        destruct HI as [Hlive Hshape]. simpl in Hlive.
        destruct (exec St U sm plan items0 rootc pos (ACommit c its) st) as [st1 rc1|rc1 e|] eqn:E.
        * (* the step completed *)
          destruct (RunModel.run_loop St U sm plan items0 rootc (S pos) r st1) as [recs' s'] eqn:EL.
          inversion H. subst recs s. clear H.
          destruct HE as [first [rest [m' [calls [E1 [EC [E2 E3]]]]]]]. subst its rc1.
          simpl in Hlive. apply andb_true_iff in Hlive. destruct Hlive as [Hm _].
          destruct HL as [HI1 _].
          destruct (commit_step_order St U sm items0 first st _ _ _ _ Hshape Hm EC) as [Ho1 Ho2].
          pose proof (consume_loop_calls St U sm _ _ _ _ _ _ EC) as [_ [Hc2 _]].
          destruct (Hc2 eq_refl) as [_ Hall]. pose proof (Ho2 Hall) as Hlen. rewrite items0_length in Hlen.
          rewrite consume_log_cons_commit. cbn [cs_calls]. cbn [log_ok].
          replace (is_nil (calls ++ consume_log recs') && negb (Nat.eqb (length items) 0)) with false
            by (rewrite <- Hlen; destruct calls; simpl; rewrite ?andb_false_r; reflexivity).
          rewrite <- Hlen. rewrite firstn_app, Nat.sub_diag, firstn_all, skipn_app, Nat.sub_diag, skipn_all. simpl firstn. simpl skipn.
          rewrite app_nil_r. simpl app.
          assert (Hflag : is_merge plan pos (c_id c) = Nat.leb 2 (length (replay_branches plan (c_id c)))).
          { rewrite <- Hpos.
            pose proof (is_merge_spec plan done c (first :: rest) r Ep Hhead Hcont Hdist) as [Ha Hb].
            destruct (is_merge plan (length done) (c_id c)) eqn:Em.
            - symmetry. apply Nat.leb_le. auto.
            - symmetry. apply Nat.leb_gt. destruct (le_lt_dec 2 (length (replay_branches plan (c_id c)))) as [Hle|Hlt]; [|exact Hlt].
              specialize (Hb Hle). discriminate. }
          rewrite <- Hflag.
          rewrite step_calls_ok_intro.
          -- unfold step_complete. rewrite Nat.eqb_refl, Hall. simpl.
             replace (N.succ (r_idx st)) with (r_idx st1) by (subst st1; simpl; lia).
             apply (IH (done ++ [ACommit c (first :: rest)]) (S pos) st1 recs' s'); auto.
          -- rewrite Hlen. rewrite map_map, items_from_sig, Hlen in Ho1. exact Ho1.
          -- intros pre' c0 post Ec e. simpl. eapply consume_loop_inputs; eauto.
          -- eapply consume_loop_last; eauto.
          -- intros _. first [reflexivity | exact Hlen].
        * (* the step failed: its calls are the end of the log *)
          inversion H. subst recs s. clear H.
          destruct HE as [first [rest [m' [calls [E1 [EC E2]]]]]]. subst its rc1.
          simpl in Hlive. apply andb_true_iff in Hlive. destruct Hlive as [Hm _].
          destruct (commit_step_order St U sm items0 first st _ _ _ _ Hshape Hm EC) as [Ho1 Ho2].
          pose proof (consume_loop_calls St U sm _ _ _ _ _ _ EC) as [_ [_ Hc3]].
          destruct (Hc3 e eq_refl) as [pre [c0 [Ecalls [Hp [Hc0 _]]]]].
          assert (Hnall : forallb complete calls = false).
          { rewrite Ecalls, forallb_app. simpl. rewrite Hc0, andb_false_r. reflexivity. }
          assert (Hle : length calls <= length items).
          { rewrite <- items0_length, <- (map_length bsig items0), <- (map_length (call_binst U) calls), <- (map_length bsig).
            rewrite Ho1. rewrite firstn_length. lia. }
          rewrite consume_log_cons_commit. cbn [cs_calls]. simpl consume_log. rewrite app_nil_r. cbn [log_ok].
          replace (is_nil calls && negb (Nat.eqb (length items) 0)) with false
            by (rewrite Ecalls; destruct pre; reflexivity).
          rewrite firstn_all2 by exact Hle. rewrite skipn_all2 by exact Hle.
          assert (Hflag : is_merge plan pos (c_id c) = Nat.leb 2 (length (replay_branches plan (c_id c)))).
          { rewrite <- Hpos.
            pose proof (is_merge_spec plan done c (first :: rest) r Ep Hhead Hcont Hdist) as [Ha Hb].
            destruct (is_merge plan (length done) (c_id c)) eqn:Em.
            - symmetry. apply Nat.leb_le. auto.
            - symmetry. apply Nat.leb_gt. destruct (le_lt_dec 2 (length (replay_branches plan (c_id c)))) as [Hle2|Hlt]; [|exact Hlt].
              specialize (Hb Hle2). discriminate. }
          rewrite <- Hflag.
          rewrite step_calls_ok_intro.
          -- unfold step_complete. rewrite Hnall, andb_false_r. reflexivity.
          -- rewrite map_map, items_from_sig in Ho1. exact Ho1.
          -- intros pre' c1 post Ec e0. simpl. eapply consume_loop_inputs; eauto.
          -- eapply consume_loop_last; eauto.
          -- intros Hall. rewrite Hall in Hnall. discriminate.
        * inversion H. subst recs s. destruct Hstop as [->|[]]. apply log_ok_nil_early.
      + pose proof (exec_other St U sm plan items0 rootc pos k oc its st) as HE.
        destruct (exec St U sm plan items0 rootc pos (AOther k oc its) st) as [st1 rc1|rc1 e|] eqn:E.
        * destruct (RunModel.run_loop St U sm plan items0 rootc (S pos) r st1) as [recs' s'] eqn:EL.
          inversion H. subst recs s. clear H.
          destruct HE as [Hnc [Hidx _]]. destruct HL as [HI1 _].
          rewrite consume_log_cons_other by exact Hnc. cbn [log_ok]. rewrite <- Hidx.
          apply (IH (done ++ [AOther k oc its]) (S pos) st1 recs' s'); auto.
        * inversion H. subst recs s. clear H.
          rewrite consume_log_cons_other by exact HE. cbn [log_ok].
          destruct Hstop as [->|Hs].
          -- apply log_ok_nil_early.
          -- exfalso. simpl in Hs.
             (* a failing non-commit action fails with a hibernate/boot error *)
             unfold RunModel.exec in E. destruct its as [|first rest]; [discriminate|]. simpl in E.
             destruct k.
             ++ destruct (clone_items St (bget first (r_br st)) (length rest) (r_store st) (r_next st)) as [[[? ?] ?] ?]. discriminate.
             ++ destruct (merge_loop St U sm 0 (bget first (r_br st)) (map (fun b => bget b (r_br st)) rest) (r_store st)) as [[? ?]|]; discriminate.
             ++ destruct (N.eqb first 1); [discriminate|].
                destruct (clone_items St rootc 1 (r_store st) (r_next st)) as [[[? ?] cl] ?]. destruct cl; discriminate.
             ++ discriminate.
             ++ destruct (hb_loop St (s_hibernate St U sm) EHibernate (bget first (r_br st) ++ flat_map (fun b => bget b (r_br st)) rest) (r_store st))
                  as [[m' calls] [e0|]] eqn:EH; [|discriminate].
                inversion E. subst e. clear E.
                assert (exists it code, e0 = EHibernate it code) as [it [code ->]]; [|exact Hs].
                clear -EH. revert EH. generalize (r_store st). generalize (bget first (r_br st) ++ flat_map (fun b => bget b (r_br st)) rest).
                intros l. revert m' calls. induction l as [|b l IHl]; intros m' calls m0 EH; simpl in EH; [discriminate|].
                destruct (i_hib (b_desc b)); [|eauto].
                destruct (s_hibernate St U sm (b_item b) (m0 (b_inst b))) as [st' [code|]].
                ** inversion EH. eauto.
                ** destruct (hb_loop St (s_hibernate St U sm) EHibernate l (sset St (b_inst b) st' m0)) as [[m2 calls2] err2] eqn:E2.
                   inversion EH. subst. eauto.
             ++ destruct (hb_loop St (s_boot St U sm) EBoot (bget first (r_br st) ++ flat_map (fun b => bget b (r_br st)) rest) (r_store st))
                  as [[m' calls] [e0|]] eqn:EH; [|discriminate].
                inversion E. subst e. clear E.
                assert (exists it code, e0 = EBoot it code) as [it [code ->]]; [|exact Hs].
                clear -EH. revert EH. generalize (r_store st). generalize (bget first (r_br st) ++ flat_map (fun b => bget b (r_br st)) rest).
                intros l. revert m' calls. induction l as [|b l IHl]; intros m' calls m0 EH; simpl in EH; [discriminate|].
                destruct (i_hib (b_desc b)); [|eauto].
                destruct (s_boot St U sm (b_item b) (m0 (b_inst b))) as [st' [code|]].
                ** inversion EH. eauto.
                ** destruct (hb_loop St (s_boot St U sm) EBoot l (sset St (b_inst b) st' m0)) as [[m2 calls2] err2] eqn:E2.
                   inversion EH. subst. eauto.
        * inversion H. subst recs s. destruct Hstop as [->|[]]. apply log_ok_nil_early.
  Qed.
End OracleProofs.

Section TopOracle.
  Variables St U : Type.
  Variable ueqb : U -> U -> bool.
  Variable sm : sem St U.
  Variables (items : list item) (plan : list action) (nc : N).

  (* the run ended normally or by a failing Consume call (not between two steps) *)
  Definition consume_outcome (o : outcome U) : Prop :=
    match o with
    | Done _ _ => True
    | Failed (EConsume _ _) => True
    | Failed (EMissing _ _) => True
    | _ => False
    end.

  Theorem run_log_ok :
    (forall u, ueqb u u = true) ->
    head_emergeb plan = true -> contigb plan = true -> distinctb plan = true -> liveb plan = true ->
    forall early, (early = true \/ consume_outcome (ro_out (run St U sm items plan nc))) ->
    log_ok U ueqb early plan items plan 0 (consume_log (ro_recs (run St U sm items plan nc))) = true.
  Proof.
    intros Hrefl Hh Hc Hd Hl early Hstop.
    destruct (run_unfold St U sm items plan nc) as [rootc [m1 [next1 [recs [s [Hroot [EL [ER EO]]]]]]]].
    rewrite ER. rewrite EO in Hstop.
    assert (HI : live_inv St (items_from 0 items) plan (mkR [] m1 next1 0%N 0%Z)).
    { split; [exact Hl|]. intros k br Hb. discriminate. }
    apply (run_loop_log_ok St U ueqb Hrefl sm plan items rootc Hroot Hh Hc Hd early plan [] 0 _ recs s eq_refl eq_refl HI EL).
    destruct Hstop as [He|Hs]; [left; exact He|]. right.
    destruct s as [st|e|]; simpl; auto.
  Qed.
End TopOracle.
