#!/usr/bin/env python3
"""./check <Cxx> [--tier quick|thorough] [--replay file] [--scale f]

One run = (1) re-check the Coq theorems of the property (full .vo build of what it depends on and
a fresh coqc of coq/props/<Cxx>.v so that this run's Print Assumptions output is recorded),
(2) rebuild the Go harness against /repo's current working tree (build tag verif) and let it drive
the implementation, (3) replay the trace through the OCaml code extracted from the Gallina model
(fine correspondence, MISMATCH) and through the extracted property oracle (PROPFAIL),
(4) on a correspondence break without a property failure: search with a larger budget,
(5) write evidence/<Cxx>.json.  See DESIGN.md section 1.
"""
import argparse
import fcntl
import hashlib
import json
import os
import re
import subprocess
import sys
import time

ROOT = os.path.dirname(os.path.dirname(os.path.abspath(__file__)))
sys.path.insert(0, os.path.join(ROOT, 'lib'))
from propsload import PROPS  # noqa: E402

GOENV = dict(GOFLAGS='-mod=mod', GOPROXY='off', GOSUMDB='off', GOTOOLCHAIN='local',
             CARGO_NET_OFFLINE='true', PIP_NO_INDEX='1')
FORBIDDEN = re.compile(r'\b(Admitted|admit|Axiom|Axioms|Parameter|Parameters|Conjecture|Admit Obligations)\b'
                       r'|Unset Guard|bypass_check|type-in-type|impredicative-set')


def sh(cmd, cwd=ROOT, timeout=3600, env=None, stdin=None, stdout=subprocess.PIPE):
    e = dict(os.environ)
    e.update(GOENV)
    if env:
        e.update(env)
    p = subprocess.run(cmd, cwd=cwd, env=e, stdin=stdin, stdout=stdout, stderr=subprocess.STDOUT,
                       timeout=timeout, shell=isinstance(cmd, str))
    out = p.stdout.decode('utf-8', 'replace') if p.stdout is not None else ''
    return p.returncode, out


class Lock:
    def __init__(self, name):
        os.makedirs(os.path.join(ROOT, 'work'), exist_ok=True)
        self.path = os.path.join(ROOT, 'work', name + '.lock')

    def __enter__(self):
        self.f = open(self.path, 'w')
        fcntl.flock(self.f, fcntl.LOCK_EX)

    def __exit__(self, *a):
        fcntl.flock(self.f, fcntl.LOCK_UN)
        self.f.close()


def coq_sources():
    res = []
    for d in ('theories', 'props'):
        for dp, _, fs in os.walk(os.path.join(ROOT, 'coq', d)):
            for f in fs:
                if f.endswith('.v'):
                    res.append(os.path.relpath(os.path.join(dp, f), os.path.join(ROOT, 'coq')))
    return sorted(res)


def strip_comments(text):
    out, depth, i = [], 0, 0
    while i < len(text):
        if text.startswith('(*', i):
            depth += 1
            i += 2
        elif text.startswith('*)', i) and depth > 0:
            depth -= 1
            i += 2
        else:
            if depth == 0:
                out.append(text[i])
            i += 1
    return ''.join(out)


def coq_closure(pid):
    """Source files (relative to coq/) that props/<pid>.v and extract/Extract<pid>.v transitively require."""
    cdir = os.path.join(ROOT, 'coq')
    srcs = coq_sources()
    mods = {}
    for rel in srcs:
        parts = rel[:-2].split('/')
        top = 'Herc' if parts[0] == 'theories' else 'HercProps'
        mods['.'.join([top] + parts[1:])] = rel
    def requires(rel):
        text = strip_comments(open(os.path.join(cdir, rel)).read())
        res = set()
        for m in re.finditer(r'(?:From\s+([A-Za-z0-9_.]+)\s+)?Require\s+(?:Import\s+|Export\s+)?([^.]*(?:\.[A-Za-z_][^.]*)*?)\.(?:\s|$)', text):
            prefix = m.group(1)
            for name in m.group(2).split():
                cands = [name] + ([prefix + '.' + name] if prefix else [])
                for full, r in mods.items():
                    if any(full == c or full.endswith('.' + c) for c in cands):
                        res.add(r)
        return res
    todo = ['props/%s.v' % pid]
    ex = 'extract/Extract%s.v' % pid
    if os.path.exists(os.path.join(cdir, ex)):
        todo.append(ex)
    seen = set()
    while todo:
        r = todo.pop()
        if r in seen:
            continue
        seen.add(r)
        todo.extend(requires(r))
    return sorted(seen)


def forbidden_scan(pid):
    """No Admitted / Axiom / ... in the files this property depends on (comments are stripped first)."""
    hits = []
    for rel in coq_closure(pid):
        text = strip_comments(open(os.path.join(ROOT, 'coq', rel)).read())
        for ln, line in enumerate(text.split('\n'), 1):
            if FORBIDDEN.search(line):
                hits.append('%s: %s' % (rel, line.strip()))
    return hits


def coq_makefile():
    with Lock('coq'):
        srcs = coq_sources()
        stamp = os.path.join(ROOT, 'coq', '.sources')
        old = open(stamp).read() if os.path.exists(stamp) else ''
        if old != '\n'.join(srcs) or not os.path.exists(os.path.join(ROOT, 'coq', 'Makefile')):
            rc, out = sh(['coq_makefile', '-f', '_CoqProject'] + srcs + ['-o', 'Makefile'], cwd=os.path.join(ROOT, 'coq'))
            if rc != 0:
                raise RuntimeError('coq_makefile failed: ' + out)
            open(stamp, 'w').write('\n'.join(srcs))


def coq_build(target=None, jobs=16, timeout=3000):
    """Full .vo build (never -vos) of one target or of everything."""
    coq_makefile()
    with Lock('coq'):
        cmd = ['make', '-j%d' % jobs]
        if target:
            cmd.append(target)
        rc, out = sh(cmd, cwd=os.path.join(ROOT, 'coq'), timeout=timeout)
    return rc, out


def coq_props(pid):
    """Re-run coqc on the property file; return (ok, theorems, assumptions-text, log)."""
    rel = 'props/%s.v' % pid
    path = os.path.join(ROOT, 'coq', rel)
    text = open(path).read()
    theorems = re.findall(r'^\s*(?:Theorem|Lemma|Corollary|Example)\s+([A-Za-z0-9_\']+)', text, re.M)
    rc, out = coq_build(rel + 'o')
    if rc != 0:
        return False, theorems, [], out
    with Lock('coq'):
        rc, out2 = sh(['coqc', '-Q', 'theories', 'Herc', '-Q', 'props', 'HercProps', '-w', '-all', rel],
                      cwd=os.path.join(ROOT, 'coq'), timeout=1800)
    if rc != 0:
        return False, theorems, [], out2
    blocks = re.split(r'(?=Closed under the global context|Axioms:)', out2)
    assum = []
    for b in blocks:
        b = b.strip()
        if b.startswith('Closed under the global context'):
            assum.append('Closed under the global context')
        elif b.startswith('Axioms:'):
            names = []
            for line in b.split('\n')[1:]:
                m = re.match(r'^([A-Za-z_][A-Za-z0-9_.\']*)\s*:', line)
                if m:
                    names.append(m.group(1))
            assum.append('Axioms: ' + ' '.join(sorted(set(names))))
    return True, theorems, assum, out2


REPO = os.path.abspath(os.environ.get('VERIF_REPO') or '/repo')
# a scratch copy of the repository (mutation testing) gets its own go.mod and binaries
BIN_SUFFIX = '' if REPO == '/repo' else '-' + hashlib.md5(REPO.encode()).hexdigest()[:8]


def build_harness(name):
    h = os.path.join(ROOT, 'harness')
    with Lock('harness' + BIN_SUFFIX):
        os.makedirs(os.path.join(h, 'bin'), exist_ok=True)
        cmd = ['go', 'build', '-tags', 'verif']
        if BIN_SUFFIX:
            md = os.path.join(ROOT, 'work', 'mod' + BIN_SUFFIX)
            os.makedirs(md, exist_ok=True)
            mod = open(os.path.join(h, 'go.mod')).read().replace('=> /repo', '=> ' + REPO)
            open(os.path.join(md, 'go.mod'), 'w').write(mod)
            sh(['cp', os.path.join(REPO, 'go.sum'), os.path.join(md, 'go.sum')])
            cmd += ['-modfile', os.path.join(md, 'go.mod')]
        else:
            sh(['cp', '/repo/go.sum', os.path.join(h, 'go.sum')])
        rc, out = sh(cmd + ['-o', 'bin/' + name + BIN_SUFFIX, './cmd/' + name], cwd=h, timeout=3000)
    return rc, out


def build_driver(name):
    with Lock('ocaml-' + name):
        rc, out = sh([os.path.join(ROOT, 'ocaml', 'build.sh'), name], timeout=1800)
    return rc, out


class Finding:
    def __init__(self, kind, cid, text, stream):
        self.kind, self.cid, self.text, self.stream = kind, cid, text, stream
        self.case_line = None


def run_stream(pid, stream, tier, seed, scale, workdir, replay=None, tag=''):
    """harness -> trace -> driver.  Returns dict(cases, findings, stats, trace path)."""
    hname, dname = stream['harness'], stream['driver']
    trace = os.path.join(workdir, 'trace-%s%s.txt' % (hname, tag))
    cmd = [os.path.join(ROOT, 'harness', 'bin', hname + BIN_SUFFIX), '-seed', str(seed), '-tier', tier, '-out', trace,
           '-scale', str(scale)] + stream.get('args', [])
    if replay:
        cmd += ['-replay', replay]
    t0 = time.time()
    rc, out = sh(cmd, cwd=workdir, timeout=stream.get('timeout', 7200))
    th = time.time() - t0
    if rc != 0:
        return dict(error='harness %s failed (exit %d): %s' % (hname, rc, out[-3000:]), trace=trace, findings=[], stats={}, cases=0)
    t0 = time.time()
    with open(trace, 'rb') as f:
        rc, dout = sh([os.path.join(ROOT, 'ocaml', dname, 'driver')] + stream.get('driver_args', []), cwd=workdir, stdin=f, timeout=7200)
    td = time.time() - t0
    findings, stats = [], {}
    for line in dout.split('\n'):
        m = re.match(r'(MISMATCH|PROPFAIL) (-?\d+) (.*)', line)
        if m:
            findings.append(Finding(m.group(1), int(m.group(2)), m.group(3), hname))
        elif line.startswith('STATS '):
            for kv in line.split()[1:]:
                k, _, v = kv.partition('=')
                try:
                    stats[k] = int(v)
                except ValueError:
                    stats[k] = v
    if rc != 0 or 'cases' not in stats:
        return dict(error='driver %s failed (exit %d): %s' % (dname, rc, dout[-3000:]), trace=trace, findings=findings, stats=stats, cases=0)
    return dict(trace=trace, findings=findings, stats=stats, cases=stats.get('cases', 0), harness_s=th, driver_s=td)


def case_lines(trace, ids):
    ids = set(ids)
    res = {}
    if not ids:
        return res
    with open(trace) as f:
        for line in f:
            m = re.match(r'\(case (\d+) ', line)
            if m and int(m.group(1)) in ids:
                res[int(m.group(1))] = line.rstrip('\n')
                if len(res) == len(ids):
                    break
    return res


def trace_summary(trace, nsamples=3):
    """evaluations, distinct non-trivial inputs (hash of everything but the observations), samples, kinds."""
    n, seen, samples, kinds = 0, set(), [], {}
    with open(trace) as f:
        for line in f:
            if not line.startswith('(case'):
                continue
            n += 1
            m = re.search(r'\(kind ([^)]*)\)', line)
            k = m.group(1) if m else '?'
            kinds[k] = kinds.get(k, 0) + 1
            nt = '(nt 1)' in line
            if nt:
                # the input is everything before the observation field
                cut = line.find('(obs')
                body = line[line.find(' ', 6):cut if cut > 0 else len(line)]
                seen.add(hashlib.blake2b(body.encode(), digest_size=8).digest())
            if nt and len(samples) < nsamples and len(line) < 1500:
                samples.append(line.strip())
    return n, len(seen), samples, kinds


def parse_sx(line):
    toks = re.findall(r'[()]|[^\s()]+', line)
    pos = [0]

    def go():
        t = toks[pos[0]]
        pos[0] += 1
        if t == '(':
            l = []
            while toks[pos[0]] != ')':
                l.append(go())
            pos[0] += 1
            return l
        return t
    return go()


def dump_sx(x):
    if isinstance(x, list):
        return '(' + ' '.join(dump_sx(y) for y in x) + ')'
    return x


def shrink(pid, stream, finding, workdir, seed):
    """Greedy removal of chunks / single elements of the list-valued input field while the same
    kind of finding persists (harness re-observes, driver re-judges).  Returns the smallest case line."""
    field = stream.get('shrink_field')
    line = finding.case_line
    if not field or not line or len(line) > 4000000:
        return line
    t_end = time.time() + stream.get('shrink_seconds', 150)
    for _ in range(15):
        if time.time() > t_end:
            return line
        try:
            sx = parse_sx(line)
        except Exception:
            return line
        fields = [f for f in sx[2:] if not (isinstance(f, list) and f and f[0] == 'obs')]
        idx = [i for i, f in enumerate(fields) if isinstance(f, list) and f and f[0] == field]
        if not idx:
            return line
        items = fields[idx[0]][1:]
        n = len(items)
        if n <= 1:
            return line
        spans, seen = [], set()
        for size in (n // 2, n // 4, n // 8, 1):
            if size >= 1:
                for st in range(0, n, size):
                    sp = (st, min(n, st + size))
                    if sp not in seen and sp[1] - sp[0] < n:
                        seen.add(sp)
                        spans.append(sp)
        cand = [items[:x] + items[y:] for (x, y) in spans[:600]]
        rp = os.path.join(workdir, 'shrink-replay.txt')
        with open(rp, 'w') as f:
            for k, it in enumerate(cand):
                fs = list(fields)
                fs[idx[0]] = [field] + it
                f.write(dump_sx(['case', str(k)] + fs) + '\n')
        r = run_stream(pid, stream, 'quick', seed, 1.0, workdir, replay=rp, tag='-shrink')
        if r.get('error'):
            return line
        good = sorted(set(f.cid for f in r['findings'] if f.kind == finding.kind))
        good = [k for k in good if 0 <= k < len(cand)]
        if not good:
            return line
        best = min(good, key=lambda k: len(cand[k]))
        cl = case_lines(r['trace'], [best])
        if best not in cl:
            return line
        line = cl[best]
    return line


def load_known():
    p = os.path.join(ROOT, 'known_findings.json')
    if not os.path.exists(p):
        return []
    return json.load(open(p)).get('findings', [])


def main():
    ap = argparse.ArgumentParser()
    ap.add_argument('pid')
    ap.add_argument('--tier', default=os.environ.get('VERIF_TIER') or 'quick')
    ap.add_argument('--replay')
    ap.add_argument('--scale', type=float, default=1.0)
    ap.add_argument('--no-evidence', action='store_true')
    a = ap.parse_args()
    pid = a.pid.upper()
    if pid not in PROPS:
        print('unknown property', pid)
        sys.exit(2)
    cfg = PROPS[pid]
    tier = 'thorough' if a.tier == 'thorough' else 'quick'
    try:
        seed = int(os.environ.get('VERIF_SEED', '1'))
    except ValueError:
        seed = 1
    t_start = time.time()
    workdir = os.path.join(ROOT, 'work', pid + BIN_SUFFIX + ('-thorough' if tier == 'thorough' else '') + ('-replay' if a.replay else ''))
    os.makedirs(workdir, exist_ok=True)
    # two runs of the same check, tier and repository share a work directory: serialise them
    _runlock = Lock('run-' + os.path.basename(workdir))
    _runlock.__enter__()
    os.makedirs(os.path.join(ROOT, 'replays'), exist_ok=True)
    os.makedirs(os.path.join(ROOT, 'evidence'), exist_ok=True)
    violations = []          # (replay path, suffix)
    notes = []

    # ---- 1. proofs
    hits = forbidden_scan(pid)
    ok, theorems, assum, log = coq_props(pid)
    proof_broken = None
    if hits:
        proof_broken = 'forbidden construct in the Coq development: ' + '; '.join(hits[:5])
    elif not ok:
        m = re.search(r'File "([^"]+)", line (\d+)', log)
        proof_broken = 'the Coq development no longer checks (%s): %s' % (
            ('%s line %s' % (m.group(1), m.group(2))) if m else 'see log', log[-1500:])
    coqchk = None
    if ok and tier == 'thorough' and not a.replay and not os.environ.get('VERIF_NO_COQCHK'):
        # independent re-check of the compiled property file and everything it depends on
        with Lock('coq'):
            rc, out = sh(['coqchk', '-silent', '-o', '-Q', 'theories', 'Herc', '-Q', 'props', 'HercProps', 'HercProps.' + pid],
                         cwd=os.path.join(ROOT, 'coq'), timeout=3600)
        summary = out[out.find('CONTEXT SUMMARY'):] if 'CONTEXT SUMMARY' in out else out[-1500:]
        coqchk = dict(exit=rc, summary=' '.join(summary.split())[:3000])
        if rc != 0:
            proof_broken = 'coqchk rejects the compiled development: ' + out[-1500:]
    axioms = sorted(set(x for x in assum if x.startswith('Axioms:')))
    allowed_axioms = cfg.get('allowed_axioms', [])
    for ax in axioms:
        if not all(any(al in part for al in allowed_axioms) for part in ax.split()[1:]):
            proof_broken = proof_broken or ('a property theorem depends on an axiom that is not in the trusted base: ' + ax)

    # ---- 2./3. harness + driver
    streams = cfg['streams']
    results = []
    build_err = None
    for hname in sorted(set(s['harness'] for s in streams)):
        rc, out = build_harness(hname)
        if rc != 0:
            build_err = 'go build of harness %s against /repo failed:\n%s' % (hname, out[-3000:])
    for dname in sorted(set(s['driver'] for s in streams)):
        rc, out = build_driver(dname)
        if rc != 0:
            build_err = (build_err or '') + 'build of model driver %s failed:\n%s' % (dname, out[-3000:])
    if build_err:
        rp = os.path.join(ROOT, 'replays', '%s-build.json' % pid)
        json.dump(dict(property=pid, kind='build', detail=build_err), open(rp, 'w'), indent=1)
        print(build_err)
        print('VIOLATION property=%s replay=%s no-failing-input-found' % (pid, rp))
        sys.exit(1)

    if a.replay:
        # replay mode: re-run the recorded cases and show what happens
        src = a.replay
        if src.endswith('.json'):
            j = json.load(open(src))
            tmp = os.path.join(workdir, 'replay-cases.txt')
            open(tmp, 'w').write('\n'.join(j.get('cases', [])) + '\n')
            src = tmp
            sname = j.get('stream')
        else:
            sname = None
        bad = 0
        for s in streams:
            if sname and s['harness'] != sname:
                continue
            r = run_stream(pid, s, tier, seed, 1.0, workdir, replay=os.path.abspath(src), tag='-replay')
            if r.get('error'):
                print(r['error'])
                bad += 1
            for f in r['findings']:
                print(f.kind, f.cid, f.text)
                bad += 1
            print('replayed %d case(s) on stream %s: %d finding(s)' % (r['cases'], s['harness'], len(r['findings'])))
        if bad:
            print('VIOLATION property=%s replay=%s' % (pid, a.replay))
        sys.exit(1 if bad else 0)

    corpus = os.path.join(ROOT, 'corpus', pid)
    for s in streams:
        # corpus first
        cfile = os.path.join(corpus, s['harness'] + '.txt')
        if os.path.exists(cfile):
            r = run_stream(pid, s, tier, seed, 1.0, workdir, replay=cfile, tag='-corpus')
            r['stream'], r['corpus'] = s, True
            results.append(r)
        r = run_stream(pid, s, tier, seed, a.scale, workdir)
        r['stream'], r['corpus'] = s, False
        results.append(r)

    known = [k for k in load_known() if k.get('property') == pid and k.get('status') == 'known']
    known_hit = {}
    propfails, mismatches, errors = [], [], []
    for r in results:
        if r.get('error'):
            errors.append(r['error'])
        ids = [f.cid for f in r['findings'] if f.kind == 'PROPFAIL'][:3000000] + [f.cid for f in r['findings'] if f.kind != 'PROPFAIL'][:2000]
        cl = case_lines(r['trace'], ids) if ids else {}
        for f in r['findings']:
            f.case_line = cl.get(f.cid)
            f.streamcfg = r['stream']
            if f.kind == 'PROPFAIL':
                kf = None
                for k in known:
                    if re.search(k['match'], f.text) and (not k.get('match_case') or (f.case_line and re.search(k['match_case'], f.case_line))):
                        kf = k
                        break
                if kf:
                    known_hit.setdefault(kf['id'], [kf, 0])[1] += 1
                else:
                    propfails.append(f)
            else:
                mismatches.append(f)

    def write_replay(kind, f, detail, cases, extra=None):
        name = '%s-%s-seed%d.json' % (pid, kind, seed)
        rp = os.path.join(ROOT, 'replays', name)
        d = dict(property=pid, kind=kind, detail=detail, stream=(f.stream if f else None), cases=cases,
                 seed=seed, tier=tier, replay_cmd='./check %s --replay %s' % (pid, os.path.relpath(rp, ROOT)))
        if extra:
            d.update(extra)
        json.dump(d, open(rp, 'w'), indent=1)
        return rp

    searched = None
    if propfails:
        f = min(propfails, key=lambda x: len(x.case_line or 'x' * 10**6))
        small = shrink(pid, f.streamcfg, f, workdir, seed) if f.case_line else None
        rp = write_replay('propfail', f, f.text, [small or f.case_line or ''],
                          dict(original_case=f.case_line, failing_cases_in_this_run=len(propfails),
                               other_examples=[x.text for x in propfails[1:6]]))
        violations.append((rp, ''))
    elif mismatches or errors or proof_broken:
        # ---- 4. correspondence / proof broken, no property failure known yet: search harder
        searched = dict(runs=0, cases=0)
        found = None
        budget_end = time.time() + cfg.get('search_seconds', 240 if tier == 'quick' else 900)
        k = 0
        while not found and time.time() < budget_end and not errors:
            k += 1
            for s in streams:
                r = run_stream(pid, s, 'search', seed * 1000 + k, cfg.get('search_scale', 0.25), workdir, tag='-search')
                searched['runs'] += 1
                searched['cases'] += r.get('cases', 0)
                if r.get('error'):
                    errors.append(r['error'])
                    break
                pf = [x for x in r['findings'] if x.kind == 'PROPFAIL']
                cl = case_lines(r['trace'], [x.cid for x in pf][:500])
                for x in pf:
                    x.case_line = cl.get(x.cid)
                    x.streamcfg = s
                pf = [x for x in pf if not any(re.search(kk['match'], x.text) for kk in known)]
                if pf:
                    found = min(pf, key=lambda x: len(x.case_line or 'x' * 10**6))
                    break
        if found:
            small = shrink(pid, found.streamcfg, found, workdir, seed)
            rp = write_replay('propfail', found, found.text, [small or found.case_line or ''], dict(original_case=found.case_line, found_by='search after correspondence break'))
            violations.append((rp, ''))
        else:
            if mismatches:
                f = min(mismatches, key=lambda x: len(x.case_line or 'x' * 10**6))
                detail = 'correspondence between the Gallina model and the implementation broken: ' + f.text
                rp = write_replay('correspondence', f, detail, [f.case_line or ''],
                                  dict(mismatching_cases=len(mismatches), other_examples=[x.text for x in mismatches[1:6]],
                                       search=searched, theorems_no_longer_tied_to_the_code=theorems))
            elif errors:
                rp = write_replay('error', None, errors[0], [], dict(search=searched))
            else:
                rp = write_replay('proof', None, proof_broken, [], dict(search=searched, theorems=theorems))
            violations.append((rp, ' no-failing-input-found'))

    # ---- 5. evidence
    total_cases = sum(r.get('cases', 0) for r in results)
    evals, distinct, samples, kinds = 0, 0, [], {}
    stats = {}
    for r in results:
        if os.path.exists(r['trace']):
            n, d, smp, kd = trace_summary(r['trace'])
            evals += n
            distinct += d
            samples += smp[:2]
            for k, v in kd.items():
                kinds[r['stream']['harness'] + ':' + k] = kinds.get(r['stream']['harness'] + ':' + k, 0) + v
        for k, v in r.get('stats', {}).items():
            if isinstance(v, int):
                stats[k] = stats.get(k, 0) + v
    ev = dict(
        property_id=pid, tier=tier, seed=seed, level=cfg.get('level', 'proof'),
        coverage=dict(
            obligations=len(theorems), discharged=(len(theorems) if ok and not proof_broken else 0),
            checker_cmd='make -C coq props/%s.vo && coqc -Q theories Herc -Q props HercProps props/%s.v  (Coq 8.16.1, full .vo build)' % (pid, pid),
            trusted_base=cfg.get('trusted_base', []) + COMMON_TB,
            theorems=theorems, print_assumptions=sorted(set(assum)), print_assumptions_count=len(assum),
            evaluations=max(evals, 1), distinct_nontrivial=distinct,
            rule=cfg.get('rule', ''), samples=samples[:6] or ['(none)'],
            input_distribution=kinds, driver_counters=stats,
            traces_validated_against_impl=total_cases,
            mismatches=len(mismatches), property_failures=len(propfails),
            known_findings_hit={k: v[1] for k, v in known_hit.items()},
            exhaustive=bool(cfg.get('exhaustive_note')), exhaustive_scope=cfg.get('exhaustive_note', ''),
            search_after_break=searched, coqchk=coqchk,
        ),
        assumptions=cfg.get('assumptions', []),
        wall_s=round(time.time() - t_start, 1), violations=len(violations),
    )
    # optional per-property hook: extra coverage keys computed from the driver counters of this run
    # (e.g. 'programs' / 'disagreements_checked' of a translation_validation level)
    if callable(cfg.get('extra_coverage')):
        try:
            ev['coverage'].update(cfg['extra_coverage'](stats, ev['coverage']) or {})
        except Exception as e:  # never let a reporting hook break the check
            ev['coverage']['extra_coverage_error'] = repr(e)
    if not a.no_evidence and not BIN_SUFFIX:
        json.dump(ev, open(os.path.join(ROOT, 'evidence', pid + '.json'), 'w'), indent=1)

    for kid, (k, n) in sorted(known_hit.items()):
        print('KNOWN-FINDING: property=%s %s (%d case(s) in this run; %s)' % (pid, k['what'], n, kid))
    print('%s %s: %d theorem(s) checked, %d case(s) replayed through the model, %d mismatch(es), %d property failure(s), %.0fs'
          % (pid, tier, len(theorems) if ok else 0, total_cases, len(mismatches), len(propfails), time.time() - t_start))
    for e in errors:
        print('ERROR:', e[:2000])
    if proof_broken:
        print('PROOF:', proof_broken[:2000])
    for rp, suffix in violations:
        print('VIOLATION property=%s replay=%s%s' % (pid, rp, suffix))
    sys.exit(1 if violations else 0)


COMMON_TB = [
    'Coq 8.16.1 kernel via coqc (vm_compute used in Examples and finite-domain lemmas; no native_compute)',
    'extraction: ExtrOcamlBasic only (Extract Inductive bool/option/unit/list/prod/sumbool/sumor, Extract Inlined Constant andb/orb); nat/positive/N/Z stay the extracted inductives',
    'OCaml replay driver and ocaml/common/conv.ml (parsing, printing, comparison)',
    'Go harness (generators, observation) and the verif-tagged export files in /repo',
    'lib/check.py orchestration',
]

if __name__ == '__main__':
    main()
