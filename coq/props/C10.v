(* C10 - pipeline items always run after everything that provides their inputs.
   Only statements closed by [exact] and their assumptions; the proofs are in theories/Pipeline. *)
From Coq Require Import List ZArith Permutation.
From Herc Require Import Toposort.Model Pipeline.Resolve Pipeline.Deploy Pipeline.CheckerProofs Pipeline.ResolveProofs
  Pipeline.DeployProofs Pipeline.Witnesses.
Import ListNotations.
Open Scope Z_scope.

(* The validator that judges every order the implementation returns is sound for the property:
   an accepted order is a permutation of the deployed items (nothing lost, nothing duplicated) in which every
   item sees, strictly before it, a provider of each entity it requires, and every provider of such an entity
   that does not run strictly before it transitively requires one of the item's own outputs ([feeds]). *)
Theorem C10_order_checker_sound : forall items order, order_ok items order = true ->
  (forall l1 c l3, order = l1 ++ c :: l3 -> forall e, In e (ireq c) ->
     (exists p, In p l1 /\ In e (iprov p)) /\
     (forall p, In p (c :: l3) -> In e (iprov p) ->
        exists e', derived items (iprov c) e' /\ In e' (ireq p))) /\
  Permutation order items.
Proof. exact order_ok_sound. Qed.
Print Assumptions C10_order_checker_sound.

(* No entity has two providers: for every iteration order of Go's maps ([ch]) and every formatting of the
   disambiguated names ([dis]), a successful resolve returns a permutation of the items in which every item
   runs strictly after EVERY provider of everything it requires; the validator accepts it. *)
Theorem C10_unambiguous : forall ch dis items order,
  domain_okb dis items = true -> (forall e, (length (providers items e) <= 1)%nat) ->
  resolve ch dis items = Ok order ->
  order_ok items order = true /\
  (forall l1 c l3, order = l1 ++ c :: l3 -> forall e, In e (ireq c) ->
     (exists p, In p l1 /\ In e (iprov p)) /\ (forall p, In p (c :: l3) -> ~ In e (iprov p))) /\
  Permutation order items.
Proof. exact unambiguous_main. Qed.
Print Assumptions C10_unambiguous.

(* The error branches.  A requirement without provider is an error (Unsatisfied, or Ambiguous when a
   three-provider entity is met first).  With at most one provider per entity the outcome is decided
   completely: Unsatisfied iff some requirement has no provider; otherwise SortFailure when some item
   transitively requires one of its own outputs and success when none does; and a successful order never
   violates a requirement. *)
Theorem C10_errors : forall ch dis items, domain_okb dis items = true ->
  ((exists c e, In c items /\ In e (ireq c) /\ forall p, In p items -> ~ In e (iprov p)) ->
     resolve ch dis items = Err Unsatisfied \/ resolve ch dis items = Err Ambiguous) /\
  ((forall e, (length (providers items e) <= 1)%nat) ->
     ((exists c e, In c items /\ In e (ireq c) /\ forall p, In p items -> ~ In e (iprov p)) ->
        resolve ch dis items = Err Unsatisfied) /\
     ((forall c e, In c items -> In e (ireq c) -> exists p, In p items /\ In e (iprov p)) ->
        ((exists c, In c items /\ feeds items c c) -> resolve ch dis items = Err SortFailure) /\
        ((forall c, In c items -> ~ feeds items c c) -> exists order, resolve ch dis items = Ok order)) /\
     (forall order, resolve ch dis items = Ok order ->
        (forall l1 c l3, order = l1 ++ c :: l3 -> forall e, In e (ireq c) ->
           (exists p, In p l1 /\ In e (iprov p)) /\ (forall p, In p (c :: l3) -> ~ In e (iprov p))) /\
        Permutation order items)).
Proof. exact errors_main. Qed.
Print Assumptions C10_errors.

(* DeployItem (registry with one item per name, [reg_okb]): the items appended to the pipeline are exactly the least set that contains the deployed item
   and is closed under "enabled item that provides (or is named like) a requirement and whose name is not yet
   in the pipeline" - and nothing else; the features of the deployed item are switched on. *)
Theorem C10_deploy_closure : forall r p item p', reg_okb r = true -> deploy r p item = Some p' ->
  p_feats p' = p_feats p ++ rfeat item /\
  exists new, p_items p' = p_items p ++ new /\
    In item new /\
    (forall x dep sib, In x new -> In dep (rreq x) -> In sib (summon r dep) ->
       enabledb (p_feats p ++ rfeat item) sib = true ->
       ~ In (rname sib) (map rname (p_items p) ++ [rname item]) -> In sib new) /\
    (forall P : rentry -> Prop, P item ->
       (forall x dep sib, P x -> In dep (rreq x) -> In sib (summon r dep) ->
          enabledb (p_feats p ++ rfeat item) sib = true ->
          ~ In (rname sib) (map rname (p_items p) ++ [rname item]) -> P sib) ->
       forall x, In x new -> P x).
Proof. exact deploy_closure_main. Qed.
Print Assumptions C10_deploy_closure.

(* the fuel of the deployment model never runs out: DeployItem terminates on every finite registry *)
Theorem C10_deploy_total : forall r p item, exists p', deploy r p item = Some p'.
Proof. exact deploy_total. Qed.
Print Assumptions C10_deploy_total.

(* PARTIAL: the chained case (an entity with two providers) is not covered by a general theorem; every order
   the implementation returns is judged by [order_ok] (C10_order_checker_sound).  The full statement
     forall ch dis items order, domain_okb dis items = true -> resolve ch dis items = Ok order ->
       respects items order /\ Permutation order items
   and "resolve never panics" are FALSE of the current code, in two regions of the input space that are
   decided from the item set alone ([region_of]):
     RNoRequire - some doubly provided entity is required by neither of its providers
                  (resolve removes a non-existent edge key -> inheritor, which corrupts the in-degree table);
     RShared    - some item provides two doubly provided entities
                  (the edge inheritor -> consumer is added twice, the child ranks leave 1..n). *)
Theorem C10_chained_norequire_order_refuted : exists ch dis items order,
  domain_okb dis items = true /\ region_of items = RNoRequire /\
  resolve ch dis items = Ok order /\ ~ respects items order /\
  exists good, order_ok items good = true.
Proof. exact chained_order_refuted. Qed.
Print Assumptions C10_chained_norequire_order_refuted.

Theorem C10_chained_norequire_lost_item_refuted : exists ch dis items order,
  domain_okb dis items = true /\ region_of items = RNoRequire /\
  resolve ch dis items = Ok order /\ ~ Permutation order items.
Proof. exact chained_lost_item_refuted. Qed.
Print Assumptions C10_chained_norequire_lost_item_refuted.

Theorem C10_chained_norequire_panic_refuted : exists ch dis items,
  domain_okb dis items = true /\ region_of items = RNoRequire /\ resolve ch dis items = Panic.
Proof. exact chained_panic_refuted. Qed.
Print Assumptions C10_chained_norequire_panic_refuted.

Theorem C10_chained_shared_panic_refuted : exists ch dis items,
  domain_okb dis items = true /\ region_of items = RShared /\ resolve ch dis items = Panic.
Proof. exact chained_shared_panic_refuted. Qed.
Print Assumptions C10_chained_shared_panic_refuted.

(* non-vacuity *)
Example C10_ex_unambiguous : domain_okb dis0 burndown_items = true /\
  (forall e, (length (providers burndown_items e) <= 1)%nat) /\
  exists order, resolve ch0 dis0 burndown_items = Ok order.
Proof. split; [exact burndown_domain|]. split; [exact burndown_one_provider|]. eexists. exact burndown_resolved. Qed.

Example C10_ex_chained_accepted : region_of renames_items' = RRenames /\ exists order,
  resolve ch0 dis0 renames_items' = Ok order /\ order_ok renames_items' order = true.
Proof. split; [exact renames_region|]. destruct renames_resolved_ok as (o & A & B & _). exists o. split; assumption. Qed.

Example C10_ex_errors : resolve ch0 dis0 unsat_items = Err Unsatisfied /\
  resolve ch0 dis0 cyclic_items = Err SortFailure /\ resolve ch0 dis0 three_items = Err Ambiguous.
Proof. split; [exact (proj2 unsat_resolved)|]. split; [exact (proj2 (proj2 cyclic_resolved))|exact three_resolved]. Qed.

Example C10_ex_deploy : reg_okb reg0 = true /\
  deploy reg0 (mkP [] []) e_leaf = Some (mkP [e_leaf; e_mid; e_plain] []) /\
  deploy reg0 (mkP [] [21]) e_leaf = Some (mkP [e_leaf; e_mid; e_gated; e_plain] [21]).
Proof.
  split; [exact (proj1 deploy_without_feature)|].
  split; [exact (proj2 deploy_without_feature)|exact deploy_with_feature].
Qed.

(* ================= round 2: the error branch of the chained case =================
   The strict validator [chain_order_ok]: an accepted order is a permutation of the items in which every
   requirement of every item is provided strictly before it and by NO item after it (the item itself may
   provide the entity again: it is then the end of the chain).  It is stronger than [order_ok].  The replay
   driver uses it in two ways: an item set that has such an order is not cyclic in any reading of C10, so a
   "topological sort failure" for it is a property failure; and for such a set a successful order must itself be
   accepted by the strict validator. *)
From Herc Require Import Pipeline.Strict Pipeline.StrictProofs.

Theorem C10_strict_order_checker_sound : forall items order, chain_order_ok items order = true ->
  (forall l1 c l3, order = l1 ++ c :: l3 -> forall e, In e (ireq c) ->
     (exists p, In p l1 /\ In e (iprov p)) /\ (forall p, In p l3 -> ~ In e (iprov p))) /\
  Permutation order items /\
  order_ok items order = true.
Proof. exact strict_checker_main. Qed.
Print Assumptions C10_strict_order_checker_sound.

(* A third region in which the full statement is FALSE of the current code, inside RRenames / RSeveral:
   [shallow_secondb] - the provider of a doubly provided entity that requires the entity itself (the end of the
   chain) is not strictly farther from the roots of the item / entity graph than the other provider.  resolve
   chooses the end of the chain by BreadthSort rank, chains the wrong provider last and answers
   "topological sort failure" for a set that has a strict order. *)
Theorem C10_chained_not_farther_refuted : exists ch dis items good,
  domain_okb dis items = true /\ region_of items = RRenames /\ shallow_secondb items = true /\
  resolve ch dis items = Err SortFailure /\ chain_order_ok items good = true.
Proof. exact chained_shallow_refuted. Qed.
Print Assumptions C10_chained_not_farther_refuted.

(* non-vacuity: a cascade of four doubly provided entities outside the region is resolved, strictly *)
Example C10_ex_cascade_strict : region_of w_cascade44 = RSeveral /\ shallow_secondb w_cascade44 = false /\
  exists order, resolve ch0 dis0 w_cascade44 = Ok order /\ chain_order_ok w_cascade44 order = true.
Proof. exact (proj2 cascade44_clean). Qed.

(* ================= round 3: a fourth region of the chained case =================
   [two_feeders_b] (theories/Pipeline/TwoPaths.v): some doubly provided entity k has exactly one provider R that requires k
   itself (the end of the chain) and R transitively requires outputs of at least TWO other consumers of k.  graph.FindCycle(k)
   returns one cycle; only the consumer on it stays in front of R, the other one is re-attached behind R although R needs it:
   "topological sort failure" under both the identity and the reversed map orders, although the validator of C10
   ([order_ok], C10_order_checker_sound) accepts the order T, X, Y, R.  With one such consumer (the built-in
   TreeDiff / BlobCache / RenameAnalysis shape: [one_path_resolved]) the set is resolved. *)
From Herc Require Import Pipeline.TwoPaths Pipeline.TwoPathsProofs.

Theorem C10_chained_two_feeders_refuted : exists dis items good,
  domain_okb dis items = true /\ region_of items = RRenames /\ shallow_secondb items = false /\
  two_feeders_b items = true /\
  resolve ch0 dis items = Err SortFailure /\ resolve ch_rev dis items = Err SortFailure /\
  order_ok items good = true.
Proof. exact chained_two_feeders_refuted. Qed.
Print Assumptions C10_chained_two_feeders_refuted.

Example C10_ex_one_feeder_resolved : region_of w_one_path = RRenames /\ two_feeders_b w_one_path = false /\
  exists order, resolve ch0 dis0 w_one_path = Ok order /\ order_ok w_one_path order = true.
Proof. exact one_path_resolved. Qed.

(* A region OUTSIDE the domain in which Initialize succeeds and loses an item: [collision_only_b]
   (theories/Pipeline/NameCollision.v) - two items called X and an item literally called "X_1", the node name resolve
   generates for the first X (here dis0 1 1 = 101): the two share one graph node and one slot of name2item.  The item set is
   otherwise harmless: one provider per entity, nothing unsatisfied, nothing cyclic. *)
From Herc Require Import Pipeline.NameCollision Pipeline.NameCollisionProofs.

Theorem C10_name_collision_lost_item_refuted : exists ch dis items order,
  collision_only_b dis items = true /\ max_providers items = 1%nat /\ unsatisfiedb items = false /\ cyclicb items = false /\
  resolve ch dis items = Ok order /\ ~ Permutation order items.
Proof. exact name_collision_lost_item_refuted. Qed.
Print Assumptions C10_name_collision_lost_item_refuted.
