(* Second round of C10 (definitions only; proofs in StrictProofs.v).

   1. [chain_order_ok]: the validator of the literal reading of C10 with chained providers: in the
      order, every requirement of an item is provided strictly before it and by NO item after it; the
      item itself may provide the entity again (it is then the end of the chain: RenameAnalysis).
      An item set that has such an order is not cyclic in any reading of the property, so a
      "topological sort failure" for it is a property failure; and when such an order exists, every
      correct order has this form (a provider that runs later would have to depend on the consumer).
   2. [shallow_secondb]: a region of the input space decided from the item set alone.  resolve picks
      the end of the chain of a doubly provided entity by the BreadthSort rank of the two providers,
      i.e. by their distance from the roots of the item / entity graph.  The region holds the sets in
      which the provider that requires the entity itself is NOT strictly farther from the roots than
      the other one (a node that is not reachable from a root has no rank: it reads as 0). *)
From Coq Require Import List ZArith Lia Bool.
From Herc Require Import Toposort.Model Pipeline.Resolve.
Import ListNotations.
Open Scope Z_scope.

(* ---- the strict validator ---- *)
Definition req_chain (before after : list item) (e : Z) : bool :=
  existsb (fun p => providesb p e) before && forallb (fun p => negb (providesb p e)) after.

Fixpoint positions_chain (before rest : list item) : bool :=
  match rest with
  | [] => true
  | c :: after => forallb (req_chain before after) (ireq c) && positions_chain (before ++ [c]) after
  end.

Definition chain_order_ok (items order : list item) : bool :=
  perm_b order items && positions_chain [] order.

(* ---- distance from the roots ---- *)
Definition omin (a b : option nat) : option nat :=
  match a, b with
  | Some x, Some y => Some (Nat.min x y)
  | Some x, None => Some x
  | None, _ => b
  end.

Definition osucc (a : option nat) : option nat :=
  match a with Some x => Some (Datatypes.S x) | None => None end.

(* an item without requirements is a root; otherwise one step behind the nearest required entity *)
Definition item_dist (d : list (Z * nat)) (it : item) : option nat :=
  match ireq it with
  | [] => Some O
  | l => fold_right (fun e acc => omin (osucc (aget d e)) acc) None l
  end.

(* an entity is one step behind its nearest provider *)
Definition ent_dist (items : list item) (d : list (Z * nat)) (e : Z) : option nat :=
  fold_right (fun p acc => if providesb p e then omin (osucc (item_dist d p)) acc else acc) None items.

Definition dist_round (items : list item) (d : list (Z * nat)) : list (Z * nat) :=
  flat_map (fun e => match ent_dist items d e with Some n => [(e, n)] | None => [] end) (dedupZ (entities items)).

Fixpoint dist_iter (fuel : nat) (items : list item) (d : list (Z * nat)) : list (Z * nat) :=
  match fuel with
  | O => d
  | Datatypes.S f => dist_iter f items (dist_round items d)
  end.

Definition ent_dists (items : list item) : list (Z * nat) :=
  dist_iter (Datatypes.S (length items)) items [].

Definition rank_of (d : list (Z * nat)) (it : item) : nat :=
  match item_dist d it with Some n => n | None => O end.

Definition shallow_keyb (items : list item) (d : list (Z * nat)) (e : Z) : bool :=
  match providers items e with
  | [a; b] =>
      match memZ e (ireq a), memZ e (ireq b) with
      | true, false => Nat.leb (rank_of d a) (rank_of d b)
      | false, true => Nat.leb (rank_of d b) (rank_of d a)
      | _, _ => false
      end
  | _ => false
  end.

Definition shallow_secondb (items : list item) : bool :=
  let d := ent_dists items in existsb (shallow_keyb items d) (dedupZ (entities items)).
