(* C08 - forked branches are isolated until they are merged  (Fork of every built-in item).
   Only statements, each closed by [exact], their assumptions, and non-vacuity examples.

   All theorems are about Herc.Fork.Model, the executable model that ./check replays the Go code against.
   In that model the state of a pipeline item is split EXPLICITLY into a private part (one per branch
   copy) and a shared part (one per pipeline); [fork] copies exactly the private part.  An [Item] packs
   the four types and the step function (= one Consume on one branch copy):
       it_priv it, it_shared it, it_op it, it_out it,
       it_step it : it_op it -> it_priv it -> it_shared it -> it_priv it * it_shared it * it_out it.
   The theorems quantify over EVERY [Item], hence hold for the instances of the built-in items
       bd_item people track  BurndownAnalysis   private: files (path -> line values), tick, previousTick,
                                                mergedAuthor, mergedFiles; shared: globalHistory,
                                                peopleHistories, matrix, deletions, renames, fileHistories
       rb_item          Allocator + its RBTrees private: the arena and every tree; shared: nothing
       td_item          TreeDiff                private: previousTree, previousCommit
       bc_item          BlobCache               private: cache
       tk_item size     TicksSinceStart         private: previousTick; shared: tick0, commits registry
       pl_item size     the three of them chained as in the pipeline
       sm_item ...      any item forked with ForkSamePipelineItem: nothing private, everything shared.
   bstate = { privs : list of private states, one per copy; shd : the shared state }
   act    = AStep i o  (Consume o on copy i; nothing happens if copy i does not exist)
          | AFork i n  (n new copies of copy i are appended; the origin stays)
   run acts bs = (final state, outputs).

   What these theorems do NOT say: that the Go [Fork] methods copy what the model calls private (heap
   aliasing cannot be expressed in Gallina: the model is isolated by construction).  That half is carried
   by the correspondence check of ./check C08, which mutates one copy of the REAL objects and compares
   EVERY copy with its own model state after every step.  Level: proof + correspondence, partial. *)
From Coq Require Import ZArith List Bool.
From Herc Require Import Fork.Model Fork.Proofs Fork.Lineage Fork.Items.
Import ListNotations.

Notation bstate_of it := (bstate (it_priv it) (it_shared it)) (only parsing).
Notation run_of it := (run (it_priv it) (it_shared it) (it_op it) (it_out it) (it_step it)) (only parsing).
Notation fork_of it := (fork (it_priv it) (it_shared it)) (only parsing).
Notation solo_of it := (solo (it_priv it) (it_shared it) (it_op it) (it_out it) (it_step it)) (only parsing).
(* the action does not consume a commit on copy j (forks of any copy, including j, are allowed) *)
Notation leaves_alone it j := (fun a : act (it_op it) => negb (steps_on (it_op it) j a)) (only parsing).

(* ---- 1. frame: for every item, every fork arity, every sequence of Consume calls and further forks
        on any subset of the OTHER copies, the private state of copy j is exactly what it was ---- *)
Theorem C08_frame : forall (it : Item) (acts : list (act (it_op it))) (bs : bstate_of it) (j : nat) (p : it_priv it),
  nth_error (privs bs) j = Some p ->
  forallb (leaves_alone it j) acts = true ->
  nth_error (privs (fst (run_of it acts bs))) j = Some p.
Proof. exact item_frame. Qed.
Print Assumptions C08_frame.

(* ---- 2. fork: every one of the n copies starts with the private state of the origin; the existing
        copies (the origin included) and the shared state are untouched ---- *)
Theorem C08_fork_copies : forall (it : Item) (bs : bstate_of it) (i n : nat) (p : it_priv it),
  nth_error (privs bs) i = Some p ->
  shd (fork_of it i n bs) = shd bs /\
  length (privs (fork_of it i n bs)) = (length (privs bs) + n)%nat /\
  (forall j, (j < length (privs bs))%nat -> nth_error (privs (fork_of it i n bs)) j = nth_error (privs bs) j) /\
  (forall k, (k < n)%nat -> nth_error (privs (fork_of it i n bs)) (length (privs bs) + k) = Some p).
Proof. exact item_fork_copies. Qed.
Print Assumptions C08_fork_copies.

(* ---- 3. shared only: whatever copy j reports (any function [obs] of its private state and of the shared
        state) after arbitrary activity on the other copies is computed from its OLD private state and
        the NEW shared state; so two histories of the other copies that end in the same shared state
        cannot be told apart by copy j.  The shared part of each item is the enumerated record
        (bd_shared, tk_shared, unit for TreeDiff / BlobCache / the allocator). ---- *)
Theorem C08_shared_only : forall (it : Item) (A : Type) (obs : it_priv it -> it_shared it -> A)
    (acts1 acts2 : list (act (it_op it))) (bs : bstate_of it) (j : nat) (p : it_priv it),
  nth_error (privs bs) j = Some p ->
  forallb (leaves_alone it j) acts1 = true ->
  forallb (leaves_alone it j) acts2 = true ->
  ireport it obs j (fst (run_of it acts1 bs)) = Some (obs p (shd (fst (run_of it acts1 bs)))) /\
  (shd (fst (run_of it acts1 bs)) = shd (fst (run_of it acts2 bs)) ->
   ireport it obs j (fst (run_of it acts1 bs)) = ireport it obs j (fst (run_of it acts2 bs))).
Proof. exact item_shared_only. Qed.
Print Assumptions C08_shared_only.

(* ---- 4. the private twin: if a step reads the shared state only through a view that the operations in
        use do not change (ViewDet), then inside ANY interleaving with forks the outputs of copy j and its
        final private state are those of a private, never forked instance that consumes the operations of
        copy j alone (this is the oracle the harness applies to TreeDiff, BlobCache, TicksSinceStart) ---- *)
Theorem C08_twin : forall (it : Item) (vd : ViewDet it) (acts : list (act (it_op it))) (bs : bstate_of it)
    (j : nat) (p : it_priv it) (s0 : it_shared it),
  nth_error (privs bs) j = Some p ->
  vd_view it vd s0 = vd_view it vd (shd bs) ->
  forallb (iact_ok it vd) acts = true ->
  outs_of (it_op it) (it_out it) j acts (snd (run_of it acts bs)) = snd (solo_of it (ops_of (it_op it) j acts) p s0) /\
  nth_error (privs (fst (run_of it acts bs))) j = Some (fst (fst (solo_of it (ops_of (it_op it) j acts) p s0))).
Proof. exact item_twin. Qed.
Print Assumptions C08_twin.

(* C08_twin for the built-in plumbing items.  TreeDiff, BlobCache (and the allocator with its trees) read
   no shared state at all: no side condition.  TicksSinceStart and the chained pipeline read only tick0,
   which only a commit with index 0 (the first commit of the run) writes: the side condition is that no
   such commit is consumed during [acts], and the twin starts from a shared state with the same tick0. *)
Theorem C08_twin_treediff : forall (acts : list (act commit)) (bs : bstate td_priv unit) (j : nat) (p : td_priv),
  nth_error (privs bs) j = Some p ->
  outs_of commit (option (list tchange)) j acts (snd (run td_priv unit commit (option (list tchange)) td_step acts bs))
    = snd (solo td_priv unit commit (option (list tchange)) td_step (ops_of commit j acts) p tt) /\
  nth_error (privs (fst (run td_priv unit commit (option (list tchange)) td_step acts bs))) j
    = Some (fst (fst (solo td_priv unit commit (option (list tchange)) td_step (ops_of commit j acts) p tt))).
Proof. exact td_twin. Qed.
Print Assumptions C08_twin_treediff.

Theorem C08_twin_blobcache : forall (acts : list (act (list tchange))) (bs : bstate (list Z) unit) (j : nat) (p : list Z),
  nth_error (privs bs) j = Some p ->
  outs_of (list tchange) (list Z) j acts (snd (run (list Z) unit (list tchange) (list Z) bc_step acts bs))
    = snd (solo (list Z) unit (list tchange) (list Z) bc_step (ops_of (list tchange) j acts) p tt) /\
  nth_error (privs (fst (run (list Z) unit (list tchange) (list Z) bc_step acts bs))) j
    = Some (fst (fst (solo (list Z) unit (list tchange) (list Z) bc_step (ops_of (list tchange) j acts) p tt))).
Proof. exact bc_twin. Qed.
Print Assumptions C08_twin_blobcache.

Theorem C08_twin_allocator : forall (acts : list (act rb_op)) (bs : bstate rb_priv unit) (j : nat) (p : rb_priv),
  nth_error (privs bs) j = Some p ->
  outs_of rb_op bool j acts (snd (run rb_priv unit rb_op bool rb_step acts bs))
    = snd (solo rb_priv unit rb_op bool rb_step (ops_of rb_op j acts) p tt) /\
  nth_error (privs (fst (run rb_priv unit rb_op bool rb_step acts bs))) j
    = Some (fst (fst (solo rb_priv unit rb_op bool rb_step (ops_of rb_op j acts) p tt))).
Proof. exact rb_twin. Qed.
Print Assumptions C08_twin_allocator.

Theorem C08_twin_ticks : forall (size : Z) (acts : list (act (commit * Z))) (bs : bstate Z tk_shared) (j : nat) (p : Z) (s0 : tk_shared),
  nth_error (privs bs) j = Some p ->
  ts_tick0 s0 = ts_tick0 (shd bs) ->
  forallb (fun a => match a with AStep _ o => negb (Z.eqb (snd o) 0) | AFork _ _ => true end) acts = true ->
  outs_of (commit * Z) Z j acts (snd (run Z tk_shared (commit * Z) Z (tk_step size) acts bs))
    = snd (solo Z tk_shared (commit * Z) Z (tk_step size) (ops_of (commit * Z) j acts) p s0) /\
  nth_error (privs (fst (run Z tk_shared (commit * Z) Z (tk_step size) acts bs))) j
    = Some (fst (fst (solo Z tk_shared (commit * Z) Z (tk_step size) (ops_of (commit * Z) j acts) p s0))).
Proof. exact tk_twin. Qed.
Print Assumptions C08_twin_ticks.

Theorem C08_twin_pipeline : forall (size : Z) (acts : list (act (commit * Z))) (bs : bstate pl_priv tk_shared) (j : nat)
    (p : pl_priv) (s0 : tk_shared),
  nth_error (privs bs) j = Some p ->
  ts_tick0 s0 = ts_tick0 (shd bs) ->
  forallb (fun a => match a with AStep _ o => negb (Z.eqb (snd o) 0) | AFork _ _ => true end) acts = true ->
  outs_of (commit * Z) pl_out j acts (snd (run pl_priv tk_shared (commit * Z) pl_out (pl_step size) acts bs))
    = snd (solo pl_priv tk_shared (commit * Z) pl_out (pl_step size) (ops_of (commit * Z) j acts) p s0) /\
  nth_error (privs (fst (run pl_priv tk_shared (commit * Z) pl_out (pl_step size) acts bs))) j
    = Some (fst (fst (solo pl_priv tk_shared (commit * Z) pl_out (pl_step size) (ops_of (commit * Z) j acts) p s0))).
Proof. exact pl_twin. Qed.
Print Assumptions C08_twin_pipeline.

(* ---- 4b. the twin of a copy made by forks of forks.  lin_run computes, for every copy, the index r of its
        root ancestor in the initial state and its lineage ops: the operations consumed by its chain of
        ancestors up to each fork, then by the copy itself (AStep i o appends o to the lineage of i,
        AFork i n appends n copies of the lineage of i).  At every moment every copy is in the state of a
        fresh never-forked instance that started from the root's state and consumed the lineage, and
        the next Consume on it answers what that instance answers.  This is literally the oracle of the
        pl stream of the harness (it replays the branch-local history on fresh instances). ---- *)
Theorem C08_lineage_twin : forall (it : Item) (vd : ViewDet it) (acts : list (act (it_op it))) (bs : bstate_of it)
    (s0 : it_shared it) (j r : nat) (ops : list (it_op it)),
  vd_view it vd s0 = vd_view it vd (shd bs) ->
  forallb (iact_ok it vd) acts = true ->
  nth_error (lin_run (it_op it) acts (lin_init (it_op it) (length (privs bs)))) j = Some (r, ops) ->
  exists p0, nth_error (privs bs) r = Some p0 /\
    nth_error (privs (fst (run_of it acts bs))) j = Some (fst (fst (solo_of it ops p0 s0))) /\
    forall o, snd (step_on (it_priv it) (it_shared it) (it_op it) (it_out it) (it_step it) j o (fst (run_of it acts bs)))
              = Some (snd (it_step it o (fst (fst (solo_of it ops p0 s0))) (snd (fst (solo_of it ops p0 s0))))).
Proof. exact item_lineage_twin. Qed.
Print Assumptions C08_lineage_twin.

Theorem C08_lineage_twin_pipeline : forall (size : Z) (acts : list (act (commit * Z))) (bs : bstate pl_priv tk_shared)
    (s0 : tk_shared) (j r : nat) (ops : list (commit * Z)),
  ts_tick0 s0 = ts_tick0 (shd bs) ->
  forallb (fun a => match a with AStep _ o => negb (Z.eqb (snd o) 0) | AFork _ _ => true end) acts = true ->
  nth_error (lin_run (commit * Z) acts (lin_init (commit * Z) (length (privs bs)))) j = Some (r, ops) ->
  exists p0, nth_error (privs bs) r = Some p0 /\
    nth_error (privs (fst (run pl_priv tk_shared (commit * Z) pl_out (pl_step size) acts bs))) j
      = Some (fst (fst (solo pl_priv tk_shared (commit * Z) pl_out (pl_step size) ops p0 s0))) /\
    forall o, snd (step_on pl_priv tk_shared (commit * Z) pl_out (pl_step size) j o
                     (fst (run pl_priv tk_shared (commit * Z) pl_out (pl_step size) acts bs)))
              = Some (snd (pl_step size o (fst (fst (solo pl_priv tk_shared (commit * Z) pl_out (pl_step size) ops p0 s0)))
                                          (snd (fst (solo pl_priv tk_shared (commit * Z) pl_out (pl_step size) ops p0 s0))))).
Proof. exact pl_lineage_twin. Qed.
Print Assumptions C08_lineage_twin_pipeline.

(* ---- 5. the burndown instance spelled out: the tracked files of a sibling stay exactly as they were ---- *)
Theorem C08_burndown_files : forall (people track : bool) (acts : list (act bd_op)) (bs : bstate bd_priv bd_shared)
    (j : nat) (p : bd_priv),
  nth_error (privs bs) j = Some p ->
  forallb (fun a => negb (steps_on bd_op j a)) acts = true ->
  option_map bp_files (nth_error (privs (fst (run bd_priv bd_shared bd_op bd_out (bd_step people track) acts bs))) j)
  = Some (bp_files p).
Proof. exact bd_files_frame. Qed.
Print Assumptions C08_burndown_files.

(* ---- 6. items forked with ForkSamePipelineItem: a Consume on any copy is a Consume on the one state
        every copy sees; nothing is private ---- *)
Theorem C08_same_item_shares_everything : forall (St Op Rs : Type) (consume : Op -> St -> St * Rs) (i : nat) (o : Op)
    (bs : bstate unit St),
  nth_error (privs bs) i = Some tt ->
  shd (fst (step_on unit St Op Rs (sm_step St Op Rs consume) i o bs)) = fst (consume o (shd bs)) /\
  privs (fst (step_on unit St Op Rs (sm_step St Op Rs consume) i o bs)) = privs bs.
Proof. exact sm_all_shared. Qed.
Print Assumptions C08_same_item_shares_everything.

(* ------------------------------------------------------------------------------------------ *)
(* Non-vacuity *)
Open Scope Z_scope.

(* one file of three lines, then Fork(2): three copies *)
Definition ex_prefix : list (act bd_op) :=
  [AStep 0%nat (BCommit AUTHOR_MISSING 0 false [CIns 1 3 false]); AFork 0%nat 2%nat].
Definition ex_bs : bstate bd_priv bd_shared :=
  fst (run bd_priv bd_shared bd_op bd_out (bd_step false false) ex_prefix bd_init).

(* C08_frame / C08_fork_copies / C08_burndown_files: the hypotheses hold, the step on copy 1 is not a no-op
   (its file and the shared history change), copies 0 and 2 keep their file *)
Example C08_frame_nonvacuous :
  let acts := [AStep 1%nat (BCommit AUTHOR_MISSING 1 false [CMod 1 1 3 false 4 false 3 4 [(DEq, 1); (DIns, 1)]])] in
  map bp_files (privs ex_bs) = [[(1, [0; 0; 0])]; [(1, [0; 0; 0])]; [(1, [0; 0; 0])]] /\
  forallb (fun a => negb (steps_on bd_op 0 a)) acts = true /\
  forallb (fun a => negb (steps_on bd_op 2 a)) acts = true /\
  map bp_files (privs (fst (run bd_priv bd_shared bd_op bd_out (bd_step false false) acts ex_bs)))
    = [[(1, [0; 0; 0])]; [(1, [0; 1; 0; 0])]; [(1, [0; 0; 0])]] /\
  snd (run bd_priv bd_shared bd_op bd_out (bd_step false false) acts ex_bs) = [Some BOk] /\
  bs_global (shd ex_bs) = [([0; 0], 3)] /\
  bs_global (shd (fst (run bd_priv bd_shared bd_op bd_out (bd_step false false) acts ex_bs))) = [([0; 0], 3); ([1; 1], 1)].
Proof. vm_compute. repeat split; reflexivity. Qed.

(* C08_shared_only: the shared bookkeeping IS a channel between branches.  Copy 1 deletes file 1 in a merge
   commit.  If copy 0 has deleted the same path before, the shared [deletions] entry makes the deletion
   silent; if not, the three lines are reported as removed at tick 0.  The files of copy 1 are the same in
   both histories; the difference is visible in the shared history only. *)
Example C08_shared_channel_is_real :
  let ex2 := fst (run bd_priv bd_shared bd_op bd_out (bd_step false false)
                  [AStep 0%nat (BCommit AUTHOR_MISSING 0 false [CIns 1 3 false]); AFork 0%nat 1%nat] bd_init) in
  let on0 := AStep 0%nat (BCommit AUTHOR_MISSING 1 false [CDel 1 3 false]) in
  let on1 := AStep 1%nat (BCommit AUTHOR_MISSING 2 true [CDel 1 3 false]) in
  let a := fst (run bd_priv bd_shared bd_op bd_out (bd_step false false) [on0; on1] ex2) in
  let b := fst (run bd_priv bd_shared bd_op bd_out (bd_step false false) [on1] ex2) in
  option_map bp_files (nth_error (privs a) 1) = Some [] /\
  option_map bp_files (nth_error (privs b) 1) = Some [] /\
  bs_global (shd a) = [([0; 0], 3); ([1; 0], -3)] /\
  bs_global (shd b) = [([0; 0], 0)].
Proof. vm_compute. repeat split; reflexivity. Qed.

(* C08_twin on the chained plumbing items: a trunk commit, Fork(1), two different children consumed in
   interleaved order; every action is allowed by the view (only the first commit has index 0 ... and it is
   consumed before the fork, which is outside [acts]); both copies answer like their private twins *)
Definition ex_c1 := Commit 1 [] 1262304000 [(1, 1); (2, 2)].
Definition ex_c2 := Commit 2 [1] 1262400000 [(1, 3); (2, 2)].
Definition ex_c3 := Commit 3 [1] 1262500000 [(2, 2); (4, 4)].
Definition ex_c4 := Commit 4 [2] 1262600000 [(2, 5)].
Definition ex_pl0 : bstate pl_priv tk_shared :=
  fst (run pl_priv tk_shared (commit * Z) pl_out (pl_step 86400) [AStep 0%nat (ex_c1, 0); AFork 0%nat 1%nat] pl_init).
Definition ex_pl_acts : list (act (commit * Z)) :=
  [AStep 0%nat (ex_c2, 1); AStep 1%nat (ex_c3, 1); AStep 0%nat (ex_c4, 2)].

Example C08_twin_nonvacuous :
  forallb (fun a => match a with AStep _ o => negb (Z.eqb (snd o) 0) | AFork _ _ => true end) ex_pl_acts = true /\
  outs_of (commit * Z) pl_out 0 ex_pl_acts (snd (run pl_priv tk_shared (commit * Z) pl_out (pl_step 86400) ex_pl_acts ex_pl0))
    = [PO (Some [TMod 1 1 3]) [1; 3] 1; PO (Some [TDel 1 3; TMod 2 2 5]) [2; 3; 5] 3] /\
  outs_of (commit * Z) pl_out 1 ex_pl_acts (snd (run pl_priv tk_shared (commit * Z) pl_out (pl_step 86400) ex_pl_acts ex_pl0))
    = [PO (Some [TDel 1 1; TIns 4 4]) [1; 4] 2] /\
  map pp_td (privs (fst (run pl_priv tk_shared (commit * Z) pl_out (pl_step 86400) ex_pl_acts ex_pl0)))
    = [TP (Some [(2, 5)]) 4; TP (Some [(2, 2); (4, 4)]) 3].
Proof. vm_compute. repeat split; reflexivity. Qed.

(* C08_lineage_twin: copy 1 of the example was made by the fork inside the run; its lineage is the trunk
   commit followed by its own commit, rooted at copy 0 *)
Example C08_lineage_nonvacuous :
  let acts := [AStep 0%nat (ex_c1, 1); AFork 0%nat 1%nat; AStep 0%nat (ex_c2, 2); AStep 1%nat (ex_c3, 2)] in
  nth_error (lin_run (commit * Z) acts (lin_init (commit * Z) 1)) 1 = Some (0%nat, [(ex_c1, 1); (ex_c3, 2)]) /\
  nth_error (lin_run (commit * Z) acts (lin_init (commit * Z) 1)) 0 = Some (0%nat, [(ex_c1, 1); (ex_c2, 2)]) /\
  forallb (fun a => match a with AStep _ o => negb (Z.eqb (snd o) 0) | AFork _ _ => true end) acts = true.
Proof. vm_compute. repeat split; reflexivity. Qed.

(* a refused commit (not a child of the previous one) leaves the private state alone *)
Example C08_treediff_refuses_foreign_commit :
  snd (td_step ex_c4 (TP (Some [(1, 1); (2, 2)]) 1) tt) = None /\
  fst (fst (td_step ex_c4 (TP (Some [(1, 1); (2, 2)]) 1) tt)) = TP (Some [(1, 1); (2, 2)]) 1.
Proof. vm_compute. split; reflexivity. Qed.
