// Crash isolation for the C13 harness.  RenameAnalysis.Consume runs its two matchers in goroutines of their own: a
// panic there (an index out of range inside blobsAreClose, say) cannot be recovered by the caller and kills the
// process; a protocol error leaves Consume blocked for ever.  The harness therefore generates the cases in a
// supervisor and runs them in child processes: a batch of inputs is written as a replay file, the child (the same
// binary, C13_CHILD=1) runs every case and appends the complete case line to a result file, one write per case.  When
// the child dies with a Go panic / fatal error, the case after the last complete line is recorded with the outcome
// (res crash) - which the driver reports as a property failure with that input, and whose replay crashes the child
// again - and a new child continues with the rest of the batch.  A case that does not return within C13_RUN_LIMIT
// seconds (default 600; the largest case of the thorough tier takes about a minute) is killed and recorded as
// (res hang).  Any other failure of the child (a report of the race detector, an internal error of the harness) is
// passed on as a failure of the harness.
package main

import (
	"bufio"
	"bytes"
	"fmt"
	"os"
	"os/exec"
	"strconv"
	"strings"
	"time"

	. "verifharness/lib"
)

var isChild = os.Getenv("C13_CHILD") != ""

var resFile *os.File

// writeResult (child): one complete case line per write
func writeResult(c *Config, fields []Sx) {
	if resFile == nil {
		f, err := os.OpenFile(os.Getenv("C13_RES"), os.O_WRONLY|os.O_CREATE|os.O_TRUNC, 0o644)
		if err != nil {
			fmt.Fprintln(os.Stderr, "c13 child:", err)
			os.Exit(3)
		}
		resFile = f
	}
	l := append([]Sx{A("case"), I(c.N)}, fields...)
	c.N++
	if _, err := resFile.WriteString(Sx{List: l, IsL: true}.String() + "\n"); err != nil {
		fmt.Fprintln(os.Stderr, "c13 child:", err)
		os.Exit(3)
	}
}

var pending []*tcase
var pendingWeight int

func enqueue(c *Config, tc *tcase) {
	pending = append(pending, tc)
	pendingWeight += len(tc.changes) + len(tc.blobs) + 8
	if len(pending) >= 3000 || pendingWeight >= 400000 {
		flushPending(c)
	}
}

func inputLine(k int, tc *tcase) string {
	fields := caseFields(tc)
	if tc.calFrac > 0 {
		fields = append(fields, T("calppm", I(int(tc.calFrac*1e6))))
	}
	l := append([]Sx{A("case"), I(k)}, fields...)
	l = append(l, T("obs"))
	return Sx{List: l, IsL: true}.String()
}

// renumber replaces the case number of a complete case line
func renumber(line string, n int) string {
	rest := strings.TrimPrefix(line, "(case ")
	if i := strings.IndexByte(rest, ' '); i >= 0 {
		return "(case " + strconv.Itoa(n) + rest[i:]
	}
	return line
}

// the supervisor writes the trace itself (complete lines of the children are copied, not parsed again)
var traceW *bufio.Writer

func emitRaw(c *Config, line string) {
	if traceW == nil {
		f, err := os.OpenFile(c.Out, os.O_WRONLY|os.O_APPEND|os.O_CREATE, 0o644)
		if err != nil {
			fmt.Fprintln(os.Stderr, err)
			os.Exit(2)
		}
		traceW = bufio.NewWriterSize(f, 1<<20)
	}
	traceW.WriteString(renumber(line, c.N))
	traceW.WriteByte('\n')
	c.N++
}

func crashLine(c *Config, tc *tcase, class string) {
	sizes := make([]Sx, len(tc.blobs))
	for i, b := range tc.blobs {
		sizes[i] = I(len(b.desc.data()))
	}
	l := append([]Sx{A("case"), I(0)}, caseFields(tc)...)
	l = append(l, T("obs", T("sizes", sizes...), T("res", A(class))))
	emitRaw(c, Sx{List: l, IsL: true}.String())
}

func flushPending(c *Config) {
	if isChild || len(pending) == 0 {
		return
	}
	defer func() {
		if traceW != nil {
			traceW.Flush()
		}
	}()
	limit := 600 * time.Second
	if v, e := strconv.Atoi(os.Getenv("C13_RUN_LIMIT")); e == nil && v > 0 {
		limit = time.Duration(v) * time.Second
	}
	batch := pending
	pending, pendingWeight = nil, 0
	start := 0
	for start < len(batch) {
		in, err := os.CreateTemp("", "c13-batch-*.txt")
		if err != nil {
			fmt.Fprintln(os.Stderr, err)
			os.Exit(2)
		}
		w := bufio.NewWriterSize(in, 1<<20)
		for k := start; k < len(batch); k++ {
			w.WriteString(inputLine(k-start, batch[k]))
			w.WriteByte('\n')
		}
		w.Flush()
		in.Close()
		res := in.Name() + ".res"
		cmd := exec.Command(os.Args[0], "-replay", in.Name(), "-out", os.DevNull, "-tier", c.Tier)
		cmd.Env = append(os.Environ(), "C13_CHILD=1", "C13_RES="+res)
		var stderr bytes.Buffer
		cmd.Stderr = &stderr
		if err = cmd.Start(); err != nil {
			fmt.Fprintln(os.Stderr, err)
			os.Exit(2)
		}
		done := make(chan error, 1)
		go func() { done <- cmd.Wait() }()
		hung := false
		var runErr error
		lastSize, lastChange := int64(-1), time.Now()
	wait:
		for {
			select {
			case runErr = <-done:
				break wait
			case <-time.After(500 * time.Millisecond):
				if st, e := os.Stat(res); e == nil && st.Size() != lastSize {
					lastSize, lastChange = st.Size(), time.Now()
				} else if time.Since(lastChange) > limit {
					hung = true
					cmd.Process.Kill()
					runErr = <-done
					break wait
				}
			}
		}
		os.Remove(in.Name())
		// the complete lines of the result file are the cases the child finished
		finished := 0
		if f, e := os.Open(res); e == nil {
			rd := bufio.NewReaderSize(f, 1<<20)
			for {
				line, e := rd.ReadString('\n')
				if e != nil || !strings.HasSuffix(line, ")\n") {
					break // the end, or a line cut short by the death of the child
				}
				if start+finished >= len(batch) {
					break
				}
				emitRaw(c, strings.TrimSuffix(line, "\n"))
				finished++
			}
			f.Close()
		}
		os.Remove(res)
		if runErr == nil {
			if start+finished != len(batch) {
				fmt.Fprintln(os.Stderr, "c13: the child returned too few results")
				os.Exit(2)
			}
			return
		}
		msg := stderr.String()
		crashed := (strings.Contains(msg, "panic:") || strings.Contains(msg, "fatal error:")) && !strings.Contains(msg, "DATA RACE")
		if !(hung || crashed) || start+finished >= len(batch) {
			if len(msg) > 6000 {
				msg = msg[:6000]
			}
			fmt.Fprintln(os.Stderr, "c13: the child failed:", runErr, "\n"+msg)
			code := 2
			if ee, ok := runErr.(*exec.ExitError); ok && ee.ExitCode() > 0 {
				code = ee.ExitCode()
			}
			if traceW != nil {
				traceW.Flush()
			}
			os.Exit(code)
		}
		class := "crash"
		if hung {
			class = "hang"
		}
		crashLine(c, batch[start+finished], class)
		start += finished + 1
	}
}
