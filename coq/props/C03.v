(* C03 - the line-interval tracker (internal/burndown/file.go: NewFile, Update, updateTime, Len, flatten)
   is equivalent to a plain array of per-line values.
   Only statements closed by [exact] and their assumptions; the proofs are in coq/theories/File.

   Vocabulary (coq/theories/File/Model.v and Spec.v, all executable):
     update t pos ins del s : result (state * list (cur, prev, delta))    File.Update on the node list s
     new_file t n, run_file t0 n0 ops                                      NewFile, NewFile followed by Updates
     flatten s, len s                                                      File.flatten, File.Len
     arr_update t pos ins del a = firstn pos a ++ repeat t ins ++ skipn (pos+del) a     the plain array edit
     hist v a = number of lines of a with value v; sumv v ds = sum of the reported deltas with previousTime = v
     WF s = first key 0, keys strictly increasing, last value TreeEnd, Len <= 2^32-1  (keys are uint32)
     is_mark v = (v land TreeMergeMark =? TreeMergeMark); values are opaque uint32 (tick | author << 14)
     validb t pos ins del a: the domain, stated on the array (C03_domain below spells it out), incl. the
       uint32 side condition "the new length fits a uint32" and "a deleted line carrying the merge mark
       carries the operation's own tick" (otherwise updateTime panics by design). *)
From Coq Require Import List ZArith.
From Herc Require Import File.Model File.Spec File.Sequences File.Unrepaired.
Import ListNotations.
Open Scope Z_scope.

(* the domain predicate and the well-formedness check say what they should *)
Theorem C03_domain : forall t pos ins del a,
  validb t pos ins del a = true <->
  (0 <= t < MaxU32 /\ 0 <= pos /\ 0 <= ins /\ 0 <= del /\ pos + del <= alen a /\
   alen a + ins - del <= MaxU32 /\
   forall v, In v (firstn (Z.to_nat del) (skipn (Z.to_nat pos) a)) -> is_mark v = true -> v = t).
Proof. exact validb_spec. Qed.
Print Assumptions C03_domain.

Theorem C03_wfb : forall s, wfb s = true <-> WF s.
Proof. exact wfb_WF. Qed.
Print Assumptions C03_wfb.

(* one operation: same lines, same length as the plain array; well-formedness is preserved *)
Theorem C03_update_refines : forall t pos ins del s,
  WF s -> validb t pos ins del (flatten s) = true ->
  exists s' ds, update t pos ins del s = Ok (s', ds) /\ WF s' /\
    flatten s' = arr_update t pos ins del (flatten s) /\ len s' = len s + ins - del.
Proof. exact update_refines_valid. Qed.
Print Assumptions C03_update_refines.

(* the running histogram: per value, the reported deltas are exactly the change of the array's histogram *)
Theorem C03_update_deltas : forall t pos ins del s s' ds,
  WF s -> validb t pos ins del (flatten s) = true -> is_mark t = false ->
  update t pos ins del s = Ok (s', ds) ->
  forall v, hist v (flatten s') = hist v (flatten s) + sumv v ds.
Proof. exact update_deltas_valid. Qed.
Print Assumptions C03_update_deltas.

(* operations stamped with the merge mark report nothing *)
Theorem C03_update_silent_on_mark : forall t pos ins del s s' ds,
  WF s -> validb t pos ins del (flatten s) = true -> is_mark t = true ->
  update t pos ins del s = Ok (s', ds) -> ds = [].
Proof. exact update_silent_valid. Qed.
Print Assumptions C03_update_silent_on_mark.

(* out-of-range requests are rejected with a panic, never silently accepted: negative arguments, tick or
   position or lengths beyond uint32, and - for every request that inserts or deletes something - a position
   beyond the end or a deletion running past the end.  The EMPTY request beyond the end is the exception:
   it is not rejected (C03_update_empty_request_beyond_end_refuted, known finding F18). *)
Theorem C03_update_rejects : forall t pos ins del s,
  WF s ->
  (t < 0 \/ MaxU32 <= t \/ pos < 0 \/ MaxU32 < pos \/ ins < 0 \/ del < 0 \/ MaxU32 < ins \/ MaxU32 < del \/
   ((ins <> 0 \/ del <> 0) /\ (len s < pos \/ len s < pos + del))) ->
  exists c, update t pos ins del s = Panic c.
Proof. exact update_rejects_prop. Qed.
Print Assumptions C03_update_rejects.

(* in range, but a deleted line carries the merge mark with a tick other than the operation's: updateTime
   panics ("previousTime cannot be TreeMergeMark"); together with C03_update_refines, C03_update_rejects and
   C03_update_empty_request this decides every request whose new length fits a uint32 *)
Theorem C03_update_mark_conflict : forall t pos ins del s,
  WF s -> in_rangeb t pos ins del (flatten s) = true -> mark_okb t pos del (flatten s) = false ->
  exists c, update t pos ins del s = Panic c.
Proof. exact update_mark_conflict. Qed.
Print Assumptions C03_update_mark_conflict.

(* the only request outside [0, Len] that does not panic is the empty one; it changes nothing and reports nothing *)
Theorem C03_update_empty_request : forall t pos s,
  0 <= t < MaxU32 -> 0 <= pos <= MaxU32 -> update t pos 0 0 s = Ok (s, []).
Proof. exact Rejects.update_noop. Qed.
Print Assumptions C03_update_empty_request.

(* ... but by the letter of the property ("a position beyond the end ... rejected with a panic and never silently
   accepted") it should panic: the clause is FALSE of the code for empty requests.  Witness: a 10-line file,
   Update(1, 12, 0, 0) returns without a panic (the `insLength|delLength == 0` return precedes the end-of-file test).
   Known finding F18; the harness kinds *-emptybeyond replay it on the Go code. *)
Theorem C03_update_empty_request_beyond_end_refuted :
  exists s t pos, WF s /\ 0 <= t < MaxU32 /\ len s < pos <= MaxU32 /\ update t pos 0 0 s = Ok (s, []).
Proof. exact empty_request_beyond_end_refuted. Qed.
Print Assumptions C03_update_empty_request_beyond_end_refuted.

(* NewFile *)
Theorem C03_new_file : forall t0 n0, 0 <= t0 <= MaxU32 -> 0 <= n0 <= MaxU32 ->
  exists s, new_file t0 n0 = Ok (s, if is_mark t0 then [] else [(t0, t0, n0)]) /\ WF s /\
    flatten s = repeat t0 (Z.to_nat n0) /\ len s = n0.
Proof. exact new_file_plain. Qed.
Print Assumptions C03_new_file.

(* arbitrary operation sequences from NewFile: every reachable state is well formed, its lines and length
   are those of the plain array, and per value the observers have accumulated exactly the histogram changes
   of the operations that are not stamped with the merge mark (plus the initial lines) *)
Theorem C03_sequences : forall t0 n0 ops,
  0 <= t0 <= MaxU32 -> 0 <= n0 <= MaxU32 ->
  ops_validb (repeat t0 (Z.to_nat n0)) ops = true ->
  exists s ds, run_file t0 n0 ops = Ok (s, ds) /\ WF s /\
    flatten s = arr_run (repeat t0 (Z.to_nat n0)) ops /\
    len s = alen (arr_run (repeat t0 (Z.to_nat n0)) ops) /\
    forall v, sumv v ds =
      (if is_mark t0 then 0 else hist v (repeat t0 (Z.to_nat n0))) + expected_sum v (repeat t0 (Z.to_nat n0)) ops.
Proof. exact sequences. Qed.
Print Assumptions C03_sequences.

(* without merge marks: the running histogram kept from the reported deltas IS the histogram of the lines *)
Theorem C03_sequences_histogram : forall t0 n0 ops,
  0 <= t0 <= MaxU32 -> 0 <= n0 <= MaxU32 -> is_mark t0 = false -> no_mark_ops ops = true ->
  ops_validb (repeat t0 (Z.to_nat n0)) ops = true ->
  exists s ds, run_file t0 n0 ops = Ok (s, ds) /\ forall v, hist v (flatten s) = sumv v ds.
Proof. exact sequences_histogram. Qed.
Print Assumptions C03_sequences_histogram.

(* the defect repaired by the F2 fix: on the model of the code before the fix the two witnesses are valid,
   accepted without a panic, and end with lines that differ from the plain array *)
Theorem C03_update_refuted_before_fix :
  forall ops, ops = [(1, 2, 3, 0); (1, 1, 0, 3)] \/ ops = [(1, 3, 1, 0); (1, 0, 1, 0); (1, 3, 2, 2)] ->
    ops_validb (repeat 0 3) ops = true /\
    exists s, run_unrepaired ops [(0, 0); (3, TreeEnd)] = Some s /\ flatten s <> arr_run (repeat 0 3) ops.
Proof. exact update_refuted_before_fix. Qed.
Print Assumptions C03_update_refuted_before_fix.

(* ---------- non-vacuity ---------- *)
(* a four-interval state with a packed author; a replacement that deletes across three intervals with the
   tick of a wholly deleted later interval *)
Definition ex_state : list (Z * Z) := [(0, 5); (2, 7 + 3 * 16384); (4, 5); (9, TreeEnd)].
Example C03_ex_wf : WF ex_state.
Proof. apply wfb_WF. vm_compute. reflexivity. Qed.
Example C03_ex_valid : validb (7 + 3 * 16384) 1 2 5 (flatten ex_state) = true.
Proof. vm_compute. reflexivity. Qed.
Example C03_ex_update :
  exists s' ds, update (7 + 3 * 16384) 1 2 5 ex_state = Ok (s', ds) /\
    flatten s' = [5; 49159; 49159; 5; 5; 5] /\ ds = [(49159, 49159, 2); (49159, 5, -1); (49159, 49159, -2); (49159, 5, -2)].
Proof. eexists. eexists. vm_compute. repeat split. Qed.
(* rejection: every listed kind of out-of-range request on that state *)
Example C03_ex_rejects :
  forallb (fun o => match o with (t, p, i, d) =>
     match update t p i d ex_state with Panic _ => true | Ok _ => false end end)
    [(-1, 0, 1, 0); (MaxU32, 0, 1, 0); (1, -1, 1, 0); (1, 10, 1, 0); (1, 9, 0, 1); (1, 3, 0, 7); (1, 0, -1, 0);
     (1, 0, 0, -1); (1, 0, 4294967296, 0); (1, 0, 0, 4294967296 + 5); (1, 4294967296, 1, 0)] = true.
Proof. vm_compute. reflexivity. Qed.
(* a valid sequence with a merge-marked operation and a later deletion of the marked lines with the mark's own tick *)
Example C03_ex_sequence :
  ops_validb (repeat 3 (Z.to_nat 6)) [(4, 2, 2, 1); (16383, 0, 3, 2); (16383, 1, 0, 2); (5, 1, 1, 4)] = true.
Proof. vm_compute. reflexivity. Qed.
Example C03_ex_mark_conflict :
  in_rangeb 9 0 0 2 [16383; 5; 5] = true /\ mark_okb 9 0 2 [16383; 5; 5] = false /\
  update 9 0 0 2 [(0, 16383); (1, 5); (3, TreeEnd)] = Panic PMark.
Proof. vm_compute. repeat split. Qed.
Example C03_ex_mark_silent :
  exists s ds, update 16383 1 2 3 ex_state = Ok (s, ds) /\ ds = [].
Proof. eexists. eexists. vm_compute. split; reflexivity. Qed.
