(* Composition of the two plan validators.

   C02 (theories/Plan) validates the run plans of the real planner with [Plan.Checker.plan_ok] over a commit
   graph given as parent lists of nat; C01 (theories/Burndown) assumes of the plan it replays that
   [Replay.plan_okb] accepts it.  This file translates the syntax of C02 into the syntax of C01 and proves
   that a plan accepted by plan_ok is accepted by plan_okb, provided every commit of the history is analysed
   (C02 only demands the largest connected component; C01 demands every commit exactly once).

   Depends only on definitions and facts of the two developments; nothing is assumed. *)
From Coq Require Import List ZArith Lia Bool Arith Permutation.
From Herc Require Import Burndown.Base Burndown.Lifetimes Burndown.LifetimesFacts Burndown.Analysis
  Burndown.Replay Burndown.AncFacts.
From Herc Require Plan.Syntax Plan.Exec Plan.Graph Plan.Checker Plan.Spec Plan.Lifecycle Plan.GraphProofs
  Plan.ExecProofs Plan.CheckerLemmas Plan.CheckerSound.
Import ListNotations.
Open Scope Z_scope.

Module PS := Herc.Plan.Syntax.
Module PE := Herc.Plan.Exec.
Module PG := Herc.Plan.Graph.
Module PC := Herc.Plan.Checker.
Module PP := Herc.Plan.Spec.
Module PL := Herc.Plan.Lifecycle.
Module PGP := Herc.Plan.GraphProofs.
Module PEP := Herc.Plan.ExecProofs.
Module PCL := Herc.Plan.CheckerLemmas.
Module PCS := Herc.Plan.CheckerSound.

(* ---------- the translation ---------- *)

Definition graph_of (h : hist) : list (list nat) := map (map Z.to_nat) (h_parents h).

Definition tr_action (a : PS.action) : action :=
  match PS.kind a, PS.commit a, PS.items a with
  | PS.KCommit, Some c, b :: _ => ACommit (Z.of_nat c) b
  | PS.KEmerge, _, b :: _ => AEmerge b
  | PS.KFork, _, b :: ts => AFork b ts
  | PS.KMerge, _, bs => AMerge bs
  | PS.KDelete, _, b :: _ => ADelete b
  | PS.KHibernate, _, bs => AHibernate bs
  | PS.KBoot, _, bs => ABoot bs
  | _, _, _ => AHibernate []        (* ill-shaped: rejected by plan_ok anyway *)
  end.

Definition tr_plan (p : list PS.action) : list action := map tr_action p.

(* ---------- non-vacuity: the diamond of props/C02.v (C02_accepts_diamond) is the plan [ex_dag_plan] of
   props/C01.v, and both validators accept it ---------- *)

Definition diamond_hist : hist := mkHist [[]; [0]; [0]; [1; 2]] [0; 1; 1; 3] [0; 1; 0; 1] [].
Definition diamond_plan02 : list PS.action :=
  [PS.emerge 1 (Some 0%nat); PS.commit_on 0 1; PS.mkA PS.KFork (Some 0%nat) [1; 2]; PS.commit_on 1 1;
   PS.commit_on 2 2; PS.commit_on 3 1; PS.commit_on 3 2; PS.merge_of [1; 2]; PS.delete 2].
(* = ex_dag_plan of props/C01.v *)
Definition diamond_plan01 : list action :=
  [AEmerge 1; ACommit 0 1; AFork 1 [2]; ACommit 1 1; ACommit 2 2; ACommit 3 1; ACommit 3 2; AMerge [1; 2]; ADelete 2].

Example diamond_graph : graph_of diamond_hist = [[]; [0]; [0]; [1; 2]]%nat.
Proof. vm_compute. reflexivity. Qed.
Example diamond_translation : tr_plan diamond_plan02 = diamond_plan01.
Proof. vm_compute. reflexivity. Qed.
Example diamond_commits_ok : commits_okb diamond_hist = true.
Proof. vm_compute. reflexivity. Qed.
Example diamond_plan_ok : PC.plan_ok (graph_of diamond_hist) diamond_plan02 = true.
Proof. vm_compute. reflexivity. Qed.
Example diamond_plan_okb : plan_okb diamond_hist (tr_plan diamond_plan02) = true.
Proof. vm_compute. reflexivity. Qed.
Example diamond_covered :
  forallb (fun c => PG.memn c (PS.analysed diamond_plan02)) (seq 0 (length (h_parents diamond_hist))) = true.
Proof. vm_compute. reflexivity. Qed.

(* ---------- association lists ---------- *)

Lemma aget_aset' {V} (l : list (Z * V)) k v k' : aget (aset l k v) k' = if k =? k' then Some v else aget l k'.
Proof.
  induction l as [|[k0 v0] l IH]; cbn [aset aget].
  - reflexivity.
  - destruct (Z.eqb_spec k0 k) as [->|Hne]; cbn [aget].
    + destruct (k =? k'); reflexivity.
    + rewrite IH. destruct (Z.eqb_spec k0 k') as [->|Hne'].
      * destruct (Z.eqb_spec k k'); [congruence|reflexivity].
      * reflexivity.
Qed.

Lemma fst_aset_in {V} (l : list (Z * V)) k v x : In x (map fst (aset l k v)) -> x = k \/ In x (map fst l).
Proof.
  induction l as [|[k0 v0] l IH]; cbn [aset map fst In].
  - intros [E|[]]. left. symmetry. exact E.
  - destruct (Z.eqb_spec k0 k) as [->|Hne]; cbn [map fst In].
    + intros [E|H]; [left; symmetry; exact E | right; right; exact H].
    + intros [E|H]; [right; left; exact E|]. destruct (IH H) as [E|H']; [left; exact E | right; right; exact H'].
Qed.

Lemma nodup_aset' {V} (l : list (Z * V)) k v : NoDup (map fst l) -> NoDup (map fst (aset l k v)).
Proof.
  induction l as [|[k0 v0] l IH]; intros Hnd; cbn [aset map fst].
  - constructor; [intros []|constructor].
  - cbn [map fst] in Hnd. inversion Hnd as [|? ? Hn Hnd']; subst.
    destruct (Z.eqb_spec k0 k) as [->|Hne]; cbn [map fst].
    + constructor; assumption.
    + constructor; [|apply IH; exact Hnd'].
      intros Hin. apply fst_aset_in in Hin. destruct Hin as [E|Hin]; [congruence | contradiction].
Qed.

Lemma aget_none_notin {V} (l : list (Z * V)) k : ~ In k (map fst l) -> aget l k = None.
Proof.
  induction l as [|[k0 v0] l IH]; intros Hn; cbn [aget]; [reflexivity|].
  cbn [map fst In] in Hn. destruct (Z.eqb_spec k0 k) as [->|Hne]; [exfalso; apply Hn; left; reflexivity|].
  apply IH. intros Hin. apply Hn. right. exact Hin.
Qed.

Lemma aget_adel' {V} (l : list (Z * V)) k k' : NoDup (map fst l) ->
  aget (adel l k) k' = if k =? k' then None else aget l k'.
Proof.
  induction l as [|[k0 v0] l IH]; intros Hnd; cbn [adel aget].
  - destruct (k =? k'); reflexivity.
  - cbn [map fst] in Hnd. inversion Hnd as [|? ? Hn Hnd']; subst.
    destruct (Z.eqb_spec k0 k) as [->|Hne].
    + destruct (Z.eqb_spec k k') as [->|Hne']; [apply aget_none_notin; exact Hn | reflexivity].
    + cbn [aget]. rewrite (IH Hnd'). destruct (Z.eqb_spec k0 k') as [->|Hne'].
      * destruct (Z.eqb_spec k k'); [congruence | reflexivity].
      * reflexivity.
Qed.

Lemma fst_adel_in {V} (l : list (Z * V)) k x : In x (map fst (adel l k)) -> In x (map fst l).
Proof.
  induction l as [|[k0 v0] l IH]; cbn [adel map fst In]; [tauto|].
  destruct (Z.eqb_spec k0 k) as [->|Hne]; cbn [map fst In].
  - intros H. right. exact H.
  - intros [E|H]; [left; exact E | right; apply IH; exact H].
Qed.

Lemma nodup_adel' {V} (l : list (Z * V)) k : NoDup (map fst l) -> NoDup (map fst (adel l k)).
Proof.
  induction l as [|[k0 v0] l IH]; intros Hnd; cbn [adel map fst]; [constructor|].
  cbn [map fst] in Hnd. inversion Hnd as [|? ? Hn Hnd']; subst.
  destruct (Z.eqb_spec k0 k) as [->|Hne]; cbn [map fst]; [exact Hnd'|].
  constructor; [|apply IH; exact Hnd']. intros Hin. apply Hn. eapply fst_adel_in. exact Hin.
Qed.

Lemma memz_In x l : memz x l = true <-> In x l.
Proof.
  unfold memz. rewrite existsb_exists. split.
  - intros [y [Hy E]]. apply Z.eqb_eq in E. subst. exact Hy.
  - intros H. exists x. split; [exact H | apply Z.eqb_refl].
Qed.

Lemma memz_notin x l : memz x l = false <-> ~ In x l.
Proof.
  rewrite <- memz_In. destruct (memz x l); split; intros H.
  - discriminate H.
  - exfalso. apply H. reflexivity.
  - intros H'. discriminate H'.
  - reflexivity.
Qed.

Lemma aget_fold_aset' {V} (f : Z -> V) bs : forall m k,
  aget (fold_left (fun m b' => aset m b' (f b')) bs m) k = if memz k bs then Some (f k) else aget m k.
Proof.
  induction bs as [|b bs IH]; intros m k; cbn [fold_left]; [reflexivity|].
  rewrite IH. unfold memz. cbn [existsb]. fold (memz k bs).
  destruct (memz k bs); [rewrite orb_true_r; reflexivity|].
  rewrite orb_false_r, aget_aset', (Z.eqb_sym k b).
  destruct (Z.eqb_spec b k) as [->|Hne]; reflexivity.
Qed.

Lemma nodup_fold_aset' {V} (f : Z -> V) bs : forall m,
  NoDup (map fst m) -> NoDup (map fst (fold_left (fun m b' => aset m b' (f b')) bs m)).
Proof.
  induction bs as [|b bs IH]; intros m Hm; cbn [fold_left]; [exact Hm|].
  apply IH. apply nodup_aset'. exact Hm.
Qed.

Lemma nodup_zb_true l : NoDup l -> nodup_zb l = true.
Proof.
  induction 1 as [|x l Hn Hnd IH]; cbn [nodup_zb]; [reflexivity|].
  rewrite IH, andb_true_r. apply negb_true_iff. apply (proj2 (memz_notin x l)). exact Hn.
Qed.

(* ---------- bit vectors ---------- *)

Lemma vget_neg v i : i < 0 -> vget v i = false.
Proof. intros H. unfold vget, znth. destruct (Z.ltb_spec i 0); [reflexivity | lia]. Qed.

Lemma vec_leb_true : forall a b, length a = length b ->
  (forall i, vget a i = true -> vget b i = true) -> vec_leb a b = true.
Proof.
  induction a as [|x a IH]; intros [|y b] HL H; cbn [length] in HL; try discriminate; cbn [vec_leb]; [reflexivity|].
  apply andb_true_iff. split.
  - specialize (H 0). rewrite !vget_cons in H. cbn in H. destruct x; [rewrite H; reflexivity | reflexivity].
  - apply IH; [lia|]. intros i Hi. pose proof (vget_range _ _ Hi) as Hr.
    specialize (H (i + 1)). rewrite !vget_cons in H.
    destruct (Z.eqb_spec (i + 1) 0); [lia|]. destruct (Z.ltb_spec (i + 1) 0); [lia|].
    replace (i + 1 - 1) with i in H by lia. apply H. exact Hi.
Qed.

Lemma vec_eqb_true : forall a b, length a = length b ->
  (forall i, vget a i = vget b i) -> vec_eqb a b = true.
Proof.
  induction a as [|x a IH]; intros [|y b] HL H; cbn [length] in HL; try discriminate; cbn [vec_eqb]; [reflexivity|].
  apply andb_true_iff. split.
  - specialize (H 0). rewrite !vget_cons in H. cbn in H. subst. apply eqb_reflx.
  - apply IH; [lia|]. intros i. destruct (Z.ltb_spec i 0) as [Hneg|Hpos].
    + rewrite !vget_neg by exact Hneg. reflexivity.
    + specialize (H (i + 1)). rewrite !vget_cons in H.
      destruct (Z.eqb_spec (i + 1) 0); [lia|]. destruct (Z.ltb_spec (i + 1) 0); [lia|].
      replace (i + 1 - 1) with i in H by lia. exact H.
Qed.

Lemma vget_fold_orvec' (n : nat) sets : forall z a, (forall v, In v sets -> length v = n) -> length z = n ->
  vget (fold_left orvec sets z) a = vget z a || existsb (fun v => vget v a) sets.
Proof.
  induction sets as [|v sets IH]; intros z a Hs Hz; cbn [fold_left existsb]; [rewrite orb_false_r; reflexivity|].
  rewrite IH; [|intros v' Hv'; apply Hs; right; exact Hv' | rewrite orvec_length; exact Hz].
  rewrite vget_orvec by (rewrite Hz; symmetry; apply Hs; left; reflexivity). rewrite orb_assoc. reflexivity.
Qed.

Lemma fold_orvec_length sets : forall z, length (fold_left orvec sets z) = length z.
Proof.
  induction sets as [|v sets IH]; intros z; cbn [fold_left]; [reflexivity|]. rewrite IH. apply orvec_length.
Qed.

Lemma vget_vec_set v c a : (c < length v)%nat ->
  vget (vec_set v (Z.of_nat c)) (Z.of_nat a) = (a =? c)%nat || vget v (Z.of_nat a).
Proof.
  intros Hc. unfold vec_set. destruct (Z.ltb_spec (Z.of_nat c) 0); [lia|].
  rewrite Nat2Z.id, vget_setbit. f_equal.
  destruct (Z.ltb_spec (Z.of_nat c) (Z.of_nat (length v))); [|lia]. rewrite andb_true_r.
  destruct (Z.eqb_spec (Z.of_nat a) (Z.of_nat c)), (Nat.eqb_spec a c); try reflexivity; lia.
Qed.

Lemma vec_set_length v c : length (vec_set v c) = length v.
Proof. unfold vec_set. destruct (c <? 0); [reflexivity | apply setbit_length]. Qed.
