// Harness for C09: runs the real pipeline with leaves.BurndownAnalysis (files and people tracked) on
// synthetic histories with merges, once without hibernation (baseline) and then with every
// hibernation distance / threshold / disk setting and with injected faults (unusable directory, temp
// file removed or truncated between a Hibernate and the later Boot).  Records the complete result
// (as a digest of its canonical text), the error / panic of Run, every Hibernate / Boot call (through
// a delegating wrapper item), the listing of the hibernation directory before every plan step and
// after Run, and the real run plan.
package main

import (
	"crypto/sha1"
	"encoding/hex"
	"fmt"
	"io"
	"io/ioutil"
	"log"
	"os"
	"path/filepath"
	"sort"
	"strings"
	"time"

	git "gopkg.in/src-d/go-git.v4"
	"gopkg.in/src-d/go-git.v4/plumbing/object"
	hercules "gopkg.in/src-d/hercules.v10"
	"gopkg.in/src-d/hercules.v10/leaves"
	"gopkg.in/src-d/hercules.v10/verifapi"
	vc09 "gopkg.in/src-d/hercules.v10/verifapi/c09"

	. "verifharness/lib"
	"verifharness/synth"
)

// ---------------------------------------------------------------------------------------------
// recording

type fileInfo struct {
	name string
	size int
}

type recorder struct {
	dir      string
	step     int // index of the plan step being executed (from OnProgress), -1 before the first
	nextID   int
	events   []Sx           // wrapper and tamper events, each tagged with the step
	listings [][]fileInfo   // directory listing before every step
	texts    []string       // step.String() of every step as announced by Run
	names    map[string]int // temp-file name -> small number, in order of first appearance
	tamper   *tamperSpec
	opps     int // tamper opportunities seen so far
	fired    bool
	hibAt    map[int][]string // plan step -> temp-file names ("" = none) of its Hibernate calls, in call order (wrapper only)
	spy      bool             // look into every temp file right after the Hibernate call that wrote it (probing runs of kind truncall)
	written  []victimFile
}

func (r *recorder) nameID(path string) int {
	b := filepath.Base(path)
	if id, ok := r.names[b]; ok {
		return id
	}
	id := len(r.names) + 1
	r.names[b] = id
	return id
}

func (r *recorder) list() []fileInfo {
	if r.dir == "" {
		return nil
	}
	ents, err := ioutil.ReadDir(r.dir)
	if err != nil {
		return nil
	}
	var res []fileInfo
	for _, e := range ents {
		res = append(res, fileInfo{e.Name(), int(e.Size())})
	}
	sort.Slice(res, func(i, j int) bool { return res[i].name < res[j].name })
	return res
}

func (r *recorder) listSx(l []fileInfo) Sx {
	// numbered names, sorted by number
	type ent struct{ id, size int }
	var es []ent
	for _, f := range l {
		es = append(es, ent{r.nameID(f.name), f.size})
	}
	sort.Slice(es, func(i, j int) bool { return es[i].id < es[j].id })
	items := make([]Sx, len(es))
	for i, e := range es {
		items[i] = L(I(e.id), I(e.size))
	}
	return L(items...)
}

// ---------------------------------------------------------------------------------------------
// the delegating wrapper around the real BurndownAnalysis

type wrap struct {
	inner *leaves.BurndownAnalysis
	rec   *recorder
	id    int
}

func (w *wrap) Name() string       { return w.inner.Name() }
func (w *wrap) Provides() []string { return w.inner.Provides() }
func (w *wrap) Requires() []string { return w.inner.Requires() }
func (w *wrap) ListConfigurationOptions() []hercules.ConfigurationOption {
	return w.inner.ListConfigurationOptions()
}
func (w *wrap) Configure(facts map[string]interface{}) error { return w.inner.Configure(facts) }
func (w *wrap) Initialize(r *git.Repository) error           { return w.inner.Initialize(r) }
func (w *wrap) Flag() string                                 { return w.inner.Flag() }
func (w *wrap) Description() string                          { return w.inner.Description() }
func (w *wrap) Consume(deps map[string]interface{}) (map[string]interface{}, error) {
	return w.inner.Consume(deps)
}
func (w *wrap) Finalize() interface{} { return w.inner.Finalize() }
func (w *wrap) Serialize(result interface{}, binary bool, writer io.Writer) error {
	return w.inner.Serialize(result, binary, writer)
}

func (w *wrap) Fork(n int) []hercules.PipelineItem {
	clones := w.inner.Fork(n)
	res := make([]hercules.PipelineItem, n)
	for i, c := range clones {
		w.rec.nextID++
		res[i] = &wrap{inner: c.(*leaves.BurndownAnalysis), rec: w.rec, id: w.rec.nextID}
	}
	return res
}

func (w *wrap) Merge(branches []hercules.PipelineItem) {
	inner := make([]hercules.PipelineItem, len(branches))
	for i, b := range branches {
		inner[i] = b.(*wrap).inner
	}
	w.inner.Merge(inner)
}

func errClassHibernate(err error) string {
	if pe, ok := err.(*os.PathError); ok && pe.Op == "open" {
		return "create"
	}
	return "write"
}

func errClassBoot(err error) string {
	if pe, ok := err.(*os.PathError); ok {
		switch pe.Op {
		case "open":
			return "open"
		case "remove":
			return "remove"
		}
	}
	return "read"
}

func (w *wrap) Hibernate() error {
	before := w.inner.VerifC09ArenaSize()
	tracked := w.inner.VerifC09TrackedFiles()
	err := w.inner.Hibernate()
	after := w.inner.VerifC09ArenaSize()
	fn := w.inner.VerifC09HibernatedFileName()
	ev := []Sx{I(w.rec.step), I(w.id), I(before), I(after)}
	if fn != "" {
		sz := -1
		if st, e := os.Stat(fn); e == nil {
			sz = int(st.Size())
		}
		ev = append(ev, T("file", I(w.rec.nameID(fn)), I(sz)))
	} else {
		ev = append(ev, T("nofile"))
	}
	if err != nil {
		ev = append(ev, T("err", A(errClassHibernate(err))))
	} else {
		ev = append(ev, T("ok"))
	}
	ev = append(ev, T("files", I(tracked)))
	w.rec.events = append(w.rec.events, T("hib", ev...))
	if w.rec.spy && fn != "" && err == nil {
		if dg, data := digestOfFile(fn); dg != "" {
			vf := victimFile{digest: dg, size: len(data)}
			vf.arena, vf.gaps, vf.last7, _ = fileLayout(data)
			w.rec.written = append(w.rec.written, vf)
		}
	}
	if w.rec.hibAt != nil {
		w.rec.hibAt[w.rec.step] = append(w.rec.hibAt[w.rec.step], fn)
	}
	return err
}

func (w *wrap) Boot() error {
	fn := w.inner.VerifC09HibernatedFileName()
	before := w.inner.VerifC09ArenaSize()
	tracked := w.inner.VerifC09TrackedFiles()
	err := w.inner.Boot()
	after := w.inner.VerifC09ArenaSize()
	ev := []Sx{I(w.rec.step), I(w.id), I(before), I(after)}
	if fn != "" {
		ev = append(ev, T("file", I(w.rec.nameID(fn))))
	} else {
		ev = append(ev, T("nofile"))
	}
	if err != nil {
		ev = append(ev, T("err", A(errClassBoot(err))))
	} else {
		ev = append(ev, T("ok"))
	}
	ev = append(ev, T("files", I(tracked)))
	w.rec.events = append(w.rec.events, T("boot", ev...))
	return err
}

// ---------------------------------------------------------------------------------------------
// the adversary: an ordinary pipeline item without dependencies; when its Consume is called and the
// hibernation directory holds temp files (so some branch sleeps on disk) it removes / truncates them

type tamperSpec struct {
	mode string // remove | trunc0 | trunc1 | quarter | half | minus9 | minus4 | minus2 | minus1 | same | to (the first toLen bytes)
	skip int    // number of opportunities to let pass
	// victim: 0 = every temp file; 1 / 2 / 3 = ONE file: the first / middle / last one - in directory order (at =
	// "consume") or in the order of the branches of the boot action (at = "boot")
	victim int
	// minFiles: an opportunity counts only when at least that many temp files exist (at = "consume")
	minFiles int
	// at: "consume" = in the Consume of the tamper item (while some commit is replayed); "boot" = in OnProgress right
	// before a boot action that covers at least two branches (needs the recording wrapper to know which file belongs
	// to which branch of the action)
	// "step" = in OnProgress before the first plan step at which a temp file with the given digest exists (kind truncall: the
	// victim is identified by its bytes, which do not depend on the branch numbering the planner happens to choose)
	at     string
	toLen  int
	digest string
}

func pickVictim(n, victim int) int {
	switch victim {
	case 1:
		return 0
	case 2:
		return n / 2
	}
	return n - 1
}

// damage applies the tamper mode to the given files and records the event (tagged with the plan step before
// which - or during whose commit replay - it happens).
func (r *recorder) damage(step int, files []string) {
	var done []Sx
	for _, f := range files {
		st, err := os.Stat(f)
		if err != nil {
			continue
		}
		size := int(st.Size())
		id := r.nameID(f)
		switch r.tamper.mode {
		case "remove":
			os.Remove(f)
			done = append(done, T("rm", I(id)))
		default:
			nl := size
			switch r.tamper.mode {
			case "trunc0":
				nl = 0
			case "trunc1":
				nl = 1
			case "half":
				nl = size / 2
			case "minus1":
				nl = size - 1
			case "minus2":
				nl = size - 2
			case "minus4":
				nl = size - 4
			case "minus9":
				nl = size - 9
			case "quarter":
				nl = size / 4
			case "same":
				nl = size
			case "to":
				nl = r.tamper.toLen
				if nl > size {
					nl = size
				}
				if data, e := ioutil.ReadFile(f); e == nil {
					ar, gp, l7, _ := fileLayout(data)
					r.events = append(r.events, T("vfile", I(step), I(id), I(size), I(ar), I(gp), I(l7)))
				}
			}
			if nl < 0 {
				nl = 0
			}
			os.Truncate(f, int64(nl))
			done = append(done, T("trunc", I(id), I(nl)))
		}
	}
	sort.Slice(done, func(i, j int) bool { return done[i].String() < done[j].String() })
	r.events = append(r.events, T("tamper", append([]Sx{I(step)}, done...)...))
}

type tamperItem struct {
	hercules.NoopMerger
	rec *recorder
}

func (t *tamperItem) Name() string       { return "C09Tamper" }
func (t *tamperItem) Provides() []string { return []string{} }
func (t *tamperItem) Requires() []string { return []string{} }
func (t *tamperItem) ListConfigurationOptions() []hercules.ConfigurationOption {
	return nil
}
func (t *tamperItem) Configure(facts map[string]interface{}) error { return nil }
func (t *tamperItem) Initialize(r *git.Repository) error           { return nil }
func (t *tamperItem) Fork(n int) []hercules.PipelineItem {
	res := make([]hercules.PipelineItem, n)
	for i := range res {
		res[i] = &tamperItem{rec: t.rec}
	}
	return res
}

func (t *tamperItem) Consume(deps map[string]interface{}) (map[string]interface{}, error) {
	r := t.rec
	if r.tamper == nil || r.fired || r.dir == "" {
		return map[string]interface{}{}, nil
	}
	if r.tamper.at == "boot" || r.tamper.at == "step" {
		return map[string]interface{}{}, nil
	}
	files, _ := filepath.Glob(filepath.Join(r.dir, "*-hercules.bin"))
	if len(files) == 0 || len(files) < r.tamper.minFiles {
		return map[string]interface{}{}, nil
	}
	r.opps++
	if r.opps <= r.tamper.skip {
		return map[string]interface{}{}, nil
	}
	r.fired = true
	sort.Strings(files)
	if r.tamper.victim > 0 {
		files = []string{files[pickVictim(len(files), r.tamper.victim)]}
	}
	r.damage(r.step, files)
	return map[string]interface{}{}, nil
}

// ---------------------------------------------------------------------------------------------
// one run of the pipeline

type runCfg struct {
	dist   int
	thr    int
	disk   bool
	fault  string // none | nodir | filedir | rodir | tamper
	tamper *tamperSpec
	wrap   bool // use the recording wrapper (otherwise the bare BurndownAnalysis)
	// options away from the defaults of this harness (kind long): Burndown.TrackFiles off, Burndown.People off, no
	// Burndown.HibernationDirectory (ioutil.TempFile then uses os.TempDir(), which TMPDIR points to a fresh directory)
	noFiles, noPeople, defDir bool
	spy                       bool // not part of the input: the wrapper looks into the temp files (probing run)
	// kind rerun: before this run the SAME pipeline and the SAME deployed item instance went through Initialize + Run under
	// the prior configuration (a directory of its own; cleanDir: its temp files are removed before the second run)
	prior    *runCfg
	cleanDir bool
	hist     *synth.Hist // of a prior run: the history it analyses (nil: the history of the case)
	samePipe bool        // of a prior run: the run of the case re-uses the Pipeline object as well (then hist is nil)
	upto     int         // of a prior run: > 0: it analyses only the first upto commits (a parent-closed prefix)
	// kind oddir (round 4, byte content of the configured directory name): the hibernation directory is
	// <fresh directory>/<dirName>, bytes kept as they are (trailing / leading ASCII and Unicode white space, BOM, invalid
	// UTF-8, case variants, trailing slash ...); twin: the directories a "normalisation" of the name would lead to
	// (TrimSpace, ToLower, ToValidUTF8, Clean ...) exist next to it and must stay empty
	dirName string
	twin    bool
	// tickHours > 0: TicksSinceStart.TickSize (hours per tick; default 24) - the commit times of the synthetic histories
	// are not multiples of the tick (R4-3 x hibernation); the run without hibernation uses the same value
	tickHours int
}

func (cfg runCfg) optsSx() []Sx {
	var res []Sx
	if cfg.noFiles || cfg.noPeople || cfg.defDir {
		res = append(res, T("opts", T("nofiles", B(cfg.noFiles)), T("nopeople", B(cfg.noPeople)), T("defdir", B(cfg.defDir))))
	}
	if cfg.tickHours > 0 {
		res = append(res, T("tickh", I(cfg.tickHours)))
	}
	if cfg.dirName != "" {
		res = append(res, T("hdir", T("name", Bytes([]byte(cfg.dirName)).List...), T("twin", B(cfg.twin)), T("shown", A(shownName(cfg.dirName)))))
	}
	return res
}

type outcome struct {
	kind   string // ok | err | panic
	digest string // ok: digest of the canonical result text; err/panic: class
	text   string
}

func (o outcome) sx() Sx { return T(o.kind, A(o.digest)) }

func panicClass(msg string) string {
	switch {
	case strings.Contains(msg, "serialization requires the hibernated state"):
		return "serialize-awake"
	case strings.Contains(msg, "hibernated instance"):
		return "consume-hibernated"
	case strings.Contains(msg, "already hibernated"):
		return "double-hibernate"
	case strings.Contains(msg, "hibernated allocators cannot be used"), strings.Contains(msg, "cannot clone a hibernated"):
		return "use-hibernated"
	case strings.Contains(msg, "cannot boot a serialized"):
		return "boot-serialized"
	case strings.Contains(msg, "index out of range"), strings.Contains(msg, "nil pointer"):
		return "runtime"
	}
	return "other"
}

func canonical(res leaves.BurndownResult, people []string) string {
	// fmt prints maps in key order, so this text is canonical
	return fmt.Sprint("G", res.GlobalHistory, "F", res.FileHistories, "O", res.FileOwnership,
		"P", res.PeopleHistories, "M", res.PeopleMatrix, "D", people)
}

type runObs struct {
	prior     outcome // kind rerun: the outcome of the prior run on the same objects
	priorLeft int     // and the number of temp files it left behind
	out       outcome
	rec       *recorder
	final     []fileInfo
	denies    bool // the directory really refuses file creation (rodir)
	plan      []verifapi.VerifAction
	commits   []*object.Commit
	planSame  bool
	stray     int // kind oddir: the largest number of files seen in the twin directories (before any step, after the run)
}

var baseDir string
var runCounter int

// scaleOf marks the histories of the scale family (expanded from a scaleP; their trace field is the parameters)
var scaleOf = map[*synth.Hist]scaleP{}

func histSx(h *synth.Hist) Sx {
	if sp, ok := scaleOf[h]; ok {
		return sp.sx()
	}
	if vh, ok := viewOf[h]; ok {
		return vh.sx()
	}
	return h.Sx()
}

// basePlanOf turns the actions printed by Run's own prepareRunPlan call into a plan (Hibernate / Boot lines dropped).
func basePlanOf(dump []dumped, commits []*object.Commit) []verifapi.VerifAction {
	byHash := map[string]*object.Commit{}
	for _, cm := range commits {
		byHash[cm.Hash.String()] = cm
	}
	var basePlan []verifapi.VerifAction
	for _, d := range dump {
		a := verifapi.VerifAction{Items: d.items}
		switch d.tag {
		case "C":
			a.Action, a.Commit = verifapi.ActionCommit, byHash[d.hash]
		case "F":
			a.Action = verifapi.ActionFork
		case "M":
			a.Action = verifapi.ActionMerge
		case "E":
			a.Action = verifapi.ActionEmerge
		case "D":
			a.Action = verifapi.ActionDelete
		default:
			continue
		}
		basePlan = append(basePlan, a)
	}
	return basePlan
}

// buildHist returns the repository of a history (built once per history: the pipeline only reads it).
func buildHist(h *synth.Hist) (repo *git.Repository, commits []*object.Commit) {
	if sp, isScale := scaleOf[h]; isScale {
		return scaleBuild(sp, h)
	}
	if b, ok := smallRepos[h]; ok {
		return b.repo, b.commits
	}
	if vh, ok := viewOf[h]; ok {
		repo, commits = synth.BuildRepo(vh.specs())
	} else {
		repo, commits = h.Build()
	}
	if len(smallRepos) > 3 {
		smallRepos = map[*synth.Hist]builtRepo{}
	}
	smallRepos[h] = builtRepo{repo, commits}
	return
}

func doRun(h *synth.Hist, G, S int, cfg runCfg) (ro runObs) {
	if os.Getenv("C09_TIMING") != "" {
		t0 := time.Now()
		defer func() {
			if sp, ok := scaleOf[h]; ok {
				fmt.Fprintf(os.Stderr, "run %v dist %d thr %d disk %v wrap %v: %v\n", sp, cfg.dist, cfg.thr, cfg.disk, cfg.wrap, time.Since(t0))
			}
		}()
	}
	journal(h, G, S, cfg)
	defer journalIdle()
	_, isScale := scaleOf[h]
	repo, commits := buildHist(h)
	ro.commits = commits
	rec := &recorder{}
	ro.rec = rec
	var cleanups []string
	defer func() {
		for _, d := range cleanups {
			os.Chmod(d, 0755)
			os.RemoveAll(d)
		}
	}()
	var dump []dumped
	old := vc09.SetPlanPrinter(func(args ...interface{}) {
		d := dumped{tag: args[0].(string)}
		switch d.tag {
		case "C":
			d.items = []int{args[1].(int)}
			d.hash = args[2].(string)
		case "H", "B":
			d.items = []int{args[1].(int)}
		default:
			d.items = append([]int{}, args[1].([]int)...)
		}
		dump = append(dump, d)
	})
	defer vc09.SetPlanPrinter(old)
	// ONE BurndownAnalysis instance for all phases of the run (kind rerun: a prior run on the same item); the phases share
	// the Pipeline object as well (prior.samePipe) or each gets a fresh one around the same item.
	var item hercules.LeafPipelineItem
	if cfg.wrap {
		item = &wrap{inner: &leaves.BurndownAnalysis{}, rec: rec}
	} else {
		item = &leaves.BurndownAnalysis{}
	}
	var p *hercules.Pipeline
	var leaf hercules.LeafPipelineItem
	var livePlan []verifapi.VerifAction
	var twins []string
	cur := cfg
	curCommits := commits
	onProgress := func(step, total int, text string) {
		cfg := cur
		if step <= total-2 {
			rec.step = step - 1
			rec.texts = append(rec.texts, text)
			rec.listings = append(rec.listings, rec.list())
			if n := strayFiles(twins); n > ro.stray {
				ro.stray = n
			}
			if cfg.tamper != nil && cfg.tamper.at == "step" && !rec.fired && rec.dir != "" {
				files, _ := filepath.Glob(filepath.Join(rec.dir, "*-hercules.bin"))
				sort.Strings(files)
				for _, f := range files {
					if dg, _ := digestOfFile(f); dg == cfg.tamper.digest {
						rec.opps++
						if rec.opps > cfg.tamper.skip {
							rec.fired = true
							rec.damage(step-1, []string{f})
						}
						break
					}
				}
			}
			if cfg.tamper != nil && cfg.tamper.at == "boot" && !rec.fired && text == "boot" && rec.dir != "" {
				// Run printed its plan before the first step: the action that comes next is known
				if livePlan == nil {
					livePlan = basePlanOf(dump, curCommits)
					if cfg.dist > 0 {
						livePlan = verifapi.InsertHibernateBoot(livePlan, cfg.dist)
					}
				}
				i := step - 1
				if i < len(livePlan) && livePlan[i].Action == verifapi.ActionBoot && len(livePlan[i].Items) >= 2 {
					// the temp files of the branches of this action, in the order in which Run boots them
					var files []string
					for _, b := range livePlan[i].Items {
						fn := ""
					search:
						for k := i - 1; k >= 0; k-- {
							if livePlan[k].Action == verifapi.ActionHibernate {
								for j, x := range livePlan[k].Items {
									if x == b {
										if j < len(rec.hibAt[k]) {
											fn = rec.hibAt[k][j]
										}
										break search
									}
								}
							}
						}
						if fn != "" {
							files = append(files, fn)
						}
					}
					if len(files) >= 2 {
						rec.opps++
						if rec.opps > cfg.tamper.skip {
							rec.fired = true
							if cfg.tamper.victim > 0 {
								files = []string{files[pickVictim(len(files), cfg.tamper.victim)]}
							}
							rec.damage(i, files)
						}
					}
				}
			}
		}
	}
	// one phase = Initialize + Run of the pipeline under one configuration, observed by a recorder of its own
	phase := func(cfg runCfg, repo *git.Repository, commits []*object.Commit) (out outcome, denies bool) {
		cur = cfg
		curCommits = commits
		*rec = recorder{step: -1, names: map[string]int{}, spy: cfg.spy}
		if cfg.wrap {
			rec.hibAt = map[int][]string{}
		}
		dump, livePlan = nil, nil
		if p == nil || cfg.prior == nil || !cfg.prior.samePipe {
			p = hercules.NewPipeline(repo)
			leaf = p.DeployItem(item).(hercules.LeafPipelineItem)
			if cfg.tamper != nil || (cfg.prior != nil && cfg.prior.tamper != nil) {
				p.DeployItem(&tamperItem{rec: rec})
			}
			p.OnProgress = onProgress
		}
		facts := map[string]interface{}{
			hercules.ConfigPipelineCommits:            commits,
			leaves.ConfigBurndownGranularity:          G,
			leaves.ConfigBurndownSampling:             S,
			leaves.ConfigBurndownTrackFiles:           !cfg.noFiles,
			leaves.ConfigBurndownTrackPeople:          !cfg.noPeople,
			"Pipeline.HibernationDistance":            cfg.dist,
			leaves.ConfigBurndownHibernationThreshold: cfg.thr,
			leaves.ConfigBurndownHibernationToDisk:    false,
		}
		if cfg.tickHours > 0 {
			facts["TicksSinceStart.TickSize"] = cfg.tickHours
		}
		if isScale {
			// the diffs of the large histories must not depend on the load of the machine
			facts["FileDiff.Timeout"] = 600000
		}
		runCounter++
		if cfg.disk {
			dir := filepath.Join(baseDir, fmt.Sprintf("r%d", runCounter))
			cleanups = append(cleanups, dir)
			switch cfg.fault {
			case "nodir":
				dir = filepath.Join(dir, "missing") // never created
			case "filedir":
				os.MkdirAll(dir, 0755)
				ioutil.WriteFile(filepath.Join(dir, "plain"), []byte("x"), 0644)
				dir = filepath.Join(dir, "plain", "sub")
			case "rodir":
				os.MkdirAll(dir, 0755)
				os.Chmod(dir, 0555)
				if f, err := os.Create(filepath.Join(dir, "probe")); err == nil {
					f.Close()
					os.Remove(filepath.Join(dir, "probe"))
				} else {
					denies = true
				}
			default:
				os.MkdirAll(dir, 0755)
				if cfg.dirName != "" {
					// the bytes of the name are kept as they are (no filepath.Join, which would clean the path)
					root := dir
					dir = root + "/" + cfg.dirName
					if err := os.MkdirAll(dir, 0755); err != nil {
						panic("oddir: cannot create " + fmt.Sprintf("%q", dir) + ": " + err.Error())
					}
					twins = nil
					if cfg.twin {
						for _, t := range twinNames(cfg.dirName) {
							if os.MkdirAll(root+"/"+t, 0755) == nil && !sameDir(root+"/"+t, dir) {
								twins = append(twins, root+"/"+t)
							}
						}
					}
					twins = append(twins, root)
				}
			}
			rec.dir = dir
			facts[leaves.ConfigBurndownHibernationToDisk] = true
			if cfg.defDir {
				oldTmp, had := os.LookupEnv("TMPDIR")
				os.Setenv("TMPDIR", dir)
				defer func() {
					if had {
						os.Setenv("TMPDIR", oldTmp)
					} else {
						os.Unsetenv("TMPDIR")
					}
				}()
				facts[leaves.ConfigBurndownHibernationDirectory] = ""
			} else {
				facts[leaves.ConfigBurndownHibernationDirectory] = dir
			}
		}
		rec.tamper = cfg.tamper
		// Run prints the plan it executes through the plan printer (Pipeline.DumpPlan)
		facts[vc09.ConfigPipelineDumpPlan] = true
		facts[hercules.ConfigLogger] = quietLogger{}
		msg, panicked := Catch(func() {
			if e := p.Initialize(facts); e != nil {
				out = outcome{"err", "initialize", e.Error()}
				return
			}
			res, e := p.Run(commits)
			if e != nil {
				out = outcome{"err", "run", e.Error()}
				return
			}
			r := res[leaf].(leaves.BurndownResult)
			people, _ := facts[hercules.FactIdentityDetectorReversedPeopleDict].([]string)
			txt := canonical(r, people)
			sum := sha1.Sum([]byte(txt))
			out = outcome{"ok", hex.EncodeToString(sum[:8]), txt}
		})
		if panicked {
			out = outcome{"panic", panicClass(msg), msg}
		}
		return
	}
	if cfg.prior != nil {
		pc := *cfg.prior
		pc.wrap, pc.noFiles, pc.noPeople = cfg.wrap, cfg.noFiles, cfg.noPeople
		prepo, pcommits := repo, commits
		if pc.hist != nil && !pc.samePipe {
			prepo, pcommits = buildHist(pc.hist)
		}
		if pc.upto > 0 && pc.upto < len(pcommits) {
			pcommits = pcommits[:pc.upto]
		}
		if pc.samePipe {
			// the pipeline of the prior phase is the one the run of the case uses again
			pc.prior = &runCfg{samePipe: true, tamper: pc.tamper}
		}
		ro.prior, _ = phase(pc, prepo, pcommits)
		ro.priorLeft = len(rec.list())
		if cfg.prior.cleanDir && rec.dir != "" {
			// the user tidies up after the failed run
			files, _ := filepath.Glob(filepath.Join(rec.dir, "*-hercules.bin"))
			for _, f := range files {
				os.Remove(f)
			}
		}
	}
	ro.out, ro.denies = phase(cfg, repo, commits)
	if os.Getenv("C09_DEBUG") != "" && ro.out.kind != "ok" {
		fmt.Fprintf(os.Stderr, "c09 debug: %s %s: %.300s\n", ro.out.kind, ro.out.digest, ro.out.text)
	}
	ro.final = rec.list()
	if n := strayFiles(twins); n > ro.stray {
		ro.stray = n
	}
	// the executed plan: the dump gives every action except the 2nd.. items of hibernate / boot actions;
	// those are recomputed by the real insertHibernateBoot (deterministic) from the dumped base plan and
	// the result must agree with the dump and with the actions announced through OnProgress
	basePlan := basePlanOf(dump, commits)
	ro.plan = basePlan
	if cfg.dist > 0 {
		ro.plan = verifapi.InsertHibernateBoot(basePlan, cfg.dist)
	}
	ro.planSame = len(ro.plan) == len(dump)
	for i, d := range dump {
		if i >= len(ro.plan) || dumpTag(ro.plan[i]) != d.tag || ro.plan[i].Items[0] != d.items[0] {
			ro.planSame = false
		}
	}
	for i, t := range rec.texts {
		if i >= len(ro.plan) || t != actionText(ro.plan[i]) {
			ro.planSame = false
		}
	}
	return
}

// basePlanOf2 drops the Hibernate / Boot actions of an executed plan.
func basePlanOf2(plan []verifapi.VerifAction) []verifapi.VerifAction {
	var res []verifapi.VerifAction
	for _, a := range plan {
		if a.Action != verifapi.ActionHibernate && a.Action != verifapi.ActionBoot {
			res = append(res, a)
		}
	}
	return res
}

type dumped struct {
	tag   string
	items []int
	hash  string
}

func dumpTag(a verifapi.VerifAction) string {
	switch a.Action {
	case verifapi.ActionCommit:
		return "C"
	case verifapi.ActionFork:
		return "F"
	case verifapi.ActionMerge:
		return "M"
	case verifapi.ActionEmerge:
		return "E"
	case verifapi.ActionDelete:
		return "D"
	case verifapi.ActionHibernate:
		return "H"
	case verifapi.ActionBoot:
		return "B"
	}
	return "?"
}

type quietLogger struct{}

func (quietLogger) Info(...interface{})              {}
func (quietLogger) Infof(string, ...interface{})     {}
func (quietLogger) Warn(...interface{})              {}
func (quietLogger) Warnf(string, ...interface{})     {}
func (quietLogger) Error(...interface{})             {}
func (quietLogger) Errorf(string, ...interface{})    {}
func (quietLogger) Critical(...interface{})          {}
func (quietLogger) Criticalf(string, ...interface{}) {}

func actionText(a verifapi.VerifAction) string {
	switch a.Action {
	case verifapi.ActionCommit:
		return a.Commit.Hash.String()[:7]
	case verifapi.ActionFork:
		return fmt.Sprintf("fork^%d", len(a.Items))
	case verifapi.ActionMerge:
		return fmt.Sprintf("merge^%d", len(a.Items))
	case verifapi.ActionEmerge:
		return "emerge"
	case verifapi.ActionDelete:
		return "delete"
	case verifapi.ActionHibernate:
		return "hibernate"
	case verifapi.ActionBoot:
		return "boot"
	}
	return ""
}

func planSx(plan []verifapi.VerifAction, commits []*object.Commit) Sx {
	idx := map[string]int{}
	for i, c := range commits {
		idx[c.Hash.String()] = i
	}
	items := make([]Sx, len(plan))
	for i, a := range plan {
		switch a.Action {
		case verifapi.ActionCommit:
			items[i] = T("c", I(idx[a.Commit.Hash.String()]), Ints(a.Items))
		case verifapi.ActionFork:
			items[i] = T("f", Ints(a.Items))
		case verifapi.ActionMerge:
			items[i] = T("m", Ints(a.Items))
		case verifapi.ActionEmerge:
			items[i] = T("e", Ints(a.Items))
		case verifapi.ActionDelete:
			items[i] = T("d", Ints(a.Items))
		case verifapi.ActionHibernate:
			items[i] = T("h", Ints(a.Items))
		case verifapi.ActionBoot:
			items[i] = T("b", Ints(a.Items))
		default:
			items[i] = T("unknown", I(a.Action))
		}
	}
	return L(items...)
}

// ---------------------------------------------------------------------------------------------
// cases

type caseIn struct {
	kind string
	h    *synth.Hist
	G, S int
	cfg  runCfg
}

func faultSx(cfg runCfg) Sx {
	if cfg.fault == "tamper" {
		if cfg.tamper.victim == 0 && cfg.tamper.minFiles == 0 && cfg.tamper.at == "" {
			return T("fault", A("tamper"), A(cfg.tamper.mode), I(cfg.tamper.skip))
		}
		at := cfg.tamper.at
		if at == "" {
			at = "consume"
		}
		f := []Sx{A("tamper"), A(cfg.tamper.mode), I(cfg.tamper.skip), T("victim", I(cfg.tamper.victim)),
			T("minfiles", I(cfg.tamper.minFiles)), T("at", A(at))}
		if cfg.tamper.mode == "to" {
			f = append(f, T("len", I(cfg.tamper.toLen)))
		}
		if cfg.tamper.digest != "" {
			f = append(f, T("digest", A(cfg.tamper.digest)))
		}
		return T("fault", f...)
	}
	return T("fault", A(cfg.fault))
}

var baseCache = map[string]runObs{}
var smallRepos = map[*synth.Hist]builtRepo{}

func emitCase(c *Config, in caseIn) { emitCaseWith(c, in, nil) }

// emitCaseWith: pre, when given, is the observation of a run of exactly in.cfg that has been made already (the
// probing run of a large history).
func emitCaseWith(c *Config, in caseIn, pre *runObs) {
	hsx := histSx(in.h)
	key := hsx.String() + fmt.Sprint(in.G, in.S, in.cfg.noFiles, in.cfg.noPeople, in.cfg.tickHours)
	// The run without hibernation.  When the run of the case re-uses a Pipeline object (kind rerun, prior.samePipe) the
	// twin does the same without hibernation: the other items of a re-used pipeline keep state of their own (the people
	// dictionary of the identity detector is not regenerated, for one), which is not a matter of this property.
	baseCfg := runCfg{wrap: false, noFiles: in.cfg.noFiles, noPeople: in.cfg.noPeople, tickHours: in.cfg.tickHours}
	if pc := in.cfg.prior; pc != nil && pc.samePipe {
		baseCfg.prior = &runCfg{fault: "none", samePipe: true, upto: pc.upto}
		key += fmt.Sprint(" samepipe ", pc.upto)
	}
	base, ok := baseCache[key]
	if !ok {
		base = doRun(in.h, in.G, in.S, baseCfg)
		if len(baseCache) > 4 {
			baseCache = map[string]runObs{}
		}
		baseCache[key] = base
	}
	var ro runObs
	if pre != nil {
		ro = *pre
	} else {
		ro = doRun(in.h, in.G, in.S, in.cfg)
		// a victim chosen by its bytes: under another branch order of the planner the file may never be written
		for try := 0; try < 6 && in.cfg.tamper != nil && in.cfg.tamper.digest != "" && !ro.rec.fired; try++ {
			ro = doRun(in.h, in.G, in.S, in.cfg)
		}
	}
	// The theorem compares a plan with ITS OWN erasure, and prepareRunPlan is not deterministic across calls: when two
	// successful runs differ and followed different base plans, look for a baseline run on the base plan of this run.
	baseRetries := 0
	baseAny := false
	if _, big := scaleOf[in.h]; !big && ro.out.kind == "ok" && base.out.kind == "ok" && ro.out.digest != base.out.digest {
		want := planSx(basePlanOf2(ro.plan), ro.commits).String()
		tries := 16
		if _, isView := viewOf[in.h]; isView {
			tries = 60
			if strings.Contains(in.kind, "picked") {
				// up to 5 concurrent arms: more base plans to choose from
				tries = 200
			}
		}
		byResult := map[string]runObs{}
		for baseRetries < tries && planSx(base.plan, base.commits).String() != want {
			baseRetries++
			base = doRun(in.h, in.G, in.S, baseCfg)
			if base.out.kind == "ok" {
				byResult[base.out.digest] = base
			}
		}
		if b2, ok := byResult[ro.out.digest]; ok && strings.Contains(in.kind, "picked") && planSx(base.plan, base.commits).String() != want {
			// five concurrent arms have more base plans than can be tried: the history passed the stability filter and
			// still has two results without hibernation; the result of this run is one of them (obs baseany)
			base = b2
			baseAny = true
		}
	}
	rec := ro.rec
	listings := make([]Sx, len(rec.listings))
	for i, l := range rec.listings {
		listings[i] = rec.listSx(l)
	}
	nt := 0
	for _, a := range ro.plan {
		if a.Action == verifapi.ActionHibernate {
			nt = 1
		}
	}
	fields := inputFields(in.kind, nt, in.h, in.G, in.S, in.cfg)
	obs := []Sx{
		T("base", base.out.sx()),
		T("res", ro.out.sx()),
		T("denies", B(ro.denies)),
		T("plansame", B(ro.planSame)),
		T("baseretry", I(baseRetries))}
	if in.cfg.prior != nil {
		obs = append(obs, T("priorres", ro.prior.sx(), I(ro.priorLeft)))
	}
	if in.cfg.dirName != "" {
		obs = append(obs, T("stray", I(ro.stray)))
	}
	if baseAny {
		obs = append(obs, T("baseany", I(1)))
	}
	obs = append(obs,
		T("plan0", planSx(base.plan, base.commits)),
		T("plan", planSx(ro.plan, ro.commits)),
		T("events", rec.events...),
		T("listings", listings...),
		T("final", rec.listSx(ro.final)))
	c.Emit(append(fields, T("obs", obs...))...)
}

func parseCase(s Sx) caseIn {
	in := caseIn{}
	get := func(tag string) Sx {
		f, ok := s.Field(tag)
		if !ok {
			panic("replay: missing field " + tag)
		}
		return f
	}
	in.kind = get("kind").Args()[0].Atom
	if sp, ok := scaleFromSx(get("hist")); ok {
		in.h = sp.hist()
		scaleOf[in.h] = sp
	} else if vh, ok := viewFromSx(get("hist")); ok {
		in.h = mkView(vh)
	} else {
		in.h = synth.HistFromSx(get("hist"))
	}
	in.G = get("G").Args()[0].Int()
	in.S = get("S").Args()[0].Int()
	in.cfg.dist = get("dist").Args()[0].Int()
	in.cfg.thr = get("thr").Args()[0].Int()
	in.cfg.disk = get("disk").Args()[0].Int() != 0
	in.cfg.wrap = get("wrap").Args()[0].Int() != 0
	if o, ok := s.Field("opts"); ok {
		b := func(t string) bool {
			x, ok := o.Field(t)
			return ok && x.Args()[0].Int() != 0
		}
		in.cfg.noFiles, in.cfg.noPeople, in.cfg.defDir = b("nofiles"), b("nopeople"), b("defdir")
	}
	if o, ok := s.Field("tickh"); ok {
		in.cfg.tickHours = o.Args()[0].Int()
	}
	if o, ok := s.Field("hdir"); ok {
		nm, _ := o.Field("name")
		var bs []byte
		for _, x := range nm.Args() {
			bs = append(bs, byte(x.Int()))
		}
		in.cfg.dirName = string(bs)
		if x, ok := o.Field("twin"); ok {
			in.cfg.twin = x.Args()[0].Int() != 0
		}
	}
	parseFault(get("fault"), &in.cfg)
	if pr, ok := s.Field("prior"); ok {
		g := func(t string) Sx {
			f, ok := pr.Field(t)
			if !ok {
				panic("replay: prior without " + t)
			}
			return f
		}
		pc := &runCfg{dist: g("dist").Args()[0].Int(), thr: g("thr").Args()[0].Int(), disk: g("disk").Args()[0].Int() != 0,
			cleanDir: g("clean").Args()[0].Int() != 0}
		parseFault(g("fault"), pc)
		if x, ok := pr.Field("samepipe"); ok {
			pc.samePipe = x.Args()[0].Int() != 0
		}
		if x, ok := pr.Field("upto"); ok {
			pc.upto = x.Args()[0].Int()
		}
		if hs, ok := pr.Field("hist"); ok {
			if vh, ok := viewFromSx(hs); ok {
				pc.hist = mkView(vh)
			} else {
				pc.hist = synth.HistFromSx(hs)
			}
		}
		in.cfg.prior = pc
	}
	return in
}

func parseFault(fs Sx, cfg *runCfg) {
	f := fs.Args()
	cfg.fault = f[0].Atom
	if cfg.fault == "tamper" {
		cfg.tamper = &tamperSpec{mode: f[1].Atom, skip: f[2].Int()}
		for _, x := range f[3:] {
			switch x.Tag() {
			case "victim":
				cfg.tamper.victim = x.Args()[0].Int()
			case "minfiles":
				cfg.tamper.minFiles = x.Args()[0].Int()
			case "at":
				cfg.tamper.at = x.Args()[0].Atom
			case "len":
				cfg.tamper.toLen = x.Args()[0].Int()
			case "digest":
				cfg.tamper.digest = x.Args()[0].Atom
			}
		}
	}
}

// sizesSeen runs once with threshold 0 in memory and returns the arena sizes met at Hibernate calls.
func sizesSeen(h *synth.Hist, G, S, dist int) []int {
	ro := doRun(h, G, S, runCfg{dist: dist, thr: 0, wrap: true})
	var res []int
	for _, e := range ro.rec.events {
		if e.Tag() == "hib" {
			res = append(res, e.Args()[2].Int())
		}
	}
	sort.Ints(res)
	return res
}

func genHist(c *Config, maxCommits int) (*synth.Hist, int, int) {
	for {
		h := synth.GenHist(c.Rng, synth.GenOpts{MaxCommits: maxCommits, SingleHead: true, MergeAddsPr: 3})
		if !h.HasMerge() {
			if c.Rng.Intn(8) != 0 {
				continue
			}
		}
		G := 1 + c.Rng.Intn(3)
		S := 1 + c.Rng.Intn(G)
		return h, G, S
	}
}

func main() {
	log.SetOutput(ioutil.Discard)
	supervise() // returns in the child only
	c := Setup()
	defer c.Close()
	var err error
	baseDir = os.Getenv("C09_BASEDIR")
	if baseDir == "" {
		baseDir, err = ioutil.TempDir("", "c09-")
		if err != nil {
			fmt.Fprintln(os.Stderr, err)
			os.Exit(2)
		}
		defer os.RemoveAll(baseDir)
	}

	if c.Replay != "" {
		for _, s := range c.ReplayCases() {
			emitCase(c, parseCase(s))
		}
		return
	}

	// C09_ONLY=kind,kind: development aid, run only the named families
	want := func(fam string) bool {
		only := os.Getenv("C09_ONLY")
		return only == "" || strings.Contains(","+only+",", ","+fam+",")
	}
	nh := c.Count(20, 300)
	if !want("sweep") {
		nh = 0
	}
	for i := 0; i < nh; i++ {
		maxCommits := 6 + c.Rng.Intn(9)
		h, G, S := genHist(c, maxCommits)
		// thresholds: 0, 1, around the arena sizes met, huge
		seen := sizesSeen(h, G, S, 1)
		// (the sizes met depend on the plan, which the planner does not choose deterministically; the
		// number of random draws and of cases does not depend on them)
		pick := c.Rng.Intn(1 << 20)
		s, m := 2, 3
		if len(seen) > 0 {
			s = seen[pick%len(seen)]
			m = seen[len(seen)-1]
		}
		thrs := []int{0, 1, s, s + 1, m, 1 << 30}
		for dist := 1; dist <= 6; dist++ {
			for _, thr := range thrs {
				for _, disk := range []bool{false, true} {
					// the wrapper records the calls; every fourth configuration runs the bare item
					wrapIt := c.Rng.Intn(4) != 0
					emitCase(c, caseIn{"sweep", h, G, S, runCfg{dist: dist, thr: thr, disk: disk, fault: "none", wrap: wrapIt}})
				}
			}
		}
		// faults
		for _, f := range []string{"nodir", "filedir", "rodir"} {
			dist := 1 + c.Rng.Intn(6)
			thr := []int{0, 1, s, thrs[c.Rng.Intn(len(thrs))]}[c.Rng.Intn(4)]
			emitCase(c, caseIn{"dirfault", h, G, S, runCfg{dist: dist, thr: thr, disk: true, fault: f, wrap: c.Rng.Intn(3) != 0}})
		}
		for _, mode := range []string{"remove", "trunc0", "trunc1", "quarter", "half", "minus9", "minus4", "minus2", "minus1", "same"} {
			for k := 0; k < 2; k++ {
				dist := 1 + c.Rng.Intn(4)
				thr := []int{0, 0, 1, s, thrs[c.Rng.Intn(len(thrs))]}[c.Rng.Intn(5)]
				emitCase(c, caseIn{"tamper", h, G, S, runCfg{dist: dist, thr: thr, disk: true, fault: "tamper",
					tamper: &tamperSpec{mode: mode, skip: k * c.Rng.Intn(4)}, wrap: c.Rng.Intn(3) != 0}})
			}
		}
	}
	// wide octopus merges under hibernation (harness/synth.GenOctopusHib): an octopus of at least d+3 parents makes
	// insertHibernateBoot emit ONE boot action that covers several branches, so several sleeping BurndownAnalysis
	// clones are booted by one action and merged right afterwards.  1-2 octopus merges of 4..7 parents per
	// history, arms of different lengths, a chain after the merge, 1-2 roots, single head; distances 1..4 (always
	// including parents-3 and parents-4), thresholds {0, 1, an arena size met}, memory and disk, some tampering.
	no := c.Count(9, 200)
	if !want("octo") {
		no = 0
	}
	for i := 0; i < no; i++ {
		k := 4 + c.Rng.Intn(4)
		oo := synth.OctoOpts{Roots: 1 + c.Rng.Intn(2), Merges: 1 + c.Rng.Intn(2), MinPar: k, MaxPar: k,
			MaxArm: 1 + c.Rng.Intn(3), MaxTail: 1 + c.Rng.Intn(2)}
		if i%3 == 2 {
			oo.MinPar = 3
		}
		h := synth.GenOctopusHib(c.Rng, synth.GenOpts{MergeAddsPr: 3}, oo)
		G := 1 + c.Rng.Intn(3)
		S := 1 + c.Rng.Intn(G)
		d0 := k - 3
		if d0 > 4 {
			d0 = 4
		}
		seen := sizesSeen(h, G, S, d0)
		pick := c.Rng.Intn(1 << 20)
		s := 2
		if len(seen) > 0 {
			s = seen[pick%len(seen)]
		}
		for dist := 1; dist <= 4; dist++ {
			for _, thr := range []int{0, 1, s} {
				for _, disk := range []bool{false, true} {
					emitCase(c, caseIn{"octo", h, G, S, runCfg{dist: dist, thr: thr, disk: disk, fault: "none", wrap: c.Rng.Intn(4) != 0}})
				}
			}
		}
		for _, mode := range []string{"remove", "trunc0", "half", "minus1"} {
			dist := 1 + c.Rng.Intn(d0)
			emitCase(c, caseIn{"octotamper", h, G, S, runCfg{dist: dist, thr: []int{0, 1, s}[c.Rng.Intn(3)], disk: true, fault: "tamper",
				tamper: &tamperSpec{mode: mode, skip: c.Rng.Intn(3)}, wrap: c.Rng.Intn(3) != 0}})
		}
	}
	if want("victim") {
		victimCases(c)
	}
	if want("long") {
		longCases(c)
	}
	if want("wipe") {
		wipeCases(c)
	}
	if want("truncall") {
		truncAllCases(c)
	}
	if want("rerun") {
		rerunCases(c)
	}
	if want("picked") {
		pickedCases(c)
	}
	if want("oddir") {
		oddDirCases(c)
	}
	if os.Getenv("C09_ONLY") == "stability" || os.Getenv("C09_ONLY") == "pickstab" {
		stabilityExperiment(c)
	}
	if want("scale") {
		scaleCases(c)
	}
}

// longCases: histories of 30..135 commits (GenHist rules on a longer commit graph), so that the plan has about 100, more
// than 100 and more than 200 steps (Run
// frees memory every 100 steps when hibernation is on), many Hibernate / Boot cycles per branch; the options that the
// other kinds keep fixed vary here: file tracking off, people tracking off, default hibernation directory.
func longShape(c *Config, n int) [][]int {
	parents := [][]int{{}}
	for x := 1; x < n; x++ {
		k := 1
		if r := c.Rng.Intn(20); r < 5 && x >= 2 {
			k = 2
		} else if r == 5 && x >= 3 {
			k = 3
		}
		w := x
		if w > 5 {
			w = 5
		}
		seen := map[int]bool{}
		var ps []int
		for len(ps) < k {
			p := x - 1 - c.Rng.Intn(w)
			if !seen[p] {
				seen[p] = true
				ps = append(ps, p)
			}
		}
		parents = append(parents, ps)
	}
	for {
		isP := map[int]bool{}
		for _, ps := range parents {
			for _, p := range ps {
				isP[p] = true
			}
		}
		var heads []int
		for x := range parents {
			if !isP[x] {
				heads = append(heads, x)
			}
		}
		if len(heads) <= 1 {
			return parents
		}
		k := 2
		if len(heads) > 2 && c.Rng.Intn(3) == 0 {
			k = 3
		}
		c.Rng.Shuffle(len(heads), func(i, j int) { heads[i], heads[j] = heads[j], heads[i] })
		parents = append(parents, append([]int{}, heads[:k]...))
	}
}

func longCases(c *Config) {
	nl := c.Count(3, 40)
	for i := 0; i < nl; i++ {
		h := synth.GenHistShape(c.Rng, longShape(c, []int{30, 55, 110}[i%3]+c.Rng.Intn(25)), synth.GenOpts{MergeAddsPr: 3})
		G := 1 + c.Rng.Intn(3)
		S := 1 + c.Rng.Intn(G)
		opt := runCfg{noFiles: c.Rng.Intn(3) == 0, noPeople: c.Rng.Intn(3) == 0}
		for _, dist := range []int{1, 2 + c.Rng.Intn(2), 4 + c.Rng.Intn(5)} {
			for _, disk := range []bool{false, true} {
				cfg := opt
				cfg.dist, cfg.thr, cfg.disk, cfg.fault, cfg.wrap = dist, c.Rng.Intn(3), disk, "none", c.Rng.Intn(4) != 0
				cfg.defDir = disk && c.Rng.Intn(2) == 0
				emitCase(c, caseIn{"long", h, G, S, cfg})
			}
		}
		for _, mode := range []string{"remove", "minus1"} {
			cfg := opt
			cfg.dist, cfg.thr, cfg.disk, cfg.fault, cfg.wrap = 1+c.Rng.Intn(3), 0, true, "tamper", c.Rng.Intn(3) != 0
			cfg.defDir = c.Rng.Intn(2) == 0
			cfg.tamper = &tamperSpec{mode: mode, skip: c.Rng.Intn(12), victim: 1 + c.Rng.Intn(3), minFiles: 1, at: "consume"}
			emitCase(c, caseIn{"longvictim", h, G, S, cfg})
		}
	}
}

// victimCases: ONE damaged temp file per run.  The kinds tamper / octotamper damage every temp file at once, so the
// branch that is booted last always fails; a run loop that forgets the failure of an earlier branch of the same
// boot action (or of an earlier boot action) is only seen when exactly one file is damaged.
//   - bootvictim: octopus histories (k = 4..6 parents, distance <= k-3 so that one boot action covers >= 2 sleeping
//     branches); right before such a boot action (OnProgress) the file of its first / middle / last branch - in the
//     order in which Run boots them - is removed or truncated to 0, to size-1, to half.  Recording wrapper on.
//   - octovictim: the same histories; the tamper item damages the first / middle / last file in directory order
//     when at least two temp files exist; wrapper or bare item.
//   - victim: GenHist histories (single-branch boot actions, but several branches may sleep at the same time).
func victimCases(c *Config) {
	modes := []string{"remove", "trunc0", "minus1", "half"}
	no := c.Count(8, 150)
	for i := 0; i < no; i++ {
		k := 4 + c.Rng.Intn(3)
		oo := synth.OctoOpts{Roots: 1 + c.Rng.Intn(2), Merges: 1 + c.Rng.Intn(2), MinPar: k, MaxPar: k,
			MaxArm: 1 + c.Rng.Intn(3), MaxTail: 1 + c.Rng.Intn(2)}
		h := synth.GenOctopusHib(c.Rng, synth.GenOpts{MergeAddsPr: 3}, oo)
		G := 1 + c.Rng.Intn(3)
		S := 1 + c.Rng.Intn(G)
		d0 := k - 3
		for _, mode := range modes {
			for victim := 1; victim <= 3; victim++ {
				dist := 1 + c.Rng.Intn(d0)
				emitCase(c, caseIn{"bootvictim", h, G, S, runCfg{dist: dist, thr: c.Rng.Intn(2), disk: true, fault: "tamper",
					tamper: &tamperSpec{mode: mode, skip: c.Rng.Intn(4) / 3, victim: victim, at: "boot"}, wrap: true}})
				dist = 1 + c.Rng.Intn(d0)
				emitCase(c, caseIn{"octovictim", h, G, S, runCfg{dist: dist, thr: c.Rng.Intn(2), disk: true, fault: "tamper",
					tamper: &tamperSpec{mode: mode, skip: c.Rng.Intn(3), victim: victim, minFiles: 2, at: "consume"}, wrap: c.Rng.Intn(3) != 0}})
			}
		}
	}
	nh := c.Count(8, 150)
	for i := 0; i < nh; i++ {
		h, G, S := genHist(c, 8+c.Rng.Intn(7))
		for _, mode := range modes {
			for k := 0; k < 2; k++ {
				emitCase(c, caseIn{"victim", h, G, S, runCfg{dist: 1 + c.Rng.Intn(3), thr: c.Rng.Intn(2), disk: true, fault: "tamper",
					tamper: &tamperSpec{mode: mode, skip: c.Rng.Intn(3), victim: 1 + c.Rng.Intn(3), minFiles: 1 + k, at: "consume"},
					wrap:   c.Rng.Intn(3) != 0}})
			}
		}
	}
}

// probe runs the history once (distance 1, threshold 0, on disk, recording wrapper) and returns the largest arena
// length met at a Hibernate call and the largest temp file written.
var probeCfg = runCfg{dist: 1, thr: 0, disk: true, fault: "none", wrap: true}

func probe(h *synth.Hist) (ro runObs, arena, flen int) {
	ro = doRun(h, 1, 1, probeCfg)
	for _, e := range ro.rec.events {
		if e.Tag() != "hib" {
			continue
		}
		if a := e.Args()[2].Int(); a > arena {
			arena = a
		}
		if f := e.Args()[4]; f.Tag() == "file" {
			if l := f.Args()[1].Int(); l > flen {
				flen = l
			}
		}
	}
	return
}

func mkScale(sp scaleP) *synth.Hist {
	h := sp.hist()
	scaleOf[h] = sp
	return h
}

// scaleCases: the scale family (see scale.go).  Large histories are judged by the property oracles (result equal to
// the run without hibernation, no file left) and - when the temp files stay below 2 MB - by the complete
// correspondence as well.  level 0: distance 1 on disk; level 1: + distance 2 on disk (bare item) and distance 2 with
// the threshold equal to the arena length met; level 2: + distance 1 in memory and threshold = arena length + 1.
func scaleCases(c *Config) {
	if c.Tier == "search" {
		// the family draws nothing from the PRNG: the search after a correspondence break would only repeat it
		return
	}
	emitAll := func(h *synth.Hist, pre runObs, arena, flen int, level int) {
		emitCaseWith(c, caseIn{"scale", h, 1, 1, probeCfg}, &pre)
		wrapIt := flen < 2000000
		var cfgs []runCfg
		if level >= 1 {
			cfgs = append(cfgs,
				runCfg{dist: 2, thr: 0, disk: true, fault: "none", wrap: false},
				runCfg{dist: 2, thr: arena, disk: true, fault: "none", wrap: wrapIt})
		}
		if level >= 2 {
			cfgs = append(cfgs,
				runCfg{dist: 1, thr: 0, disk: false, fault: "none", wrap: wrapIt},
				runCfg{dist: 1, thr: arena + 1, disk: true, fault: "none", wrap: wrapIt})
		}
		for _, cfg := range cfgs {
			emitCase(c, caseIn{"scale", h, 1, 1, cfg})
		}
	}
	// arena lengths c-1, c, c+1 around a constant: the tuning file adds exactly one node per line
	arenaStraddle := func(sp scaleP, target, level int) {
		if sp.T < 2 {
			sp.T = 2
		}
		h := mkScale(sp)
		ro, a, fl := probe(h)
		if a != target-1 {
			if sp.T+target-1-a < 2 {
				return
			}
			sp.T += target - 1 - a
			h = mkScale(sp)
			ro, a, fl = probe(h)
		}
		for i := 0; i < 3; i++ {
			lv := 0
			if i == 1 {
				lv = level
			}
			emitAll(h, ro, a, fl, lv)
			if i < 2 {
				sp.T++
				h = mkScale(sp)
				ro, a, fl = probe(h)
			}
		}
	}
	// temp-file lengths closely below and above a constant (secant steps on the tuning file, starting from the
	// given lengths of the tuning file)
	fileStraddle := func(sp scaleP, target int, tBelow, tAbove int, level int) {
		for k, t0 := range []int{tBelow, tAbove} {
			below := k == 0
			goal := target + target/300
			if below {
				goal = target - target/300
			}
			sp.T = t0
			var h *synth.Hist
			var ro runObs
			var a, fl int
			pt, pfl := -1, 0
			for it := 0; it < 4; it++ {
				h = mkScale(sp)
				ro, a, fl = probe(h)
				if a == 0 || fl == 0 {
					return
				}
				if (fl < target) == below && fl-goal < target/150 && goal-fl < target/150 {
					break
				}
				num, den := fl, a // bytes per node: overall, or measured on the tuning file
				if pt >= 0 && pt != sp.T && (fl-pfl)*(sp.T-pt) > 0 {
					num, den = fl-pfl, sp.T-pt
				}
				pt, pfl = sp.T, fl
				sp.T += (goal - fl) * den / num
				if sp.T < 2 {
					sp.T = 2
				}
			}
			lv := 0
			if !below {
				lv = level
			}
			emitAll(h, ro, a, fl, lv)
		}
	}
	plain := func(sp scaleP, level int) {
		h := mkScale(sp)
		ro, a, fl := probe(h)
		emitAll(h, ro, a, fl, level)
	}
	// quick tier: about 10^3, 10^4, 4*10^4 and 6.6*10^4 intervals; arena around 128 and 16512 (2- and 3-byte lengths
	// in the file), temp file around 256 KiB
	arenaStraddle(scaleP{F: 1, L: 90, P: 2, T: 27, K: 2, A: 3}, 128, 2)
	plain(scaleP{F: 5, L: 199, P: 2, V: 1, K: 2, A: 3, G: 5}, 2)
	plain(scaleP{F: 50, L: 201, P: 2, V: 2, K: 4, A: 2, G: 7}, 0)
	arenaStraddle(scaleP{F: 80, L: 200, P: 2, T: 343, K: 2, A: 3}, 16512, 0)
	fileStraddle(scaleP{F: 140, L: 257, P: 2, K: 2, A: 3}, 1<<18, 1800, 1960, 0)
	plain(scaleP{F: 320, L: 200, P: 2, V: 1, T: 1400, K: 2, A: 2}, 0) // 66 047 nodes: indices above 2^16
	if c.Tier != "thorough" {
		return
	}
	plain(scaleP{F: 50, L: 201, P: 2, V: 2, K: 4, A: 2, G: 7}, 2)
	arenaStraddle(scaleP{F: 80, L: 200, P: 2, V: 1, T: 343, K: 2, A: 3}, 16512, 2)
	fileStraddle(scaleP{F: 40, L: 200, P: 2, V: 1, K: 2, A: 3}, 1<<16, 1500, 1600, 2)
	fileStraddle(scaleP{F: 140, L: 257, P: 2, V: 2, K: 2, A: 3}, 1<<18, 1800, 1960, 2)
	arenaStraddle(scaleP{F: 320, L: 200, P: 2, T: 1000, K: 2, A: 2}, 1<<16, 2)
	plain(scaleP{F: 400, L: 200, P: 2, K: 2, A: 3, G: 9}, 2)
	plain(scaleP{F: 300, L: 511, P: 3, V: 1, K: 5, A: 2, G: 4}, 2)
	fileStraddle(scaleP{F: 700, L: 200, P: 2, V: 2, K: 2, A: 3}, 1<<20, 12000, 13000, 1)
	plain(scaleP{F: 330, L: 1000, P: 2, K: 4, A: 2, G: 17}, 1)
	plain(scaleP{F: 1000, L: 1000, P: 2, V: 1, K: 2, A: 3}, 1)
}
