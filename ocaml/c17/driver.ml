(* C17: replay the harness trace through the extracted Gallina model of the result codecs
   (coq/theories/Results/PB.v, Yaml.v) and judge the implementation's outputs with the property oracle. *)
open C17_model
open Conv

(* ---- integers beyond the OCaml int range (int64 cells, tick sizes) *)
let z_of_string (s : string) =
  let n = String.length s in
  if n = 0 then failwith "empty integer";
  let neg = s.[0] = '-' in
  let start = if neg then 1 else 0 in
  if n - start <= 17 then z_of_int (int_of_string s)
  else begin
    let acc = ref Z0 in
    for i = start to n - 1 do
      let d = Char.code s.[i] - 48 in
      if d < 0 || d > 9 then failwith ("bad integer " ^ s);
      acc := dec_step !acc (z_of_int d)
    done;
    if neg then Z.opp !acc else !acc
  end

let z s = z_of_string (atom s)
let zs s = List.map z (list_of_sx s)
let name s = List.map z (list_of_sx s)
let names s = List.map name (list_of_sx s)
let matrix s = List.map zs (list_of_sx s)
let kv s = match list_of_sx s with [a; b] -> (z a, z b) | _ -> failwith "kv"
let kvs s = List.map kv (list_of_sx s)
let kv_rows s = List.map kvs (list_of_sx s)
let arg0 t s = List.hd (args (field t s))
let nat_len l = nat_of_int (List.length l)

(* ---- results *)
let burndown_of_sx (s : sx) : burndown_result =
  { bd_global = matrix (arg0 "global" s);
    bd_files = List.map (fun f -> match list_of_sx f with [n; m] -> (name n, matrix m) | _ -> failwith "file") (args (field "files" s));
    bd_ownership = List.map (fun f -> match list_of_sx f with [n; t] -> (name n, kvs t) | _ -> failwith "own") (args (field "own" s));
    bd_people = List.map matrix (args (field "people" s));
    bd_matrix = (match args (field "pm" s) with [A "none"] -> None | [A "some"; m] -> Some (matrix m) | _ -> failwith "pm");
    bd_names = names (arg0 "names" s);
    bd_tick_size = z (arg0 "tick" s);
    bd_sampling = z (arg0 "samp" s);
    bd_granularity = z (arg0 "gran" s) }

let stats_of = function [a; r; c] -> { ls_added = z a; ls_removed = z r; ls_changed = z c } | _ -> failwith "stats"

let ticks_of_sx (s : sx) =
  List.map (fun t -> match list_of_sx t with
    | [tk; ds] ->
        (z tk, List.map (fun d -> match list_of_sx d with
           | [dev; L (commits :: st); langs] ->
               (z dev, { dt_commits = z commits; dt_stats = stats_of st;
                         dt_langs = List.map (fun l -> match list_of_sx l with
                             | n :: st -> (name n, stats_of st) | _ -> failwith "lang") (list_of_sx langs) })
           | _ -> failwith "dev") (list_of_sx ds))
    | _ -> failwith "tick") (list_of_sx s)

let devs_of_sx (s : sx) : devs_result =
  { dv_ticks = ticks_of_sx (arg0 "ticks" s); dv_names = names (arg0 "names" s); dv_tick_size = z (arg0 "tick" s) }

let couples_of_sx (s : sx) : couples_result =
  { cp_people_matrix = kv_rows (arg0 "pm" s); cp_people_files = matrix (arg0 "pf" s);
    cp_files_matrix = kv_rows (arg0 "fm" s); cp_files_lines = zs (arg0 "fl" s);
    cp_files = names (arg0 "files" s); cp_names = names (arg0 "names" s) }

(* ---- messages *)
let sparse_of_sx (s : sx) : sparse_matrix =
  match list_of_sx s with
  | [n; r; c; rows] -> { sm_name = name n; sm_rows = z r; sm_cols = z c; sm_data = matrix rows }
  | _ -> failwith "sparse"

let csr_of_sx (s : sx) : csr =
  match list_of_sx s with
  | [r; c; d; ix; ip] -> { csr_rows = z r; csr_cols = z c; csr_data = zs d; csr_indices = zs ix; csr_indptr = zs ip }
  | _ -> failwith "csr"

let opt f = function [A "none"] -> None | [A "some"; x] -> Some (f x) | _ -> failwith "option"

let bmsg_of_sx (s : sx) : burndown_msg =
  { bm_granularity = z (arg0 "gran" s); bm_sampling = z (arg0 "samp" s);
    bm_project = opt sparse_of_sx (args (field "project" s));
    bm_files = List.map sparse_of_sx (args (field "files" s));
    bm_people = List.map sparse_of_sx (args (field "people" s));
    bm_interaction = opt csr_of_sx (args (field "inter" s));
    bm_ownership = List.map kvs (args (field "own" s));
    bm_tick_size = z (arg0 "tick" s) }

let dmsg_of_sx (s : sx) : devs_msg =
  { dm_ticks = ticks_of_sx (arg0 "ticks" s); dm_index = names (arg0 "index" s); dm_tick_size = z (arg0 "tick" s) }

let cmsg_of_sx (s : sx) : couples_msg =
  { cm_files_index = names (arg0 "findex" s); cm_files_matrix = csr_of_sx (arg0 "fmatrix" s);
    cm_people_index = names (arg0 "pindex" s); cm_people_matrix = csr_of_sx (arg0 "pmatrix" s);
    cm_people_files = matrix (arg0 "pfiles" s); cm_files_lines = zs (arg0 "flines" s) }

(* ---- comparison of outcomes *)
let kind_of = function Ok _ -> "ok" | Panic -> "panic" | Fail -> "err"

(* which field of a burndown result differs (for the report) *)
let bd_diff (a : burndown_result) (b : burndown_result) : string =
  String.concat "," (List.filter (fun x -> x <> "") [
    (if a.bd_global <> b.bd_global then "GlobalHistory" else "");
    (if a.bd_files <> b.bd_files then "FileHistories" else "");
    (if a.bd_ownership <> b.bd_ownership then "FileOwnership" else "");
    (if a.bd_people <> b.bd_people then "PeopleHistories" else "");
    (if a.bd_matrix <> b.bd_matrix then "PeopleMatrix" else "");
    (if a.bd_names <> b.bd_names then "reversedPeopleDict" else "");
    (if a.bd_tick_size <> b.bd_tick_size then "tickSize" else "");
    (if a.bd_sampling <> b.bd_sampling then "sampling" else "");
    (if a.bd_granularity <> b.bd_granularity then "granularity" else "") ])

let cp_diff (a : couples_result) (b : couples_result) : string =
  String.concat "," (List.filter (fun x -> x <> "") [
    (if a.cp_people_matrix <> b.cp_people_matrix then "PeopleMatrix" else "");
    (if a.cp_people_files <> b.cp_people_files then "PeopleFiles" else "");
    (if a.cp_files_matrix <> b.cp_files_matrix then "FilesMatrix" else "");
    (if a.cp_files_lines <> b.cp_files_lines then "FilesLines" else "");
    (if a.cp_files <> b.cp_files then "Files" else "");
    (if a.cp_names <> b.cp_names then "reversedPeopleDict" else "") ])

let dv_diff (a : devs_result) (b : devs_result) : string =
  String.concat "," (List.filter (fun x -> x <> "") [
    (if a.dv_ticks <> b.dv_ticks then "Ticks" else "");
    (if a.dv_names <> b.dv_names then "reversedPeopleDict" else "");
    (if a.dv_tick_size <> b.dv_tick_size then "tickSize" else "") ])

(* ---- where two values differ first (the concrete failing row of a big value) *)
let show_z v = string_of_int (int_of_z v)
let clip s = if String.length s > 160 then String.sub s 0 160 ^ "..." else s
let show_zs l = clip ("[" ^ String.concat " " (List.map show_z l) ^ "]")
let show_kvs l = clip ("{" ^ String.concat " " (List.map (fun (k, v) -> show_z k ^ ":" ^ show_z v) l) ^ "}")
let first_diff (show : 'a -> string) (what : string) (exp : 'a list) (got : 'a list) : string =
  let rec go i e g = match e, g with
    | [], [] -> ""
    | x :: e', y :: g' -> if x = y then go (i + 1) e' g'
        else Printf.sprintf " [%s: %d rows; first difference at row %d: expected %s, read back %s]" what (List.length exp) i (show x) (show y)
    | _ -> Printf.sprintf " [%s: expected %d rows, read back %d]" what (List.length exp) (List.length got) in
  go 0 exp got
(* dense rows: the first differing column *)
let first_diff_rows (what : string) (exp : z list list) (got : z list list) : string =
  let rec col j e g = match e, g with
    | x :: e', y :: g' -> if x = y then col (j + 1) e' g' else Printf.sprintf "column %d: expected %s, read back %s" j (show_z x) (show_z y)
    | [], [] -> "" | _ -> Printf.sprintf "row lengths %d and %d" (List.length e + j) (List.length g + j) in
  let rec go i e g = match e, g with
    | [], [] -> ""
    | x :: e', y :: g' -> if x = y then go (i + 1) e' g'
        else Printf.sprintf " [%s: %d rows of %d cells; first difference at row %d, %s]" what (List.length exp) (List.length x) i (col 0 x y)
    | _ -> Printf.sprintf " [%s: expected %d rows, read back %d]" what (List.length exp) (List.length got) in
  go 0 exp got
let show_name n = clip (String.concat "" (List.map (fun c -> let c = int_of_z c in
  if c >= 32 && c < 127 then String.make 1 (Char.chr c) else Printf.sprintf "\\x%02x" c) n))
let cp_where (e : couples_result) (g : couples_result) : string =
  first_diff show_kvs "FilesMatrix" e.cp_files_matrix g.cp_files_matrix
  ^ first_diff show_kvs "PeopleMatrix" e.cp_people_matrix g.cp_people_matrix
  ^ first_diff show_zs "PeopleFiles" e.cp_people_files g.cp_people_files
  ^ first_diff show_z "FilesLines" e.cp_files_lines g.cp_files_lines
  ^ first_diff show_name "Files" e.cp_files g.cp_files
  ^ first_diff show_name "reversedPeopleDict" e.cp_names g.cp_names
let bd_where (e : burndown_result) (g : burndown_result) : string =
  first_diff_rows "GlobalHistory" e.bd_global g.bd_global
  ^ first_diff (fun (n, m) -> show_name n ^ " " ^ clip (String.concat "" (List.map show_zs m))) "FileHistories" e.bd_files g.bd_files
  ^ first_diff (fun (n, t) -> show_name n ^ " " ^ show_kvs t) "FileOwnership" e.bd_ownership g.bd_ownership
  ^ first_diff (fun m -> clip (String.concat "" (List.map show_zs m))) "PeopleHistories" e.bd_people g.bd_people
  ^ (match e.bd_matrix, g.bd_matrix with Some a, Some b -> first_diff_rows "PeopleMatrix" a b | _ -> "")
  ^ first_diff show_name "reversedPeopleDict" e.bd_names g.bd_names
let dv_where (e : devs_result) (g : devs_result) : string =
  first_diff (fun (t, ds) -> "tick " ^ show_z t ^ " with " ^ string_of_int (List.length ds) ^ " developer(s) " ^
      clip (String.concat " " (List.map (fun (d, s) -> show_z d ^ ":" ^ show_z s.dt_commits ^ "/" ^ show_z s.dt_stats.ls_added
        ^ "/" ^ string_of_int (List.length s.dt_langs) ^ "langs") ds))) "Ticks" e.dv_ticks g.dv_ticks
  ^ first_diff show_name "reversedPeopleDict" e.dv_names g.dv_names

(* generic replay of one serialize -> message -> deserialize observation.
   [enc] model message, [dec] model decoder, [in_domain] the property applies, [expected] what the property
   demands of the decoded value, [diff] names the differing fields *)
let replay ?(skip_model = false) id what obs ~enc ~msg_of_sx ~dec ~res_of_sx ~in_domain ~expected ~diff ~classify =
  let ser = atom (arg0 "ser" obs) in
  if in_domain then count (what ^ "_in_domain") else count (what ^ "_outside_domain");
  if skip_model then begin
    (* scale cases beyond the reach of the quadratic list model: judged by the property oracle only *)
    count (what ^ "_oracle_only");
    if in_domain && ser <> "ok" then
      propfail id (Printf.sprintf "%s: binary Serialize of a well-formed in-range result ends in %s" what ser);
    if ser = "ok" then
      (match args (field "dec" obs) with
       | [A "ok"; r] ->
           let got = res_of_sx r in
           if in_domain && got <> expected () then propfail id (Printf.sprintf "%s: %s" what (classify got))
       | od -> if in_domain then propfail id (Printf.sprintf "%s: Deserialize of the bytes just written ends in %s" what (atom (List.hd od))))
  end else begin
  let enc = enc () in
  let expected = expected () in
  if kind_of enc <> ser then mismatch id (Printf.sprintf "%s: Serialize is %s, the model says %s" what ser (kind_of enc));
  if in_domain && ser <> "ok" then
    propfail id (Printf.sprintf "%s: binary Serialize of a well-formed in-range result ends in %s" what ser);
  (match enc, ser with
   | Ok m, "ok" ->
       (match args (field "msg" obs) with
        | [A "unreadable"] -> mismatch id (what ^ ": the written bytes are not a readable message")
        | [ms] -> if msg_of_sx ms <> m then mismatch id (what ^ ": protobuf message differs from the model's message image")
        | _ -> failwith "msg");
       let d = dec m in
       let od = args (field "dec" obs) in
       let okind = atom (List.hd od) in
       if kind_of d <> okind then mismatch id (Printf.sprintf "%s: Deserialize is %s, the model says %s" what okind (kind_of d));
       (match od with
        | [A "ok"; r] ->
            let got = res_of_sx r in
            (match d with
             | Ok md -> if md <> got then mismatch id (Printf.sprintf "%s: decoded result differs from the model's (%s)" what (diff md got))
             | _ -> ());
            if in_domain && got <> expected then
              propfail id (Printf.sprintf "%s: %s" what (classify got))
        | _ -> if in_domain then propfail id (Printf.sprintf "%s: Deserialize of the bytes just written ends in %s" what okind))
   | _ -> ())
  end

(* ---- names that are not valid UTF-8 (content family, kinds ending in -badutf8).  proto3 strings must be valid UTF-8 and
   gogo Marshal refuses a message with such a string: binary Serialize returns an error.  The model identifies a string
   with its byte list and has no such failure (assumption "names are valid UTF-8"), so these cases are outside the domain
   of the property and only this outcome is compared.  The predicate is the definition of RFC 3629 / Go's utf8.Valid. *)
let valid_utf8 (n : z list) : bool =
  let rec go = function
    | [] -> true
    | b :: r when b < 0x80 -> go r
    | b :: c1 :: r when b >= 0xc2 && b <= 0xdf && c1 land 0xc0 = 0x80 -> go r
    | b :: c1 :: c2 :: r when b >= 0xe0 && b <= 0xef && c2 land 0xc0 = 0x80
        && (if b = 0xe0 then c1 >= 0xa0 && c1 <= 0xbf else if b = 0xed then c1 >= 0x80 && c1 <= 0x9f else c1 land 0xc0 = 0x80) -> go r
    | b :: c1 :: c2 :: c3 :: r when b >= 0xf0 && b <= 0xf4 && c2 land 0xc0 = 0x80 && c3 land 0xc0 = 0x80
        && (if b = 0xf0 then c1 >= 0x90 && c1 <= 0xbf else if b = 0xf4 then c1 >= 0x80 && c1 <= 0x8f else c1 land 0xc0 = 0x80) -> go r
    | _ -> false in
  go (List.map int_of_z n)

let has_suffix s suf = let n = String.length s and k = String.length suf in n >= k && String.sub s (n - k) k = suf

(* [written]: the names that Serialize puts into the message *)
let replay_badutf8 id what obs (written : z list list) =
  count (what ^ "_badutf8_outside_domain");
  if List.for_all valid_utf8 written then failwith (what ^ ": a -badutf8 case without an invalid name");
  let ser = atom (arg0 "ser" obs) in
  if ser <> "err" then
    mismatch id (Printf.sprintf "%s: binary Serialize of a result with a name that is not valid UTF-8 is %s; proto3 Marshal refuses such strings (error)" what ser)

(* big cases go through extracted list functions that are not tail recursive: run with a large stack *)
let () =
  if Sys.getenv_opt "VERIF_DRIVER_STACK" = None then begin
    Unix.putenv "VERIF_DRIVER_STACK" "1";
    (try Unix.execv "/bin/sh" (Array.append [| "sh"; "-c"; "ulimit -s 4000000 2>/dev/null || ulimit -s unlimited 2>/dev/null; exec \"$0\" \"$@\""; Sys.executable_name |]
                                 (Array.sub Sys.argv 1 (Array.length Sys.argv - 1)))
     with _ -> ())
  end

let () =
  iter_cases (fun id c ->
    let r = List.hd (args (field "res" c)) in
    let obs = field "obs" c in
    let kind = atom (arg0 "kind" c) in
    let n = String.length kind in
    let xl = n > 3 && String.sub kind (n - 3) 3 = "-xl" in
    if n > 3 && String.sub kind 0 3 = "sc-" then count "scale_cases";
    match tag r with
    | "burndown" ->
        let b = burndown_of_sx r in
        let shape = shape_burndown b && in_range_burndown b in
        let aligned = aligned_burndown b in
        if shape && not aligned then count "burndown_shape_not_aligned";
        let expected = normalise_burndown b in
        (* Coq's List.rev is quadratic and the model of ToBurndownSparseMatrix reverses every row twice: histories wider
           than 8200 cells are judged by the property oracle only *)
        let wide m = (match m with r0 :: _ -> List.length r0 > 8200 | [] -> false) in
        let too_wide = wide b.bd_global || List.exists (fun (_, m) -> wide m) b.bd_files || List.exists wide b.bd_people in
        if too_wide then count "burndown_wide_oracle_only";
        if has_suffix kind "-badutf8" then
          replay_badutf8 id "burndown" obs (List.map fst b.bd_files @ List.filteri (fun i _ -> i < List.length b.bd_people) b.bd_names)
        else
        replay ~skip_model:(xl || too_wide) id "burndown" obs ~enc:(fun () -> encode_burndown b) ~msg_of_sx:bmsg_of_sx ~dec:decode_burndown
          ~res_of_sx:burndown_of_sx ~in_domain:shape ~expected:(fun () -> expected) ~diff:bd_diff
          ~classify:(fun got ->
            let d = bd_diff expected got in
            (* the two known deviations are recognised only in the generator streams dedicated to them *)
            if kind = "bd-loaded-dict" && d = "reversedPeopleDict" && List.length b.bd_names > List.length b.bd_people then
              "developer names beyond PeopleHistories are dropped by the round trip (reversedPeopleDict longer than PeopleHistories, e.g. the <unmatched> entry of a loaded people dictionary)"
            else if kind = "bd-no-ownership" && d = "FileOwnership" && not aligned then
              "a file history without an ownership table comes back with an empty table (hand-made result; Finalize makes a table for every file history)"
            else "decoded result differs from the input beyond clamping in: " ^ d ^ bd_where expected got);
        (* text format *)
        let shape = shape && not (has_suffix kind "-badutf8") in
        if xl then count "burndown_text_not_modelled_xl"
        else if too_wide then begin
          (* the list model of PrintMatrix is quadratic in the width of a row: only the shape oracle *)
          count "burndown_text_shape_oracle_only";
          (match args (field "text" obs) with
           | [A "ok"; gs] ->
               if not (shapes_okb (text_sources b) (List.map matrix (list_of_sx gs))) then
                 propfail id "burndown text: a matrix is not printed with its declared number of rows and columns"
           | _ -> if shape then propfail id "burndown text: Serialize(text) fails on a well-formed wide result")
        end else
        let mt = text_burndown b in
        (match args (field "text" obs) with
         | [A "ok"; gs] ->
             let grids = List.map matrix (list_of_sx gs) in
             count "texts";
             (match mt with
              | Ok mg ->
                  if not (shapes_okb (text_sources b) grids) then
                    propfail id "burndown text: a matrix is not printed with its declared number of rows and columns"
                  else if mg <> grids then mismatch id "burndown text: token grid differs from the model's"
              | _ -> mismatch id ("burndown text: printed, the model says " ^ kind_of mt))
         | [A "panic"] -> (match mt with Panic -> count "text_panics" | _ ->
             if shape then propfail id "burndown text: Serialize(text) panics on a well-formed result"
             else mismatch id ("burndown text: panic, the model says " ^ kind_of mt))
         | [A "parsefail"; A "ambiguous"] -> count "text_ambiguous_empty_names"
         | [A "parsefail"; A w] ->
             if shape then propfail id ("burndown text: output does not have the expected structure at " ^ w)
             else mismatch id ("burndown text: unparsable at " ^ w)
         | _ -> mismatch id "burndown text: observation shape")
    | "devs" ->
        let d = devs_of_sx r in
        let dom = shape_devs d && in_range_devs d in
        let dom = dom && not (has_suffix kind "-badutf8") in
        if has_suffix kind "-badutf8" then
          replay_badutf8 id "devs" obs (d.dv_names @ List.concat_map (fun (_, ds) -> List.concat_map (fun (_, s) -> List.map fst s.dt_langs) ds) d.dv_ticks)
        else
        replay ~skip_model:xl id "devs" obs ~enc:(fun () -> Ok (encode_devs d)) ~msg_of_sx:dmsg_of_sx ~dec:(fun m -> Ok (decode_devs m))
          ~res_of_sx:devs_of_sx ~in_domain:dom ~expected:(fun () -> d) ~diff:dv_diff
          ~classify:(fun got -> "decoded result differs from the input in: " ^ dv_diff d got ^ dv_where d got);
        (match args (field "text" obs) with
         | [A "ok"] -> ()
         | _ -> if dom then propfail id "devs text: Serialize(text) fails on a well-formed result")
    | "couples" ->
        let cp = couples_of_sx r in
        let dom = shape_couples cp && in_range_couples cp in
        let expected = normalise_couples cp in
        let dom = dom && not (has_suffix kind "-badutf8") in
        if has_suffix kind "-badutf8" then replay_badutf8 id "couples" obs (cp.cp_files @ cp.cp_names)
        else
        replay ~skip_model:xl id "couples" obs ~enc:(fun () -> encode_couples cp) ~msg_of_sx:cmsg_of_sx ~dec:decode_couples
          ~res_of_sx:couples_of_sx ~in_domain:dom ~expected:(fun () -> expected) ~diff:cp_diff
          ~classify:(fun got -> "decoded result differs from the input (modulo the unnamed developers' file lists) in: " ^ cp_diff expected got
                                ^ cp_where expected got);
        (* sortByNumberOfFiles indexes Files with the PeopleFiles entries: the text needs them to be file indexes *)
        let pf_ok = List.for_all (List.for_all (fun v -> int_of_z v >= 0 && int_of_z v < List.length cp.cp_files))
                      cp.cp_people_files in
        (match args (field "text" obs) with
         | [A "ok"] -> ()
         | _ -> if dom && pf_ok then propfail id "couples text: Serialize(text) fails on a well-formed result")
    | "matrix" ->
        let m = matrix (arg0 "m" r) in
        let fix = bool_of_sx (arg0 "fix" r) in
        count "matrices";
        let nm = [z_of_int 109] in
        let width = (match m with r0 :: _ -> List.length r0 | [] -> 0) in
        let wide = width > 8200 in
        if wide then begin
          (* property oracle only: the observed sparse matrix must decode to the clamped matrix *)
          count "sparse_oracle_only_wide";
          (match args (field "sparse" obs) with
           | [A "ok"; o] ->
               if rect m && cells_u32 m && of_sparse (sparse_of_sx o) <> Ok (clamp_matrix m) then
                 propfail id "ToBurndownSparseMatrix: decoding the sparse matrix does not give back the clamped matrix"
           | _ -> if m <> [] then propfail id "ToBurndownSparseMatrix panics on a non-empty matrix")
        end else
        (match to_sparse m nm, args (field "sparse" obs) with
         | Ok s, [A "ok"; o] ->
             let os = sparse_of_sx o in
             if os <> s then mismatch id "ToBurndownSparseMatrix differs from the model";
             if rect m && cells_u32 m && of_sparse os <> Ok (clamp_matrix m) then
               propfail id "ToBurndownSparseMatrix: decoding the sparse matrix does not give back the clamped matrix"
         | Panic, [A "panic"] -> ()
         | ms, _ -> mismatch id ("ToBurndownSparseMatrix outcome differs, model " ^ kind_of ms));
        (match dense_to_csr m, args (field "csr" obs) with
         | Ok s, [A "ok"; o] ->
             let os = csr_of_sx o in
             if os <> s then mismatch id "DenseToCompressedSparseRowMatrix differs from the model";
             if List.length m > 8200 || wide
             then count "csr_decode_oracle_skipped_over_8200_rows_or_columns"
             else if rect m && csr_to_dense os <> Ok m then
               propfail id "DenseToCompressedSparseRowMatrix: decoding the CSR matrix does not give back the matrix"
         | Panic, [A "panic"] -> ()
         | ms, _ -> mismatch id ("DenseToCompressedSparseRowMatrix outcome differs, model " ^ kind_of ms));
        if wide then begin
          (* quadratic list model of PrintMatrix: only the shape oracle *)
          count "print_shape_oracle_only";
          (match args (field "print" obs) with
           | [A "ok"; o] -> if not (shape_okb m (matrix o)) then propfail id "PrintMatrix: wrong number of rows or columns"
           | _ -> propfail id "PrintMatrix fails on a wide matrix")
        end else
        (match print_matrix m fix, args (field "print" obs) with
         | Ok g, [A "ok"; o] ->
             let og = matrix o in
             if not (shape_okb m og) then propfail id "PrintMatrix: wrong number of rows or columns"
             else if og <> g then mismatch id "PrintMatrix tokens differ from the model"
         | Panic, [A "panic"] -> ()
         | Ok _, [A "parsefail"] -> propfail id "PrintMatrix: a printed row is not a sequence of blank-separated integers (cells glued together)"
         | ms, _ -> mismatch id ("PrintMatrix outcome differs, model " ^ kind_of ms))
    | t -> failwith ("unknown result kind " ^ t))
