(* Executable model of internal/rbtree/rbtree.go (RBTree, Iterator and the part of Allocator that
   hands out node indexes).  Definitions only; the proofs are in the other files of this directory.

   The Go code keeps the nodes of all trees of one Allocator in one arena ([]node) and links them by
   uint32 indexes (left, right, parent).  The model is a recursive tree whose nodes carry the arena
   index ("id") they occupy; parent links, minNode/maxNode and count are DERIVED (Arena.v computes
   the arena image that is compared with the real arena after every operation).
   Iterators are arena indexes: 0 is Limit, 2^32-1 is NegativeLimit.

   malloc() takes "some" key of the gaps map: the index actually handed out is an explicit choice
   argument of the operations that allocate (OInsert, OClone). *)
From Coq Require Import List ZArith Bool.
Import ListNotations.
Open Scope Z_scope.

Inductive color := Red | Black.
Inductive tree :=
| E
| T (c : color) (l : tree) (id k v : Z) (r : tree).

Definition limit : Z := 0.
Definition neg_limit : Z := 4294967295.       (* math.MaxUint32 *)

Definition is_red (t : tree) : bool := match t with T Red _ _ _ _ _ => true | _ => false end.
Definition is_E (t : tree) : bool := match t with E => true | _ => false end.
Definition blacken (t : tree) : tree := match t with T _ l i k v r => T Black l i k v r | E => E end.
Definition root_id (t : tree) : Z := match t with E => 0 | T _ _ i _ _ _ => i end.

(* ---------- Insert ---------- *)

(* The loop of Insert seen from the grandparent (black) two levels above the red-red conflict.
   case 3: red uncle -> recolour, the grandparent becomes the new n;
   case 5: outer grandchild -> recolour + rotate the grandparent;
   case 4 then 5: inner grandchild -> rotate the parent first. *)
Definition balL (c : color) (l : tree) (i k v : Z) (r : tree) : tree :=
  match c, l with
  | Black, T Red (T Red a xi xk xv b) yi yk yv cc =>
      if is_red r then T Red (blacken l) i k v (blacken r)
      else T Black (T Red a xi xk xv b) yi yk yv (T Red cc i k v r)
  | Black, T Red a xi xk xv (T Red b yi yk yv cc) =>
      if is_red r then T Red (blacken l) i k v (blacken r)
      else T Black (T Red a xi xk xv b) yi yk yv (T Red cc i k v r)
  | _, _ => T c l i k v r
  end.

Definition balR (c : color) (l : tree) (i k v : Z) (r : tree) : tree :=
  match c, r with
  | Black, T Red b yi yk yv (T Red cc zi zk zv d) =>
      if is_red l then T Red (blacken l) i k v (blacken r)
      else T Black (T Red l i k v b) yi yk yv (T Red cc zi zk zv d)
  | Black, T Red (T Red b yi yk yv cc) zi zk zv d =>
      if is_red l then T Red (blacken l) i k v (blacken r)
      else T Black (T Red l i k v b) yi yk yv (T Red cc zi zk zv d)
  | _, _ => T c l i k v r
  end.

(* doInsert (descent, new red leaf) followed by the fix-up on the way back *)
Fixpoint ins (ni nk nv : Z) (t : tree) : tree :=
  match t with
  | E => T Red E ni nk nv E
  | T c l i k v r =>
      if nk <? k then balL c (ins ni nk nv l) i k v r
      else if k <? nk then balR c l i k v (ins ni nk nv r)
      else t
  end.

Fixpoint mem (x : Z) (t : tree) : bool :=
  match t with
  | E => false
  | T _ l _ k _ r => if x <? k then mem x l else if k <? x then mem x r else true
  end.

(* Insert: (tree, inserted?, iterator).  An existing key: nothing changes, (false, Iterator{}). *)
Definition insert (ni nk nv : Z) (t : tree) : tree * bool * Z :=
  if mem nk t then (t, false, 0) else (blacken (ins ni nk nv t), true, ni).

(* ---------- doDelete ---------- *)

(* deleteCase1 seen from the parent p = (c, l, i k v, s): the LEFT subtree l is one black short.
   Result: the repaired subtree and whether the deficit moves up.  None = the Go code would read
   a nil sibling (impossible in a red-black tree). *)
Definition fixL2 (c : color) (l : tree) (i k v : Z) (s : tree) : option (tree * bool) :=
  match s with
  | T Black sl si sk sv sr =>
      if negb (is_red sl) && negb (is_red sr) then
        (* black sibling, black nephews: sibling red; parent black -> continue upwards (case 3),
           parent red -> parent black, done (case 4) *)
        Some (T Black l i k v (T Red sl si sk sv sr), match c with Black => true | Red => false end)
      else if is_red sr then
        (* case 6: far nephew red *)
        Some (T c (T Black l i k v sl) si sk sv (blacken sr), false)
      else
        (* case 5 then 6: near nephew red, far nephew black *)
        match sl with
        | T Red a xi xk xv b => Some (T c (T Black l i k v a) xi xk xv (T Black b si sk sv sr), false)
        | _ => None
        end
  | _ => None
  end.

Definition fixL (c : color) (l : tree) (i k v : Z) (s : tree) : option (tree * bool) :=
  match s with
  | T Red sl si sk sv sr =>
      (* case 2: red sibling: rotate left at p, p red, s black; go on with the new (black) sibling *)
      match fixL2 Red l i k v sl with
      | Some (np, false) => Some (T Black np si sk sv sr, false)
      | _ => None
      end
  | _ => fixL2 c l i k v s
  end.

Definition fixR2 (c : color) (s : tree) (i k v : Z) (r : tree) : option (tree * bool) :=
  match s with
  | T Black sl si sk sv sr =>
      if negb (is_red sl) && negb (is_red sr) then
        Some (T Black (T Red sl si sk sv sr) i k v r, match c with Black => true | Red => false end)
      else if is_red sl then
        Some (T c (blacken sl) si sk sv (T Black sr i k v r), false)
      else
        match sr with
        | T Red a xi xk xv b => Some (T c (T Black sl si sk sv a) xi xk xv (T Black b i k v r), false)
        | _ => None
        end
  | _ => None
  end.

Definition fixR (c : color) (s : tree) (i k v : Z) (r : tree) : option (tree * bool) :=
  match s with
  | T Red sl si sk sv sr =>
      match fixR2 Red sr i k v r with
      | Some (np, false) => Some (T Black sl si sk sv np, false)
      | _ => None
      end
  | _ => fixR2 c s i k v r
  end.

(* a node with at most one child is replaced by that child; the fix-up (deleteCase1) runs first
   whenever the node is black - even when the child is red *)
Definition remove_here (c : color) (l r : tree) : tree * bool :=
  (match r with E => l | _ => r end, match c with Black => true | Red => false end).

(* remove the maximum of t (the predecessor that swapNodes moves up); returns its (id, key, value) *)
Fixpoint del_max (t : tree) : option (tree * bool * (Z * Z * Z)) :=
  match t with
  | E => None
  | T c l i k v E => let '(t', d) := remove_here c l E in Some (t', d, (i, k, v))
  | T c l i k v r =>
      match del_max r with
      | Some (r', d, p) =>
          if d then match fixR c l i k v r' with Some (t', d') => Some (t', d', p) | None => None end
          else Some (T c l i k v r', false, p)
      | None => None
      end
  end.

(* doDelete of the node with key x.  Two children: swapNodes puts the predecessor - WITH ITS OWN
   id, key and value - into the place and colour of the node, and the node is then removed at the
   predecessor's old place. *)
Fixpoint del (x : Z) (t : tree) : option (tree * bool) :=
  match t with
  | E => None
  | T c l i k v r =>
      if x <? k then
        match del x l with
        | Some (l', d) => if d then fixL c l' i k v r else Some (T c l' i k v r, false)
        | None => None
        end
      else if k <? x then
        match del x r with
        | Some (r', d) => if d then fixR c l i k v r' else Some (T c l i k v r', false)
        | None => None
        end
      else
        match l, r with
        | T _ _ _ _ _ _, T _ _ _ _ _ _ =>
            match del_max l with
            | Some (l', d, (pi, pk, pv)) =>
                if d then fixL c l' pi pk pv r else Some (T c l' pi pk pv r, false)
            | None => None
            end
        | _, _ => Some (remove_here c l r)
        end
  end.

Inductive dres := DNotFound | DDone (t : tree) | DUnspec.

(* the root: a deficit that reaches it is dropped (deleteCase1 stops at parent = 0); when the
   root itself is spliced out its child is painted black *)
Definition delete_key (x : Z) (t : tree) : dres :=
  if mem x t then
    match del x t with
    | Some (t', _) =>
        DDone (match t with
               | T _ l _ k _ r => if (x =? k) && (is_E l || is_E r) then blacken t' else t'
               | E => t'
               end)
    | None => DUnspec
    end
  else DNotFound.

(* ---------- lookups ---------- *)

(* findGE: the node (with its item) where the search ends; "exact" is the key comparison that the Go
   code makes at that node *)
Fixpoint find_ge_e (x : Z) (t : tree) : option (Z * Z * Z) :=
  match t with
  | E => None
  | T _ l i k v r =>
      if x <? k then match find_ge_e x l with Some a => Some a | None => Some (i, k, v) end
      else if k <? x then find_ge_e x r
      else Some (i, k, v)
  end.

Definition find_ge (x : Z) (t : tree) : option (Z * bool) :=
  match find_ge_e x t with Some (i, k, _) => Some (i, k =? x) | None => None end.

Fixpoint leftmost (d : Z) (t : tree) : Z := match t with E => d | T _ l i _ _ _ => leftmost i l end.
Fixpoint rightmost (d : Z) (t : tree) : Z := match t with E => d | T _ _ i _ _ r => rightmost i r end.
Definition min_id (t : tree) : Z := leftmost 0 t.      (* minNode *)
Definition max_id (t : tree) : Z := rightmost 0 t.     (* maxNode *)
Fixpoint tsize (t : tree) : Z := match t with E => 0 | T _ l _ _ _ r => tsize l + 1 + tsize r end.

(* key and value stored at a node id *)
Fixpoint item_of (x : Z) (t : tree) : option (Z * Z) :=
  match t with
  | E => None
  | T _ l i k v r =>
      match item_of x l with
      | Some a => Some a
      | None => if x =? i then Some (k, v) else item_of x r
      end
  end.

(* doNext(x): the leftmost node of the right subtree, else the nearest ancestor reached from a left
   child ("up"; 0 when there is none).  None: x is not a node of t. *)
Fixpoint next_in (x : Z) (t : tree) (up : Z) : option Z :=
  match t with
  | E => None
  | T _ l i _ _ r =>
      match next_in x l i with
      | Some n => Some n
      | None => if x =? i then Some (leftmost up r) else next_in x r up
      end
  end.

(* doPrev(x): the rightmost node of the left subtree, else the nearest ancestor reached from a right
   child ("down"; NegativeLimit when there is none). *)
Fixpoint prev_in (x : Z) (t : tree) (down : Z) : option Z :=
  match t with
  | E => None
  | T _ l i _ _ r =>
      match prev_in x l down with
      | Some n => Some n
      | None => if x =? i then Some (rightmost down l) else prev_in x r i
      end
  end.

Definition it_find_ge (x : Z) (t : tree) : Z :=
  match find_ge x t with Some (n, _) => n | None => limit end.

Definition it_max (t : tree) : Z := if max_id t =? 0 then neg_limit else max_id t.

(* FindLE is written in terms of findGE and doPrev *)
Definition it_find_le (x : Z) (t : tree) : option Z :=
  match find_ge x t with
  | Some (n, true) => Some n
  | Some (n, false) => prev_in n t neg_limit
  | None => Some (it_max t)
  end.

Definition get (x : Z) (t : tree) : option Z :=
  match find_ge_e x t with
  | Some (_, k, v) => if k =? x then Some v else None
  | None => None
  end.

(* ---------- CloneDeep: the same shape and colours on freshly allocated nodes, in in-order ---------- *)
Fixpoint relabel (t : tree) (ids : list Z) : tree * list Z :=
  match t with
  | E => (E, ids)
  | T c l i k v r =>
      let (l', ids1) := relabel l ids in
      match ids1 with
      | [] => (E, [])
      | j :: ids2 => let (r', ids3) := relabel r ids2 in (T c l' j k v r', ids3)
      end
  end.

Fixpoint ids (t : tree) : list Z :=
  match t with E => [] | T _ l i _ _ r => ids l ++ i :: ids r end.

(* ---------- several trees on one allocator ---------- *)

Record state := mkState { trees : list tree; asize : Z (* len(allocator.storage) *) }.

Definition init (ntrees : nat) : state := mkState (repeat E ntrees) 0.

Definition live (s : state) : list Z := flat_map ids (trees s).

Fixpoint memz (x : Z) (l : list Z) : bool :=
  match l with [] => false | y :: r => (x =? y) || memz x r end.

Inductive mres := MOk (asize' : Z) | MPanic | MBad.

(* malloc with the index it returned.  A gap (an index below len(storage) that is not live) is
   reused whenever there is one - any one; otherwise storage grows by one cell (index 0 is
   reserved, 2^32-1 is the NegativeLimit sentinel).  "there is a gap" is computed by counting: the
   live indexes are distinct and lie in [1, asize) (invariant Inv of SeqProofs.v). *)
Definition malloc (lv : list Z) (sz id : Z) : mres :=
  if Z.of_nat (length lv) <? sz - 1 then
    if (0 <? id) && (id <? sz) && negb (memz id lv) then MOk sz else MBad
  else
    let n := if sz =? 0 then 1 else sz in
    if n =? neg_limit - 1 then MPanic
    else if id =? n then MOk (n + 1) else MBad.

Fixpoint malloc_seq (lv : list Z) (sz : Z) (l : list Z) : mres :=
  match l with
  | [] => MOk sz
  | id :: r => match malloc lv sz id with
               | MOk sz' => malloc_seq (id :: lv) sz' r
               | x => x
               end
  end.

Inductive op :=
| OInsert (ti : nat) (k v : Z) (id : Z)       (* id = the index malloc hands out, if it is called *)
| ODeleteKey (ti : nat) (k : Z)
| ODeleteIt (ti : nat) (it : Z)
| OFindGE (ti : nat) (k : Z)
| OFindLE (ti : nat) (k : Z)
| OGet (ti : nat) (k : Z)
| OMin (ti : nat)
| OMax (ti : nat)
| ONext (ti : nat) (it : Z)
| OPrev (ti : nat) (it : Z)
| OLen (ti : nat)
| OErase (ti : nat)
| OClone (src dst : nat) (new_ids : list Z).  (* trees[dst] = trees[src].CloneDeep(allocator) *)

Inductive res :=
| RIns (ok : bool) (it : Z)
| RBool (b : bool)
| RIt (it : Z)
| RVal (v : option Z)
| RLen (n : Z)
| RUnit
| RPanic              (* doAssert / malloc limit *)
| RUnspec.            (* outside the specified domain (stale iterator, impossible malloc result, ...) *)

Definition get_tree (s : state) (ti : nat) : tree := nth ti (trees s) E.

Fixpoint set_nth (l : list tree) (n : nat) (t : tree) : list tree :=
  match l, n with
  | [], _ => []
  | _ :: r, O => t :: r
  | x :: r, S m => x :: set_nth r m t
  end.

Definition set_tree (s : state) (ti : nat) (t : tree) : state :=
  mkState (set_nth (trees s) ti t) (asize s).

Definition is_u32 (x : Z) : bool := (0 <=? x) && (x <? 4294967296).

Definition step (s : state) (o : op) : state * res :=
  match o with
  | OInsert ti k v id =>
      let t := get_tree s ti in
      if negb (Nat.ltb ti (length (trees s)) && is_u32 k && is_u32 v) then (s, RUnspec)
      else if mem k t then (s, RIns false 0)
      else match malloc (live s) (asize s) id with
           | MOk sz' => (mkState (set_nth (trees s) ti (blacken (ins id k v t))) sz', RIns true id)
           | MPanic => (s, RPanic)
           | MBad => (s, RUnspec)
           end
  | ODeleteKey ti k =>
      match delete_key k (get_tree s ti) with
      | DNotFound => (s, RBool false)
      | DDone t' => (set_tree s ti t', RBool true)
      | DUnspec => (s, RUnspec)
      end
  | ODeleteIt ti it =>
      if (it =? limit) || (it =? neg_limit) then (s, RPanic)
      else match item_of it (get_tree s ti) with
           | None => (s, RUnspec)
           | Some (k, _) =>
               match delete_key k (get_tree s ti) with
               | DDone t' => (set_tree s ti t', RUnit)
               | _ => (s, RUnspec)
               end
           end
  | OFindGE ti k => (s, RIt (it_find_ge k (get_tree s ti)))
  | OFindLE ti k => (s, match it_find_le k (get_tree s ti) with Some n => RIt n | None => RUnspec end)
  | OGet ti k => (s, RVal (get k (get_tree s ti)))
  | OMin ti => (s, RIt (min_id (get_tree s ti)))
  | OMax ti => (s, RIt (it_max (get_tree s ti)))
  | ONext ti it =>
      if it =? limit then (s, RPanic)
      else if it =? neg_limit then (s, RIt (min_id (get_tree s ti)))
      else (s, match next_in it (get_tree s ti) 0 with Some n => RIt n | None => RUnspec end)
  | OPrev ti it =>
      if it =? neg_limit then (s, RPanic)
      else if it =? limit then (s, RIt (it_max (get_tree s ti)))
      else (s, match prev_in it (get_tree s ti) neg_limit with Some n => RIt n | None => RUnspec end)
  | OLen ti => (s, RLen (tsize (get_tree s ti)))
  | OErase ti => (set_tree s ti E, RUnit)
  | OClone src dst new_ids =>
      let t := get_tree s src in
      if negb (Nat.ltb src (length (trees s)) && Nat.ltb dst (length (trees s))
               && is_E (get_tree s dst) && (Z.of_nat (length new_ids) =? tsize t)) then (s, RUnspec)
      else match malloc_seq (live s) (asize s) new_ids with
           | MOk sz' => (mkState (set_nth (trees s) dst (fst (relabel t new_ids))) sz', RUnit)
           | MPanic => (s, RPanic)
           | MBad => (s, RUnspec)
           end
  end.

Fixpoint run (s : state) (l : list op) : state * list res :=
  match l with
  | [] => (s, [])
  | o :: r => let (s1, x) := step s o in let (s2, xs) := run s1 r in (s2, x :: xs)
  end.
