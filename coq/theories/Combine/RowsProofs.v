(* C18 - BurndownAnalysis.MergeResults, the people interaction matrix (branch len(bar2.PeopleMatrix) > 0):
   with literal identities every cell of row w is the sum, over the input developers that belong to merged
   developer w, of their cells (columns 0 and 1 kept, column 2+k re-indexed by the merged identity of k).
   The first result is written with copy/"=" and the second with "+=": the two agree because with literal
   identities no two developers of the first result are sent to the same merged developer. *)
From Coq Require Import List ZArith Bool Lia.
From Herc Require Import Combine.Model Combine.Spec Combine.Facts Combine.BurndownProofs.
Import ListNotations.
Open Scope Z_scope.

Section Rows.
  Variable people : table.

  Definition F (rd : list name) (j : Z) : Z := Final (lookup0 people (nthZ rd j [])).

  (* contribution of the cells tail[0..] (= row[2+j0..]) to column c *)
  Fixpoint tail_contrib (rd : list name) (tail : list Z) (j : Z) (c : Z) : Z :=
    match tail with
    | [] => 0
    | v :: r => (if 2 + F rd j =? c then v else 0) + tail_contrib rd r (j + 1) c
    end.
  Definition row_contrib (rd : list name) (src : list Z) (c : Z) : Z :=
    (if c =? 0 then nthZ src 0 0 else 0) + (if c =? 1 then nthZ src 1 0 else 0) + tail_contrib rd (skipn 2 src) 0 c.

  Definition cells_step (rd : list name) (assign : bool) (mrow : list Z) (j val : Z) : result (list Z) :=
    s <- idx rd j;
    let c := 2 + Final (lookup0 people s) in
    old <- idx mrow c;
    list_set mrow c (if assign then val else old + val).
  Lemma bd_row_cells_eq rd assign tail mrow :
    bd_row_cells people rd assign tail mrow = foldMi (cells_step rd assign) tail 0 mrow.
  Proof. reflexivity. Qed.

  (* ---------- "+=" pass ---------- *)
  Lemma row_cells_add rd tail : forall j mrow mrow',
    foldMi (cells_step rd false) tail j mrow = Ok mrow' ->
    length mrow' = length mrow /\
    forall c, nthZ mrow' c 0 = nthZ mrow c 0 + tail_contrib rd tail j c.
  Proof.
    induction tail as [|v r IH]; intros j mrow mrow' H; cbn [foldMi tail_contrib] in *.
    - inversion H; subst. split; [reflexivity|]. intros; lia.
    - inv_bind H. unfold cells_step in Hv. inv_bind Hv. inv_bind Hv.
      destruct (list_set_spec _ _ _ _ Hv) as (L & R & N).
      destruct (IH _ _ _ H) as (L2 & N2). split; [congruence|].
      intros c. rewrite N2, N. unfold F. rewrite (idx_nthZ _ _ _ [] Hv0).
      rewrite (Z.eqb_sym _ c). destruct (c =? 2 + Final (lookup0 people v1)) eqn:E.
      + apply Z.eqb_eq in E; subst c. rewrite (idx_nthZ _ _ _ 0 Hv1). lia.
      + lia.
  Qed.

  Definition cellrow (rows : matrix) (a : Z) : list Z := nthZ rows a [].

  Lemma pm_row_add rd pm rows i key rows' :
    bd_pm_row people rd false pm rows i key = Ok rows' ->
    length rows' = length rows /\
    (forall a, length (cellrow rows' a) = length (cellrow rows a)) /\
    forall a c, cellZ rows' a c =
                cellZ rows a c + (if a =? Final (lookup0 people key) then row_contrib rd (nthZ pm i []) c else 0).
  Proof.
    unfold bd_pm_row. intros H. inv_bind H. inv_bind H. inv_bind H. inv_bind H. inv_bind H.
    inv_bind H. inv_bind H. inv_bind H.
    destruct (list_set_spec _ _ _ _ Hv4) as (La & Ra & Na).
    destruct (list_set_spec _ _ _ _ Hv5) as (Lb & Rb & Nb).
    rewrite bd_row_cells_eq in Hv6. destruct (row_cells_add rd _ _ _ _ Hv6) as (Lc & Nc).
    destruct (list_set_spec _ _ _ _ H) as (Ld & Rd & Nd).
    split; [assumption|]. split.
    - intros a. unfold cellrow. rewrite Nd. destruct (a =? Final (lookup0 people key)) eqn:E; [|reflexivity].
      apply Z.eqb_eq in E; subst a. rewrite (idx_nthZ _ _ _ [] Hv1). congruence.
    - intros a c. unfold cellZ. rewrite Nd. destruct (a =? Final (lookup0 people key)) eqn:E; [|lia].
      apply Z.eqb_eq in E; subst a. rewrite Nc, Nb, Na. rewrite (idx_nthZ _ _ _ [] Hv1).
      rewrite (idx_nthZ _ _ _ [] Hv). unfold row_contrib.
      unfold first2 in Hv0. destruct v as [|x [|y rest]]; try discriminate. inversion Hv0; subst; clear Hv0.
      cbn [fst snd skipn].
      rewrite <- (idx_nthZ _ _ _ 0 Hv2). rewrite <- (idx_nthZ _ _ _ 0 Hv3).
      assert (E0 : nthZ (x :: y :: rest) 0 0 = x) by reflexivity.
      assert (E1 : nthZ (x :: y :: rest) 1 0 = y) by reflexivity.
      rewrite E0, E1.
      destruct (c =? 1) eqn:C1; destruct (c =? 0) eqn:C0;
        try apply Z.eqb_eq in C1; try apply Z.eqb_eq in C0; subst; try lia.
  Qed.

  (* Sum over the developers (i0, key), (i0+1, key'), ... of one input *)
  Fixpoint pass_sum (rd : list name) (pm : matrix) (l : list name) (i : Z) (a c : Z) : Z :=
    match l with
    | [] => 0
    | key :: r => (if a =? Final (lookup0 people key) then row_contrib rd (nthZ pm i []) c else 0)
                  + pass_sum rd pm r (i + 1) a c
    end.

  Lemma pass_add rd pm l : forall i rows rows',
    foldMi (bd_pm_row people rd false pm) l i rows = Ok rows' ->
    length rows' = length rows /\
    (forall a, length (cellrow rows' a) = length (cellrow rows a)) /\
    forall a c, cellZ rows' a c = cellZ rows a c + pass_sum rd pm l i a c.
  Proof.
    induction l as [|key r IH]; intros i rows rows' H; cbn [foldMi pass_sum] in *.
    - inversion H; subst. repeat split; intros; lia.
    - inv_bind H. destruct (pm_row_add _ _ _ _ _ _ Hv) as (L1 & R1 & N1).
      destruct (IH _ _ _ H) as (L2 & R2 & N2). split; [congruence|]. split.
      + intros a. rewrite R2, R1. reflexivity.
      + intros a c. rewrite N2, N1. lia.
  Qed.

  (* ---------- "=" pass: the same as "+=" while every written cell is still zero ---------- *)
  Definition zero_row (r : list Z) : Prop := forall c, nthZ r c 0 = 0.

  Lemma row_cells_assign rd tail : forall j mrow,
    (forall j1 j2, j <= j1 -> j <= j2 -> j1 < j + lenZ tail -> j2 < j + lenZ tail -> F rd j1 = F rd j2 -> j1 = j2) ->
    (forall j1, j <= j1 < j + lenZ tail -> nthZ mrow (2 + F rd j1) 0 = 0) ->
    foldMi (cells_step rd true) tail j mrow = foldMi (cells_step rd false) tail j mrow.
  Proof.
    induction tail as [|v r IH]; intros j mrow Hinj Hz; cbn [foldMi]; [reflexivity|].
    unfold cells_step at 1 3.
    assert (Hlen : lenZ (v :: r) = lenZ r + 1) by (unfold lenZ; simpl; lia).
    assert (Hr0 : 0 <= lenZ r) by (unfold lenZ; lia).
    destruct (idx rd j) as [s| |] eqn:Es; cbn [bind]; try reflexivity.
    destruct (idx mrow (2 + Final (lookup0 people s))) as [old| |] eqn:Eo; cbn [bind]; try reflexivity.
    assert (Hs : F rd j = Final (lookup0 people s)) by (unfold F; rewrite (idx_nthZ _ _ _ [] Es); reflexivity).
    assert (Hold : old = 0).
    { rewrite <- (idx_nthZ _ _ _ 0 Eo). rewrite <- Hs. apply Hz. lia. }
    subst old. replace (0 + v) with v by lia.
    destruct (list_set mrow (2 + Final (lookup0 people s)) v) as [mrow1| |] eqn:El; cbn [bind]; try reflexivity.
    apply IH.
    - intros j1 j2 A1 A2 B1 B2. apply Hinj; lia.
    - intros j1 Hj1. destruct (list_set_spec _ _ _ _ El) as (_ & _ & N). rewrite N.
      destruct (2 + F rd j1 =? 2 + Final (lookup0 people s)) eqn:E.
      + apply Z.eqb_eq in E. exfalso. assert (j1 = j); [|lia]. apply Hinj; lia.
      + apply Hz. lia.
  Qed.

  Lemma pm_row_assign rd pm rows i key :
    (forall j1 j2, 0 <= j1 < lenZ (skipn 2 (nthZ pm i [])) -> 0 <= j2 < lenZ (skipn 2 (nthZ pm i [])) ->
                   F rd j1 = F rd j2 -> j1 = j2) ->
    (forall j, 0 <= j < lenZ (skipn 2 (nthZ pm i [])) -> 0 <= F rd j) ->
    zero_row (cellrow rows (Final (lookup0 people key))) ->
    bd_pm_row people rd true pm rows i key = bd_pm_row people rd false pm rows i key.
  Proof.
    intros Hinj Hpos Hz. unfold bd_pm_row.
    destruct (idx pm i) as [src| |] eqn:Es; cbn [bind]; try reflexivity.
    rewrite (idx_nthZ _ _ _ [] Es) in Hinj, Hpos.
    destruct (first2 src) as [h| |] eqn:Eh; cbn [bind]; try reflexivity.
    destruct (idx rows (Final (lookup0 people key))) as [mrow| |] eqn:Er; cbn [bind]; try reflexivity.
    unfold cellrow in Hz. rewrite (idx_nthZ _ _ _ [] Er) in Hz.
    destruct (idx mrow 0) as [m0| |] eqn:E0; cbn [bind]; try reflexivity.
    destruct (idx mrow 1) as [m1| |] eqn:E1; cbn [bind]; try reflexivity.
    assert (m0 = 0) by (rewrite <- (idx_nthZ _ _ _ 0 E0); apply Hz).
    assert (m1 = 0) by (rewrite <- (idx_nthZ _ _ _ 0 E1); apply Hz).
    subst m0 m1. cbn [Z.add].
    destruct (list_set mrow 0 (fst h)) as [mrowa| |] eqn:Ea; cbn [bind]; try reflexivity.
    destruct (list_set mrowa 1 (snd h)) as [mrowb| |] eqn:Eb; cbn [bind]; try reflexivity.
    rewrite !bd_row_cells_eq. rewrite row_cells_assign; [reflexivity| |].
    - intros j1 j2 A1 A2 B1 B2. apply Hinj; lia.
    - intros j1 Hj1. destruct (list_set_spec _ _ _ _ Ea) as (_ & _ & Na).
      destruct (list_set_spec _ _ _ _ Eb) as (_ & _ & Nb). rewrite Nb, Na.
      assert (0 <= F rd j1) by (apply Hpos; lia).
      destruct (2 + F rd j1 =? 1) eqn:C1; [apply Z.eqb_eq in C1; lia|].
      destruct (2 + F rd j1 =? 0) eqn:C0; [apply Z.eqb_eq in C0; lia|]. apply Hz.
  Qed.

  Lemma pass_assign rd pm l : forall i rows,
    (* rows of pm that are read have at most lenZ rd + 2 cells *)
    (forall i', lenZ (skipn 2 (nthZ pm i' [])) <= lenZ rd) ->
    (forall j1 j2, 0 <= j1 < lenZ rd -> 0 <= j2 < lenZ rd -> F rd j1 = F rd j2 -> j1 = j2) ->
    (forall j, 0 <= j < lenZ rd -> 0 <= F rd j) ->
    NoDup (map (fun key => Final (lookup0 people key)) l) ->
    (forall key, In key l -> zero_row (cellrow rows (Final (lookup0 people key)))) ->
    foldMi (bd_pm_row people rd true pm) l i rows = foldMi (bd_pm_row people rd false pm) l i rows.
  Proof.
    induction l as [|key r IH]; intros i rows Hdim Hinj Hpos Hnd Hz; cbn [foldMi]; [reflexivity|].
    rewrite pm_row_assign.
    - destruct (bd_pm_row people rd false pm rows i key) as [rows1| |] eqn:E; cbn [bind]; try reflexivity.
      inversion Hnd; subst. apply IH; try assumption.
      intros key' Hk'. destruct (pm_row_add _ _ _ _ _ _ E) as (_ & _ & N).
      intros c. change (nthZ (cellrow rows1 (Final (lookup0 people key'))) c 0)
                  with (cellZ rows1 (Final (lookup0 people key')) c).
      rewrite N. destruct (Final (lookup0 people key') =? Final (lookup0 people key)) eqn:Ef.
      + apply Z.eqb_eq in Ef. exfalso. apply H1. rewrite <- Ef.
        apply (in_map (fun key => Final (lookup0 people key))). assumption.
      + unfold cellZ. rewrite (Hz key' (or_intror Hk')). lia.
    - intros j1 j2 A1 A2. apply Hinj; specialize (Hdim i); lia.
    - intros j Hj. apply Hpos. specialize (Hdim i). lia.
    - apply Hz. left; reflexivity.
  Qed.
End Rows.

(* ---------- from sums over the list to sums over the members ---------- *)
Lemma nthZ_app_at {A} (pre : list A) x r d : nthZ (pre ++ x :: r) (lenZ pre) d = x.
Proof.
  unfold nthZ, lenZ. destruct (Z.of_nat (length pre) <? 0) eqn:E; [apply Z.ltb_lt in E; lia|].
  rewrite Nat2Z.id, app_nth2 by lia. rewrite Nat.sub_diag. reflexivity.
Qed.

Lemma pass_sum_members people rd pm a c (g := fun i => row_contrib people rd (nthZ pm i []) c) :
  forall l pre, rd = pre ++ l ->
  pass_sum people rd pm l (lenZ pre) a c =
  sumZ (map g (filter (fun i => Final (lookup0 people (nthZ rd i [])) =? a) (seqZ (lenZ pre) (length l)))).
Proof.
  induction l as [|key r IH]; intros pre Hrd; cbn [pass_sum seqZ filter map sumZ length]; [reflexivity|].
  assert (Hk : nthZ rd (lenZ pre) [] = key) by (rewrite Hrd; apply nthZ_app_at).
  rewrite Hk. rewrite (Z.eqb_sym a).
  replace (lenZ pre + 1) with (lenZ (pre ++ [key])) by (unfold lenZ; rewrite app_length; simpl; lia).
  rewrite (IH (pre ++ [key])) by (rewrite <- app_assoc; assumption).
  destruct (Final (lookup0 people key) =? a); cbn [map sumZ]; [unfold g|]; lia.
Qed.

Lemma tail_contrib_members people rd c :
  forall tail (pre : list Z),
  tail_contrib people rd tail (lenZ pre) c =
  sumZ (map (fun k => nthZ tail (k - lenZ pre) 0)
            (filter (fun i => Final (lookup0 people (nthZ rd i [])) =? c - 2) (seqZ (lenZ pre) (length tail)))).
Proof.
  induction tail as [|v r IH]; intros pre; cbn [tail_contrib seqZ filter map sumZ length]; [reflexivity|].
  replace (lenZ pre + 1) with (lenZ (pre ++ [v])) by (unfold lenZ; rewrite app_length; simpl; lia).
  rewrite (IH (pre ++ [v])).
  - unfold F.
    assert (Hmap : forall l, (forall k, In k l -> lenZ pre + 1 <= k) ->
               map (fun k => nthZ r (k - lenZ (pre ++ [v])) 0) l = map (fun k => nthZ (v :: r) (k - lenZ pre) 0) l).
    { intros l Hl0. apply map_ext_in. intros k Hk. specialize (Hl0 k Hk).
      replace (lenZ (pre ++ [v])) with (lenZ pre + 1) by (unfold lenZ; rewrite app_length; simpl; lia).
      replace (k - lenZ pre) with ((k - (lenZ pre + 1)) + 1) by lia. rewrite nthZ_cons by lia. reflexivity. }
    rewrite Hmap.
    + replace (2 + Final (lookup0 people (nthZ rd (lenZ pre) [])) =? c)
        with (Final (lookup0 people (nthZ rd (lenZ pre) [])) =? c - 2)
        by (destruct (Final (lookup0 people (nthZ rd (lenZ pre) [])) =? c - 2) eqn:E1;
            destruct (2 + Final (lookup0 people (nthZ rd (lenZ pre) [])) =? c) eqn:E2; try reflexivity;
            try apply Z.eqb_eq in E1; try apply Z.eqb_eq in E2; try apply Z.eqb_neq in E1; try apply Z.eqb_neq in E2; lia).
      destruct (Final (lookup0 people (nthZ rd (lenZ pre) [])) =? c - 2); cbn [map sumZ].
      * rewrite Z.sub_diag. rewrite nthZ_0.
        replace (lenZ (pre ++ [v])) with (lenZ pre + 1) by (unfold lenZ; rewrite app_length; simpl; lia). lia.
      * replace (lenZ (pre ++ [v])) with (lenZ pre + 1) by (unfold lenZ; rewrite app_length; simpl; lia). lia.
    + intros k Hk. apply filter_In in Hk. destruct Hk as [Hk _]. apply seqZ_in in Hk.
      replace (lenZ (pre ++ [v])) with (lenZ pre + 1) in Hk by (unfold lenZ; rewrite app_length; simpl; lia). lia.
Qed.

(* ---------- the theorem ---------- *)
Lemma nthZ_skipn2 {A} (l : list A) k d : 0 <= k -> nthZ (skipn 2 l) k d = nthZ l (2 + k) d.
Proof.
  intros Hk. unfold nthZ. destruct (k <? 0) eqn:E; [apply Z.ltb_lt in E; lia|].
  destruct (2 + k <? 0) eqn:E2; [apply Z.ltb_lt in E2; lia|].
  replace (Z.to_nat (2 + k)) with (2 + Z.to_nat k)%nat by lia.
  destruct l as [|x [|y r]]; simpl; try reflexivity; destruct (Z.to_nat k); reflexivity.
Qed.

Lemma NoDup_map_inj {A B} (f : A -> B) l :
  (forall x y, In x l -> In y l -> f x = f y -> x = y) -> NoDup l -> NoDup (map f l).
Proof.
  induction l as [|a r IH]; intros Hinj Hnd; simpl; [constructor|].
  inversion Hnd; subst. constructor.
  - intros Hin. apply in_map_iff in Hin. destruct Hin as (y & Hy & Hin).
    assert (y = a) by (apply Hinj; [right; assumption|left; reflexivity|assumption]). subst. contradiction.
  - apply IH; [|assumption]. intros x y Hx Hy. apply Hinj; right; assumption.
Qed.

Lemma rect_b_spec n pm : rect_b n pm = true ->
  length pm = n /\ forall i, 0 <= i < Z.of_nat n -> length (nthZ pm i []) = (n + 2)%nat.
Proof.
  unfold rect_b. intros H. apply andb_true_iff in H. destruct H as [H1 H2].
  apply Nat.eqb_eq in H1. split; [assumption|]. intros i Hi.
  rewrite forallb_forall in H2. apply Nat.eqb_eq. apply H2. apply nthZ_in. unfold lenZ. lia.
Qed.

Section RowsTheorem.
  Variables (people : table) (merged : list name).

  (* one input: the sum the merge accumulates = the specification's sum over the members *)
  Lemma pass_sum_spec rd pm a c :
    (forall j, 0 <= j < lenZ rd -> 0 <= F people rd j) ->
    rect_b (length rd) pm = true ->
    pass_sum people rd pm rd 0 a c =
    sumZ (map (fun i => if c <? 2 then cellZ pm i c
                        else sumZ (map (fun k => cellZ pm i (2 + k)) (members people rd (c - 2))))
              (members people rd a)).
  Proof.
    intros Hpos Hrect. destruct (rect_b_spec _ _ Hrect) as (Hlen & Hrow).
    pose proof (pass_sum_members people rd pm a c rd [] eq_refl) as Hp.
    change (lenZ (@nil name)) with 0 in Hp. rewrite Hp. fold (members people rd a).
    f_equal. apply map_ext_in. intros i Hi. apply members_in in Hi. destruct Hi as [Hi _].
    unfold row_contrib.
    pose proof (tail_contrib_members people rd c (skipn 2 (nthZ pm i [])) []) as Ht.
    change (lenZ (@nil Z)) with 0 in Ht. rewrite Ht.
    assert (Hl : length (skipn 2 (nthZ pm i [])) = length rd).
    { rewrite skipn_length, Hrow by (unfold lenZ in Hi; lia). lia. }
    rewrite Hl. fold (members people rd (c - 2)).
    assert (Htail : map (fun k => nthZ (skipn 2 (nthZ pm i [])) (k - 0) 0) (members people rd (c - 2)) =
                    map (fun k => cellZ pm i (2 + k)) (members people rd (c - 2))).
    { apply map_ext_in. intros k Hk. apply members_in in Hk. destruct Hk as [Hk _].
      rewrite Z.sub_0_r. unfold cellZ. apply nthZ_skipn2. lia. }
    rewrite Htail.
    destruct (c <? 2) eqn:Ec.
    - apply Z.ltb_lt in Ec.
      assert (Hnone : members people rd (c - 2) = []).
      { unfold members. apply filter_none. intros k Hk. apply seqZ_in in Hk.
        apply Z.eqb_neq. assert (0 <= F people rd k) by (apply Hpos; unfold lenZ; lia). unfold F in H. lia. }
      rewrite Hnone. cbn [map sumZ]. unfold cellZ.
      destruct (c =? 0) eqn:C0; [apply Z.eqb_eq in C0; subst; destruct (0 =? 1) eqn:C1; [discriminate|lia]|].
      destruct (c =? 1) eqn:C1; [apply Z.eqb_eq in C1; subst; lia|].
      apply Z.eqb_neq in C0, C1. assert (c < 0) by lia.
      unfold nthZ at 1. destruct (c <? 0) eqn:En; [lia|apply Z.ltb_ge in En; lia].
    - apply Z.ltb_ge in Ec.
      destruct (c =? 0) eqn:C0; [apply Z.eqb_eq in C0; lia|].
      destruct (c =? 1) eqn:C1; [apply Z.eqb_eq in C1; lia|]. lia.
  Qed.

  Theorem people_rows_exact r1 r2 out :
    wf_table_b people (br_people r1) (br_people r2) merged = true ->
    literal_b people (br_people r1) merged = true -> literal_b people (br_people r2) merged = true ->
    nonempty (br_pm r2) = true ->
    rect_b (length (br_people r1)) (br_pm r1) = true -> rect_b (length (br_people r2)) (br_pm r2) = true ->
    bd_people_matrix people merged r1 r2 = Ok out ->
    length out = length merged /\
    forall w c, cellZ out w c = pm_spec_cell people (br_people r1) (br_people r2) (br_pm r1) (br_pm r2) w c.
  Proof.
    intros WFb L1b L2b Hne R1 R2 H.
    pose proof (wf_table_b_sound _ _ _ _ WFb) as WF.
    pose proof (literal_b_sound _ _ _ L1b) as L1. pose proof (literal_b_sound _ _ _ L2b) as L2.
    (* facts about the index map of one side *)
    assert (Hpos : forall rd, (forall s, In s rd -> exists m, lookup people s = Some m) ->
                   forall j, 0 <= j < lenZ rd -> 0 <= F people rd j).
    { intros rd Hl j Hj. unfold F. destruct (Hl _ (nthZ_in rd j [] Hj)) as (m & Hm).
      unfold lookup0. rewrite Hm. simpl. destruct (wf_entry _ _ _ _ WF _ _ Hm) as (Hf & _). lia. }
    assert (Hl1 : forall s, In s (br_people r1) -> exists m, lookup people s = Some m).
    { intros s Hs. destruct (wf_first _ _ _ _ WF s Hs) as (m & Hm & _). eauto. }
    assert (Hl2 : forall s, In s (br_people r2) -> exists m, lookup people s = Some m).
    { intros s Hs. destruct (wf_second _ _ _ _ WF s Hs) as (m & Hm & _). eauto. }
    assert (Hkeyinj : forall s s', In s (br_people r1) -> In s' (br_people r1) ->
                      Final (lookup0 people s) = Final (lookup0 people s') -> s = s').
    { intros s s' Hs Hs' Hf. rewrite <- (L1 s Hs), <- (L1 s' Hs'), Hf. reflexivity. }
    unfold bd_people_matrix in H. rewrite Hne in H. inv_bind H.
    rewrite pass_assign in Hv.
    - destruct (pass_add _ _ _ _ _ _ _ Hv) as (La & Ra & Na).
      destruct (pass_add _ _ _ _ _ _ _ H) as (Lb & Rb & Nb).
      split; [rewrite Lb, La, repeat_length; reflexivity|].
      intros w c. rewrite Nb, Na. unfold pm_spec_cell.
      rewrite (pass_sum_spec _ _ w c (Hpos _ Hl1) R1), (pass_sum_spec _ _ w c (Hpos _ Hl2) R2).
      assert (Hz : cellZ (repeat (zeros (length merged + 2)) (length merged)) w c = 0).
      { unfold cellZ, nthZ. destruct (w <? 0); [destruct (c <? 0); [reflexivity|destruct (Z.to_nat c); reflexivity]|].
        destruct (c <? 0); [reflexivity|].
        assert (Hr : forall n k, nth k (repeat (zeros (length merged + 2)) n) [] = zeros (length merged + 2) \/
                                 nth k (repeat (zeros (length merged + 2)) n) [] = []).
        { induction n as [|n IHn]; intros [|k]; simpl; auto. }
        destruct (Hr (length merged) (Z.to_nat w)) as [-> | ->].
        - unfold zeros. generalize (Z.to_nat c). generalize (length merged + 2)%nat.
          induction n as [|n IHn]; intros [|k]; simpl; auto.
        - destruct (Z.to_nat c); reflexivity. }
      rewrite Hz. lia.
    - intros i'. destruct (rect_b_spec _ _ R1) as (Hlen & Hrow).
      destruct (Z_lt_ge_dec i' 0) as [Hn|Hn]; [|destruct (Z_lt_ge_dec i' (lenZ (br_people r1))) as [Hlt|Hge]].
      + unfold nthZ. destruct (i' <? 0) eqn:E; [|apply Z.ltb_ge in E; lia]. simpl. unfold lenZ; simpl; lia.
      + unfold lenZ. rewrite skipn_length, Hrow by (unfold lenZ in Hlt; lia). lia.
      + unfold nthZ. destruct (i' <? 0) eqn:E; [unfold lenZ; simpl; lia|].
        rewrite nth_overflow by (unfold lenZ in Hge; lia). unfold lenZ; simpl; lia.
    - intros j1 j2 Hj1 Hj2 Hf. unfold F in Hf.
      apply (nthZ_NoDup (br_people r1) j1 j2 [] (wf_nd1 _ _ _ _ WF) Hj1 Hj2).
      apply Hkeyinj; [apply nthZ_in; assumption|apply nthZ_in; assumption|assumption].
    - apply Hpos. assumption.
    - apply NoDup_map_inj; [|exact (wf_nd1 _ _ _ _ WF)]. intros x y Hx Hy. apply Hkeyinj; assumption.
    - intros key Hk c.
      assert (Hr : forall n k, nth k (repeat (zeros (length merged + 2)) n) [] = zeros (length merged + 2) \/
                               nth k (repeat (zeros (length merged + 2)) n) [] = []).
      { induction n as [|n IHn]; intros [|k]; simpl; auto. }
      unfold cellrow, nthZ. destruct (Final (lookup0 people key) <? 0).
      + destruct (c <? 0); [reflexivity|destruct (Z.to_nat c); reflexivity].
      + destruct (c <? 0); [reflexivity|].
        destruct (Hr (length merged) (Z.to_nat (Final (lookup0 people key)))) as [-> | ->].
        * unfold zeros. generalize (Z.to_nat c). generalize (length merged + 2)%nat.
          induction n as [|n IHn]; intros [|k]; simpl; auto.
        * destruct (Z.to_nat c); reflexivity.
  Qed.
End RowsTheorem.
