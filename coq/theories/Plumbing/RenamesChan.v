(* The channel protocol of stage 2 of RenameAnalysis.Consume as a small labelled transition system.

     finished  := make(chan bool, 2)     every goroutine sends once, when it returns (deferred);
                                         the candidate loop polls it and returns when a token is there
     finishedA := make(chan bool, 1)     matchA sends once after its outer loop ended (normally or by timeout)
     finishedB := make(chan bool, 1)     the same for matchB
     errs      := make(chan error)       unbuffered; a goroutine whose blobsAreClose fails sends on it
     wg.Add(2); go matchA(); go matchB(); wg.Wait()
     select { case <-errs: error; case <-finishedA: A's result; case <-finishedB: B's result;
              default: panic("Impossible happened ...") }

   A goroutine is:  Run k   in its loops, k more steps of work possible (any step may also be the last one:
                            the timeout),
                    Blocked sending on errs (nobody receives before wg.Wait returns),
                    Pub     has sent on its finishedX, the deferred send on [finished] is pending,
                    Intr    has received from [finished], the deferred send is pending,
                    DoneP / DoneI   returned (wg.Done) after Pub / Intr.
   [next can_err s] lists all successors of s.  [can_err] says whether blobsAreClose may return an
   error; in the Go code it has no error return path, so the protocol that runs is [next false]. *)
From Coq Require Import List Bool Arith Lia.
Import ListNotations.

Inductive pc := Run (k : nat) | Blocked | Pub | Intr | DoneP | DoneI.
Inductive mainpc := Wait | ResA | ResB | Impossible.

Record st := mkSt { ga : pc; gb : pc; fin : nat; fa : bool; fb : bool; mn : mainpc }.

Definition init (na nb : nat) : st := mkSt (Run na) (Run nb) 0 false false Wait.

(* the moves of one goroutine: (its new pc, the new content of [finished], the new content of its finishedX) *)
Definition gnext (can_err : bool) (p : pc) (f : nat) (fx : bool) : list (pc * nat * bool) :=
  match p with
  | Run (S k) =>
      [(Run k, f, fx); (Run 0, f, fx)]                       (* work; the timeout ends the outer loop *)
      ++ (if 0 <? f then [(Intr, f - 1, fx)] else [])        (* case <-finished: return *)
      ++ (if can_err then [(Blocked, f, fx)] else [])        (* errs <- err *)
  | Run 0 => if fx then [] else [(Pub, f, true)]             (* finishedX <- true, capacity 1 *)
  | Pub => if f <? 2 then [(DoneP, f + 1, fx)] else []       (* deferred: finished <- true, capacity 2; wg.Done *)
  | Intr => if f <? 2 then [(DoneI, f + 1, fx)] else []
  | Blocked | DoneP | DoneI => []
  end.

Definition is_done (p : pc) : bool := match p with DoneP | DoneI => true | _ => false end.

(* main: wg.Wait() returns when both goroutines called wg.Done; then the select.  Nobody is sending on
   errs at that moment (a sender would not have called wg.Done), so only finishedA / finishedB can be
   ready; Go picks any ready case. *)
Definition mnext (s : st) : list st :=
  match mn s with
  | Wait =>
      if is_done (ga s) && is_done (gb s) then
        (if fa s then [mkSt (ga s) (gb s) (fin s) false (fb s) ResA] else [])
        ++ (if fb s then [mkSt (ga s) (gb s) (fin s) (fa s) false ResB] else [])
        ++ (if fa s || fb s then [] else [mkSt (ga s) (gb s) (fin s) (fa s) (fb s) Impossible])
      else []
  | _ => []
  end.

Definition next (can_err : bool) (s : st) : list st :=
  map (fun r => match r with (p, f, x) => mkSt p (gb s) f x (fb s) (mn s) end) (gnext can_err (ga s) (fin s) (fa s))
  ++ map (fun r => match r with (p, f, x) => mkSt (ga s) p f (fa s) x (mn s) end) (gnext can_err (gb s) (fin s) (fb s))
  ++ mnext s.

Inductive reach (can_err : bool) (s0 : st) : st -> Prop :=
| reach_refl : reach can_err s0 s0
| reach_step : forall s s', reach can_err s0 s -> In s' (next can_err s) -> reach can_err s0 s'.

(* ---------- the invariant of the error-free protocol ---------- *)
Definition intr (p : pc) : nat := match p with Intr | DoneI => 1 | _ => 0 end.
Definition done (p : pc) : nat := match p with DoneP | DoneI => 1 | _ => 0 end.
Definition published (p : pc) : bool := match p with Pub | DoneP => true | _ => false end.
Definition is_blocked (p : pc) : bool := match p with Blocked => true | _ => false end.
Definition is_donep (p : pc) : bool := match p with DoneP => true | _ => false end.

Definition inv (s : st) : bool :=
  negb (is_blocked (ga s)) && negb (is_blocked (gb s)) &&
  match mn s with
  | Wait =>
      Bool.eqb (fa s) (published (ga s)) && Bool.eqb (fb s) (published (gb s))
      && Nat.eqb (fin s + intr (ga s) + intr (gb s)) (done (ga s) + done (gb s))
      && (Nat.eqb (intr (ga s)) 0 || is_donep (gb s))
      && (Nat.eqb (intr (gb s)) 0 || is_donep (ga s))
  | ResA => is_donep (ga s) && is_done (gb s)
  | ResB => is_donep (gb s) && is_done (ga s)
  | Impossible => false
  end.

Ltac cases_st s :=
  destruct s as [a b f xa xb m];
  destruct a as [[|ka]| | | | |], b as [[|kb]| | | | |], f as [|[|[|f]]], xa, xb, m.

Lemma inv_init : forall na nb, inv (init na nb) = true.
Proof. reflexivity. Qed.

Lemma inv_step : forall s, inv s = true -> forallb inv (next false s) = true.
Proof.
  intros s H. cases_st s; try discriminate H; reflexivity.
Qed.

Lemma inv_reach : forall s0 s, inv s0 = true -> reach false s0 s -> inv s = true.
Proof.
  intros s0 s H0 R. induction R as [|s s' R IH I]; auto.
  pose proof (inv_step s IH) as F. rewrite forallb_forall in F. auto.
Qed.

(* no deadlock: a state of the error-free protocol without a successor is a final state in which main
   has taken a published result and both goroutines have returned *)
Definition final_ok (s : st) : bool :=
  match mn s with
  | ResA => is_donep (ga s) && is_done (gb s)
  | ResB => is_donep (gb s) && is_done (ga s)
  | _ => false
  end.

Lemma inv_progress : forall s, inv s = true -> next false s = [] -> final_ok s = true.
Proof.
  intros s H N. cases_st s; try discriminate H; try discriminate N; reflexivity.
Qed.

(* termination: every step decreases this measure, so every run is finite *)
Definition weight (p : pc) : nat :=
  match p with Run k => k + 3 | Pub | Intr => 1 | _ => 0 end.
Definition measure (s : st) : nat :=
  weight (ga s) + weight (gb s) + match mn s with Wait => 1 | _ => 0 end.

Lemma step_decreases : forall can_err s s', In s' (next can_err s) -> measure s' < measure s.
Proof.
  intros ce s s' I. unfold next in I. rewrite !in_app_iff in I. destruct I as [I|[I|I]].
  - apply in_map_iff in I as [[[p f] x] [<- I]]. unfold measure; cbn [ga gb mn].
    destruct (ga s) as [[|k]| | | | |]; cbn [gnext] in I.
    + destruct (fa s); [destruct I|]. destruct I as [I|[]]. inversion I; subst. cbn. lia.
    + rewrite !in_app_iff in I. destruct I as [I|[I|I]].
      * destruct I as [I|[I|[]]]; inversion I; subst; cbn; lia.
      * destruct (0 <? fin s); [|destruct I]. destruct I as [I|[]]. inversion I; subst. cbn. lia.
      * destruct ce; [|destruct I]. destruct I as [I|[]]. inversion I; subst. cbn. lia.
    + destruct I.
    + destruct (fin s <? 2); [|destruct I]. destruct I as [I|[]]. inversion I; subst. cbn. lia.
    + destruct (fin s <? 2); [|destruct I]. destruct I as [I|[]]. inversion I; subst. cbn. lia.
    + destruct I.
    + destruct I.
  - apply in_map_iff in I as [[[p f] x] [<- I]]. unfold measure; cbn [ga gb mn].
    destruct (gb s) as [[|k]| | | | |]; cbn [gnext] in I.
    + destruct (fb s); [destruct I|]. destruct I as [I|[]]. inversion I; subst. cbn. lia.
    + rewrite !in_app_iff in I. destruct I as [I|[I|I]].
      * destruct I as [I|[I|[]]]; inversion I; subst; cbn; lia.
      * destruct (0 <? fin s); [|destruct I]. destruct I as [I|[]]. inversion I; subst. cbn. lia.
      * destruct ce; [|destruct I]. destruct I as [I|[]]. inversion I; subst. cbn. lia.
    + destruct I.
    + destruct (fin s <? 2); [|destruct I]. destruct I as [I|[]]. inversion I; subst. cbn. lia.
    + destruct (fin s <? 2); [|destruct I]. destruct I as [I|[]]. inversion I; subst. cbn. lia.
    + destruct I.
    + destruct I.
  - unfold mnext in I. unfold measure. destruct (mn s) eqn:M; try destruct I.
    destruct (is_done (ga s) && is_done (gb s)); [|destruct I].
    rewrite !in_app_iff in I. destruct I as [I|[I|I]].
    + destruct (fa s); [|destruct I]. destruct I as [<-|[]]. cbn. lia.
    + destruct (fb s); [|destruct I]. destruct I as [<-|[]]. cbn. lia.
    + destruct (fa s || fb s); [destruct I|]. destruct I as [<-|[]]. cbn. lia.
Qed.

(* a run: consecutive states related by a step *)
Fixpoint is_run (can_err : bool) (s : st) (r : list st) : Prop :=
  match r with
  | [] => True
  | s' :: r' => In s' (next can_err s) /\ is_run can_err s' r'
  end.

Lemma run_bounded : forall can_err r s, is_run can_err s r -> length r <= measure s.
Proof.
  intros ce. induction r as [|s' r IH]; intros s H; cbn [length]; [lia|].
  destruct H as [H1 H2]. pose proof (step_decreases _ _ _ H1). specialize (IH _ H2). lia.
Qed.

Lemma last_nonempty_default : forall (l : list st) x d d', last (x :: l) d = last (x :: l) d'.
Proof.
  induction l as [|y l IH]; intros x d d'; [reflexivity|].
  change (last (y :: l) d = last (y :: l) d'). apply IH.
Qed.

Lemma run_reach : forall can_err r s0 s, reach can_err s0 s -> is_run can_err s r ->
  reach can_err s0 (last r s).
Proof.
  intros ce. induction r as [|s' r IH]; intros s0 s R H; [exact R|].
  destruct H as [H1 H2]. replace (last (s' :: r) s) with (last r s').
  - apply IH with (s := s'); auto. eapply reach_step; eauto.
  - destruct r as [|s1 r]; [reflexivity|].
    change (last (s1 :: r) s' = last (s1 :: r) s). apply last_nonempty_default.
Qed.

(* every maximal run of the error-free protocol (all runs are finite, see run_bounded) ends in a state
   where main has taken a result that was published and both goroutines have returned *)
Theorem maximal_run_ok : forall na nb r,
  is_run false (init na nb) r -> next false (last r (init na nb)) = [] ->
  final_ok (last r (init na nb)) = true.
Proof.
  intros na nb r H N. apply inv_progress; auto.
  apply (inv_reach (init na nb)); [apply inv_init|].
  apply run_reach with (s := init na nb); auto. constructor.
Qed.

(* the "Impossible happened" branch of the select is unreachable *)
Theorem impossible_unreachable : forall na nb s, reach false (init na nb) s -> mn s <> Impossible.
Proof.
  intros na nb s R E. pose proof (inv_reach _ _ (inv_init na nb) R) as H.
  unfold inv in H. rewrite E in H. rewrite andb_false_r in H. discriminate.
Qed.

(* both winners are possible, from every initial state: the winner is a genuine choice *)
Lemma both_winners : forall na nb,
  (exists s, reach false (init na nb) s /\ mn s = ResA) /\
  (exists s, reach false (init na nb) s /\ mn s = ResB).
Proof.
  intros na nb.
  (* bring both goroutines to Run 0, let both publish and return, then select either *)
  assert (R0 : reach false (init na nb) (mkSt (Run 0) (Run 0) 0 false false Wait)).
  { destruct na as [|na], nb as [|nb].
    - constructor.
    - eapply reach_step; [constructor|]. cbn. auto.
    - eapply reach_step; [constructor|]. cbn. auto.
    - eapply reach_step; [eapply reach_step; [constructor|]|]; cbn; auto. cbn. auto. }
  assert (R1 : reach false (init na nb) (mkSt DoneP DoneP 2 true true Wait)).
  { eapply reach_step; [eapply reach_step; [eapply reach_step; [eapply reach_step; [exact R0|]|]|]|].
    - cbn. left. reflexivity.
    - cbn. left. reflexivity.
    - cbn. left. reflexivity.
    - cbn. left. reflexivity. }
  split.
  - eexists. split; [eapply reach_step; [exact R1|]|]. cbn. left. reflexivity. reflexivity.
  - eexists. split; [eapply reach_step; [exact R1|]|]. cbn. right. left. reflexivity. reflexivity.
Qed.

(* if blobsAreClose could fail, the protocol would deadlock: the failing goroutine blocks on the
   unbuffered errs channel, main blocks in wg.Wait.  (Latent: unreachable in the Go code as it is,
   because blobsAreClose never returns an error.) *)
Theorem errs_would_deadlock : exists s, reach true (init 1 1) s /\ next true s = [] /\ mn s = Wait.
Proof.
  exists (mkSt Blocked Blocked 0 false false Wait). split; [|split; reflexivity].
  eapply reach_step; [eapply reach_step; [constructor|]|].
  - cbn. right. right. left. reflexivity.
  - cbn. right. right. left. reflexivity.
Qed.
