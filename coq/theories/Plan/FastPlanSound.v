(* The validators of large plans (FastPlan.v) are the list-based ones over Exec.v:
     - the trie state simulates the association-list state of the abstract executor ([R], [R_fstep]);
     - [fast_c04 p = true  <->  lifecycle_ok p' /\ nothing_hibernated (run init p') /\ every merge joins branches that
       analysed the same commit last]                                                    ([fast_c04_exact]);
     - [C02_spec g p' -> fast_c02 par p = true] for every [par] that lists the parents of g  ([fast_c02_necessary]),
   where p' = map to_action p. *)
From Coq Require Import List ZArith NArith Bool Arith Lia FMapPositive.
From Herc Require Import Plan.Syntax Plan.Exec Plan.Graph Plan.Checker Plan.Spec Plan.Lifecycle
  Plan.GraphProofs Plan.ExecProofs Plan.CheckerLemmas Plan.CheckerSound Plan.LifecycleProofs Plan.FastPlan.
Import ListNotations.
Local Open Scope Z_scope.

(* ---------- keys ---------- *)

Lemma zkey_inj a b : zkey a = zkey b -> a = b.
Proof. destruct a, b; simpl; intro H; try discriminate; try reflexivity; inversion H; reflexivity. Qed.

Lemma zkey_surj p : exists b, zkey b = p.
Proof. destruct p as [p|p|]; [exists (Zneg p)|exists (Zpos p)|exists 0]; reflexivity. Qed.

Lemma fget_fput_eq m b o : fget (fput m b o) b = o.
Proof. unfold fget, fput. destruct o; [apply PM.gss|apply PM.grs]. Qed.

Lemma fget_fput_neq m b o b' : b <> b' -> fget (fput m b o) b' = fget m b'.
Proof.
  intro H. unfold fget, fput.
  assert (K : zkey b' <> zkey b) by (intro E; apply H; symmetry; apply zkey_inj; exact E).
  destruct o; [apply PM.gso|apply PM.gro]; exact K.
Qed.

(* ---------- the simulation ---------- *)

Definition lview (l : life) : option (fstat * option nat) :=
  match l with
  | Absent => None
  | Live x => Some (FLive, last x)
  | Hibernated x => Some (FHib, last x)
  | Disposed => Some (FDisp, None)
  end.

Definition conv (v : fstat * option N) : fstat * option nat := (fst v, option_map N.to_nat (snd v)).

Definition R (m : PM.t (fstat * option N)) (s : list (Z * life)) : Prop :=
  forall b, option_map conv (fget m b) = lview (get s b).

Lemma R_init : R finit init.
Proof. intro b. unfold fget, finit. rewrite PM.gempty. reflexivity. Qed.

Lemma R_fput m s b o v : R m s -> option_map conv o = lview v -> R (fput m b o) (set s b v).
Proof.
  intros H E b'. rewrite get_set. destruct (b =? b') eqn:Q.
  - apply Z.eqb_eq in Q. subst b'. rewrite fget_fput_eq. exact E.
  - apply Z.eqb_neq in Q. rewrite fget_fput_neq by exact Q. apply H.
Qed.

Lemma R_fold (f : PM.t (fstat * option N) -> Z -> PM.t (fstat * option N)) (h : list (Z * life) -> Z -> list (Z * life)) :
  (forall m s t, R m s -> R (f m t) (h s t)) ->
  forall ts m s, R m s -> R (fold_left f ts m) (fold_left h ts s).
Proof.
  intros Hstep. induction ts as [|t ts IH]; intros m s H; simpl; [exact H|].
  apply IH. apply Hstep. exact H.
Qed.

Lemma R_hib1 m s t : R m s -> R (fhib1 m t) (hibernate1 s t).
Proof.
  intro H. unfold fhib1, hibernate1. pose proof (H t) as Ht.
  destruct (get s t) as [|x|x|] eqn:G; destruct (fget m t) as [[[| |] l]|] eqn:F; simpl in Ht; try discriminate; try exact H.
  apply R_fput; [exact H|]. simpl. inversion Ht. unfold conv. simpl. reflexivity.
Qed.

Lemma R_boot1 m s t : R m s -> R (fboot1 m t) (boot1 s t).
Proof.
  intro H. unfold fboot1, boot1. pose proof (H t) as Ht.
  destruct (get s t) as [|x|x|] eqn:G; destruct (fget m t) as [[[| |] l]|] eqn:F; simpl in Ht; try discriminate; try exact H.
  apply R_fput; [exact H|]. simpl. inversion Ht. unfold conv. simpl. reflexivity.
Qed.

Lemma lview_upd_last (u : list nat) l : lview (upd (fun x => mkB u (last x)) l) = lview l.
Proof. destruct l; reflexivity. Qed.

Lemma R_fstep m s a : R m s -> R (fstep m a) (step s (to_action a)).
Proof.
  intro H. destruct a as [k co its]. unfold fstep, step, to_action. cbn [fkind fitems fcommit kind items commit].
  destruct k.
  - (* commit *)
    destruct its as [|b r]; [exact H|]. destruct co as [c|]; [|exact H]. cbn [option_map].
    pose proof (H b) as Hb.
    destruct (get s b) as [|x|x|] eqn:G; destruct (fget m b) as [[[| |] l]|] eqn:F; simpl in Hb; try discriminate.
    + (* absent: the executor writes Absent over Absent *)
      intro b'. cbn [upd]. rewrite get_set. destruct (b =? b') eqn:Q; [|apply H].
      apply Z.eqb_eq in Q. subst b'. rewrite F. reflexivity.
    + apply R_fput; [exact H|]. reflexivity.
    + apply R_fput; [exact H|]. reflexivity.
    + intro b'. cbn [upd]. rewrite get_set. destruct (b =? b') eqn:Q; [|apply H].
      apply Z.eqb_eq in Q. subst b'. rewrite F. simpl. simpl in Hb. exact Hb.
  - (* fork *)
    destruct its as [|b ts]; [exact H|].
    apply (R_fold (fun m' t => fput m' t (fget m b)) (fun s' t => set s' t (get s b))); [|exact H].
    intros m' s' t H'. apply R_fput; [exact H'|]. apply H.
  - (* merge *)
    intro b.
    rewrite (get_fold_set (fun k => upd (fun x => mkB (flat_map (fun k0 => inc_of (get s k0)) its) (last x)) (get s k)) its s b).
    destruct (memzb b its); [rewrite lview_upd_last|]; apply H.
  - (* emerge *)
    destruct its as [|b r]; [exact H|]. apply R_fput; [exact H|]. reflexivity.
  - (* delete *)
    destruct its as [|b r]; [exact H|]. apply R_fput; [exact H|]. reflexivity.
  - (* hibernate *)
    destruct its as [|b r]; [exact H|]. apply (R_fold fhib1 hibernate1); [apply R_hib1|exact H].
  - (* boot *)
    destruct its as [|b r]; [exact H|]. apply (R_fold fboot1 boot1); [apply R_boot1|exact H].
Qed.

(* ---------- the tests read the same ---------- *)

Lemma fawake_R m s b : R m s -> fawake m b = awakeb s b.
Proof.
  intro H. pose proof (H b) as Hb. unfold fawake, awakeb.
  destruct (get s b); destruct (fget m b) as [[[| |] l]|]; simpl in Hb; try discriminate; reflexivity.
Qed.

Lemma fhibernated_R m s b : R m s -> fhibernated m b = hibernatedb s b.
Proof.
  intro H. pose proof (H b) as Hb. unfold fhibernated, hibernatedb.
  destruct (get s b); destruct (fget m b) as [[[| |] l]|]; simpl in Hb; try discriminate; reflexivity.
Qed.

Lemma fabsent_R m s b : R m s -> fabsent m b = absentb s b.
Proof.
  intro H. pose proof (H b) as Hb. unfold fabsent, absentb.
  destruct (get s b); destruct (fget m b) as [[[| |] l]|]; simpl in Hb; try discriminate; reflexivity.
Qed.

Lemma flast_R m s b : R m s -> option_map N.to_nat (flast m b) = last_on s b.
Proof.
  intro H. pose proof (H b) as Hb. unfold flast, last_on, last_of, data.
  destruct (get s b); destruct (fget m b) as [[[| |] l]|]; simpl in Hb; try discriminate;
    try reflexivity; inversion Hb; reflexivity.
Qed.

Lemma forallb_ext_R {A} (f h : A -> bool) l : (forall x, f x = h x) -> forallb f l = forallb h l.
Proof. intro E. induction l as [|x r IH]; simpl; [reflexivity|]. rewrite E, IH. reflexivity. Qed.

(* duplicate freeness *)
Lemma fnodup_from_spec : forall l seen,
  fnodup_from seen l = true <-> (NoDup l /\ forall x, In x l -> PM.find (zkey x) seen = None).
Proof.
  induction l as [|x r IH]; intros seen; simpl.
  - split; [intros _; split; [constructor|intros y []]|reflexivity].
  - destruct (PM.find (zkey x) seen) eqn:F.
    + split; [discriminate|]. intros [_ H]. specialize (H x (or_introl eq_refl)). congruence.
    + rewrite IH. split.
      * intros [ND H]. split.
        -- constructor; [|exact ND]. intro Hin. specialize (H x Hin). rewrite PM.gss in H. discriminate.
        -- intros y [<-|Hy]; [exact F|]. specialize (H y Hy).
           destruct (Z.eq_dec x y) as [<-|Ne]; [rewrite PM.gss in H; discriminate|].
           rewrite PM.gso in H; [exact H|]. intro E. apply Ne. symmetry. apply zkey_inj. exact E.
      * intros [ND H]. inversion ND as [|? ? Hnin ND']; subst. split; [exact ND'|].
        intros y Hy. rewrite PM.gso; [apply H; right; exact Hy|].
        intro E. apply zkey_inj in E. subst y. contradiction.
Qed.

Lemma fnodup_nodupz l : fnodup l = nodupz l.
Proof.
  apply eq_true_iff_eq. unfold fnodup. rewrite fnodup_from_spec, nodupz_NoDup. split.
  - intros [H _]. exact H.
  - intro H. split; [exact H|]. intros x _. apply PM.gempty.
Qed.

Lemma shape_tests a :
  wf_actionb (shape a) = wf_actionb (to_action a) /\ uses (shape a) = uses (to_action a) /\
  creates (shape a) = creates (to_action a) /\ boots (shape a) = boots (to_action a).
Proof. destruct a as [k [c|] its]; destruct k; repeat split; reflexivity. Qed.

Lemma fstep_okb_R m s a : R m s -> fstep_okb m a = step_okb s (to_action a).
Proof.
  intro H. unfold fstep_okb, step_okb.
  destruct (shape_tests a) as [E1 [E2 [E3 E4]]]. rewrite E1, E2, E3, E4.
  rewrite fnodup_nodupz.
  rewrite (forallb_ext_R (fawake m) (awakeb s)) by (intro; apply fawake_R; exact H).
  rewrite (forallb_ext_R (fabsent m) (absentb s)) by (intro; apply fabsent_R; exact H).
  rewrite (forallb_ext_R (fhibernated m) (hibernatedb s)) by (intro; apply fhibernated_R; exact H).
  reflexivity.
Qed.

Lemma opt_eqb_to_nat (o : option N) (c : N) :
  opt_eqb (option_map N.to_nat o) (Some (N.to_nat c)) = match o with Some c' => N.eqb c' c | None => false end.
Proof.
  destruct o as [c'|]; simpl; [|reflexivity].
  apply eq_true_iff_eq. rewrite Nat.eqb_eq, N.eqb_eq. split; [apply N2Nat.inj|intros ->; reflexivity].
Qed.

Lemma fmerge_same_R m s a : R m s -> fmerge_same m a = merge_sameb s (to_action a).
Proof.
  intro H. unfold fmerge_same, merge_sameb. destruct a as [k co its]. cbn [fkind fitems to_action kind items].
  destruct k; try reflexivity. destruct its as [|b bs]; [reflexivity|].
  rewrite <- (flast_R m s b H). destruct (flast m b) as [c|]; [|reflexivity]. cbn [option_map].
  apply forallb_ext_R. intro b'. rewrite <- (flast_R m s b' H). symmetry. apply opt_eqb_to_nat.
Qed.

Lemma memn_to_nat q l : memn (N.to_nat q) (map N.to_nat l) = existsb (N.eqb q) l.
Proof.
  unfold memn. induction l as [|x r IH]; simpl; [reflexivity|]. rewrite IH. f_equal.
  apply eq_true_iff_eq. rewrite Nat.eqb_eq, N.eqb_eq. split; [apply N2Nat.inj|intros ->; reflexivity].
Qed.

Lemma fc02_chk_R par g m s a : agrees par g -> R m s -> fc02_chk par m a = c02_chkb g s (to_action a).
Proof.
  intros Hg H. unfold fc02_chk, c02_chkb. destruct a as [k co its].
  cbn [fkind fitems fcommit to_action kind items commit].
  destruct k; try (destruct co; reflexivity).
  - (* commit *)
    destruct co as [c|]; [|reflexivity]. cbn [option_map]. destruct its as [|b r]; [reflexivity|].
    rewrite (fawake_R m s b H). f_equal. rewrite <- (flast_R m s b H). rewrite <- (Hg c).
    destruct (flast m b) as [q|]; cbn [option_map].
    + symmetry. apply memn_to_nat.
    + destruct (par c); reflexivity.
  - (* merge *)
    assert (E : fnodup its && forallb (fawake m) its && fmerge_same m (mkFA KMerge co its) =
                nodupz its && forallb (awakeb s) its && merge_sameb s (to_action (mkFA KMerge co its))).
    { rewrite fnodup_nodupz, (fmerge_same_R m s _ H).
      rewrite (forallb_ext_R (fawake m) (awakeb s)) by (intro; apply fawake_R; exact H). reflexivity. }
    destruct co; exact E.
Qed.

(* nothing hibernated at the end *)
Lemma nothing_hibernatedb_iff s : nothing_hibernatedb s = true <-> nothing_hibernated s.
Proof.
  split; [apply nothing_hibernatedb_spec|].
  intro H. unfold nothing_hibernatedb. apply forallb_forall. intros k _.
  destruct (hibernatedb s k) eqn:E; [|reflexivity].
  apply hibernatedb_spec in E. exfalso. exact (H k E).
Qed.

Lemma fnothing_hibernated_R m s : R m s -> fnothing_hibernated m = nothing_hibernatedb s.
Proof.
  intro H. apply eq_true_iff_eq. rewrite nothing_hibernatedb_iff. unfold fnothing_hibernated, nothing_hibernated.
  rewrite forallb_forall. split.
  - intros F b [x Hx]. pose proof (H b) as Hb. rewrite Hx in Hb. simpl in Hb.
    destruct (fget m b) as [[st l]|] eqn:G; [|discriminate]. simpl in Hb. inversion Hb; subst st.
    apply PM.elements_correct in G. specialize (F _ G). simpl in F. discriminate.
  - intros F [k [st l]] Hin. simpl. destruct st; try reflexivity. exfalso.
    apply PM.elements_complete in Hin. destruct (zkey_surj k) as [b Hb]. subst k.
    pose proof (H b) as Hb. unfold fget in Hb. rewrite Hin in Hb. simpl in Hb.
    destruct (get s b) as [|x|x|] eqn:G; try discriminate. apply (F b). exists x. exact G.
Qed.

(* ---------- the generic run ---------- *)

Lemma fast_gen_ref fchk chk ffin fin :
  (forall m s a, R m s -> fchk m a = chk s (to_action a)) ->
  (forall m s, R m s -> ffin m = fin s) ->
  forall p m s, R m s -> fast_gen fchk ffin m p = ref_gen chk fin s (map to_action p).
Proof.
  intros Hc Hf. induction p as [|a r IH]; intros m s H; simpl.
  - apply Hf. exact H.
  - rewrite (Hc m s a H). destruct (chk s (to_action a)); [|reflexivity].
    apply IH. apply R_fstep. exact H.
Qed.

(* ---------- C04: the lifecycle, exactly ---------- *)

Lemma wf_actionb_complete a : wf_action a -> wf_actionb a = true.
Proof.
  unfold wf_action, wf_actionb. destruct a as [k co its]. cbn [kind commit items].
  destruct k; intro H.
  - destruct H as [c [b [-> ->]]]. reflexivity.
  - destruct H as [b [t [ts ->]]]. destruct co; reflexivity.
  - destruct H as [b [t [ts ->]]]. destruct co; reflexivity.
  - destruct H as [b ->]. destruct co; reflexivity.
  - destruct H as [b ->]. destruct co; reflexivity.
  - destruct its; [contradiction|]. destruct co; reflexivity.
  - destruct its; [contradiction|]. destruct co; reflexivity.
Qed.

Lemma step_okb_iff s a : step_okb s a = true <-> step_ok s a.
Proof.
  split; [apply step_okb_spec|].
  intros [W [N [U [C B]]]]. unfold step_okb. rewrite !andb_true_iff. repeat split.
  - apply wf_actionb_complete. exact W.
  - apply nodupz_NoDup. exact N.
  - apply forallb_forall. intros b Hb. apply awakeb_spec. apply U. exact Hb.
  - apply forallb_forall. intros b Hb. apply absentb_spec. apply C. exact Hb.
  - apply forallb_forall. intros b Hb. apply hibernatedb_spec. apply B. exact Hb.
Qed.

Lemma merge_sameb_iff s a : merge_sameb s a = true <-> merge_same s a.
Proof.
  unfold merge_sameb, merge_same. destruct a as [k co its]. cbn [kind items].
  destruct k; try (split; [intros _ K; discriminate|reflexivity]).
  destruct its as [|b bs].
  - split; [intros _ _; exists O; intros b []|reflexivity].
  - destruct (last_on s b) as [c|] eqn:L.
    + rewrite forallb_forall. split.
      * intros F _. exists c. intros b' [<-|Hb']; [exact L|].
        specialize (F b' Hb'). destruct (last_on s b') as [c'|]; simpl in F; [|discriminate].
        apply Nat.eqb_eq in F. subst. reflexivity.
      * intros F b' Hb'. destruct (F eq_refl) as [c0 Hc0].
        pose proof (Hc0 b (or_introl eq_refl)) as E1. rewrite L in E1. inversion E1; subst c0.
        rewrite (Hc0 b' (or_intror Hb')). simpl. apply Nat.eqb_refl.
    + split; [discriminate|]. intro F. destruct (F eq_refl) as [c0 Hc0].
      specialize (Hc0 b (or_introl eq_refl)). congruence.
Qed.

Lemma Forall_pre_inv (F : list (Z * life) -> action -> Prop) s a p :
  Forall_pre F s (a :: p) -> F s a /\ Forall_pre F (step s a) p.
Proof.
  intro H. split.
  - apply (H [] a p). reflexivity.
  - intros p1 a' p2 E. rewrite <- run_cons. apply (H (a :: p1) a' p2). rewrite E. reflexivity.
Qed.

Lemma ref_gen_pre (chk : list (Z * life) -> action -> bool) (F : list (Z * life) -> action -> Prop) fin :
  (forall s a, chk s a = true <-> F s a) ->
  forall p s, ref_gen chk fin s p = true <-> (Forall_pre F s p /\ fin (run s p) = true).
Proof.
  intros HF. induction p as [|a r IH]; intros s; cbn [ref_gen].
  - rewrite run_nil. split; [intro H; split; [apply Forall_pre_nil|exact H]|intros [_ H]; exact H].
  - rewrite andb_true_iff, IH, HF, run_cons. split.
    + intros [Ha [Hr Hf]]. split; [apply Forall_pre_cons; assumption|exact Hf].
    + intros [Hp Hf]. apply Forall_pre_inv in Hp. destruct Hp as [Ha Hr]. repeat split; assumption.
Qed.

Theorem fast_c04_exact : forall p : list faction,
  let p' := map to_action p in
  fast_c04 p = true <->
  (lifecycle_ok p' /\
   nothing_hibernated (run init p') /\
   forall p1 m p2, p' = p1 ++ m :: p2 -> kind m = KMerge ->
     exists c, forall b, In b (items m) -> last_on (run init p1) b = Some c).
Proof.
  intros p p'. unfold fast_c04.
  rewrite (fast_gen_ref _ (fun s a => step_okb s a && merge_sameb s a) _ nothing_hibernatedb) with (s := init);
    [| intros m s a H; rewrite (fstep_okb_R m s a H), (fmerge_same_R m s a H); reflexivity
     | intros m s H; apply fnothing_hibernated_R; exact H
     | apply R_init].
  fold p'.
  rewrite (ref_gen_pre _ (fun s a => step_ok s a /\ merge_same s a));
    [| intros s a; rewrite andb_true_iff, step_okb_iff, merge_sameb_iff; reflexivity].
  rewrite nothing_hibernatedb_iff. unfold lifecycle_ok, lifecycle_from, Forall_pre, merge_same. split.
  - intros [H NH]. split; [intros p1 a p2 E; apply (H p1 a p2 E)|]. split; [exact NH|].
    intros p1 m p2 E K. exact (proj2 (H p1 m p2 E) K).
  - intros [L [NH M]]. split; [|exact NH]. intros p1 a p2 E. split; [apply (L p1 a p2 E)|].
    intro K. apply (M p1 a p2 E K).
Qed.

(* ---------- C02: necessary conditions ---------- *)

Lemma c02_chkb_complete g s a :
  wf_action a ->
  (forall c b, a = commit_on c b -> replay_ok g s c b) ->
  (kind a = KMerge -> merge_ok g s a) ->
  c02_chkb g s a = true.
Proof.
  intros W HC HM. unfold c02_chkb. destruct a as [k co its]. cbn [kind commit items] in *.
  destruct k; try (destruct co; reflexivity).
  - (* commit *)
    destruct W as [c [b [E1 E2]]]. cbn [commit items] in E1, E2. subst co its.
    destruct (HC c b eq_refl) as [_ [x [G HL]]].
    unfold awakeb, last_on, last_of, data. rewrite G. simpl.
    destruct (last x) as [q|].
    + apply memn_In. exact (proj1 HL).
    + destruct HL as [_ ->]. reflexivity.
  - (* merge *)
    destruct (HM eq_refl) as [ND [c [_ HL]]]. cbn [items] in ND, HL.
    assert (E : nodupz its && forallb (awakeb s) its && merge_sameb s (mkA KMerge co its) = true).
    { rewrite !andb_true_iff. repeat split.
      - apply nodupz_NoDup. exact ND.
      - apply forallb_forall. intros b Hb. destruct (HL b Hb) as [x [G _]]. unfold awakeb. rewrite G. reflexivity.
      - apply merge_sameb_iff. intros _. exists c. intros b Hb. cbn [items] in Hb.
        destruct (HL b Hb) as [x [G L]]. unfold last_on, last_of, data. rewrite G. exact L. }
    destruct co; exact E.
Qed.

Lemma c02_ref_complete g : forall p s,
  Forall wf_action p ->
  (forall p1 c b p2, p = p1 ++ commit_on c b :: p2 -> replay_ok g (run s p1) c b) ->
  (forall p1 m p2, p = p1 ++ m :: p2 -> kind m = KMerge -> merge_ok g (run s p1) m) ->
  ref_gen (c02_chkb g) (fun _ => true) s p = true.
Proof.
  induction p as [|a r IH]; intros s W HC HM; simpl; [reflexivity|].
  inversion W as [|? ? Wa Wr]; subst. apply andb_true_iff. split.
  - apply c02_chkb_complete; [exact Wa| |].
    + intros c b E. subst a. apply (HC [] c b r). reflexivity.
    + intro K. apply (HM [] a r eq_refl K).
  - apply IH; [exact Wr| |].
    + intros p1 c b p2 E. rewrite <- run_cons. apply (HC (a :: p1) c b p2). rewrite E. reflexivity.
    + intros p1 m p2 E K. rewrite <- run_cons. apply (HM (a :: p1) m p2); [rewrite E; reflexivity|exact K].
Qed.

Theorem fast_c02_necessary : forall (g : dag) (par : N -> list N) (p : list faction),
  agrees par g -> C02_spec g (map to_action p) -> fast_c02 par p = true.
Proof.
  intros g par p Hg S. unfold fast_c02.
  rewrite (fast_gen_ref _ (c02_chkb g) _ (fun _ => true)) with (s := init);
    [| intros m s a H; apply fc02_chk_R; assumption | reflexivity | apply R_init].
  apply c02_ref_complete.
  - apply (c02_shape g _ S).
  - apply (c02_replay g _ S).
  - apply (c02_merges g _ S).
Qed.
