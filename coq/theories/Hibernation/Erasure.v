(* C09 - the run of a plan with well-placed Hibernate / Boot actions is simulated by the run of the
   erased plan: step lemma for the common actions, induction over the plan, the three theorems. *)
From Coq Require Import List ZArith Bool NArith Lia.
From Herc Require Import Hibernation.Model Hibernation.Tables Hibernation.Inv Hibernation.Sim.
Import ListNotations.
Open Scope Z_scope.

(* ---------------------------------------------------------------------------------------- *)
(* the lifecycle predicate, one action at a time *)

Definition action_ok (stt : list (Z * bool)) (a : action) : bool :=
  match a with
  | ACommit b _ => live stt b
  | AFork b news => live stt b && nodupb news && forallb (absent stt) news
  | AMerge b others => nodupb (b :: others) && forallb (live stt) (b :: others)
  | AEmerge b => absent stt b
  | ADelete b => live stt b
  | AHibernate b others => nodupb (b :: others) && forallb (live stt) (b :: others)
  | ABoot b others => nodupb (b :: others) && forallb (asleep stt) (b :: others)
  end.

Definition next_status (stt : list (Z * bool)) (a : action) : list (Z * bool) :=
  match a with
  | ACommit _ _ | AMerge _ _ => stt
  | AFork b news => tset_all stt (map (fun n => (n, false)) news)
  | AEmerge b => tset b false stt
  | ADelete b => tdel b stt
  | AHibernate b others => tset_all stt (map (fun n => (n, true)) (b :: others))
  | ABoot b others => tset_all stt (map (fun n => (n, false)) (b :: others))
  end.

Lemma lifecycle_cons : forall stt a p,
    lifecycle stt (a :: p) = action_ok stt a && lifecycle (next_status stt a) p.
Proof.
  intros stt a p. destruct a; cbn [lifecycle action_ok next_status]; rewrite <- ?andb_assoc; reflexivity.
Qed.

(* isMerge looks through Hibernate / Boot actions *)
Lemma near_match_erase : forall l c, near_match (erase_hb l) c = near_match l c.
Proof.
  induction l as [|a l IH]; intros c; [reflexivity|].
  destruct a; cbn; auto.
Qed.

Definition back_agree (done : list action) : Prop :=
  forall c, near_match (removelast done) c = near_match (removelast (erase_hb done)) c.

Lemma back_agree_nil : back_agree [].
Proof. intros c. reflexivity. Qed.

Lemma erase_hb_cons : forall a l,
    erase_hb (a :: l) = if is_hb a then erase_hb l else a :: erase_hb l.
Proof. intros a l. unfold erase_hb. cbn. now destruct (is_hb a). Qed.

Lemma back_agree_cons : forall a done,
    back_agree done -> (done = [] \/ erase_hb done <> []) -> back_agree (a :: done).
Proof.
  intros a done G P c. destruct done as [|d done].
  - cbn [removelast]. rewrite erase_hb_cons. cbn. now destruct (is_hb a).
  - destruct P as [P|P]; [discriminate|].
    change (removelast (a :: d :: done)) with (a :: removelast (d :: done)).
    rewrite erase_hb_cons. destruct (is_hb a) eqn:Ea.
    + rewrite <- G. destruct a; cbn in Ea; try discriminate; reflexivity.
    + destruct (erase_hb (d :: done)) as [|e es] eqn:Ee; [contradiction|].
      change (removelast (a :: e :: es)) with (a :: removelast (e :: es)).
      destruct a; cbn in Ea; try discriminate; reflexivity.
Qed.

Lemma combine_map_r : forall {A B C} (f : B -> C) (l : list A) (l' : list B),
    combine l (map f l') = map (fun e => (fst e, f (snd e))) (combine l l').
Proof.
  intros A B C f. induction l as [|x l IH]; intros [|y l']; cbn; try reflexivity. now rewrite IH.
Qed.

Lemma in_combine_keys : forall {A B} (l : list A) (l' : list B) x,
    In x (map fst (combine l l')) -> In x l.
Proof.
  intros A B. induction l as [|y l IH]; intros [|z l'] x Hin; cbn in *; try contradiction.
  destruct Hin as [->|Hin]; [now left|right; eauto].
Qed.

Lemma all_awake_flag : forall (stt : list (Z * bool)) b h,
    forallb (fun e : Z * bool => negb (snd e)) stt = true -> tget b stt = Some h -> h = false.
Proof.
  induction stt as [|[x w] stt IH]; intros b h Hall Hg; cbn in *; [discriminate|].
  apply andb_prop in Hall. destruct Hall as [Hw Hall].
  destruct (Z.eqb x b).
  - inversion Hg; subst. now apply negb_true_iff in Hw.
  - eauto.
Qed.

Section Erasure.
  Context {S H K R byte : Type}.
  Variable o : ops S H K R byte.
  Notation item := (ist S H K).
  Notation fsys := (list (N * list byte)).
  Notation rst := (@rstate S H K byte).

  Hypothesis boot_hibernate : forall s, size o s <> 0 -> decompress o (compress o s) = s.
  Hypothesis file_roundtrip : forall h, decode o (strip o h) (encode o h) = Some h.
  Hypothesis truncation_detected : forall h j,
      (j < length (encode o h))%nat -> decode o (strip o h) (firstn j (encode o h)) = None.

  (* the run with hibernation *)
  Variable cfg : config.
  Variable io : nat -> io_choice.
  Variable adv : nat -> list (@tamper).
  Variable fs0 : fsys.
  Hypothesis names_inj : forall i j, io_name (io i) = io_name (io j) -> i = j.
  Hypothesis names_new : forall i, fs_mem (io_name (io i)) fs0 = false.
  (* the run of the erased plan: any configuration, oracle, adversary *)
  Variable cfg0 : config.
  Variable io0 : nat -> io_choice.
  Variable adv0 : nat -> list (@tamper).

  Variable strict : bool.
  Hypothesis strict_io : strict = true -> forall i, io_result (io i) = IoOk.
  Hypothesis strict_adv : strict = true -> forall i, adv i = [].

  Notation Inv := (Inv o io fs0 strict).

  Lemma get_awakes_sim : forall bs stt (st st0 : rst),
      Inv stt (br st) (fs st) (nio st) (br st0) ->
      forallb (live stt) bs = true ->
      exists ss, get_awakes st bs = Ok ss /\ get_awakes st0 bs = Ok ss.
  Proof.
    induction bs as [|b bs IH]; intros stt st st0 I Hl; cbn.
    - exists []. auto.
    - cbn in Hl. apply andb_prop in Hl. destruct Hl as [Hb Hl].
      unfold live in Hb. destruct (tget b stt) as [[|]|] eqn:Est; try discriminate.
      destruct (inv_live o io fs0 strict _ _ _ _ _ _ I Est) as (s & Hs1 & Hs0).
      destruct (IH _ _ _ I Hl) as (ss & H1 & H2).
      exists (s :: ss). unfold get_awake. rewrite Hs1, Hs0, H1, H2. auto.
  Qed.

  (* one common (non Hibernate / Boot) action executed by both runs *)
  Lemma step_sim : forall a done rest done0 rest0 stt (st st0 : rst),
      is_hb a = false ->
      action_ok stt a = true ->
      Inv stt (br st) (fs st) (nio st) (br st0) -> cidx st = cidx st0 ->
      (forall c, is_merge done rest c = is_merge done0 rest0 c) ->
      let (r, st') := step o cfg io adv done rest a st in
      let (r0, st0') := step o cfg0 io0 adv0 done0 rest0 a st0 in
      r = r0 /\
      (r = Ok tt -> Inv (next_status stt a) (br st') (fs st') (nio st') (br st0') /\ cidx st' = cidx st0').
  Proof.
    intros a done rest done0 rest0 stt st st0 Hhb Hok I Hc Him.
    assert (It : Inv stt (br st) (apply_tampers (fs st) (adv (length done))) (nio st) (br st0)).
    { apply inv_tampers; [exact strict_io|intros E; now apply strict_adv|exact I]. }
    clear I.
    destruct a as [b c|b news|b others|b|b|b others|b others]; cbn in Hhb; try discriminate;
      cbn [action_ok next_status] in *; unfold step.
    - (* Commit *)
      unfold live in Hok. destruct (tget b stt) as [[|]|] eqn:Est; try discriminate.
      destruct (inv_live o io fs0 strict _ _ _ _ _ _ It Est) as (s & Hs1 & Hs0).
      unfold get_awake. cbn [br with_fs cidx]. rewrite Hs1, Hs0, Hc, Him.
      destruct (consume o c (cidx st0) (is_merge done0 rest0 c) s) as [s'|p|e]; cbn; (split; [reflexivity|]); try discriminate.
      intros _. split; [|now rewrite Hc].
      rewrite <- (tset_same_value stt b false Est) at 1.
      apply inv_set_awake; [exact It|now right].
    - (* Fork *)
      apply andb_prop in Hok. destruct Hok as [Hok Habs]. apply andb_prop in Hok. destruct Hok as [Hb Hnd].
      unfold live in Hb. destruct (tget b stt) as [[|]|] eqn:Est; try discriminate.
      destruct (inv_live o io fs0 strict _ _ _ _ _ _ It Est) as (s & Hs1 & Hs0).
      unfold get_awake. cbn [br with_fs cidx]. rewrite Hs1, Hs0. cbn. split; [reflexivity|].
      intros _. split; [|exact Hc].
      pose (upd := map (fun n : Z => (n, clone o s)) news).
      replace (map (fun n : Z => (n, Awake (clone o s))) news) with (awake_upd (S:=S) (H:=H) (K:=K) upd)
        by (unfold awake_upd, upd; rewrite map_map; reflexivity).
      replace (map (fun n : Z => (n, false)) news) with (false_upd upd)
        by (unfold false_upd, upd; rewrite map_map; reflexivity).
      apply inv_set_all; [exact It|].
      intros b' Hin. left. unfold upd in Hin. rewrite map_map in Hin. cbn in Hin. rewrite map_id in Hin.
      rewrite forallb_forall in Habs. specialize (Habs _ Hin). unfold absent in Habs.
      now destruct (tget b' stt).
    - (* Merge *)
      apply andb_prop in Hok. destruct Hok as [Hnd Hl].
      destruct (get_awakes_sim (b :: others) stt
                  (with_fs st (apply_tampers (fs st) (adv (length done))))
                  (with_fs st0 (apply_tampers (fs st0) (adv0 (length done0)))) It Hl) as (ss & H1 & H2).
      rewrite H1, H2.
      destruct (merge o ss) as [ss'|p|e]; [|cbn; split; [reflexivity|discriminate]..].
      cbn -[combine]. split; [reflexivity|].
      intros _. split; [|exact Hc].
      rewrite combine_map_r.
      pose (upd := combine (b :: others) ss').
      change (map (fun e : Z * S => (fst e, Awake (snd e))) (combine (b :: others) ss')) with (awake_upd (S:=S) (H:=H) (K:=K) upd).
      assert (Hlive : forall x, In x (map fst upd) -> tget x stt = Some false).
      { intros x Hin. apply in_combine_keys in Hin. rewrite forallb_forall in Hl. specialize (Hl _ Hin).
        unfold live in Hl. now destruct (tget x stt) as [[|]|]. }
      rewrite <- (tset_all_live_id upd stt Hlive) at 1.
      apply inv_set_all; [exact It|]. intros x Hin. right. now apply Hlive.
    - (* Emerge *)
      cbn. split; [reflexivity|]. intros _. split; [|exact Hc].
      apply inv_set_awake; [exact It|]. left. unfold absent in Hok. now destruct (tget b stt).
    - (* Delete *)
      cbn. split; [reflexivity|]. intros _. split; [|exact Hc].
      apply inv_del; [exact It|]. unfold live in Hok. now destruct (tget b stt) as [[|]|].
  Qed.

  (* a Hibernate / Boot action, executed by the run with hibernation only *)
  Lemma step_hb : forall a done rest stt (st : rst) b0,
      is_hb a = true ->
      action_ok stt a = true ->
      Inv stt (br st) (fs st) (nio st) b0 ->
      match step o cfg io adv done rest a st with
      | (Ok _, st') => Inv (next_status stt a) (br st') (fs st') (nio st') b0 /\ cidx st' = cidx st
      | (Err e, _) => io_err e = true /\ strict = false
      | (Panic _, _) => False
      end.
  Proof.
    intros a done rest stt st b0 Hhb Hok I.
    assert (It : Inv stt (br st) (apply_tampers (fs st) (adv (length done))) (nio st) b0).
    { apply inv_tampers; [exact strict_io|intros E; now apply strict_adv|exact I]. }
    clear I.
    destruct a as [b c|b news|b others|b|b|b others|b others]; cbn in Hhb; try discriminate;
      cbn [action_ok next_status] in *; unfold step;
      apply andb_prop in Hok; destruct Hok as [Hnd Hl].
    - exact (hibernate_all o boot_hibernate cfg io adv fs0 names_inj names_new strict strict_io strict_adv
               (b :: others) stt (with_fs st (apply_tampers (fs st) (adv (length done)))) b0 It Hnd Hl).
    - exact (boot_all o file_roundtrip truncation_detected io adv fs0 strict strict_io strict_adv
               (b :: others) stt (with_fs st (apply_tampers (fs st) (adv (length done)))) b0 It Hnd Hl).
  Qed.

  (* ------------------------------------------------------------------------------------ *)
  (* the whole plan *)
  Definition sim_result (r r0 : result unit) (st' st0' : rst) : Prop :=
    (r = Ok tt /\ r0 = Ok tt /\
     exists stt', Inv stt' (br st') (fs st') (nio st') (br st0') /\ cidx st' = cidx st0' /\
                  forallb (fun e : Z * bool => negb (snd e)) stt' = true) \/
    (r = r0 /\ r <> Ok tt) \/
    (strict = false /\ exists e, r = Err e /\ io_err e = true).

  Lemma exec_sim : forall rest done stt (st st0 : rst),
      lifecycle stt rest = true ->
      (done = [] -> stt = []) ->
      (done = [] \/ erase_hb done <> []) ->
      back_agree done ->
      Inv stt (br st) (fs st) (nio st) (br st0) -> cidx st = cidx st0 ->
      let (r, st') := exec o cfg io adv done rest st in
      let (r0, st0') := exec o cfg0 io0 adv0 (erase_hb done) (erase_hb rest) st0 in
      sim_result r r0 st' st0'.
  Proof.
    induction rest as [|a rest IH]; intros done stt st st0 Hlc Hd0 Hp Hg I Hc.
    - cbn. left. repeat split. exists stt. auto.
    - rewrite lifecycle_cons in Hlc. apply andb_prop in Hlc. destruct Hlc as [Hok Hlc].
      assert (Hg' : back_agree (a :: done)) by (now apply back_agree_cons).
      cbn [exec]. rewrite erase_hb_cons.
      destruct (is_hb a) eqn:Ehb.
      + (* Hibernate / Boot: only the run with hibernation moves *)
        assert (Hdne : done <> []).
        { intros ->. rewrite (Hd0 eq_refl) in Hok.
          destruct a; cbn in Ehb; try discriminate; cbn [action_ok] in Hok;
            apply andb_prop in Hok; destruct Hok as [_ Hok]; cbn in Hok; discriminate. }
        pose proof (step_hb a done rest stt st (br st0) Ehb Hok I) as Hs.
        destruct (step o cfg io adv done rest a st) as [[u|c|e] st1].
        * destruct Hs as [I1 Hc1].
          specialize (IH (a :: done) (next_status stt a) st1 st0 Hlc).
          rewrite erase_hb_cons, Ehb in IH.
          apply IH; try assumption.
          -- discriminate.
          -- right. destruct Hp as [Hp|Hp]; [contradiction|exact Hp].
          -- congruence.
        * contradiction.
        * destruct (exec o cfg0 io0 adv0 (erase_hb done) (erase_hb rest) st0) as [r0 st0'].
          right. right. destruct Hs as [He Hs]. split; [exact Hs|]. eauto.
      + (* a common action *)
        cbn [exec].
        assert (Him : forall c, is_merge done rest c = is_merge (erase_hb done) (erase_hb rest) c).
        { intros c. unfold is_merge. rewrite (Hg c). now rewrite near_match_erase. }
        pose proof (step_sim a done rest (erase_hb done) (erase_hb rest) stt st st0 Ehb Hok I Hc Him) as Hs.
        destruct (step o cfg io adv done rest a st) as [r st1].
        destruct (step o cfg0 io0 adv0 (erase_hb done) (erase_hb rest) a st0) as [r0 st01].
        destruct Hs as [<- Hs].
        destruct r as [u|c|e].
        * destruct u. destruct (Hs eq_refl) as [I1 Hc1].
          specialize (IH (a :: done) (next_status stt a) st1 st01 Hlc).
          rewrite erase_hb_cons, Ehb in IH.
          apply IH; try assumption.
          -- discriminate.
          -- right. discriminate.
        * right. left. split; [reflexivity|discriminate].
        * right. left. split; [reflexivity|discriminate].
  Qed.

  (* Finalize of the master branch *)
  Lemma finish_sim : forall stt (st st0 : rst),
      Inv stt (br st) (fs st) (nio st) (br st0) ->
      forallb (fun e : Z * bool => negb (snd e)) stt = true ->
      finish o st = finish o st0.
  Proof.
    intros stt st st0 I Hall. unfold finish.
    rewrite (inv_keys1 _ _ _ _ _ _ _ _ _ I), <- (inv_keys0 _ _ _ _ _ _ _ _ _ I).
    destruct (min_key (map fst (br st0))) as [b|]; [|reflexivity].
    unfold get_awake.
    destruct (tget b (br st)) as [it|] eqn:E.
    - destruct (inv_rel _ _ _ _ _ _ _ _ _ I _ _ E) as (s & hib & H0 & Hst & Hr).
      rewrite H0. apply (all_awake_flag _ _ _ Hall) in Hst. subst hib.
      destruct it as [s'|h|k n]; cbn in Hr.
      + now subst.
      + destruct Hr; discriminate.
      + destruct Hr; discriminate.
    - assert (tget b (br st0) = None) as ->; [|reflexivity].
      eapply keys_eq_tget_none; [|exact E].
      now rewrite (inv_keys1 _ _ _ _ _ _ _ _ _ I), (inv_keys0 _ _ _ _ _ _ _ _ _ I).
  Qed.

  Definition outcome (x : result (option R) * rst) : result (option R) := fst x.
  Definition files_left (x : result (option R) * rst) : fsys := fs (snd x).

  (* the run of the plan against the run of its erasure: same outcome, or an I/O error (which
     cannot happen when all I/O succeeds and nobody touches the files) *)
  Theorem run_sim : forall p fs00,
      lifecycle_ok_h p = true ->
      outcome (run o cfg io adv p fs0) = outcome (run o cfg0 io0 adv0 (erase_hb p) fs00) \/
      (strict = false /\ exists e, outcome (run o cfg io adv p fs0) = Err e /\ io_err e = true).
  Proof.
    intros p fs00 Hlc. unfold run, outcome.
    pose proof (exec_sim p [] [] (start fs0) (start fs00) Hlc (fun _ => eq_refl) (or_introl eq_refl)
                         back_agree_nil (inv_init o io fs0 strict) eq_refl) as Hs.
    change (erase_hb []) with (@nil action) in Hs.
    destruct (exec o cfg io adv [] p (start fs0)) as [r st'].
    destruct (exec o cfg0 io0 adv0 [] (erase_hb p) (start fs00)) as [r0 st0'].
    destruct Hs as [(-> & -> & stt' & I & _ & Hall)|[[<- Hne]|(Hs & e & -> & He)]].
    - left. cbn. eapply finish_sim; eauto.
    - left. destruct r as [[]|c|e]; [now contradiction Hne|reflexivity|reflexivity].
    - right. split; [exact Hs|]. exists e. auto.
  Qed.

  (* after a successful run every file in the directory was there before the run *)
  Theorem run_no_leftover : forall p r,
      lifecycle_ok_h p = true ->
      outcome (run o cfg io adv p fs0) = Ok r ->
      forall n, fs_mem n (files_left (run o cfg io adv p fs0)) = true -> fs_mem n fs0 = true.
  Proof.
    intros p r Hlc. unfold run, outcome, files_left.
    pose proof (exec_sim p [] [] (start fs0) (start fs0) Hlc (fun _ => eq_refl) (or_introl eq_refl)
                         back_agree_nil (inv_init o io fs0 strict) eq_refl) as Hs.
    change (erase_hb []) with (@nil action) in Hs.
    destruct (exec o cfg io adv [] p (start fs0)) as [r1 st'].
    destruct (exec o cfg0 io0 adv0 [] (erase_hb p) (start fs0)) as [r0 st0'].
    destruct Hs as [(-> & -> & stt' & I & _ & Hall)|[[<- Hne]|(Hs & e & -> & He)]].
    - cbn. intros _ n Hn.
      destruct (inv_held _ _ _ _ _ _ _ _ _ I n Hn) as [Hl|(b & k & Hh)]; [exact Hl|].
      apply (inv_holder_asleep o io fs0 strict _ _ _ _ _ _ _ _ I) in Hh.
      apply (all_awake_flag _ _ _ Hall) in Hh. discriminate.
    - destruct r1 as [[]|c|e]; [now contradiction Hne|discriminate|discriminate].
    - discriminate.
  Qed.
End Erasure.
