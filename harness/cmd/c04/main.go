// Harness for C04.  Two kinds of cases:
//
//	fn*   : collectGarbage and insertHibernateBoot called directly on generated plans (well-formed ones
//	        with and without deletes, and arbitrary ones) - fine correspondence with GC.v / Hibernate.v;
//	graph : the stages generatePlan -> collectGarbage -> insertHibernateBoot(d) for d = 0..8 called one by
//	        one on a fabricated commit graph, and the composed prepareRunPlan(commits, d) on the same
//	        graph in reversed slice order; the plans are validated by the lifecycle checker.
//	        Every fabricated commit carries a committer timestamp (none, equal, growing, falling, random, skewed).
//	        Kind wide: forks / octopus merges of more than eight branches.
//	scale-*: histories with 10^3 .. 10^6 branch indexes (planlib.ScaleGraph; the 2^16 boundary in the quick tier):
//	        generatePlan -> collectGarbage -> insertHibernateBoot(d) for a few d, and prepareRunPlan(commits, d) once;
//	        judged by the fast lifecycle validator (the list-based models are quadratic and are not run at this size).
package main

import (
	"flag"
	"fmt"
	"math/rand"
	"sync"

	"gopkg.in/src-d/hercules.v10/verifapi"
	. "verifharness/lib"
	pl "verifharness/planlib"
)

const maxD = 8

var ids = pl.IdentityIDs(4096)

func parsePlan(ops []Sx) []verifapi.VerifAction {
	plan := make([]verifapi.VerifAction, len(ops))
	for i, o := range ops {
		plan[i] = pl.ParseAction(o)
	}
	return plan
}

// ---------- direct calls ----------

func fnCase(c *Config, kind string, d int, ops []Sx) {
	var gcOut []verifapi.VerifAction
	gcOK := false
	gc := pl.Guard("gc", func() Sx {
		gcOut = verifapi.CollectGarbage(parsePlan(ops))
		gcOK = true
		return pl.PlanSx("gc", gcOut, ids)
	})
	hb := pl.Guard("hb", func() Sx {
		return pl.PlanSx("hb", verifapi.InsertHibernateBoot(parsePlan(ops), d), ids)
	})
	gchb := T("gchb", T("skip"))
	if gcOK {
		gchb = pl.Guard("gchb", func() Sx {
			return pl.PlanSx("gchb", verifapi.InsertHibernateBoot(gcOut, d), ids)
		})
	}
	nt := false
	for _, o := range ops {
		if o.Tag() == "F" || o.Tag() == "M" {
			nt = true
		}
	}
	c.Emit(T("kind", A(kind)), T("nt", B(nt && len(ops) >= 4)), T("d", I(d)), T("ops", ops...), T("obs", gc, hb, gchb))
}

func act(k string, commit int, items ...int) Sx {
	xs := []Sx{I(commit)}
	for _, it := range items {
		xs = append(xs, I(it))
	}
	return T(k, xs...)
}

// wellFormed draws a plan with a sound lifecycle (no hibernation yet).
func wellFormed(r *rand.Rand, deletes bool) []Sx {
	var ops []Sx
	var live []int
	next := 1
	commit := 0
	wideMerges := 0
	steps := 2 + r.Intn(45)
	if r.Intn(5) == 0 {
		steps = 1 + r.Intn(6)
	}
	newID := func() int {
		if r.Intn(10) == 0 {
			next += r.Intn(3)
		}
		next++
		return next - 1
	}
	for len(ops) < steps {
		x := r.Intn(20)
		switch {
		case len(live) == 0 || x == 0:
			b := newID()
			ops = append(ops, act("E", commit, b))
			live = append(live, b)
		case x < 10:
			b := live[r.Intn(len(live))]
			ops = append(ops, act("C", commit, b))
			commit++
			if r.Intn(6) == 0 && len(live) >= 2 { // a merge commit: replay on others and merge
				perm := r.Perm(len(live))
				k := 2 + r.Intn(minInt(len(live)-1, 3))
				parts := []int{b}
				for _, pi := range perm {
					if live[pi] != b && len(parts) < k {
						parts = append(parts, live[pi])
						ops = append(ops, act("C", commit-1, live[pi]))
					}
				}
				r.Shuffle(len(parts), func(i, j int) { parts[i], parts[j] = parts[j], parts[i] })
				ops = append(ops, act("M", -1, parts...))
			}
		case x < 14:
			b := live[r.Intn(len(live))]
			items := []int{b}
			width := 1 + r.Intn(3)
			if r.Intn(12) == 0 { // a fork of more than eight branches
				width = 7 + r.Intn(6)
			}
			for k := width; k > 0; k-- {
				t := newID()
				items = append(items, t)
				live = append(live, t)
			}
			ops = append(ops, act("F", commit, items...))
		case x < 17 && len(live) >= 2:
			perm := r.Perm(len(live))
			k := 2 + r.Intn(minInt(len(live)-1, 3))
			if r.Intn(3) == 0 && wideMerges < 2 && steps <= 16 {
				// an octopus merge of (almost) everything that is alive; at most twice, in short plans only: the abstract
				// executor concatenates the incorporated sets of the participants, so repeated merges of the
				// same many branches make them grow geometrically
				k = len(live) - r.Intn(minInt(len(live)-1, 3))
				wideMerges++
			}
			var parts []int
			for _, pi := range perm[:k] {
				parts = append(parts, live[pi])
			}
			ops = append(ops, act("M", -1, parts...))
		case deletes && x >= 17:
			i := r.Intn(len(live))
			ops = append(ops, act("D", -1, live[i]))
			live = append(live[:i], live[i+1:]...)
		}
	}
	return ops
}

func minInt(a, b int) int {
	if a < b {
		return a
	}
	return b
}

// arbitrary draws any list of actions.
func arbitrary(r *rand.Rand) []Sx {
	kinds := []string{"C", "C", "C", "F", "M", "E", "D", "H", "B"}
	if r.Intn(2) == 0 {
		kinds = []string{"C", "C", "C", "F", "F", "M", "M", "E", "D"}
	}
	n := r.Intn(16)
	lo := -2
	if r.Intn(3) != 0 {
		lo = 1
	}
	ops := make([]Sx, n)
	for i := range ops {
		k := kinds[r.Intn(len(kinds))]
		ni := 1
		switch k {
		case "F", "M", "H", "B":
			ni = 1 + r.Intn(4)
		}
		if r.Intn(40) == 0 {
			ni = r.Intn(3)
		}
		items := make([]int, ni)
		for j := range items {
			items[j] = lo + r.Intn(7-lo)
		}
		ops[i] = act(k, r.Intn(7)-1, items...)
	}
	return ops
}

// ---------- graphs ----------

func graphObs(g pl.Graph) []Sx {
	var obs []Sx
	cs, id := g.Commits(false)
	var gen, gc []verifapi.VerifAction
	ok := false
	obs = append(obs, pl.Guard("gen", func() Sx {
		gen = verifapi.GeneratePlan(cs)
		return pl.PlanSx("gen", gen, id)
	}))
	if gen != nil {
		obs = append(obs, pl.Guard("gc", func() Sx {
			gc = verifapi.CollectGarbage(gen)
			ok = true
			return pl.PlanSx("gc", gc, id)
		}))
	}
	if ok {
		gcs := pl.PlanString(gc, id)
		var same []int
		for d := 0; d <= maxD; d++ {
			d := d
			var str string
			o := pl.Guard("hb", func() Sx {
				out := verifapi.InsertHibernateBoot(gc, d)
				str = pl.PlanString(out, id)
				sx := pl.PlanSx("hb", out, id)
				return T("hb", append([]Sx{I(d)}, sx.Args()...)...)
			})
			if str == gcs {
				same = append(same, d)
			} else {
				obs = append(obs, o)
			}
		}
		obs = append(obs, T("hbsame", Ints(same).List...))
	}
	// the composed planner, on the reversed slice
	cs2, _ := g.Commits(true)
	prev := ""
	for d := 0; d <= maxD; d++ {
		d := d
		var str string
		o := pl.Guard("full", func() Sx {
			out := verifapi.PrepareRunPlan(cs2, d)
			str = pl.PlanString(out, id)
			sx := pl.PlanSx("full", out, id)
			return T("full", append([]Sx{I(d)}, sx.Args()...)...)
		})
		if str != "" && str == prev {
			obs = append(obs, T("fullsame", I(d)))
		} else {
			obs = append(obs, o)
		}
		prev = str
	}
	return obs
}

func graphFields(kind string, g pl.Graph, mult int, obs []Sx) []Sx {
	fs := []Sx{T("kind", A(kind)), T("nt", B(g.NonTrivial()))}
	fs = append(fs, g.Fields()...)
	if mult > 0 {
		obs = append([]Sx{T("mult", I(mult))}, obs...)
	}
	fs = append(fs, T("obs", obs...))
	return fs
}

// sweep: every DAG on n commits selected by keep x every selected hash order; one case per (graph,
// distinct output of generatePlan) with the number of hash orders that gave that plan.
func sweep(c *Config, kind string, n int, keep func([][]int) bool, takeOrder func(int) bool, workers int) {
	perms := pl.Perms(n)
	total := pl.NumMasks(n)
	const batch = 256
	for start := 0; start < total; start += batch {
		end := start + batch
		if end > total {
			end = total
		}
		out := make([][][]Sx, end-start)
		var wg sync.WaitGroup
		next := make(chan int, batch)
		for w := 0; w < workers; w++ {
			wg.Add(1)
			go func() {
				defer wg.Done()
				for m := range next {
					parents := pl.DagFromMask(n, m)
					if !keep(parents) {
						continue
					}
					seen := map[string]int{}
					var graphs []pl.Graph
					var mult []int
					for k, ranks := range perms {
						if !takeOrder(k) {
							continue
						}
						g := pl.FromParents(parents, ranks)
						g.Times = pl.SweepTimes(n, m, k)
						cs, id := g.Commits(false)
						key := "panic"
						Catch(func() { key = pl.PlanString(verifapi.GeneratePlan(cs), id) })
						if at, ok := seen[key]; ok {
							mult[at]++
							continue
						}
						seen[key] = len(graphs)
						graphs = append(graphs, g)
						mult = append(mult, 1)
					}
					var lines [][]Sx
					for i, g := range graphs {
						lines = append(lines, graphFields(kind, g, mult[i], graphObs(g)))
					}
					out[m-start] = lines
				}
			}()
		}
		for m := start; m < end; m++ {
			next <- m
		}
		close(next)
		wg.Wait()
		for _, lines := range out {
			for _, l := range lines {
				c.Emit(l...)
			}
		}
	}
}

// ---------- large histories ----------

type scaleSpec struct {
	shape              string
	size, hmode, tmode int
	gseed              int64
	dists              []int // insertHibernateBoot distances (on the collected plan)
	full               int   // distance of the composed prepareRunPlan call, -1: none
}

func scaleLine(sp scaleSpec) []Sx {
	g := pl.ScaleGraph(sp.shape, sp.size, sp.hmode, sp.tmode, sp.gseed)
	cs, id := g.Commits(false)
	var obs []Sx
	var gen, gc []verifapi.VerifAction
	ok := false
	obs = append(obs, pl.Guard("gen", func() Sx {
		gen = verifapi.GeneratePlan(cs)
		return T("gen", T("len", I(len(gen))))
	}))
	if gen != nil && (len(sp.dists) > 0 || sp.full < 0) {
		obs = append(obs, pl.Guard("gc", func() Sx {
			gc = verifapi.CollectGarbage(gen)
			ok = true
			return pl.PlanSx("gc", gc, id)
		}))
	}
	if ok {
		for _, d := range sp.dists {
			d := d
			obs = append(obs, pl.Guard("hb", func() Sx {
				sx := pl.PlanSx("hb", verifapi.InsertHibernateBoot(gc, d), id)
				return T("hb", append([]Sx{I(d)}, sx.Args()...)...)
			}))
		}
	}
	if sp.full >= 0 {
		obs = append(obs, pl.Guard("full", func() Sx {
			sx := pl.PlanSx("full", verifapi.PrepareRunPlan(cs, sp.full), id)
			return T("full", append([]Sx{I(sp.full)}, sx.Args()...)...)
		}))
	}
	ds := make([]Sx, len(sp.dists))
	for i, d := range sp.dists {
		ds[i] = I(d)
	}
	fs := []Sx{T("kind", A("scale-"+sp.shape)), T("nt", B(true))}
	fs = append(fs, pl.ScaleFields(sp.shape, sp.size, sp.hmode, sp.tmode, sp.gseed, g)...)
	fs = append(fs, T("dists", ds...), T("fulld", I(sp.full)))
	return append(fs, T("obs", obs...))
}

func runScale(c *Config, specs []scaleSpec, workers int) func() {
	out := make([][]Sx, len(specs))
	var wg sync.WaitGroup
	next := make(chan int, len(specs))
	for i := range specs {
		next <- i
	}
	close(next)
	for w := 0; w < workers; w++ {
		wg.Add(1)
		go func() {
			defer wg.Done()
			for i := range next {
				// keep the rendered text only: the S-expression tree of a plan of 10^6 actions takes gigabytes
				fs := scaleLine(specs[i])
				txt := T("x", fs...).String()
				out[i] = []Sx{A(txt[3 : len(txt)-1])}
			}
		}()
	}
	return func() {
		wg.Wait()
		for i, fs := range out {
			c.Emit(fs...)
			out[i] = nil
		}
	}
}

func scaleSpecs(c *Config) []scaleSpec {
	r := c.Rng
	var specs []scaleSpec
	mk := func(shape string, size int, dists []int, full int) {
		specs = append(specs, scaleSpec{shape, size, r.Intn(3), r.Intn(pl.NumTimeModes), int64(r.Intn(1 << 30)), dists, full})
	}
	for _, sh := range pl.ScaleShapes {
		mk(sh, 1000+r.Intn(25), []int{1, 2 + r.Intn(7), 9 + r.Intn(60)}, r.Intn(4))
	}
	for _, sh := range []string{"comb", "roots", "ladder"} {
		mk(sh, 10000+r.Intn(300), []int{1 + r.Intn(3)}, -1)
	}
	mk("bush", 2000+r.Intn(100), []int{1 + r.Intn(8)}, 2)
	// the 16-bit boundary of a branch index: c-1, c, c+1 and above
	mk("star", 65535, nil, -1)
	mk("star", 65536, nil, 1)
	mk("star", 65537, []int{2}, -1)
	if c.Thorough() {
		mk("diamonds", 65536+1+r.Intn(1000), nil, 1)
		mk("diamonds", 10000+r.Intn(300), []int{1, 2}, 0)
		mk("starmerge", 10000+r.Intn(300), []int{1, 20000}, 3)
		mk("diamonds", 65536+1+r.Intn(1000), []int{1}, -1)
		for _, n := range []int{255, 256, 257, 32767, 32768, 32769} {
			mk("star", n, []int{1}, 0)
		}
		mk("comb", 65536+1+r.Intn(3000), []int{1, 3}, 2)
		mk("roots", 65536+1+r.Intn(3000), []int{1}, 0)
		mk("starmerge", 65536+1+r.Intn(3000), []int{1, 70000}, 1)
		for _, sh := range []string{"comb", "diamonds", "roots", "ladder", "star"} {
			mk(sh, 100000+r.Intn(3000), []int{1 + r.Intn(4)}, -1)
		}
		mk("bush", 20000+r.Intn(1000), []int{1, 5}, 3)
		mk("spine", 1000000, []int{1}, -1)
		mk("star", 300000, []int{1}, -1)
	}
	return specs
}

func main() {
	full := flag.Bool("full", false, "thorough tier: all 720 hash orders of every 6-commit DAG instead of every 24th")
	scaleOnly := flag.Bool("scaleonly", false, "generate the large cases (kinds scale-*) only")
	c := Setup()
	defer c.Close()
	if c.Replay != "" {
		for _, cs := range c.ReplayCases() {
			if shape, size, hmode, tmode, gseed, ok := pl.ParseScale(cs); ok {
				sp := scaleSpec{shape: shape, size: size, hmode: hmode, tmode: tmode, gseed: gseed, full: -1}
				if f, ok := cs.Field("dists"); ok {
					for _, x := range f.Args() {
						sp.dists = append(sp.dists, x.Int())
					}
				}
				if f, ok := cs.Field("fulld"); ok {
					sp.full = f.Args()[0].Int()
				}
				c.Emit(scaleLine(sp)...)
			} else if f, ok := cs.Field("ops"); ok {
				d := 0
				if df, ok := cs.Field("d"); ok {
					d = df.Args()[0].Int()
				}
				fnCase(c, "replay-fn", d, f.Args())
			} else {
				g := pl.ParseGraph(cs)
				c.Emit(graphFields("replay", g, 0, graphObs(g))...)
			}
		}
		return
	}
	workers := 6
	if c.Thorough() {
		workers = 10
	}
	r := c.Rng
	// the large cases are planned in the background while the small ones are generated, and written last
	emitScale := func() {}
	if c.Tier != "search" {
		emitScale = runScale(c, scaleSpecs(c), 3)
	}
	if *scaleOnly {
		emitScale()
		return
	}
	times := func(g pl.Graph) pl.Graph {
		g.Times = pl.TimesFor(r.Intn(pl.NumTimeModes), g.N, r)
		return g
	}
	dist := func() int {
		if r.Intn(10) == 0 {
			return 9 + r.Intn(30)
		}
		return r.Intn(maxD + 1)
	}
	for i := c.Count(4000, 60000); i > 0; i-- {
		fnCase(c, "fnwf", dist(), wellFormed(r, false))
	}
	for i := c.Count(4000, 60000); i > 0; i-- {
		fnCase(c, "fndel", dist(), wellFormed(r, true))
	}
	for i := c.Count(6000, 80000); i > 0; i-- {
		d := dist()
		if r.Intn(8) == 0 {
			d = -1 - r.Intn(4)
		}
		fnCase(c, "fnarb", d, arbitrary(r))
	}
	all := func(int) bool { return true }
	any := func([][]int) bool { return true }
	for n := 1; n <= 5; n++ {
		sweep(c, fmt.Sprintf("ex%d", n), n, any, all, workers)
	}
	if c.Tier == "thorough" { // not in the search tier: the sweep does not scale down
		off := int(c.Seed % 24)
		if off < 0 {
			off = 0
		}
		take := func(k int) bool { return k%24 == off }
		if *full {
			take = all
		}
		sweep(c, "ex6", 6, func(p [][]int) bool { return pl.Connected(p) }, take, workers)
	}
	for i := c.Count(1000, 8000); i > 0; i-- {
		n := 6 + r.Intn(2)
		g := times(pl.FromParents(pl.DagFromMask(n, r.Intn(pl.NumMasks(n))), r.Perm(n)))
		c.Emit(graphFields(fmt.Sprintf("smp%d", n), g, 0, graphObs(g))...)
	}
	for i := c.Count(2500, 30000); i > 0; i-- {
		g := times(pl.RandomGraph(r, 14))
		c.Emit(graphFields("rnd", g, 0, graphObs(g))...)
	}
	for i := c.Count(150, 1500); i > 0; i-- {
		g := times(pl.RandomGraph(r, 40))
		c.Emit(graphFields("rndbig", g, 0, graphObs(g))...)
	}
	// forks of more than eight branches and octopus merges of more than eight parents
	for i := c.Count(14, 1200); i > 0; i-- {
		ps := pl.WideGraph(r, 13)
		g := times(pl.FromParents(ps, r.Perm(len(ps))))
		c.Emit(graphFields("wide", g, 0, graphObs(g))...)
	}
	emitScale()
}
