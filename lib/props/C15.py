CONFIG = dict(
        level='proof',
        streams=[dict(harness='c15', driver='c15', shrink_field='ops')],
        rule='operation sequences on toposort.Graph values (AddNode/AddEdge/RemoveEdge/ReindexNode, then Toposort on a copy x5 and on 3 graphs '
             'rebuilt from the same operation sequence, FindCycle, FindChildren, FindParents; since round 3 also Copy as an operation and the '
             'destructive Toposort on the graph itself, see SEVERAL GRAPHS below): all digraphs on <=3 nodes with self loops and on '
             '4 nodes (quick: without self loops) in two insertion orders, random graphs up to 30 nodes with removal+reindex rounds, a '
             'DAG-biased stream and a malformed stream (duplicates, unknown endpoints, missing reindex). '
             'NAME SPACE: nodes are integers in the trace; the strings given to the Go code come from a per-case name table written into the '
             'trace ((names ...), byte lists) and the model runs on the rank of each name in plain byte order. Fixed-width names n00042 for the '
             'exhaustive streams and a quarter of the random cases; drawn tables for the rest, for a second pass over all digraphs on <=3 nodes '
             '(ex2names/ex3names) and for the stream `names` (several roots + hubs whose children are removed/re-added and re-indexed, all '
             'names from ONE confusable family): numbered suffixes with and without leading zeros / signs / overflowing values (Item_2, Item_10, '
             'x_07, x_+7, job_1a, _7), mixed case, Unicode (NFC/NFD pairs, ligatures, invalid UTF-8), empty-looking names (blanks, NUL, '
             'zero-width), names that are prefixes of each other, spaces and brackets ([entity]), common prefixes of 7..1000 bytes, planner-like '
             'Name_1..Name_12. '
             'SCALE (kinds scale_*): rings, rings with a tail, with chords, rings sharing only the seed, long paths, combs, banded DAGs, dense '
             'DAGs, dense blob + long chain back to the seed, stars with removal + re-index of many edges of one node, many parents, many roots, '
             'random functional graphs, with 10^3, 3*10^3, 10^4 nodes (quick), 10^5 and for rings/paths 10^6 (thorough); ring lengths, degrees '
             'and root counts straddle 2^8, 2^9, 2^10 (1023..1027), 2^11, 2^12, 2^13, 2^14, 2^15, 2^16 (quick: +1 side only above 2^12); ascending / '
             'descending / scrambled insertion; written as bulk operations (addnodes/addedges/rmedges/reindexes) so that a replay stays a few '
             'operations long; some under name tables (unpadded Item_<k>, two spellings of every number, 64-byte common prefix). Cases with more '
             'than 2500 primitive operations are judged by an independent linear-time oracle in the driver (order validity, acyclicity by Kahn '
             'counting, cycle validity, existence of a cycle through the seed by reachability) instead of the quadratic model; on all smaller cases '
             'that oracle is cross-checked against the extracted ones. Sorts of cases above 15000 operations are repeated on 3 copies + 1 rebuilt '
             'graph instead of 5 + 3. '
             'SEVERAL GRAPHS, COPY THEN MUTATE, RE-USE (kinds copyex0..copyex3, copyex3chain, copyrnd, reuse, scale_copy_*): a case has four graph '
             'slots 0..3, all NewGraph(); `(at g <op>)` applies any operation (bulk ones too) to slot g, a bare operation is on slot 0 (so every older case '
             'reads as before); `(copy s d)` is slots[d] = slots[s].Copy() (any s, d, also s = d and overwriting a live slot); `(sortd)` is Toposort '
             'on the graph ITSELF, which consumes the edges it walks, followed by further operations on the consumed graph. The model is a value: a '
             'copy is the same model state once more, the post-state of sortd is fst (Model.toposort st); every slot is compared with its OWN model '
             'state and its own mirror after every operation; the determinism repetition of `sort` rebuilds a slot from its own history (a copy inherits '
             'the history of its source, destructive sorts are replayed). A slot whose state cannot be known (Toposort panicked / model SortPanic, '
             'SortUnspec / destructive sort outside the domain that could not be compared / wrong answer) is marked lost and its operations are only '
             'counted (ops_on_lost_graph) until a copy overwrites it. '
             'copyex: every digraph on 0, 1, 2 nodes with self loops and on 3 nodes (quick: without self loops = 64, thorough: with = 512) built in '
             'slot 0, copied to slot 1, then one case per (graph, side in {original, copy}, single mutation, variant): the mutation - each absent edge '
             'incl. self loops, each present edge removed + ReindexNode, a new node alone and with an edge from each old node, sortd - on that side, the '
             'full query set (sort, FindCycle / FindChildren / FindParents of every node incl. the new one) on BOTH slots (untouched side first in half '
             'of the cases), then sortd on one side and the full query set on the other (variants: other side consumed / mutated side consumed / both '
             'sides mutated, the second mutation drawn); two thirds of variants 2 and 3 under a drawn name table. copyex3chain: 0 -> 1, mutate 1, 1 -> 2, '
             'mutate 0 and 2 (sometimes 1 again), query all three, consume them one by one with the survivors queried (4 draws per graph, thorough 40). '
             'copyrnd (2000, thorough 60000; a sixth as kind reuse on ONE graph): 4-13 steps over 2-3 slots on up to 8 nodes, three quarters under drawn '
             'name tables: copy (any source incl. a still empty slot, any target), sortd, AddNode, AddEdge with the source drawn two times out of three '
             'from the nodes that were SINKS when the graph was last copied, RemoveEdge (+AddEdge) + ReindexNode, a malformed minority (unknown '
             'endpoints, duplicate edges, absent removals, missing re-index); after EVERY step sort + children / parents / cycle of a drawn node on '
             'EVERY live slot; half of the cases end by consuming all graphs one after the other. scale_copy_{star,path,roots}: 600 (through the '
             'model), 10^3, 10^4 (thorough 10^5) nodes - a hub with n-1 sinks / a path / n isolated nodes, copy, bulk edges from the former sinks on '
             'ONE side (either), sort + cycle + neighbour queries on both, one side closed to a cycle, one side consumed, the other sorted, the consumed '
             'graph re-used. '
             'Non-trivial = at least 2 nodes and 1 edge; distinct = distinct name table + operation list.',
        exhaustive_note='digraphs on <=3 nodes (with self loops) x 2 insertion orders enumerated completely, once under fixed-width names and (2 and 3 nodes) once more under drawn name tables; 4 nodes without self loops (quick) / with (thorough); copy-then-mutate: every digraph on <=2 nodes (with self loops) and 3 nodes (quick without, thorough with self loops) x side x every single mutation',
        assumptions=['node names are arbitrary distinct byte strings (the empty one included); the model works on integers whose order stands for the plain byte order of the '
                     'names (sort.Strings is modelled as a sort of integers, the driver maps every name to its rank in byte order before the model runs)',
                     'FindCycle\'s no-parent mark (the root flag of the Go code since fix F26) is the integer -1 in the model, which is the rank of no name: hypothesis '
                     'is_node s nobody = false of the FindCycle theorems, part of valid_ops, proved to hold in every reachable state',
                     'FindCycle/FindParents iterate Go maps: the model takes the iteration order as an argument; the theorems hold for every order, '
                     'and only order-independent facts are compared (validity of the returned cycle, emptiness, parent set)',
                     'independence of Toposort from Go map iteration order is not proved about the Go code (the model has no map order); it is what '
                     'the correspondence check tests: every Sort is run on 5 copies and on 3 graphs rebuilt from the same operations and all must '
                     'give the model\'s single answer',
                     'Graph.Copy is modelled as duplication of the model value (the model state is immutable); a graph consumed by Toposort - successfully or '
                     'not - is treated as a graph of the domain again (its state equals the one reached by removing the edges of every emitted node and '
                     're-indexing: all counters consistent, wfb holds; checked on every such state of every run)'],
        trusted_base=['hand-written Gallina model coq/theories/Toposort/Model.v of internal/toposort/toposort.go, tied to the code by the replay '
                      'of every harness case (zero mismatches on all generated cases incl. exhaustive small scopes and malformed sequences)',
                      'for the scale cases beyond 2500 primitive operations: the independent OCaml oracle in ocaml/c15/driver.ml (mirror of the node '
                      'and edge sets in hash tables, Kahn counting, reachability, edge-by-edge cycle check, about 60 lines) - not extracted from Coq; '
                      'cross-checked against the extracted wfb / cycle_ok / model answers on every smaller case of every run',
                      'the rank computation of the driver (OCaml String compare = byte order) and the expansion of bulk operations (the same '
                      'three-line loop in harness and driver)'],
        level_text='Coq proof, over ALL states reached by valid operation sequences (induction over the operation list) of the executable model '
                   'that the harness replays against the Go code: Toposort never panics, returns success iff the graph is acyclic, and on success a '
                   'permutation of the nodes with every edge forward (refinement to an abstract Kahn algorithm, fuel bound proved); FindCycle, for '
                   'every map iteration order, returns a real cycle through the seed and returns one whenever one exists; removal followed by '
                   'ReindexNode restores the domain (two-level invariant); for operation sequences that name nodes by the rank of a byte string (what the harness does, the empty string included) no condition on names remains (C15_all_names_*, after fix F26). All 22 theorems closed under the global context (no axioms).',
        level_note='Trusted: the correspondence between Model.v and toposort.go (tested, not proved: about 28 000 cases per quick run, all digraphs on <=3 '
                   'nodes / 4 nodes, random graphs to 30 nodes, malformed sequences, adversarial name tables, graphs up to 1250 nodes through the model and '
                   'up to 65 537 (thorough 10^6) nodes through the independent oracle; fine comparison of every return value and of the exact order), '
                   'several live graphs with Copy and the destructive Toposort as operations (about 8000 cases per quick run), '
                   'Coq kernel, extraction, OCaml driver, Go harness. Modelled rather than verified: Go strings as integers (the rank of the name in byte order), '
                   'Go maps as association lists, Copy as duplication of the model value, map iteration as an explicit order argument (theorems quantify over it for FindCycle; Toposort, '
                   'AddEdge, ReindexNode are order-independent by construction in the model and their independence in Go is covered by repeated '
                   'runs only). BreadthSort, Serialize and DebugDump are not modelled (not part of the property).',
        technique='machine-checked proof in Coq 8.16 (refinement of the state-machine model to an abstract Kahn model; BFS invariants; invariant '
                  'over operation sequences) + model/implementation correspondence replay through the extracted OCaml model with an extracted '
                  'property oracle (cycle_ok, wfb) + exhaustive small-scope enumeration',
    )
