// Scale and option families of the C01 harness.
//
// scale-*  : conflict-free histories of 10^3 commits (quick) / 10^4 (thorough) with 10^2..10^3 merges (two-parent
//
//	and octopus), up to 16 branches alive, 1..4 root commits merged together, 1 / 2 / 50 authors (the
//	author of a merge commit is drawn like any other, so its people index is usually not 0), a file of
//	10^4 / 10^5 lines edited at its head and tail, ticks spanning years (granularity and sampling from
//	1, 7, 30, 365: matrices with hundreds of rows), commit times inside a day equal and non-monotone,
//	hibernation distance 0..4.  Judged by the ground truth only (computed by the driver in difference-array
//	form, cross-checked against the extracted oracle on every small case).
//
// opt-*    : the same options on histories of 10..60 commits (the Gallina analysis model is stepped as well).
// linscale : linear histories of 10^3 / 10^4 commits with arbitrary edits: files that become binary and text
//
//	again, renames, deletions, repeated lines, a large file, commit times that go backwards
//	(TicksSinceStart clamps: the tick is the running maximum of the day offset).
package main

import (
	"fmt"
	"math/rand"
	"sort"
	"time"

	git "gopkg.in/src-d/go-git.v4"
	"gopkg.in/src-d/go-git.v4/plumbing/object"

	. "verifharness/lib"
	"verifharness/synth"
)

type scaleOpts struct {
	kind      string
	commits   int
	mergePr   int // 1/x chance that a step merges heads (when at least two are open)
	octoPr    int // 1/x of the merges are octopus merges of 3..6 heads (0 = never)
	forkPr    int // 1/x chance that a commit starts a new branch from an older commit
	maxHeads  int
	roots     int // 1..4 root commits
	authors   int
	paths     int
	span      int // approximate last tick
	lastTick  int // > 0: the last commit gets exactly this tick (straddling a constant)
	bigLines  int // lines of the file "big" created by the first root (0 = none)
	bigEvery  int // every x-th plain commit edits the big file at its head or tail
	mergeAdds int // 1/x chance that a merge commit adds lines (0 = never)
	jitter    bool
}

type bitset []uint64

func (b bitset) has(i int) bool { return b[i>>6]&(1<<uint(i&63)) != 0 }
func (b bitset) set(i int)      { b[i>>6] |= 1 << uint(i&63) }

// scaleHist is a synth.Hist with what is needed to build its repository without quadratic work.
type scaleHist struct {
	h     *synth.Hist
	anc   []bitset
	secs  []int   // second of the day of the commit time
	touch [][]int // touch[c] = indices (into h.Paths) of the paths whose content commit c changes
}

func genScaleHist(rng *rand.Rand, o scaleOpts) *scaleHist {
	n := o.commits
	words := (n + 64 + 63) / 64 // room for the merges that close the history to a single head
	h := &synth.Hist{Seqs: map[string][]*synth.Line{}}
	sh := &scaleHist{h: h}
	for i := 0; i < o.paths; i++ {
		h.Paths = append(h.Paths, fmt.Sprintf("p%d", i))
	}
	if o.bigLines > 0 {
		h.Paths = append(h.Paths, "big")
	}
	pathIdx := map[string]int{}
	for i, p := range h.Paths {
		pathIdx[p] = i
	}
	nextID := 0
	tick := 0
	var heads []int
	rootAt := map[int]bool{0: true}
	for r := 1; r < o.roots; r++ {
		rootAt[1+rng.Intn(n/2+1)] = true
	}
	insert := func(c int, p string, pos, run int) {
		ins := make([]*synth.Line, run)
		for j := range ins {
			ins[j] = &synth.Line{ID: nextID, Born: c, Killer: -1}
			nextID++
		}
		s := h.Seqs[p]
		s = append(s, ins...)
		copy(s[pos+run:], s[pos:])
		copy(s[pos:], ins)
		h.Seqs[p] = s
	}
	touched := map[int]bool{}
	for c := 0; c < n; c++ {
		var ps []int
		merge := false
		switch {
		case rootAt[c]:
			// a root commit
		case len(heads) >= 2 && (len(heads) > o.maxHeads || rng.Intn(o.mergePr) == 0 || n-c <= len(heads)):
			k := 2
			if o.octoPr > 0 && len(heads) >= 3 && rng.Intn(o.octoPr) == 0 {
				k = 3 + rng.Intn(4)
				if k > len(heads) {
					k = len(heads)
				}
			}
			rng.Shuffle(len(heads), func(i, j int) { heads[i], heads[j] = heads[j], heads[i] })
			ps = append(ps, heads[:k]...)
			merge = true
		case o.forkPr > 0 && c > 2 && rng.Intn(o.forkPr) == 0:
			w := c
			if w > 30 {
				w = 30
			}
			ps = []int{c - 1 - rng.Intn(w)}
		default:
			ps = []int{heads[rng.Intn(len(heads))]}
		}
		// heads
		for _, p := range ps {
			for i, x := range heads {
				if x == p {
					heads = append(heads[:i], heads[i+1:]...)
					break
				}
			}
		}
		heads = append(heads, c)
		// ancestry
		a := make(bitset, words)
		for _, p := range ps {
			for w, x := range sh.anc[p] {
				a[w] |= x
			}
		}
		a.set(c)
		sh.anc = append(sh.anc, a)
		h.N++
		h.Parents = append(h.Parents, ps)
		// tick: equal to the previous one half of the time, else a step; now and then a gap of months
		if c > 0 {
			switch r := rng.Intn(20); {
			case r == 0:
				tick += rng.Intn(8*o.span/n + 30)
			case r < 10:
				tick += rng.Intn(3*o.span/n + 2)
			}
		}
		if o.lastTick > 0 && tick > o.lastTick {
			tick = o.lastTick
		}
		if o.lastTick > 0 && c == n-1 {
			tick = o.lastTick
		}
		h.Tick = append(h.Tick, tick)
		h.Author = append(h.Author, rng.Intn(o.authors))
		sec := c % 86400
		if o.jitter {
			switch rng.Intn(3) {
			case 0:
				sec = rng.Intn(86400) // anywhere in the day: not monotone along the history
			case 1:
				sec = 43200 // equal times
			}
		}
		sh.secs = append(sh.secs, sec)
		for k := range touched {
			delete(touched, k)
		}
		alive := func(l *synth.Line) bool { return l.Killer < 0 && l.Born != c && a.has(l.Born) }
		if len(ps) == 0 {
			// a root: its own lines in a few paths (the first root creates the big file)
			if c == 0 && o.bigLines > 0 {
				insert(c, "big", 0, o.bigLines)
				touched[pathIdx["big"]] = true
			}
			for i := 0; i < 3; i++ {
				p := h.Paths[rng.Intn(o.paths)]
				insert(c, p, rng.Intn(len(h.Seqs[p])+1), 1+rng.Intn(20))
				touched[pathIdx[p]] = true
			}
		} else if !merge {
			if o.bigLines > 0 && rng.Intn(o.bigEvery) == 0 {
				// the big file: kills and insertions within its first or last 60 lines
				s := h.Seqs["big"]
				region := rng.Intn(5) // 0, 1: head; 2, 3: tail; 4: somewhere in the middle
				tail := region == 2 || region == 3
				mid := 0
				if region == 4 && len(s) > 120 {
					mid = rng.Intn(len(s) - 120)
				}
				at := func() int {
					k := rng.Intn(60)
					if k >= len(s) {
						k = len(s) - 1
					}
					if tail {
						return len(s) - 1 - k
					}
					return mid + k
				}
				for i := rng.Intn(5); i > 0 && len(s) > 0; i-- {
					if l := s[at()]; alive(l) {
						l.Killer = c
					}
				}
				pos := 0
				if len(s) > 0 {
					pos = at()
				}
				if tail && rng.Intn(2) == 0 {
					pos = len(s)
				}
				if region < 2 && rng.Intn(2) == 0 {
					pos = 0
				}
				insert(c, "big", pos, 1+rng.Intn(5))
				touched[pathIdx["big"]] = true
			}
			for e := 1 + rng.Intn(2); e > 0; e-- {
				p := h.Paths[rng.Intn(o.paths)]
				s := h.Seqs[p]
				for i := rng.Intn(4); i > 0 && len(s) > 0; i-- {
					if l := s[rng.Intn(len(s))]; alive(l) {
						l.Killer = c
					}
				}
				// small files stay small: insert less when the path is long
				run := 1 + rng.Intn(3)
				if len(s) > 400 {
					run = rng.Intn(2)
				}
				if run > 0 {
					insert(c, p, rng.Intn(len(s)+1), run)
				}
				touched[pathIdx[p]] = true
			}
		} else if o.mergeAdds > 0 && rng.Intn(o.mergeAdds) == 0 {
			p := h.Paths[rng.Intn(o.paths)]
			insert(c, p, rng.Intn(len(h.Seqs[p])+1), 1+rng.Intn(3))
			touched[pathIdx[p]] = true
		}
		var tl []int
		for k := range touched {
			tl = append(tl, k)
		}
		sort.Ints(tl)
		sh.touch = append(sh.touch, tl)
	}
	// close to a single head
	for len(heads) > 1 {
		k := 2
		if len(heads) > 2 && o.octoPr > 0 {
			k = 2 + rng.Intn(len(heads)-1)
			if k > 6 {
				k = 6
			}
		}
		ps := append([]int{}, heads[:k]...)
		c := h.N
		a := make(bitset, words)
		for _, p := range ps {
			for w, x := range sh.anc[p] {
				a[w] |= x
			}
		}
		a.set(c)
		sh.anc = append(sh.anc, a)
		heads = append(heads[k:], c)
		h.N++
		h.Parents = append(h.Parents, ps)
		h.Tick = append(h.Tick, tick)
		h.Author = append(h.Author, rng.Intn(o.authors))
		sh.secs = append(sh.secs, c%86400)
		sh.touch = append(sh.touch, nil)
	}
	return sh
}

// ancestry of a history that was not generated here (replay): recomputed from the parents
func (sh *scaleHist) ensureAnc() {
	h := sh.h
	if len(sh.anc) == h.N {
		return
	}
	words := (h.N + 63) / 64
	sh.anc = nil
	for c := 0; c < h.N; c++ {
		a := make(bitset, words)
		for _, p := range h.Parents[c] {
			for w, x := range sh.anc[p] {
				a[w] |= x
			}
		}
		a.set(c)
		sh.anc = append(sh.anc, a)
	}
}

// build writes the repository commit by commit; the content of a path is recomputed only for the commits that
// change it and for merges, otherwise the parent's blob is reused
func (sh *scaleHist) build() (*git.Repository, []*object.Commit) {
	h := sh.h
	sh.ensureAnc()
	contents := make([]map[string][]byte, h.N)
	content := func(c int, p string) ([]byte, bool) {
		a := sh.anc[c]
		exists := false
		var buf []byte
		for _, l := range h.Seqs[p] {
			if a.has(l.Born) {
				exists = true
				if !(l.Killer >= 0 && a.has(l.Killer)) {
					buf = append(buf, 'L')
					buf = appendInt(buf, l.ID)
					buf = append(buf, '\n')
				}
			}
		}
		return buf, exists
	}
	repo, commits := synth.BuildRepoFunc(h.N, func(c int) synth.CommitSpec {
		m := map[string][]byte{}
		ps := h.Parents[c]
		reuse := len(ps) == 1 && sh.touch != nil && len(sh.touch) == h.N
		if reuse {
			for k, v := range contents[ps[0]] {
				m[k] = v
			}
			for _, pi := range sh.touch[c] {
				p := h.Paths[pi]
				if data, ok := content(c, p); ok {
					m[p] = data
				} else {
					delete(m, p)
				}
			}
		} else {
			for _, p := range h.Paths {
				if data, ok := content(c, p); ok {
					m[p] = data
				}
			}
		}
		contents[c] = m
		var files []synth.FileSpec
		for _, p := range h.Paths {
			if data, ok := m[p]; ok {
				files = append(files, synth.FileSpec{Path: p, Data: data})
			}
		}
		au := fmt.Sprintf("dev%d", h.Author[c])
		when := time.Unix(synth.BaseTime+int64(h.Tick[c])*86400+int64(sh.secs[c]), 0)
		return synth.CommitSpec{Parents: ps, AuthorName: au, AuthorEmail: au + "@x", AuthorWhen: when, Files: files}
	})
	return repo, commits
}

func appendInt(b []byte, v int) []byte {
	if v == 0 {
		return append(b, '0')
	}
	var tmp [20]byte
	i := len(tmp)
	for v > 0 {
		i--
		tmp[i] = byte('0' + v%10)
		v /= 10
	}
	return append(b, tmp[i:]...)
}

func secsSx(secs []int) Sx { return T("secs", Ints(secs).List...) }

// emitScale runs one scale / option case.  model = the driver also steps the Gallina analysis model (small cases).
func emitScale(c *Config, in *input, sh *scaleHist, model bool) {
	h := sh.h
	killed := false
	for _, p := range h.Paths {
		for _, l := range h.Seqs[p] {
			if l.Killer >= 0 {
				killed = true
			}
		}
	}
	repo, commits := sh.build()
	in.light = !model
	obs := runPipeline(in, repo, commits)
	if in.hibmode == "disk" {
		if n := leftover(); n != 0 {
			obs.List = append(obs.List, T("leftover", I(n)))
		}
	}
	rs := h.Sx()
	rs.List[0] = A("rhist")
	c.Emit(T("kind", A(in.kind)), T("nt", B(h.N >= 3 && killed)), T("g", I(in.g)), T("s", I(in.s)), T("files", B(in.files)),
		T("people", B(in.people)), T("hib", I(in.hib)), T("hibmode", A(in.hibmode)), T("thr", I(in.thr)), T("reuse", I(in.reuse)),
		T("scale", I(1)), T("model", B(model)), secsSx(sh.secs), rs, T("obs", obs))
}

var bandChoices = []int{1, 7, 30, 365}

// scaleParams: granularity / sampling from 1, 7, 30, 365 with G >= S, flags and hibernation as asked
func scaleParams(rng *rand.Rand, in *input, hib int) {
	gi := rng.Intn(len(bandChoices))
	in.g = bandChoices[gi]
	in.s = bandChoices[rng.Intn(gi+1)]
	in.reuse = 0
	if rng.Intn(6) == 0 {
		in.reuse = 1 + rng.Intn(2)
	}
	in.hibmode = "none"
	in.hib = hib
	if hib > 0 {
		switch rng.Intn(3) {
		case 0:
			in.hibmode = "mem"
		case 1:
			in.hibmode = "disk"
		case 2:
			in.hibmode = "thr"
			in.thr = 1 + rng.Intn(40)
		}
	}
}

// the matrices of one case must stay printable: rows x bands x (1 + files + developers), from the real last tick
func cells(in *input, sh *scaleHist, o scaleOpts) int {
	last := sh.h.Tick[sh.h.N-1]
	rows, bands := last/in.s+1, last/in.g+1
	k := 1
	if in.files {
		k += len(sh.h.Paths)
	}
	if in.people {
		k += o.authors
	}
	return rows * bands * k
}

func scaleFamily(c *Config) {
	rng := c.Rng
	quick := c.Tier == "quick" || c.Tier == "search"
	n := 1000
	big := 10000
	if !quick {
		n = 10000
		big = 100000
	}
	type variant struct {
		o      scaleOpts
		files  bool
		people bool
		hib    int
		gs     [][2]int
	}
	vs := []variant{
		{scaleOpts{kind: "scale-dag", commits: n, mergePr: 8, octoPr: 6, forkPr: 6, maxHeads: 8, roots: 1, authors: 2, paths: 5, span: 400, bigLines: big, bigEvery: 10, mergeAdds: 3, jitter: true}, true, true, 0, [][2]int{{7, 1}, {7, 7}, {30, 7}}},
		{scaleOpts{kind: "scale-octo", commits: n, mergePr: 5, octoPr: 2, forkPr: 3, maxHeads: 16, roots: 3, authors: 50, paths: 6, span: 1800, mergeAdds: 2, jitter: true}, false, true, 1, [][2]int{{30, 30}, {365, 30}}},
		{scaleOpts{kind: "scale-roots", commits: n, mergePr: 10, octoPr: 4, forkPr: 8, maxHeads: 6, roots: 4, authors: 1, paths: 4, span: 5000, bigLines: big / 10, bigEvery: 25, mergeAdds: 4}, true, true, 2, [][2]int{{365, 7}, {365, 30}}},
		{scaleOpts{kind: "scale-wide", commits: n, mergePr: 6, octoPr: 3, forkPr: 2, maxHeads: 16, roots: 2, authors: 3, paths: 8, span: 700, mergeAdds: 1, jitter: true}, true, false, 3 + rng.Intn(2), [][2]int{{30, 1}, {30, 7}, {30, 30}}},
		{scaleOpts{kind: "scale-linear", commits: n, mergePr: 1 << 30, forkPr: 0, maxHeads: 1, roots: 1, authors: 2, paths: 3, span: 1200, bigLines: big, bigEvery: 5}, true, true, 0, [][2]int{{1, 1}, {7, 1}, {7, 7}}},
	}
	for _, v := range vs {
		if !quick && (v.o.kind == "scale-roots" || v.o.kind == "scale-wide") {
			v.o.commits = 4000 // three histories of 10^4 commits are enough for one thorough run
		}
		in := &input{kind: v.o.kind, files: v.files, people: v.people}
		sh := genScaleHist(rng, v.o)
		scaleParams(rng, in, v.hib)
		// the preferred (granularity, sampling) of the variant, coarsened until the matrices stay printable
		for _, gs := range append(v.gs, [2]int{365, 30}, [2]int{365, 365}) {
			in.g, in.s = gs[0], gs[1]
			if cells(in, sh, v.o) <= 3000000 {
				break
			}
		}
		emitScale(c, in, sh, false)
	}
	if !quick {
		// one more size between the tiers, every option drawn
		for i := 0; i < 4; i++ {
			o := scaleOpts{kind: "scale-mix", commits: 2000 + rng.Intn(2000), mergePr: 4 + rng.Intn(8), octoPr: rng.Intn(5), forkPr: 2 + rng.Intn(6),
				maxHeads: 2 + rng.Intn(15), roots: 1 + rng.Intn(4), authors: []int{1, 2, 50}[rng.Intn(3)], paths: 3 + rng.Intn(5),
				span: 300 + rng.Intn(3000), mergeAdds: rng.Intn(4), jitter: rng.Intn(2) == 0}
			if rng.Intn(2) == 0 {
				o.bigLines, o.bigEvery = 20000+rng.Intn(50000), 5+rng.Intn(30)
			}
			in := &input{kind: o.kind, files: rng.Intn(2) == 0, people: rng.Intn(2) == 0}
			sh := genScaleHist(rng, o)
			for {
				scaleParams(rng, in, rng.Intn(5))
				if cells(in, sh, o) <= 3000000 {
					break
				}
			}
			emitScale(c, in, sh, false)
		}
	}
}

// optFamily: small histories, every option of the scale family, the analysis model stepped as well
func optFamily(c *Config) {
	rng := c.Rng
	for i := c.Count(160, 3000); i > 0; i-- {
		o := scaleOpts{kind: "opt", commits: 8 + rng.Intn(50), mergePr: 3 + rng.Intn(5), octoPr: rng.Intn(4), forkPr: 2 + rng.Intn(4),
			maxHeads: 2 + rng.Intn(7), roots: 1 + rng.Intn(4), authors: []int{1, 2, 50}[rng.Intn(3)], paths: 2 + rng.Intn(3),
			span: []int{20, 200, 800, 3000, 9000}[rng.Intn(5)], mergeAdds: rng.Intn(4), jitter: rng.Intn(2) == 0}
		switch rng.Intn(12) {
		case 0:
			o.lastTick = 16382 // the largest tick below the merge mark
		case 1:
			o.lastTick = []int{364, 365, 366, 729, 730, 731, 29, 30, 31, 6, 7, 8, 4095, 4096, 4097, 8191, 8192, 8193}[rng.Intn(18)]
			o.span = o.lastTick
		}
		if o.octoPr > 0 && rng.Intn(2) == 0 {
			o.kind = "opt-octo"
			o.maxHeads, o.forkPr, o.mergePr, o.octoPr = 8, 2, 6, 1
		}
		if rng.Intn(6) == 0 {
			o.bigLines, o.bigEvery = 300+rng.Intn(1000), 2
		}
		in := &input{kind: o.kind, files: rng.Intn(2) == 0, people: rng.Intn(2) == 0}
		sh := genScaleHist(rng, o)
		for {
			scaleParams(rng, in, rng.Intn(5))
			if cells(in, sh, o) <= 400000 {
				break
			}
		}
		emitScale(c, in, sh, true)
	}
}

// ---------------------------------------------------------------------------------------------
// linscale: long linear histories with arbitrary edits, written as deltas (a 10^4-line file is not repeated in
// every step of the trace)

type dstep struct {
	tick int
	when int64 // committer time, seconds since synth.BaseTime (may go backwards)
	set  map[string][]byte
	del  []string
}

func editLines(rng *rand.Rand, lines []string, head, tail bool) []string {
	at := func(n int) int {
		if n <= 0 {
			return 0
		}
		k := rng.Intn(50)
		if k > n {
			k = n
		}
		switch {
		case head:
			return k
		case tail:
			return n - k
		}
		return rng.Intn(n + 1)
	}
	for k := 1 + rng.Intn(3); k > 0; k-- {
		switch rng.Intn(3) {
		case 0:
			pos := at(len(lines))
			run := 1 + rng.Intn(4)
			ins := make([]string, run)
			for j := range ins {
				ins[j] = fmt.Sprintf("w%d\n", rng.Intn(6))
			}
			lines = append(lines[:pos], append(ins, lines[pos:]...)...)
		case 1:
			if len(lines) > 0 {
				pos := at(len(lines) - 1)
				run := 1 + rng.Intn(4)
				if pos+run > len(lines) {
					run = len(lines) - pos
				}
				lines = append(lines[:pos], lines[pos+run:]...)
			}
		case 2:
			if len(lines) > 0 {
				lines[at(len(lines)-1)] = fmt.Sprintf("w%d\n", rng.Intn(6))
			}
		}
	}
	return lines
}

func genLinScale(rng *rand.Rand, n, bigLines, bigPr, span int, backwards bool) []dstep {
	type file struct {
		lines  []string
		binary bool
		noEOL  bool
	}
	render := func(f *file) []byte {
		var b []byte
		for _, l := range f.lines {
			b = append(b, l...)
		}
		if f.noEOL && len(b) > 0 && b[len(b)-1] == '\n' {
			b = b[:len(b)-1]
		}
		if f.binary {
			// a zero byte among the first bytes: CountLines says binary
			b = append([]byte{'x', 0, '\n'}, b...)
		}
		return b
	}
	files := map[string]*file{}
	names := []string{"a", "b", "c", "d", "e", "f", "g", "h"} // about five of them exist at a time: a rename finds a free name
	var steps []dstep
	day := 0
	tick := 0
	for c := 0; c < n; c++ {
		st := dstep{set: map[string][]byte{}}
		if c == 0 && bigLines > 0 {
			f := &file{}
			for i := 0; i < bigLines; i++ {
				f.lines = append(f.lines, fmt.Sprintf("w%d\n", i%97))
			}
			files["big"] = f
			st.set["big"] = render(f)
		}
		for e := 1 + rng.Intn(2); e > 0; e-- {
			nm := names[rng.Intn(len(names))]
			if bigLines > 0 && rng.Intn(bigPr) == 0 { // every rewrite of the big file is spelled out in the trace: keep them rare
				nm = "big"
			}
			f, ok := files[nm]
			switch {
			case !ok && len(files) >= 5 && rng.Intn(4) > 0:
				// enough files
			case !ok:
				// a new file, also on a path deleted or renamed away earlier (or in this very step): a few lines, now and
				// then no byte at all, a third of them above the 32 bytes below which RenameAnalysis does not pair blobs
				f = &file{}
				switch rng.Intn(6) {
				case 0:
				case 1, 2:
					for i := 12 + rng.Intn(20); i > 0; i-- {
						f.lines = append(f.lines, fmt.Sprintf("w%d\n", rng.Intn(6)))
					}
				default:
					f.lines = editLines(rng, nil, false, false)
				}
				files[nm] = f
				st.set[nm] = render(f)
			case nm != "big" && rng.Intn(12) == 0:
				delete(files, nm)
				delete(st.set, nm)
				st.del = append(st.del, nm)
			case nm != "big" && rng.Intn(10) == 0:
				nn := names[rng.Intn(len(names))]
				if _, ex := files[nn]; !ex { // rename, in a third of the cases together with a binary flip and / or an edit
					if rng.Intn(3) == 0 {
						if rng.Intn(3) > 0 {
							f.binary = !f.binary
						}
						if rng.Intn(2) == 0 {
							f.lines = editLines(rng, f.lines, false, false)
						}
					}
					files[nn] = f
					delete(files, nm)
					delete(st.set, nm)
					st.del = append(st.del, nm)
					st.set[nn] = render(f)
				}
			case nm != "big" && rng.Intn(25) == 0: // becomes an empty file
				f.lines, f.binary = nil, false
				st.set[nm] = render(f)
			case rng.Intn(10) == 0: // becomes binary / becomes text again
				f.binary = !f.binary
				st.set[nm] = render(f)
			default:
				f.lines = editLines(rng, f.lines, nm == "big" && rng.Intn(2) == 0, nm == "big" && rng.Intn(2) == 0)
				if rng.Intn(6) == 0 {
					f.noEOL = !f.noEOL
				}
				st.set[nm] = render(f)
			}
		}
		// a deleted name may have been re-created within the same step
		var del []string
		for _, d := range st.del {
			if _, ok := st.set[d]; !ok {
				del = append(del, d)
			}
		}
		st.del = del
		// time: mostly forwards; with `backwards` a fifth of the commits are dated before their parent
		if c > 0 {
			switch r := rng.Intn(20); {
			case r == 0:
				day += rng.Intn(8*span/n + 30)
			case r < 10:
				day += rng.Intn(3*span/n + 2)
			}
		}
		d := day
		if backwards && c > 0 && rng.Intn(5) == 0 {
			d = day - 1 - rng.Intn(40) // may even precede the first commit
		}
		st.when = int64(d)*86400 + int64(rng.Intn(86400))
		if c == 0 {
			st.when = int64(rng.Intn(86400))
		}
		// TicksSinceStart: day offset from the (floored) first commit, never below the previous tick
		t := int(floorDiv(st.when, 86400))
		if t < tick {
			t = tick
		}
		tick = t
		st.tick = tick
		steps = append(steps, st)
	}
	return steps
}

func floorDiv(a, b int64) int64 {
	q := a / b
	if a%b != 0 && (a < 0) != (b < 0) {
		q--
	}
	return q
}

func dlinearSx(steps []dstep) Sx {
	var items []Sx
	for _, s := range steps {
		fs := []Sx{A("step"), I(s.tick), I64(s.when)}
		var names []string
		for k := range s.set {
			names = append(names, k)
		}
		sort.Strings(names)
		for _, k := range names {
			fs = append(fs, T("set", A(k), Bytes(s.set[k])))
		}
		for _, k := range s.del {
			fs = append(fs, T("del", A(k)))
		}
		items = append(items, L(fs...))
	}
	return T("dlinear", items...)
}

func dlinearFromSx(s Sx) []dstep {
	var steps []dstep
	for _, st := range s.Args() {
		d := dstep{tick: st.List[1].Int(), when: int64(st.List[2].Int()), set: map[string][]byte{}}
		for _, f := range st.List[3:] {
			switch f.Tag() {
			case "set":
				var data []byte
				for _, b := range f.List[2].List {
					data = append(data, byte(b.Int()))
				}
				d.set[f.List[1].Atom] = data
			case "del":
				d.del = append(d.del, f.List[1].Atom)
			}
		}
		steps = append(steps, d)
	}
	return steps
}

func emitLinScale(c *Config, in *input, steps []dstep) {
	cur := map[string][]byte{}
	repo, commits := synth.BuildRepoFunc(len(steps), func(i int) synth.CommitSpec {
		for _, d := range steps[i].del {
			delete(cur, d)
		}
		for k, v := range steps[i].set {
			cur[k] = v
		}
		var names []string
		for k := range cur {
			names = append(names, k)
		}
		sort.Strings(names)
		var files []synth.FileSpec
		for _, k := range names {
			files = append(files, synth.FileSpec{Path: k, Data: cur[k]})
		}
		spec := synth.CommitSpec{AuthorName: "u", AuthorEmail: "u@x", AuthorWhen: time.Unix(synth.BaseTime+steps[i].when, 0), Files: files}
		if i > 0 {
			spec.Parents = []int{i - 1}
		}
		return spec
	})
	in.light = true
	obs := runPipeline(in, repo, commits)
	c.Emit(T("kind", A(in.kind)), T("nt", B(len(steps) >= 3)), T("g", I(in.g)), T("s", I(in.s)), T("files", B(in.files)),
		T("people", B(in.people)), T("hib", I(in.hib)), T("hibmode", A(in.hibmode)), T("thr", I(in.thr)), T("reuse", I(in.reuse)),
		T("scale", I(1)), dlinearSx(steps), T("obs", obs))
}

func linScaleFamily(c *Config) {
	rng := c.Rng
	quick := c.Tier == "quick" || c.Tier == "search"
	type v struct {
		n, big, bigPr, span int
		back                bool
	}
	vs := []v{{1000, 10000, 20, 1500, false}, {1000, 0, 1, 3000, true}, {250, 1000, 20, 400, true}}
	if !quick {
		vs = []v{{10000, 20000, 100, 1500, false}, {10000, 0, 1, 3000, true}, {1000, 100000, 40, 1200, true}, {2500, 1000, 20, 400, true}}
	}
	for _, x := range vs {
		in := &input{kind: "linscale", files: rng.Intn(2) == 0, people: rng.Intn(2) == 0}
		for {
			scaleParams(rng, in, 0)
			if (x.span/in.s+1)*(x.span/in.g+1) <= 1500000 {
				break
			}
		}
		emitLinScale(c, in, genLinScale(rng, x.n, x.big, x.bigPr, x.span, x.back))
	}
	// small ones with every option (times going backwards, binary flips) in numbers
	for i := c.Count(60, 1000); i > 0; i-- {
		in := &input{kind: "linopt", files: rng.Intn(2) == 0, people: rng.Intn(2) == 0}
		span := []int{20, 400, 3000}[rng.Intn(3)]
		for {
			scaleParams(rng, in, 0)
			if (span/in.s+1)*(span/in.g+1) <= 200000 {
				break
			}
		}
		emitLinScale(c, in, genLinScale(rng, 5+rng.Intn(40), []int{0, 0, 300}[rng.Intn(3)], 8, span, rng.Intn(2) == 0))
	}
}
