(* C06 - Boot after Hibernate restores the arena and the gap set; the invariant of every state
   reachable by interleaved operations of several owners, hibernation events and Clone; the theorems
   about aliasing, the used count, refusal while hibernated. *)
From Coq Require Import List NArith ZArith Bool Lia Sorted.
From Herc Require Import Alloc.Model Alloc.Proofs.
Import ListNotations.

Lemma nth_seq_map : forall (A : Type) (d : A) (l : list A), map (fun i => nth i l d) (seq 0 (length l)) = l.
Proof.
  intros A d l. induction l as [|a l IH]; [reflexivity|].
  cbn [length seq map nth]. f_equal. rewrite <- seq_shift, map_map. apply IH.
Qed.

Lemma nth_map_default : forall (A B : Type) (f : A -> B) l d db i, f d = db -> nth i (map f l) db = f (nth i l d).
Proof. intros A B f l d db i <-. apply map_nth. Qed.

Lemma interleave_deinterleave : forall s, interleave (length s) (deinterleave s) = s.
Proof.
  intros s. unfold interleave, deinterleave. cbn [nth].
  transitivity (map (fun i => nth i s zero_cell) (seq 0 (length s))); [|apply nth_seq_map].
  apply map_ext. intros i.
  rewrite (nth_map_default _ _ ckey s zero_cell 0%N i eq_refl).
  rewrite (nth_map_default _ _ cval s zero_cell 0%N i eq_refl).
  rewrite (nth_map_default _ _ cleft s zero_cell 0%N i eq_refl).
  rewrite (nth_map_default _ _ cparent s zero_cell 0%N i eq_refl).
  rewrite (nth_map_default _ _ cright s zero_cell 0%N i eq_refl).
  rewrite (nth_map_default _ _ (fun c => if ccolor c then 1%N else 0%N) s zero_cell 0%N i eq_refl).
  destruct (nth i s zero_cell) as [k v l p r c]. cbn [ckey cval cleft cparent cright ccolor].
  destruct c; reflexivity.
Qed.

(* the seventh hibernation buffer, as far as its size goes (needed for the file: lengths are int64) *)
Definition buf_small (d : option (list N)) : Prop :=
  (N.of_nat (length (match d with Some b => b | None => [] end)) < 2 ^ 63)%N.
Definition small6 (a : alloc) : Prop := buf_small (nth 6 (hdata a) None).

Lemma alloc_eta : forall a, mkalloc (thr a) (storage a) (gaps a) (hdata a) (hslen a) (hglen a) = a.
Proof. intros []. reflexivity. Qed.

(* ---------------------------------------------------------------------------------------------
   facts that need nothing about LZ4 *)
Section Generic.
  Variable compress : list N -> list N.
  Variable decompress : list N -> nat -> list N.

  Lemma hibernate_below : forall a, ~ (0 < hslen a)%Z -> (size a < thr a)%Z -> hibernate compress a = Ok a.
  Proof.
    intros a Hh Ht. unfold hibernate.
    assert (E : (0 <? hslen a)%Z = false) by (apply Z.ltb_ge; lia). rewrite E.
    unfold size in Ht. apply Z.ltb_lt in Ht. rewrite Ht. reflexivity.
  Qed.

  Lemma hibernate_empty : forall a, hslen a = 0%Z -> slist a = [] -> hibernate compress a = Ok a.
  Proof.
    intros a Hh Hs. unfold hibernate. rewrite Hh, Hs. cbn [Z.ltb Z.compare length Z.of_nat].
    destruct (0 <? thr a)%Z; [reflexivity|]. unfold with_hslen. rewrite <- Hh. rewrite alloc_eta. reflexivity.
  Qed.

  Lemma boot_awake : forall a, hslen a = 0%Z -> boot decompress a = Ok a.
  Proof. intros a Hh. unfold boot. rewrite Hh. reflexivity. Qed.

  Lemma refused_used : forall a, storage a = None -> used a = Panic PHibUse.
  Proof. intros a H. unfold used. rewrite H. reflexivity. Qed.
  Lemma refused_clone : forall a, storage a = None -> clone a = Panic PCloneHib.
  Proof. intros a H. unfold clone. rewrite H. reflexivity. Qed.
  Lemma refused_malloc : forall a ch, storage a = None -> malloc ch a = Panic PHibUse.
  Proof. intros a ch H. unfold malloc. rewrite H. reflexivity. Qed.
  Lemma refused_free : forall a n, storage a = None -> free n a = Panic PHibUse.
  Proof. intros a n H. unfold free. rewrite H. reflexivity. Qed.
  Lemma refused_write : forall a n c, storage a = None -> write_cell n c a = Panic PIndex.
  Proof. intros a n c H. unfold write_cell. rewrite H. reflexivity. Qed.
  Lemma refused_hibernate : forall a, (0 < hslen a)%Z -> hibernate compress a = Panic PAlreadyHib.
  Proof. intros a H. unfold hibernate. apply Z.ltb_lt in H. rewrite H. reflexivity. Qed.
  Lemma refused_boot : forall a, hslen a <> 0%Z -> nth 0 (hdata a) None = None -> boot decompress a = Panic PBootSerialized.
  Proof. intros a H H0. unfold boot. apply Z.eqb_neq in H. rewrite H, H0. reflexivity. Qed.

  Lemma boot_with_thr : forall a a1 t, boot decompress a = Ok a1 -> boot decompress (with_thr a t) = Ok (with_thr a1 t).
  Proof.
    intros a a1 t H. unfold boot in *. unfold with_thr at 1 2 3 4 5 6 7 8.
    cbn [hslen hdata hglen thr].
    destruct (hslen a =? 0)%Z; [inversion H; subst; reflexivity|].
    destruct (nth 0 (hdata a) None); [|discriminate].
    destruct (hslen a <? 0)%Z; [discriminate|].
    destruct (all_some (map nonempty_buf (firstn 6 (hdata a)))); [|discriminate].
    destruct (0 <? hglen a)%Z.
    - destruct (nonempty_buf (nth 6 (hdata a) None)); [|discriminate]. inversion H; subst. reflexivity.
    - inversion H; subst. reflexivity.
  Qed.
End Generic.

(* ---------------------------------------------------------------------------------------------
   with the recorded assumption on the external LZ4 code *)
Section WithLZ4.
  Variable compress : list N -> list N.
  Variable decompress : list N -> nat -> list N.
  (* LZ4_compress_HC never returns an empty block for a non-empty input and LZ4_decompress_fast
     inverts it when it is given the original length *)
  Hypothesis lz4_ok : forall l, l <> [] -> compress l <> [] /\ decompress (compress l) (length l) = l.

  Lemma nonempty_compress : forall l, l <> [] -> nonempty_buf (Some (compress l)) = Some (compress l).
  Proof.
    intros l Hl. destruct (lz4_ok l Hl) as [Hne _]. unfold nonempty_buf.
    destruct (compress l); [congruence|reflexivity].
  Qed.

  Lemma decompress_map : forall (f : cell -> N) s, s <> [] -> decompress (compress (map f s)) (length s) = map f s.
  Proof.
    intros f s Hs. assert (Hm : map f s <> []) by (destruct s; [congruence|discriminate]).
    destruct (lz4_ok _ Hm) as [_ H]. rewrite map_length in H. exact H.
  Qed.

  (* the state Hibernate leaves behind when it really hibernates *)
  Definition hib_state (a : alloc) (s : list cell) (g : list N) : alloc :=
    mkalloc (thr a) None None
      (map (fun b => Some (compress b)) (deinterleave s) ++
         [match g with [] => nth 6 (hdata a) None | _ :: _ => Some (compress g) end])
      (Z.of_nat (length s))
      (match g with [] => hglen a | _ :: _ => Z.of_nat (length g) end).

  Lemma hibernate_real : forall a s g,
    storage a = Some s -> gaps a = Some g -> s <> [] -> ~ (0 < hslen a)%Z -> (thr a <= Z.of_nat (length s))%Z ->
    hibernate compress a = Ok (hib_state a s g).
  Proof.
    intros a s g Hs Hg Hne Hh Ht. unfold hibernate, slist. rewrite Hs, Hg.
    assert (E : (0 <? hslen a)%Z = false) by (apply Z.ltb_ge; lia). rewrite E.
    assert (E2 : (Z.of_nat (length s) <? thr a)%Z = false) by (apply Z.ltb_ge; lia). rewrite E2.
    destruct s as [|c s']; [congruence|]. unfold hib_state. destruct g; reflexivity.
  Qed.

  (* Boot of a hibernated state; only the first six buffers and, when there are gaps, the seventh matter *)
  Lemma boot_gen : forall t gp s g last hgl,
    s <> [] -> StronglySorted N.lt g ->
    match g with [] => hgl = 0%Z | _ :: _ => last = Some (compress g) /\ hgl = Z.of_nat (length g) end ->
    exists hd, boot decompress (mkalloc t None gp (map (fun b => Some (compress b)) (deinterleave s) ++ [last])
                                         (Z.of_nat (length s)) hgl)
               = Ok (mkalloc t (Some s) (Some g) hd 0 0).
  Proof.
    intros t gp s g last hgl Hne Hsorted Hlast. unfold boot. cbn [hslen hdata hglen thr].
    assert (E0 : (Z.of_nat (length s) =? 0)%Z = false).
    { apply Z.eqb_neq. destruct s; [congruence|]. cbn [length]. lia. }
    rewrite E0.
    assert (E1 : (Z.of_nat (length s) <? 0)%Z = false) by (apply Z.ltb_ge; lia).
    unfold deinterleave. cbn [map app nth]. rewrite E1. cbn [firstn map].
    rewrite !nonempty_compress by (destruct s; [congruence|discriminate]).
    cbn [all_some map]. rewrite Nat2Z.id.
    rewrite !decompress_map by exact Hne.
    change [map ckey s; map cval s; map cleft s; map cparent s; map cright s;
            map (fun c => if ccolor c then 1%N else 0%N) s] with (deinterleave s).
    rewrite interleave_deinterleave.
    destruct g as [|g0 g'].
    - rewrite Hlast. cbn [Z.ltb Z.compare]. eexists. reflexivity.
    - destruct Hlast as [-> ->].
      assert (E2 : (0 <? Z.of_nat (length (g0 :: g')))%Z = true) by (apply Z.ltb_lt; cbn [length]; lia).
      rewrite E2. rewrite nonempty_compress by discriminate. rewrite Nat2Z.id.
      destruct (lz4_ok (g0 :: g') ltac:(discriminate)) as [_ Hd]. rewrite Hd.
      rewrite set_of_sorted by exact Hsorted. eexists. reflexivity.
  Qed.

  Lemma boot_hib_state : forall a s g,
    s <> [] -> StronglySorted N.lt g -> hglen a = 0%Z ->
    exists hd, boot decompress (hib_state a s g) = Ok (mkalloc (thr a) (Some s) (Some g) hd 0 0).
  Proof.
    intros a s g Hne Hsorted Hhg. unfold hib_state. apply boot_gen; try assumption.
    destruct g; [exact Hhg|split; reflexivity].
  Qed.

  (* -------------------------------------------------------------------------------------------
     every reachable world *)
  Definition Inv (w : world) : Prop :=
    awake_inv (wa w) (owned w) \/
    (storage (wa w) = None /\ (0 < hslen (wa w))%Z /\
     exists a1, boot decompress (wa w) = Ok a1 /\ awake_inv a1 (owned w)).

  Notation step' := (step compress decompress).

  Lemma step_Inv : forall w x, Inv w -> Inv (step' w x).
  Proof.
    intros w x [Haw|(Hnone & Hpos & a1 & Hboot & Haw)].
    - (* awake *)
      destruct Haw as (s & g & Hs & Hg & Hhs & Hhg & HA).
      assert (Hkeep : Inv w) by (left; exists s, g; auto).
      destruct x as [o ch|o id|o id c|t| |]; cbn [step].
      + destruct (malloc_spec ch (wa w) (owned w) s g o Hs Hg HA) as [Hp|(id & s' & g' & Hm & HA' & _)].
        * rewrite Hp. exact Hkeep.
        * rewrite Hm. left. exists s', g'. cbn [wa owned storage gaps hslen hglen]. auto.
      + destruct (owns w o id) eqn:Ho; [|exact Hkeep].
        apply owns_In in Ho. apply (in_map fst) in Ho. cbn [fst] in Ho.
        destruct (free_spec (wa w) (owned w) s g id Hs Hg HA Ho) as (Hf & HA' & _).
        rewrite Hf. left. exists (set_nth (N.to_nat id) zero_cell s), (ins_sorted id g).
        cbn [wa owned storage gaps hslen hglen]. rewrite set_nth_length. auto.
      + destruct (owns w o id) eqn:Ho; [|exact Hkeep].
        unfold write_cell. rewrite Hs. destruct (N.of_nat (length s) <=? id)%N; [exact Hkeep|].
        left. exists (set_nth (N.to_nat id) c s), g. unfold with_storage.
        cbn [wa owned storage gaps hslen hglen]. rewrite set_nth_length. auto.
      + left. exists s, g. unfold with_thr. cbn [wa owned storage gaps hslen hglen]. auto.
      + destruct (Z.ltb (Z.of_nat (length s)) (thr (wa w))) eqn:Et.
        * rewrite hibernate_below; [exact Hkeep|lia|].
          unfold size, slist. rewrite Hs. apply Z.ltb_lt. exact Et.
        * apply Z.ltb_ge in Et. destruct s as [|c s'].
          -- rewrite hibernate_empty; [exact Hkeep|exact Hhs|unfold slist; rewrite Hs; reflexivity].
          -- rewrite (hibernate_real (wa w) (c :: s') g Hs Hg ltac:(discriminate) ltac:(lia) Et).
             right. cbn [wa owned]. unfold hib_state at 1 2. cbn [storage hslen].
             split; [reflexivity|]. split; [cbn [length]; lia|].
             destruct (boot_hib_state (wa w) (c :: s') g ltac:(discriminate) (ai_sorted _ _ _ HA) Hhg) as (hd & Hb).
             eexists. split; [exact Hb|]. exists (c :: s'), g. cbn [storage gaps hslen hglen]. auto.
      + rewrite boot_awake by exact Hhs. exact Hkeep.
    - (* asleep *)
      assert (Hkeep : Inv w) by (right; eauto).
      destruct x as [o ch|o id|o id c|t| |]; cbn [step].
      + rewrite refused_malloc by exact Hnone. exact Hkeep.
      + destruct (owns w o id); [|exact Hkeep]. rewrite refused_free by exact Hnone. exact Hkeep.
      + destruct (owns w o id); [|exact Hkeep]. rewrite refused_write by exact Hnone. exact Hkeep.
      + right. unfold with_thr at 1 2. cbn [wa owned storage hslen].
        split; [exact Hnone|]. split; [exact Hpos|].
        exists (with_thr a1 t). split; [apply boot_with_thr; exact Hboot|].
        destruct Haw as (s & g & H1 & H2 & H3 & H4 & H5). exists s, g. unfold with_thr.
        cbn [storage gaps hslen hglen]. auto.
      + rewrite refused_hibernate by exact Hpos. exact Hkeep.
      + rewrite Hboot. left. exact Haw.
  Qed.

  Inductive reachable : world -> Prop :=
  | r_init : reachable init_world
  | r_step : forall w x, reachable w -> reachable (step' w x)
  | r_clone : forall w c, reachable w -> clone (wa w) = Ok c -> reachable (mkworld c (owned w))
  (* an awake allocator with the same cells and gaps: what Boot after Deserialize yields (the threshold
     is that of the receiving object, the seventh buffer may be an empty slice instead of nil) *)
  | r_same : forall w a', reachable w -> storage (wa w) <> None ->
      storage a' = storage (wa w) -> gaps a' = gaps (wa w) -> hslen a' = 0%Z -> hglen a' = 0%Z -> small6 a' ->
      reachable (mkworld a' (owned w)).

  Lemma clone_spec : forall a c, clone a = Ok c ->
    exists s, storage a = Some s /\ c = mkalloc (thr a) (Some s) (Some (glist a)) (repeat None 7) 0 0.
  Proof.
    intros a c H. unfold clone in H. destruct (storage a) as [s|]; [|discriminate].
    inversion H. exists s. split; reflexivity.
  Qed.

  Lemma reachable_Inv : forall w, reachable w -> Inv w.
  Proof.
    intros w H. induction H as [|w x _ IH|w c _ IH Hc|w a' _ IH Haw Hs' Hg' Hhs' Hhg' _].
    - left. exists [], []. cbn [init_world new_alloc wa owned storage gaps hslen hglen length].
      repeat (split; [reflexivity|]). exact AInv_init.
    - apply step_Inv. exact IH.
    - destruct (clone_spec _ _ Hc) as (s & Hs & ->).
      destruct IH as [(s0 & g & Hs0 & Hg & _ & _ & HA)|(Hnone & _)]; [|congruence].
      left. exists s, g. cbn [wa owned storage gaps hslen hglen]. unfold glist. rewrite Hg.
      assert (s0 = s) by congruence. subst. auto.
    - destruct IH as [(s0 & g & Hs0 & Hg & _ & _ & HA)|(Hnone & _)]; [|congruence].
      left. exists s0, g. cbn [wa owned]. rewrite Hs', Hg'. auto.
  Qed.

  Lemma run_reachable : forall ops w, reachable w -> reachable (run compress decompress ops w).
  Proof.
    induction ops as [|x ops IH]; intros w H; [exact H|].
    unfold run. cbn [fold_left]. apply IH. apply r_step. exact H.
  Qed.

  (* -------------------------------------------------------------------------------------------
     consequences *)
  Lemma awake_live : forall a ow id, awake_inv a ow -> In id (map fst ow) -> liveb a id = true.
  Proof.
    intros a ow id (s & g & Hs & Hg & _ & _ & HA) Hin. unfold liveb, glist. rewrite Hs, Hg.
    destruct (ai_live _ _ _ HA id Hin) as [Hr Hn].
    apply andb_true_iff. split; [apply andb_true_iff; split|].
    - apply N.ltb_lt. lia.
    - apply N.ltb_lt. lia.
    - apply negb_true_iff. apply memb_false. exact Hn.
  Qed.

  Lemma awake_complete : forall a ow id, awake_inv a ow -> liveb a id = true -> In id (map fst ow).
  Proof.
    intros a ow id (s & g & Hs & Hg & _ & _ & HA) Hl. unfold liveb, glist in Hl. rewrite Hs, Hg in Hl.
    apply andb_true_iff in Hl. destruct Hl as [Hl Hn]. apply andb_true_iff in Hl. destruct Hl as [H0 H1].
    apply N.ltb_lt in H0. apply N.ltb_lt in H1. apply negb_true_iff, memb_false in Hn.
    apply (ai_complete _ _ _ HA); [lia|exact Hn].
  Qed.

  Lemma inv_nodup : forall w, Inv w -> NoDup (map fst (owned w)).
  Proof.
    intros w [(s & g & _ & _ & _ & _ & HA)|(_ & _ & a1 & _ & (s & g & _ & _ & _ & _ & HA))]; exact (ai_nodup _ _ _ HA).
  Qed.

  Theorem no_alias : forall w, reachable w ->
    (forall o1 o2 id, owns w o1 id = true -> owns w o2 id = true -> o1 = o2) /\
    NoDup (map fst (owned w)) /\
    (forall o id, owns w o id = true ->
       match storage (wa w) with
       | Some _ => liveb (wa w) id = true
       | None => exists a1, boot decompress (wa w) = Ok a1 /\ liveb a1 id = true
       end).
  Proof.
    intros w Hr. pose proof (reachable_Inv w Hr) as HI. pose proof (inv_nodup w HI) as Hnd.
    split; [|split; [exact Hnd|]].
    - intros o1 o2 id H1 H2. apply owns_In in H1, H2. eapply nodup_fst_fun; eassumption.
    - intros o id Ho. apply owns_In in Ho. apply (in_map fst) in Ho. cbn [fst] in Ho.
      destruct HI as [Haw|(Hnone & _ & a1 & Hb & Haw)].
      + pose proof Haw as (s & g & Hs & _). rewrite Hs. eapply awake_live; [exact Haw|exact Ho].
      + rewrite Hnone. exists a1. split; [exact Hb|]. eapply awake_live; eassumption.
  Qed.

  Theorem malloc_fresh : forall w ch a' id, reachable w -> malloc ch (wa w) = Ok (a', id) ->
    id <> 0%N /\ liveb (wa w) id = false /\ liveb a' id = true /\ (forall o, owns w o id = false).
  Proof.
    intros w ch a' id Hr Hm. destruct (reachable_Inv w Hr) as [Haw|(Hnone & _)].
    2:{ rewrite refused_malloc in Hm by exact Hnone. discriminate. }
    destruct Haw as (s & g & Hs & Hg & Hhs & Hhg & HA).
    destruct (malloc_spec ch (wa w) (owned w) s g 0%nat Hs Hg HA) as [Hp|(id0 & s' & g' & Hm' & HA' & Hnz & Hnot & Hwhere & _)].
    { rewrite Hp in Hm. discriminate. }
    rewrite Hm' in Hm. inversion Hm. subst a' id0. clear Hm.
    split; [exact Hnz|]. split; [|split].
    - unfold liveb, glist. rewrite Hs, Hg. destruct Hwhere as [Hin|Hge].
      + apply memb_In in Hin. rewrite Hin. cbn [negb]. apply andb_false_r.
      + assert (E : (id <? N.of_nat (length s))%N = false) by (apply N.ltb_ge; exact Hge).
        rewrite E. rewrite andb_false_r. reflexivity.
    - apply (awake_live _ ((id, 0%nat) :: owned w)).
      + exists s', g'. cbn [storage gaps hslen hglen]. auto.
      + left. reflexivity.
    - intros o. destruct (owns w o id) eqn:E; [|reflexivity]. exfalso. apply Hnot.
      apply owns_In in E. apply (in_map fst) in E. exact E.
  Qed.

  Theorem used_count : forall w, reachable w -> storage (wa w) <> None ->
    used (wa w) = Ok (if (size (wa w) =? 0)%Z then 0%Z else (Z.of_nat (length (owned w)) + 1)%Z) /\
    (forall id, liveb (wa w) id = true <-> exists o, owns w o id = true).
  Proof.
    intros w Hr Hawake. destruct (reachable_Inv w Hr) as [Haw|(Hnone & _)]; [|congruence].
    pose proof Haw as (s & g & Hs & Hg & Hhs & Hhg & HA). split.
    - unfold used, size, slist, glist. rewrite Hs, Hg. f_equal.
      destruct (Nat.eq_dec (length s) 0) as [E|E].
      + destruct (ai_empty _ _ _ HA E) as [-> _]. rewrite E. reflexivity.
      + pose proof (ai_count _ _ _ HA E) as Hc.
        assert (E' : (Z.of_nat (length s) =? 0)%Z = false) by (apply Z.eqb_neq; lia). rewrite E'. lia.
    - intros id. split.
      + intros Hl. apply (awake_complete _ _ _ Haw) in Hl. apply in_map_iff in Hl.
        destruct Hl as ((x, o) & Hx & Hin). cbn [fst] in Hx. subst x. exists o. apply owns_In. exact Hin.
      + intros (o & Ho). apply owns_In in Ho. apply (in_map fst) in Ho. eapply awake_live; eassumption.
  Qed.

  (* what an operation of another owner does to my cells: nothing *)
  Definition op_owner (x : op) : option nat :=
    match x with OMalloc o _ | OFree o _ | OWrite o _ _ => Some o | _ => None end.

  Theorem frame : forall w x o1 o2 id, reachable w -> owns w o1 id = true -> op_owner x = Some o2 -> o2 <> o1 ->
    nth (N.to_nat id) (slist (wa (step' w x))) zero_cell = nth (N.to_nat id) (slist (wa w)) zero_cell /\
    owns (step' w x) o1 id = true.
  Proof.
    intros w x o1 o2 id Hr Ho Hx Hne. pose proof (reachable_Inv w Hr) as HI.
    pose proof (inv_nodup w HI) as Hnd.
    pose proof Ho as Hin. apply owns_In in Hin.
    destruct HI as [Haw|(Hnone & _)].
    - destruct Haw as (s & g & Hs & Hg & Hhs & Hhg & HA).
      assert (Hlive : (N.to_nat id < length s)%nat).
      { apply (in_map fst) in Hin. destruct (ai_live _ _ _ HA id Hin) as [H _]. lia. }
      destruct x as [o ch|o id2|o id2 c|t| |]; cbn [op_owner] in Hx; try discriminate; inversion Hx; subst o; cbn [step].
      + destruct (malloc_spec ch (wa w) (owned w) s g o2 Hs Hg HA) as [Hp|(id0 & s' & g' & Hm & _ & _ & _ & _ & Hsame)].
        * rewrite Hp. split; [reflexivity|exact Ho].
        * rewrite Hm. cbn [wa]. unfold slist. cbn [storage]. rewrite Hs. split; [apply Hsame; exact Hlive|].
          apply owns_In. cbn [owned]. right. exact Hin.
      + destruct (owns w o2 id2) eqn:Ho2; [|split; [reflexivity|exact Ho]].
        assert (Hdiff : id2 <> id).
        { intros ->. apply owns_In in Ho2. apply Hne. eapply nodup_fst_fun; eassumption. }
        pose proof Ho2 as Hin2. apply owns_In in Hin2. apply (in_map fst) in Hin2. cbn [fst] in Hin2.
        destruct (free_spec (wa w) (owned w) s g id2 Hs Hg HA Hin2) as (Hf & _ & _).
        rewrite Hf. cbn [wa]. unfold slist. cbn [storage]. rewrite Hs. split.
        * apply nth_set_nth_other. intros E. apply Hdiff. apply N2Nat.inj. exact E.
        * apply owns_In. cbn [owned]. apply disown_pairs. split; [exact Hin|]. cbn [fst]. congruence.
      + destruct (owns w o2 id2) eqn:Ho2; [|split; [reflexivity|exact Ho]].
        assert (Hdiff : id2 <> id).
        { intros ->. apply owns_In in Ho2. apply Hne. eapply nodup_fst_fun; eassumption. }
        unfold write_cell. rewrite Hs. destruct (N.of_nat (length s) <=? id2)%N; [split; [reflexivity|exact Ho]|].
        cbn [wa]. unfold with_storage, slist. cbn [storage]. rewrite Hs. split; [|exact Ho].
        apply nth_set_nth_other. intros E. apply Hdiff. apply N2Nat.inj. exact E.
    - destruct x as [o ch|o id2|o id2 c|t| |]; cbn [op_owner] in Hx; try discriminate; cbn [step].
      + rewrite refused_malloc by exact Hnone. split; [reflexivity|exact Ho].
      + destruct (owns w o id2); [|split; [reflexivity|exact Ho]]. rewrite refused_free by exact Hnone. split; [reflexivity|exact Ho].
      + destruct (owns w o id2); [|split; [reflexivity|exact Ho]]. rewrite refused_write by exact Hnone. split; [reflexivity|exact Ho].
  Qed.

  (* Hibernate then Boot *)
  Theorem boot_hibernate : forall w, reachable w -> storage (wa w) <> None ->
    (thr (wa w) <= size (wa w))%Z -> (0 < size (wa w))%Z ->
    exists h a', hibernate compress (wa w) = Ok h /\
      storage h = None /\ gaps h = None /\ hslen h = size (wa w) /\ thr h = thr (wa w) /\
      boot decompress h = Ok a' /\
      storage a' = storage (wa w) /\ gaps a' = gaps (wa w) /\ thr a' = thr (wa w) /\
      hslen a' = 0%Z /\ hglen a' = 0%Z.
  Proof.
    intros w Hr Hawake Ht Hpos. destruct (reachable_Inv w Hr) as [Haw|(Hnone & _)]; [|congruence].
    destruct Haw as (s & g & Hs & Hg & Hhs & Hhg & HA).
    unfold size, slist in *. rewrite Hs in *.
    assert (Hne : s <> []) by (destruct s; [cbn in Hpos; lia|discriminate]).
    destruct (boot_hib_state (wa w) s g Hne (ai_sorted _ _ _ HA) Hhg) as (hd & Hb).
    exists (hib_state (wa w) s g). eexists.
    split; [apply hibernate_real; try assumption; lia|].
    split; [reflexivity|]. split; [reflexivity|]. split; [reflexivity|]. split; [reflexivity|].
    split; [exact Hb|]. cbn [storage gaps thr hslen hglen]. rewrite Hg. repeat split; reflexivity.
  Qed.

  (* a refused use changes nothing *)
  Theorem refused_step : forall w x, storage (wa w) = None -> op_owner x <> None -> step' w x = w.
  Proof.
    intros w x Hnone Hx. destruct x as [o ch|o id|o id c|t| |]; cbn [op_owner] in Hx; try congruence; cbn [step].
    - rewrite refused_malloc by exact Hnone. reflexivity.
    - destruct (owns w o id); [|reflexivity]. rewrite refused_free by exact Hnone. reflexivity.
    - destruct (owns w o id); [|reflexivity]. rewrite refused_write by exact Hnone. reflexivity.
  Qed.
End WithLZ4.

(* ---------------------------------------------------------------------------------------------
   Clone: what is copied, and independence of the two copies (by construction of a pure model;
   the aliasing half of the claim is carried by the correspondence check) *)
Inductive side : Type := SideL | SideR.

Section Clone.
  Variable compress : list N -> list N.
  Variable decompress : list N -> nat -> list N.

  Lemma clone_spec0 : forall a c, clone a = Ok c ->
    exists s, storage a = Some s /\ c = mkalloc (thr a) (Some s) (Some (glist a)) (repeat None 7) 0 0.
  Proof.
    intros a c H. unfold clone in H. destruct (storage a) as [s|]; [|discriminate].
    inversion H. exists s. split; reflexivity.
  Qed.

  Definition step2 (p : world * world) (x : side * op) : world * world :=
    match fst x with
    | SideL => (step compress decompress (fst p) (snd x), snd p)
    | SideR => (fst p, step compress decompress (snd p) (snd x))
    end.

  Definition proj (sd : side) (l : list (side * op)) : list op :=
    map snd (filter (fun x => match fst x, sd with SideL, SideL | SideR, SideR => true | _, _ => false end) l).

  Theorem clone_frame : forall a c, clone a = Ok c ->
    (storage c = storage a /\ gaps c = Some (glist a) /\ thr c = thr a /\
     hslen c = 0%Z /\ hglen c = 0%Z /\ hdata c = repeat None 7) /\
    forall ow ops,
      fold_left step2 ops (mkworld a ow, mkworld c ow) =
      (run compress decompress (proj SideL ops) (mkworld a ow), run compress decompress (proj SideR ops) (mkworld c ow)).
  Proof.
    intros a c Hc. split.
    - destruct (clone_spec0 _ _ Hc) as (s & Hs & ->). cbn [storage gaps thr hslen hglen hdata].
      rewrite Hs. repeat split; reflexivity.
    - intros ow ops. generalize (mkworld a ow) (mkworld c ow). induction ops as [|(sd, x) ops IH]; intros w1 w2.
      + reflexivity.
      + cbn [fold_left]. destruct sd.
        * change (step2 (w1, w2) (SideL, x)) with (step compress decompress w1 x, w2).
          rewrite IH. unfold proj, run. cbn [filter fst snd map fold_left]. reflexivity.
        * change (step2 (w1, w2) (SideR, x)) with (w1, step compress decompress w2 x).
          rewrite IH. unfold proj, run. cbn [filter fst snd map fold_left]. reflexivity.
  Qed.
End Clone.
