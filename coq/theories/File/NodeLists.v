(* Lemmas about sorted node lists: the value governing a line (vfrom), strictly increasing keys (inc),
   key shifts, sorted insertion, and the uint32 casts of the model. *)
From Coq Require Import List ZArith Lia Bool.
Import ListNotations.
From Herc Require Import File.Model File.Spec.
Open Scope Z_scope.

(* value at line i when scanning s with current value v *)
Fixpoint vfrom (v : Z) (s : list node) (i : Z) : Z :=
  match s with
  | [] => v
  | (k, w) :: r => if i <? k then v else vfrom w r i
  end.

Definition shift (d : Z) (s : list node) : list node := map (fun n => (fst n + d, snd n)) s.

Lemma inc_weaken k k' s : k' <= k -> inc k s -> inc k' s.
Proof. destruct s as [|[a b] r]; simpl; intuition lia. Qed.

Lemma klast_ge k s : inc k s -> k <= klast k s.
Proof.
  revert k; induction s as [|[a b] r IH]; simpl; intros k H; [lia|].
  destruct H as [H1 H2]. specialize (IH _ H2). lia.
Qed.

Lemma inc_app k A B : inc k (A ++ B) <-> inc k A /\ inc (klast k A) B.
Proof.
  revert k; induction A as [|[a b] r IH]; simpl; intros k; [tauto|].
  rewrite IH. tauto.
Qed.

Lemma klast_app k A B : klast k (A ++ B) = klast (klast k A) B.
Proof. revert k; induction A as [|[a b] r IH]; simpl; intros; auto. Qed.

Lemma vlast_app v A B : vlast v (A ++ B) = vlast (vlast v A) B.
Proof. revert v; induction A as [|[a b] r IH]; simpl; intros; auto. Qed.

Lemma vfrom_lt v s i k : inc k s -> i <= k -> vfrom v s i = v.
Proof.
  destruct s as [|[a b] r]; simpl; auto. intros [H _] Hi.
  destruct (Z.ltb_spec i a); auto; lia.
Qed.

Lemma vfrom_ge_last v s i k : inc k s -> klast k s <= i -> vfrom v s i = vlast v s.
Proof.
  revert v k; induction s as [|[a b] r IH]; simpl; intros v k H Hi; auto.
  destruct H as [H1 H2]. pose proof (klast_ge _ _ H2).
  destruct (Z.ltb_spec i a); [lia|]. eapply IH; eauto.
Qed.

Lemma vfrom_app v A B i k :
  inc k (A ++ B) ->
  vfrom v (A ++ B) i = if i <? klast k A then vfrom v A i else vfrom (vlast v A) B i.
Proof.
  revert v k; induction A as [|[a b] r IH]; simpl; intros v k H.
  - destruct (Z.ltb_spec i k); auto. eapply vfrom_lt; eauto. lia.
  - destruct H as [H1 H2]. rewrite (IH _ _ H2).
    apply inc_app in H2. destruct H2 as [H2 _]. pose proof (klast_ge _ _ H2).
    destruct (Z.ltb_spec i a); auto.
    destruct (Z.ltb_spec i (klast a r)); auto. lia.
Qed.

Lemma vfrom_shift v s d i : vfrom v (shift d s) i = vfrom v s (i - d).
Proof.
  revert v; induction s as [|[a b] r IH]; simpl; intros v; auto.
  rewrite IH. destruct (Z.ltb_spec i (a + d)), (Z.ltb_spec (i - d) a); auto; lia.
Qed.

Lemma inc_shift k s d : inc k s -> inc (k + d) (shift d s).
Proof.
  revert k; induction s as [|[a b] r IH]; simpl; intros k H; auto.
  destruct H; split; [lia|]. apply IH; auto.
Qed.

Lemma klast_shift k s d : klast (k + d) (shift d s) = klast k s + d.
Proof. revert k; induction s as [|[a b] r IH]; simpl; intros; auto. Qed.

Lemma vlast_shift v s d : vlast v (shift d s) = vlast v s.
Proof. revert v; induction s as [|[a b] r IH]; simpl; intros; auto. Qed.

Lemma insert_middle k v A B k0 :
  inc k0 A -> klast k0 A < k -> k0 < k -> inc k B ->
  insert k v (A ++ B) = A ++ (k, v) :: B.
Proof.
  revert k0; induction A as [|[a b] r IH]; simpl; intros k0 HA Hk Hk0 HB.
  - destruct B as [|[c d] B']; simpl in *; auto.
    destruct HB. destruct (Z.ltb_spec k c); auto; lia.
  - destruct HA as [H1 H2]. pose proof (klast_ge _ _ H2).
    destruct (Z.ltb_spec k a); [lia|]. destruct (Z.eqb_spec k a); [lia|].
    f_equal. eapply IH; eauto. lia.
Qed.

Lemma insert_dup k v A w B k0 :
  inc k0 A -> klast k0 A < k ->
  insert k v (A ++ (k, w) :: B) = A ++ (k, w) :: B.
Proof.
  revert k0; induction A as [|[a b] r IH]; simpl; intros k0 HA Hk.
  - rewrite Z.ltb_irrefl, Z.eqb_refl. auto.
  - destruct HA as [H1 H2]. pose proof (klast_ge _ _ H2).
    destruct (Z.ltb_spec k a); [lia|]. destruct (Z.eqb_spec k a); [lia|].
    f_equal. eapply IH; eauto.
Qed.

(* ---------- uint32 casts ---------- *)
Lemma u32_id x : 0 <= x <= MaxU32 -> u32 x = x.
Proof. intros H. unfold u32, MaxU32 in *. apply Z.mod_small. lia. Qed.

Lemma shift_cons d k v s : shift d ((k, v) :: s) = (k + d, v) :: shift d s.
Proof. reflexivity. Qed.

Lemma shift_0 s : shift 0 s = s.
Proof. induction s as [|[a b] r IH]; simpl; auto. rewrite IH. f_equal. f_equal. lia. Qed.

(* every key of s lies in [lo, hi] *)
Fixpoint keys_in (lo hi : Z) (s : list node) : Prop :=
  match s with [] => True | (k, _) :: r => lo <= k <= hi /\ keys_in lo hi r end.

Lemma keys_in_inc lo hi k s : inc k s -> lo <= k + 1 -> klast k s <= hi -> keys_in lo hi s.
Proof.
  revert k; induction s as [|[a b] r IH]; simpl; intros k H Hlo Hhi; auto.
  destruct H as [H1 H2]. pose proof (klast_ge _ _ H2). split; [lia|]. apply (IH a); auto; lia.
Qed.

Lemma shift32_eq d lo hi s : keys_in lo hi s -> 0 <= lo + d -> hi + d <= MaxU32 -> shift32 d s = shift d s.
Proof.
  induction s as [|[a b] r IH]; simpl; intros H Hlo Hhi; auto.
  destruct H as [H1 H2]. rewrite IH by auto. rewrite u32_id by lia. reflexivity.
Qed.

Lemma keys_in_tail lo hi n s : keys_in lo hi (n :: s) -> keys_in lo hi s.
Proof. destruct n. simpl. tauto. Qed.
