// Hibernation in the item-level burndown stream (kinds bdh, bdhex) and the large cases (kinds bds-*).
//
// Pipeline.Run applies two more operations to the items of a branch besides Consume and Fork: Hibernate and Boot
// (core.HibernateablePipelineItem; BurndownAnalysis is the only built-in item that implements them).  They are
// memory management and must be invisible: the operation lists of these kinds interleave them with Fork and Consume
// on every copy, in memory and on disk (HibernationToDisk), with thresholds below / at / above the arena size,
// several copies asleep at overlapping times, booted in any order.
//
// Snapshot of a hibernated copy: (hib mem|disk <crc32> <bytes>) - the CRC and size of the compressed image (the seven
// buffers, or the content of the temporary file).  It must not change while other copies are operated on; after Boot
// the copy must report exactly what it reported before Hibernate.
package main

import (
	"fmt"
	"hash/crc32"
	"math/rand"
	"os"
	"path/filepath"

	"gopkg.in/src-d/hercules.v10/leaves"
	"gopkg.in/src-d/hercules.v10/verifapi/c08"
	. "verifharness/lib"
)

var hibDirName string

// hibDir returns the private directory for the temporary files of HibernationToDisk (created on first use).
func hibDir() string {
	if hibDirName == "" {
		d, err := os.MkdirTemp("", "c08hib \u00a0\u00e9\xff%d\t-") // R4-1: white space, non-ASCII and invalid UTF-8 in the hibernation directory
		if err != nil {
			panic(err)
		}
		hibDirName = d
	}
	return hibDirName
}

// cleanHibDir removes what a case left behind (copies that were never booted).
func cleanHibDir() {
	if hibDirName == "" {
		return
	}
	if es, err := os.ReadDir(hibDirName); err == nil {
		for _, e := range es {
			os.RemoveAll(filepath.Join(hibDirName, e.Name()))
		}
	}
}

func removeHibDir() {
	if hibDirName != "" {
		os.RemoveAll(hibDirName)
		hibDirName = ""
	}
}

// bdAsleep tells whether the arena of the copy is hibernated (Used() refuses to answer then).
func bdAsleep(a *leaves.BurndownAnalysis) bool {
	_, panicked := Catch(func() { a.VerifC08Used() })
	return panicked
}

// bdHibImage describes the compressed image of a hibernated copy without touching it.
func bdHibImage(a *leaves.BurndownAnalysis) Sx {
	if fn := a.VerifC08HibernatedFileName(); fn != "" {
		data, err := os.ReadFile(fn)
		if err != nil {
			return T("hib", A("disk"), A("missing"), I(0))
		}
		return T("hib", A("disk"), U64(uint64(crc32.ChecksumIEEE(data))), I(len(data)))
	}
	h := crc32.NewIEEE()
	n := 0
	for _, b := range a.VerifC08Allocator().VerifHibernatedData() {
		h.Write(b)
		h.Write([]byte{0xff})
		n += len(b)
	}
	return T("hib", A("mem"), U64(uint64(h.Sum32())), I(n))
}

// rleSx records a tracked file run-length encoded: (id (value count) ...).
func rleSx(id int, arr []int) Sx {
	xs := []Sx{I(id)}
	for i := 0; i < len(arr); {
		j := i
		for j < len(arr) && arr[j] == arr[i] {
			j++
		}
		xs = append(xs, L(I(arr[i]), I(j-i)))
		i = j
	}
	return L(xs...)
}

// arenaSizeAfter replays the operations on a scratch analysis and returns the length of its node arena: the
// generator uses it to put the hibernation threshold right below / at / right above the size.
func arenaSizeAfter(cfg bdCfg, ops []bdOp) int {
	cfg.hth, cfg.hdisk = 0, false
	r := newBdRunner(cfg)
	for _, o := range ops {
		r.apply(o)
	}
	return r.copies[0].VerifC08Allocator().Size()
}

var hibThresholds = []int{0, 0, 0, 1, 2, 3, 4, 6, 8, 12, 16, 24, 32, 48, 1000}

func randomBdHib(c *Config) {
	rng := c.Rng
	cfg := bdCfg{people: rng.Intn(2) == 0, track: rng.Intn(3) == 0, hdisk: rng.Intn(100) < 65,
		hth: hibThresholds[rng.Intn(len(hibThresholds))]}
	author := func() int {
		if !cfg.people || rng.Intn(100) < 8 {
			return c08.AuthorMissing
		}
		return rng.Intn(3)
	}
	// the population of the origin is drawn first (on a scratch runner: the generator needs the file lengths), so that
	// the threshold can be placed at the arena size
	var pre []bdOp
	{
		sr := newBdRunner(bdCfg{people: cfg.people, track: cfg.track})
		tick := 0
		for k := 1 + rng.Intn(4); k > 0 && !sr.failed; k-- {
			tick += rng.Intn(3)
			o := bdOp{kind: "consume", copy: 0, author: author(), tick: tick, chs: genBdChanges(rng, sr.lensOf(0), false, true)}
			pre = append(pre, o)
			sr.exec(o)
		}
		if rng.Intn(100) < 35 {
			cfg.hth = sr.copies[0].VerifC08Allocator().Size() + rng.Intn(3) - 1
			if cfg.hth < 0 {
				cfg.hth = 0
			}
		}
	}
	r := newBdRunner(cfg)
	var ops []bdOp
	do := func(o bdOp) {
		ops = append(ops, o)
		r.exec(o)
	}
	tick := 0
	for _, o := range pre {
		do(o)
		tick = o.tick
	}
	awake := func() []int {
		var l []int
		for i := range r.copies {
			if i >= len(r.asleep) || !r.asleep[i] {
				l = append(l, i)
			}
		}
		return l
	}
	sleeping := func() []int {
		var l []int
		for i := range r.copies {
			if i < len(r.asleep) && r.asleep[i] {
				l = append(l, i)
			}
		}
		return l
	}
	consume := func(i int) {
		tick += rng.Intn(3)
		t := tick
		if rng.Intn(100) < 10 {
			t = rng.Intn(tick + 1)
		}
		merge := rng.Intn(100) < 8
		do(bdOp{kind: "consume", copy: i, author: author(), tick: t, merge: merge, chs: genBdChanges(rng, r.lensOf(i), merge, true)})
	}
	// the origin sleeps (and wakes up) before it is ever forked, as a trunk does while another root is analysed
	for k := rng.Intn(3); k > 0 && !r.failed; k-- {
		do(bdOp{kind: "hib", copy: 0})
		do(bdOp{kind: "boot", copy: 0})
		if rng.Intn(2) == 0 {
			consume(0)
		}
	}
	steps := 6 + rng.Intn(26)
	for s := 0; s < steps && !r.failed && !hung; s++ {
		aw, sl := awake(), sleeping()
		x := rng.Intn(100)
		switch {
		case len(aw) == 0:
			do(bdOp{kind: "boot", copy: sl[rng.Intn(len(sl))]})
		case len(r.copies) == 1 && x < 60, len(r.copies) < maxCopies && x < 10:
			n := 1 + rng.Intn(4)
			if len(r.copies)+n > maxCopies {
				n = maxCopies - len(r.copies)
			}
			do(bdOp{kind: "fork", copy: aw[rng.Intn(len(aw))], n: n})
		case x < 25 && len(aw) >= 2:
			// several copies go to sleep one after the other, the others go on meanwhile
			rng.Shuffle(len(aw), func(i, j int) { aw[i], aw[j] = aw[j], aw[i] })
			k := 2 + rng.Intn(len(aw)-1)
			for j := 0; j < k && !r.failed; j++ {
				do(bdOp{kind: "hib", copy: aw[j]})
				if k < len(aw) && rng.Intn(3) == 0 {
					consume(aw[k+rng.Intn(len(aw)-k)])
				}
			}
		case x < 35:
			do(bdOp{kind: "hib", copy: aw[rng.Intn(len(aw))]})
		case x < 60 && len(sl) > 0:
			do(bdOp{kind: "boot", copy: sl[rng.Intn(len(sl))]})
		case x < 63:
			do(bdOp{kind: "boot", copy: aw[rng.Intn(len(aw))]}) // booting a copy that is awake: nothing happens
		default:
			consume(aw[rng.Intn(len(aw))])
		}
	}
	// everybody wakes up, in random order, and is read
	sl := sleeping()
	rng.Shuffle(len(sl), func(i, j int) { sl[i], sl[j] = sl[j], sl[i] })
	for _, i := range sl {
		if r.failed {
			break
		}
		do(bdOp{kind: "boot", copy: i})
	}
	for k := rng.Intn(3); k > 0 && !r.failed; k-- {
		consume(rng.Intn(len(r.copies)))
	}
	emitBd(c, "bdh", cfg, ops, r)
}

// exhaustive small scope: one file of 3 lines, the origin and ncl clones; every VALID sequence of slen operations
// out of copies x {hib, boot, consume} (valid: no Consume / Hibernate on a sleeping copy), then everybody is
// booted.  pre: the origin went through one Hibernate / Boot cycle before the fork.
func exhaustiveBdHib(c *Config, disk bool, hth int, pre bool, ncl, slen int) {
	cfg := bdCfg{hdisk: disk, hth: hth}
	author := c08.AuthorMissing
	prefix := []bdOp{{kind: "consume", copy: 0, author: author, tick: 0, chs: []bdChange{{kind: "ins", name: 1, lines: 3}}}}
	if pre {
		prefix = append(prefix, bdOp{kind: "hib", copy: 0}, bdOp{kind: "boot", copy: 0})
	}
	prefix = append(prefix, bdOp{kind: "fork", copy: 0, n: ncl})
	ncopies := ncl + 1
	nsym := 3 * ncopies
	total := 1
	for i := 0; i < slen; i++ {
		total *= nsym
	}
	for code := 0; code < total; code++ {
		asleep := make([]bool, ncopies)
		lens := make([]int, ncopies)
		for i := range lens {
			lens[i] = 3
		}
		ops := append([]bdOp{}, prefix...)
		valid := true
		x := code
		for k := 0; k < slen && valid; k++ {
			sym := x % nsym
			x /= nsym
			i := sym / 3
			switch sym % 3 {
			case 0:
				if asleep[i] {
					valid = false
				}
				asleep[i] = true // (a threshold above the arena size leaves it awake: then the later ops are valid anyway)
				ops = append(ops, bdOp{kind: "hib", copy: i})
			case 1:
				asleep[i] = false
				ops = append(ops, bdOp{kind: "boot", copy: i})
			case 2:
				if asleep[i] {
					valid = false
				}
				// one line in front of the file, written at tick 1+k
				ops = append(ops, bdOp{kind: "consume", copy: i, author: author, tick: 1 + k, chs: []bdChange{{kind: "mod", name: 1, to: 1,
					flines: lens[i], tlines: lens[i] + 1, oldl: lens[i], newl: lens[i] + 1, diffs: [][2]int{{1, 1}, {0, lens[i]}}}}})
				lens[i]++
			}
		}
		if !valid {
			continue
		}
		for i := ncopies - 1; i >= 0; i-- {
			if asleep[i] {
				ops = append(ops, bdOp{kind: "boot", copy: i})
			}
		}
		r := newBdRunner(cfg)
		for _, o := range ops {
			r.exec(o)
		}
		emitBd(c, "bdhex", cfg, ops, r)
	}
}

// ---------------------------------------------------------------------------------------------------------------
// large cases (kinds bds-*): files recorded run-length encoded, judged after every operation like the small ones

// periodicEdit returns an edit script over a file of n lines that replaces one line every period lines.
func periodicEdit(n, period, offset int) ([][2]int, int) {
	var ds [][2]int
	pos := 0
	if offset > 0 && offset < n {
		ds = append(ds, [2]int{0, offset})
		pos = offset
	}
	for pos < n {
		ds = append(ds, [2]int{2, 1}, [2]int{1, 1})
		pos++
		k := period - 1
		if pos+k > n {
			k = n - pos
		}
		if k > 0 {
			ds = append(ds, [2]int{0, k})
			pos += k
		}
	}
	return ds, n
}

func modOp(copy, author, tick, name, oldl int, ds [][2]int, newl int) bdOp {
	return bdOp{kind: "consume", copy: copy, author: author, tick: tick, chs: []bdChange{{kind: "mod", name: name, to: name,
		flines: oldl, tlines: newl, oldl: oldl, newl: newl, diffs: ds}}}
}

// scaleBigFile: one file of n lines cut into runs by periodic edits (periods 2^k, 2^k+-1), forked 5 ways, every
// copy edits its own region, all copies sleep at overlapping times (threshold at the arena size -1 / +0 / +1, in
// memory or on disk) and wake up in another order.
func scaleBigFile(c *Config, n int, disk bool, shape string) {
	rng := c.Rng
	cfg := bdCfg{people: rng.Intn(2) == 0, hdisk: disk, rle: true, nomodel: n > 300000}
	author := func() int {
		if cfg.people {
			return rng.Intn(3)
		}
		return c08.AuthorMissing
	}
	var pre []bdOp
	pre = append(pre, bdOp{kind: "consume", copy: 0, author: author(), tick: 0, chs: []bdChange{{kind: "ins", name: 1, lines: n}}})
	periods := []int{64, 63, 65, 17, 1024, 255, 4097}
	// the number of runs stays in the thousands: longer periods for the longer files
	mult := 1
	if n > 20000 {
		mult = n / 10000
		periods = []int{64*mult + 1, 63 * mult, 65*mult - 1, 1024, 4097, 65537, 32767}
	}
	switch shape {
	case "asc": // edits walk from the head of the file to its tail
		periods = []int{n/50 + 1}
	case "desc":
		periods = []int{n/50 + 1}
	}
	tick := 0
	for k, p := range periods {
		if p >= n {
			continue
		}
		tick += 1 + rng.Intn(3)
		ds, newl := periodicEdit(n, p, k)
		pre = append(pre, modOp(0, author(), tick, 1, n, ds, newl))
	}
	size := arenaSizeAfter(cfg, pre)
	cfg.hth = size + rng.Intn(3) - 1
	r := newBdRunner(cfg)
	var ops []bdOp
	do := func(o bdOp) {
		ops = append(ops, o)
		r.exec(o)
	}
	for _, o := range pre {
		do(o)
	}
	// the trunk sleeps once before the fork
	do(bdOp{kind: "hib", copy: 0})
	do(bdOp{kind: "boot", copy: 0})
	do(bdOp{kind: "fork", copy: 0, n: 5})
	edit := func(i int) {
		l := r.lensOf(i)[1]
		if l == 0 {
			return
		}
		tick += rng.Intn(2)
		t := tick
		if rng.Intn(8) == 0 {
			t = 16382 // the largest tick that is not the merge mark
		}
		var ds [][2]int
		var newl int
		switch shape {
		case "asc", "desc":
			// a block of lines replaced at a position that depends on the copy
			pos := (i*l/7 + rng.Intn(l/7+1)) % l
			if shape == "desc" {
				pos = l - 1 - pos
			}
			k := 1 + rng.Intn(min(l-pos, 300))
			m := rng.Intn(300)
			if pos > 0 {
				ds = append(ds, [2]int{0, pos})
			}
			ds = append(ds, [2]int{2, k})
			if m > 0 {
				ds = append(ds, [2]int{1, m})
			}
			if l-pos-k > 0 {
				ds = append(ds, [2]int{0, l - pos - k})
			}
			newl = l - k + m
		default:
			p := []int{31, 32, 33, 127, 129, 511, 2049}[rng.Intn(7)]
			ds, newl = periodicEdit(l, p*(1+rng.Intn(4))*mult+rng.Intn(2), rng.Intn(p))
		}
		do(modOp(i, author(), t, 1, l, ds, newl))
	}
	for round := 0; round < 3 && !r.failed && !hung; round++ {
		for i := 0; i < len(r.copies) && !r.failed; i++ {
			edit(i)
		}
		order := rng.Perm(len(r.copies))
		for _, i := range order {
			if !r.failed {
				do(bdOp{kind: "hib", copy: i})
			}
		}
		order = rng.Perm(len(r.copies))
		for _, i := range order {
			if !r.failed {
				do(bdOp{kind: "boot", copy: i})
			}
		}
		if round == 0 && !r.failed {
			do(bdOp{kind: "fork", copy: 1 + rng.Intn(5), n: 2})
		}
	}
	emitBd(c, "bds-file-"+shape, cfg, ops, r)
}

// scaleManyFiles: nf small files (lengths 0..16, not a multiple of anything), forked; every copy deletes / edits /
// renames its own share; sleep and wake up.
func scaleManyFiles(c *Config, nf int, disk bool) {
	rng := c.Rng
	cfg := bdCfg{people: rng.Intn(2) == 0, track: rng.Intn(2) == 0, hdisk: disk, rle: true, nomodel: nf > 20000}
	author := func() int {
		if cfg.people {
			return rng.Intn(3)
		}
		return c08.AuthorMissing
	}
	var pre []bdOp
	batch := 500
	if nf/8 > batch {
		batch = nf / 8
	}
	tick := 0
	for lo := 1; lo <= nf; lo += batch {
		o := bdOp{kind: "consume", copy: 0, author: author(), tick: tick}
		for id := lo; id < lo+batch && id <= nf; id++ {
			o.chs = append(o.chs, bdChange{kind: "ins", name: id, lines: id % 17})
		}
		pre = append(pre, o)
		tick++
	}
	cfg.hth = arenaSizeAfter(cfg, pre) + rng.Intn(3) - 1
	r := newBdRunner(cfg)
	var ops []bdOp
	do := func(o bdOp) {
		ops = append(ops, o)
		r.exec(o)
	}
	for _, o := range pre {
		do(o)
	}
	do(bdOp{kind: "hib", copy: 0})
	do(bdOp{kind: "boot", copy: 0})
	do(bdOp{kind: "fork", copy: 0, n: 4})
	work := func(i int) {
		tick += rng.Intn(2)
		o := bdOp{kind: "consume", copy: i, author: author(), tick: tick}
		lens := r.lensOf(i)
		used := map[int]bool{}
		for k := 0; k < 40; k++ {
			id := 1 + rng.Intn(nf)
			l, ok := lens[id]
			if !ok || used[id] {
				continue
			}
			used[id] = true
			switch rng.Intn(3) {
			case 0:
				o.chs = append(o.chs, bdChange{kind: "del", name: id, lines: l})
			case 1:
				o.chs = append(o.chs, bdChange{kind: "mod", name: id, to: id, flines: l, tlines: l + 2, oldl: l, newl: l + 2,
					diffs: [][2]int{{0, l}, {1, 2}}})
			case 2:
				to := nf + 1 + rng.Intn(nf)
				if _, ex := lens[to]; ex || used[to] {
					continue
				}
				used[to] = true
				o.chs = append(o.chs, bdChange{kind: "mod", name: id, to: to, flines: l, tlines: l, oldl: l, newl: l,
					diffs: [][2]int{{0, l}}})
			}
		}
		do(o)
	}
	for round := 0; round < 2 && !r.failed && !hung; round++ {
		for i := 0; i < len(r.copies) && !r.failed; i++ {
			work(i)
		}
		for _, i := range rng.Perm(len(r.copies)) {
			if !r.failed {
				do(bdOp{kind: "hib", copy: i})
			}
		}
		for _, i := range rng.Perm(len(r.copies)) {
			if !r.failed {
				do(bdOp{kind: "boot", copy: i})
			}
		}
	}
	emitBd(c, "bds-files", cfg, ops, r)
}

// scaleManyCopies: a small analysis forked arity-ways, level after level, until ncopies copies are alive; each
// copy makes one edit of its own; all sleep at the same time and wake up in random order.
func scaleManyCopies(c *Config, ncopies, arity int, disk bool) {
	rng := c.Rng
	cfg := bdCfg{hdisk: disk, rle: true}
	author := c08.AuthorMissing
	r := newBdRunner(cfg)
	var ops []bdOp
	do := func(o bdOp) {
		ops = append(ops, o)
		r.exec(o)
	}
	do(bdOp{kind: "consume", copy: 0, author: author, tick: 0, chs: []bdChange{{kind: "ins", name: 1, lines: 40}, {kind: "ins", name: 2, lines: 9}}})
	do(bdOp{kind: "hib", copy: 0})
	do(bdOp{kind: "boot", copy: 0})
	tick := 0
	for next := 0; len(r.copies) < ncopies && !r.failed; next++ {
		do(bdOp{kind: "fork", copy: next, n: arity})
		tick++
		for j := len(r.copies) - arity; j < len(r.copies) && !r.failed; j++ {
			l := r.lensOf(j)[1]
			pos := j % (l + 1)
			var ds [][2]int
			if pos > 0 {
				ds = append(ds, [2]int{0, pos})
			}
			ds = append(ds, [2]int{1, 1})
			if l-pos > 0 {
				ds = append(ds, [2]int{0, l - pos})
			}
			do(modOp(j, author, tick, 1, l, ds, l+1))
		}
	}
	for _, i := range rng.Perm(len(r.copies)) {
		if !r.failed {
			do(bdOp{kind: "hib", copy: i})
		}
	}
	for _, i := range rng.Perm(len(r.copies)) {
		if !r.failed {
			do(bdOp{kind: "boot", copy: i})
		}
	}
	emitBd(c, fmt.Sprintf("bds-copies%d", arity), cfg, ops, r)
}

func min(a, b int) int {
	if a < b {
		return a
	}
	return b
}

var _ = rand.Int
