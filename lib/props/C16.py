CONFIG = dict(
        level='proof',
        streams=[dict(harness='c16', driver='c16', shrink_field='commits'),
                 dict(harness='c16m', driver='c16', shrink_field='ids')],
        rule='stream c16: a commit list (Author.Name, Author.Email as byte strings), the mode (ExactSignatures on/off) and optionally the '
             '.mailmap blob of the LAST commit go through the real identity.Detector: GeneratePeopleDict on commits of an in-memory '
             'repository, then Consume for every commit of the list; recorded: PeopleDict (sorted by key), ReversedPeopleDict, the author '
             'indices (with a mailmap: two executions, eight on replay, because the outcome depends on Go map order), identity.ParseMailmap of '
             'the blob (hook), and strings.ToLower of every string on which it differs from ASCII lower-casing (the model uses that table as '
             'its "lower"). Kinds without mailmap: exh1..3 (thorough ..4) = every list over 12 signatures {a,A,b} x {a,E,e,""} in both modes; '
             'dense / mid / wide = random lists of 1..40 signatures over pools of 5..17 names and 5..14 e-mails with random ASCII case flips, empty '
             'fields, names that are e-mails of others; crossed = e-mails drawn from the names; bars = names/e-mails containing "|"; attr / '
             'attr-exh1/2 (input attributes) = names and e-mails containing "|", "<", ">", " <", "a <a@x>", leading / trailing / inner spaces and '
             'tabs, upper/lower pairs outside ASCII (Latin-1, decomposed accents, Greek incl. final sigma, Cyrillic, Kelvin sign -> k, dotted '
             'capital I -> two runes, titlecase digraph) and invalid UTF-8 bytes; empty = the empty list (Go panics). Mailmap kinds (in-memory '
             'repository whose last commit has a .mailmap blob): mm-exh1 = every one-line mailmap over 81 lines (canonical name {"",a,B} x '
             'canonical e-mail {"",e@,a} x commit name {"",a,b} x commit e-mail {e@,c@,A}: all four entry forms and the e-mail-only form) x all '
             'commit lists of length <=2 over 6 signatures; mm-exh2 = all 6 561 two-line mailmaps x 1 (thorough 3) commit lists; mm-forms = random '
             'mailmaps of 1..5 entries in the forms "N <c>", "<p> <c>", "N <p> <c>", "N <p> M <c>", same-name "N <p> N <c>", with case flips, '
             'comments, blank lines, tabs / CR / doubled spaces; mm-homonym = several developers sharing one name, e-mail-only entries, mapped '
             'addresses with and without commits; mm-existing = entries whose canonical name / e-mail is that of an author of the list or of '
             'another entry; mm-attr = input-attribute strings inside mailmap lines; mm-exact = mailmap + ExactSignatures (file not read, '
             'also malformed ones); mm-decoy = a .mailmap in every commit but the last (ignored); mmx-overlap = a key that is also a canonical '
             'e-mail / name of another entry or two keys differing by case (outside mm_domb: finding mailmap-overlap); mmp-malformed = junk '
             'lines ("a>", "-->", "N > <c@x>", trailing text, empty brackets, ...) and randomly cut / spliced / delimiter-injected lines '
             '(ParseMailmap panicked on some before the repair 199beb1; they are skipped now). Scale kinds (judged per commit with hash tables in the driver + full '
             'comparison with the model; no quadratic oracle): scale-few = 10^3, 10^4, 10^5 (thorough 10^6) commits over p names x q e-mails, p, q '
             'in 15/16/17, 255/257, 1023/1025, both modes; scale-chain = one developer with 255 / 513 (thorough 1000, 1025, 10^4, 10^5) names and '
             'e-mails, ascending / descending / shuffled; scale-many = 255, 256, 257, 1000 developers (thorough 4095..4097 and, judged without the '
             'model, 2^16-1..2^16+1 and, judged inside the harness with Go maps (the trace carries the verdict), 2^18-3..2^18+1 around AuthorMissing = 2^18-2); scale-mailmap = .mailmap of 80 / 900 (thorough 2700) lines '
             'with 10^3 / 10^4 (3*10^4) commits. Non-trivial = at least 2 commits and a lower-cased name or e-mail that occurs twice, or a mailmap '
             'entry that touches an author of the list. Stream c16m: a pair of identity lists goes through the real '
             'MergeReversedDictsIdentities (3 runs, answers must '
             'agree) and MergeReversedDictsLiteral; recorded: the index map sorted by key and the merged list. Kinds: dom-exh4 = all 22 500 '
             'pairs of lists of pairwise disjoint entries over the parts {a, b, x@, ""}; all-exh / f7-all-exh = all 3 249 pairs of lists of <=2 '
             'entries over {a, b, x@} without the disjointness restriction (thorough also <=3 entries over {a, x@} and 150 000 sampled pairs '
             'over 5 parts); dom-rand, dom-same (identical / permuted / truncated copies), dom-chain (a-b-c chains alternating between the '
             'lists, broken or shuffled), dom-apart (nothing merges, one list empty), dom-namemail (sharing only a name / only an e-mail); '
             'dom-scale-same / -chain / -stars / -apart = in-domain pairs of lists with 40, 255, 257, 10^3, 10^4 (thorough 10^5) identities: '
             'permuted copies, ONE component chained through both lists (in order / reversed / shuffled), star components of 3..9 identities, '
             'nothing merging; above 80 identities the extracted model and oracles (high polynomial degree) are replaced by the driver\'s own '
             'hash / union-find statement of totality, pointers, components and union; '
             'f7-* = a part occurs in two entries of ONE list (finding F7), kept apart by name. Non-trivial = at least 2 identities and a part '
             'shared between the two lists. Distinct = distinct input fields.',
        exhaustive_note='every commit list of length <=3 (thorough <=4) over 12 signatures x both modes; every one-line mailmap over 81 lines x every '
                        'commit list of length <=2 over 6 signatures, every two-line mailmap over the same lines; every pair of lists of pairwise disjoint '
                        'entries over 4 parts (22 500 pairs); every pair of lists of <=2 arbitrary entries over 3 parts (3 249 pairs)',
        assumptions=[
            'strings.ToLower is modelled as an arbitrary function in every theorem (no hypothesis). strings.ToLower is Unicode lower-casing per rune '
            '(invalid UTF-8 bytes become U+FFFD); the replay instantiates "lower" with ASCII lower-casing (bytes A-Z + 32) overridden, on every string '
            'of the case on which Go disagrees with that, by the value strings.ToLower returned in the harness (observation field "lower"), so "same '
            'e-mail case-insensitively" is judged with Go\'s own notion; only C16_same_name_and_email and C16_lower_ascii_keeps_bars_out are '
            'about ASCII lower-casing specifically',
            'the .mailmap branch is modelled on the PARSED table (generate_people_dict_mm); the table given to the model is the one '
            'identity.ParseMailmap returned in the harness; ParseMailmap itself is modelled (parse_mailmap, proved total) and compared with it, '
            'with strings.TrimSpace restricted to ASCII white space (generated texts contain no U+0085, U+00A0 or other Unicode spaces); the '
            'description theorem with a mailmap assumes mm_domb (lower-cased keys pairwise different, not empty, and a key that is also a '
            'canonical e-mail / name belongs to an entry with the same canonical pair); outside it the clause is false '
            '(C16_mailmap_description_refuted = finding mailmap-overlap); the commit list is not empty '
            '(Go panics on commits[len(commits)-1]; modelled as None and replayed)',
            'Go iterates the parsed mailmap in map order: the theorems quantify over every permutation; the replay searches an order for which the '
            'model returns the implementation\'s dictionaries (entries sorted by the developer index the implementation gave them, rotations of '
            'the file order, all permutations up to 6 entries, 200 random group shuffles) and reports a MISMATCH when there is none',
            'merge theorems C16_merge_total/_components/_union/C16_pointers assume merge_domb rd1 rd2 = true: no part occurs in two different '
            'entries of the same input list; C16_generated_lists_in_domain proves this for every ReversedPeopleDict produced by '
            'GeneratePeopleDict from names and e-mails without "|"; outside it the statements are false (C16_merge_refuted, '
            'C16_pointers_refuted = known finding F7)',
            'Go map iteration (dict when filling ReversedPeopleDict, the pop order of the walk) is an arbitrary permutation in the theorems; '
            'the replay uses the identity',
        ],
        trusted_base=[
            'hand-written Gallina models coq/theories/Plumbing/Identity.v (GeneratePeopleDict both modes, Consume), IdentityMailmap.v (the '
            '.mailmap loop of GeneratePeopleDict on the parsed table, ParseMailmap with its two "skip the malformed line" exits) and IdentityMerge.v '
            '(MergeReversedDictsIdentities as written incl. the one-index-per-part vocabulary, MergeReversedDictsLiteral) of '
            'internal/plumbing/identity/identity.go, tied to the code by the replay of every harness case (dictionaries, descriptions, '
            'author indices, index maps and merged lists compared exactly)',
            'Go strings (==, <, strings.Split/Join/ToLower/ContainsRune), sort.Strings / sort.Slice and go-git object.Commit.File are '
            'modelled (IdStr.v), not verified',
            're-exports /repo/verifapi/c16/c16.go and /repo/verifapi/c16/mailmap.go (build tag verif)',
            'for cases with more than 3000 commits the driver states total / same-e-mail with hash tables per commit instead of the extracted '
            'quadratic oracle, and for the (nomodel 1) cases (>= 2^14 developers, chains of >= 10^4) also the description clause (keys of a '
            'developer = parts of its description); all other cases are additionally compared with the model exactly',
        ],
        level_text='Coq theorems over all commit lists x both modes x all map orders for the Gallina model of GeneratePeopleDict + Consume: '
                   'C16_total (every author of the list resolves below the number of developers), C16_same_email / C16_same_signature '
                   '(+ C16_same_name_and_email), C16_dict_keys, C16_description_exact / C16_description_exact_signatures (each description = '
                   'sorted duplicate-free names | e-mails = exactly the keys attached to the developer), C16_developers_inhabited; and over all '
                   'pairs of identity lists and all pop orders for MergeReversedDictsIdentities: C16_merge_returns (all inputs), and, in the '
                   'domain "no part in two entries of one list", C16_merge_total, C16_merge_components (same Final <-> connected), '
                   'C16_merge_union, C16_pointers; C16_generated_lists_in_domain (outputs of GeneratePeopleDict are in that domain); '
                   'C16_merge_refuted / C16_pointers_refuted (the property is FALSE outside the domain: finding F7, confirmed on the Go code); '
                   'soundness of the replay oracles (C16_oracle_*). With a .mailmap (parsed table mm, every iteration order of it): '
                   'C16_mailmap_total and C16_mailmap_same_email for EVERY table, C16_mailmap_dict_keys, and in the domain mm_domb '
                   'C16_mailmap_description_exact (description = sorted duplicate-free names | e-mails, a string is listed iff PeopleDict attaches it '
                   'to the developer, every developer has a key) and C16_mailmap_entries_honoured (the key of an entry is attached to the developer '
                   'of its canonical e-mail or name); C16_mailmap_description_refuted / C16_mailmap_order_dependent (outside the domain the clause is '
                   'false and the number of developers depends on map order: finding mailmap-overlap); C16_mailmap_none (no entries = the plain '
                   'function). All closed under the global context.',
        level_note='Proved about the models, tied to the Go code by correspondence only. The merge half of the property as literally stated ("all pairs '
                   'of identity lists with arbitrary overlaps") is refuted for the current code (F7, known finding; candidate fix in '
                   'docs/C16-F7-candidate-fix.patch); it is proved on the sub-domain that GeneratePeopleDict guarantees. Modelled, not verified: Go '
                   'string primitives, sort, maps, go-git. Not modelled: LoadPeopleDict, Configure. ParseMailmap is modelled as repaired by 199beb1 and replayed; proved: it returns for every text '
                   '(C16_parse_mailmap_returns); before the repair it panicked on "a>" (C16_parse_mailmap_before_fix_refuted). With a mailmap "attached to developer d" = the '
                   'keys of PeopleDict that map to d (lower-cased commit names / e-mails, mailmap keys, canonical names / e-mails of the entries that '
                   'created a developer); which of the two lists a key is printed in is fixed only without a mailmap. MergeReversedDictsLiteral is '
                   'modelled and replayed but has no theorem (it panics / mis-indexes when rd1 contains a duplicate string; observed, outside the '
                   'property). "Names and e-mails attached to a developer" is formalised as: the keys of PeopleDict that map to it, listed under '
                   'names if first seen as a name and under e-mails if first seen as an e-mail.',
        technique='machine-checked proof in Coq over Gallina models (loop invariants for the dictionary construction; reachability closure, '
                  'vocabulary correctness and component invariants for the merge) + refutation by vm_compute + model/implementation '
                  'correspondence replay with extracted, proved-sound oracles',
    )
