CONFIG = dict(
        level='proof',
        streams=[dict(harness='c17', driver='c17', shrink_field=None)],
        rule='one case = one result value of BurndownAnalysis / DevsAnalysis / CouplesAnalysis (built through the verif constructors '
             'leaves.VerifC17New*Result, unexported fields included) or one bare matrix. Observed on the real code: Serialize(result, true, w) '
             '(ok / error / panic), the written bytes re-read with gogo proto.Unmarshal as the protobuf message, Deserialize(bytes) and the '
             'decoded result, Serialize(result, false, w) parsed strictly into the token grid of every PrintMatrix block; for bare matrices '
             'the direct outputs of pb.ToBurndownSparseMatrix, pb.DenseToCompressedSparseRowMatrix and yaml.PrintMatrix. '
             'Streams: ex-matrix / ex-global / ex-people = exhaustive small scopes; bd, dv, cp = random results inside the domain of the '
             'theorems (1x1, single row/column, zero columns, all-zero rows, trailing zeros and trailing negatives, sparse rows, cells at '
             '2^31 and 2^32-1, negative cells down to -2^62, empty file / people lists, empty string and unicode / quote / newline / '
             'YAML-looking names, AuthorMissing keys, explicit zero map entries, int64 extremes in the people matrix, arbitrary tick sizes); '
             'cp-loaded-dict = couples with the pseudo-developer named; bd-out, dv-out, cp-out = counters, keys and dimensions outside the '
             'cast ranges (without key collisions); bd-malformed, cp-malformed = ragged or empty matrices, missing names, nil / empty people '
             'matrix, ownership of unknown files, FilesLines of the wrong length; bd-loaded-dict and bd-no-ownership = the two known '
             'deviations (C17-K1, C17-K2). '
             'Scale family (kinds sc-mx, sc-bd, sc-dv, sc-cp; harness/cmd/c17/scale.go): LARGE values on every size axis of the three result '
             'types - matrix rows, matrix columns, one long row, burndown samples / bands / files / ownership-table entries / developers '
             '(n x (n+2) interaction matrix), triangular histories, devs ticks / developers of one tick / languages of one developer, couples '
             'files / developers / entries of one map row / both / a loaded dictionary - at the sizes 7..65 (all), c-1 | c | c+1 around 128, 256, '
             '512, 1000 (one per axis, rotating with the seed), 1029 and one of 1023 / 1024 / 1025 / 2048 / 2051 per axis in the quick tier; '
             'all of these plus 4095 .. 16385 and 32769 .. 100003 in the thorough tier (2^8, 2^15, 2^16 straddled; most sizes are not multiples '
             'of 8; the last rows / columns / entries are never empty; cell values periodic with periods 2^k and 2^k+-1, cells at 2^31 and '
             '2^32-1, rows whose stored cells sum to exact multiples of 2^32). Kinds ending in -xl (sizes above 4100 on the axes where the list '
             'model is quadratic: map insertion, CSR slices) and histories wider than 8200 cells (Coq List.rev is quadratic) are judged by the '
             'property oracle only: decoded == extracted normalise(input), extracted shape oracle on the printed grids. '
             'Content family (round 4; kinds ct-*, harness/cmd/c17/content.go): ct-bd-name / ct-dv-name / ct-cp-name = file, developer and '
             'language names taken from GROUPS of valid UTF-8 names that a normalisation would make equal, the members of a group together in '
             'one result (U+FFFD as real content next to ? and to its neighbours U+FFFC / U+FFFE / U+FFFF, BOMs and invisible characters, '
             'ASCII and Unicode white space incl. NBSP / U+2028 / U+3000, LF / CRLF / lone CR, NUL and control bytes, case variants incl. '
             'dotless i / Kelvin sign / sharp s, composed and decomposed forms, spellings of one path, common prefixes and suffixes incl. '
             'noreply e-mails with and without the numeric id, hash-like names agreeing in 1 / 2 / 4 / 7 / 8 hex digits, numbered names at the '
             'widths 9 | 10 | 11 .. 1001, YAML scalars and indicators, names of 127 / 128 / 129 / 16383 / 16384 bytes), every group whole, every '
             'member alone and next to its neighbour, random mixtures of two groups; tick sizes 1 ns, 1 s, 1 h, 7 d, 30 d, odd values and the '
             'int64 extremes rotate through these results; couples with and without the named pseudo-developer. ct-*-badutf8 = the same results '
             'with one name that is NOT valid UTF-8 (lone lead / continuation bytes, Latin-1, overlong forms, surrogates, > U+10FFFF, truncated '
             'sequences) among them: outside the domain (proto3 Marshal refuses them), the driver only checks that binary Serialize returns an '
             'error (hand-written RFC 3629 predicate in the driver; a sanitiser shows as a mismatch). ct-mx-dec / ct-bd-dec = cells at the '
             'decimal widths 10^k - 1, 10^k, 10^k + 1 (k = 1 .. 18 for bare matrices and the interaction matrix, k <= 9 for history cells), both '
             'signs, both values of fixNegative, 18 templates each (the cell as the widest of the matrix or not, first / inner / last column, '
             'first / later row, next to cells with one digit less, with clamped negatives and trailing zeros), in the project, file, developer and '
             'interaction matrices of one result at once; a printed row that is not a sequence of integers (glued cells) is a property failure. '
             'ct-*-cnt = the sizes 10, 99, 100, 101 on every size axis of the scale family. Non-trivial: burndown = a non-zero global cell and more than one cell, file or developer; '
             'devs = at least one (tick, developer) entry; couples = at least one file and one non-empty matrix row; matrix = non-zero and '
             'more than one cell. Distinct = distinct input value.',
        exhaustive_note='every matrix with 1..2 rows and 0..3 columns (2x3 only in the thorough tier) over the cells {-1, 0, 1, 2^32-1} through '
                        'ToBurndownSparseMatrix, DenseToCompressedSparseRowMatrix and PrintMatrix; every burndown result whose global history '
                        'is a matrix with 1..2 rows and 0..2 columns over the same cells; every 1x3 people matrix over {-1,0,1} and every 2x4 '
                        'people matrix over {0,1} (thorough: {-1,0,1})',
        assumptions=[
            'gogo/protobuf proto.Marshal / proto.Unmarshal is external code: the theorems hold for every pair of functions with '
            'unmarshal (marshal m) = Some m on the message type (hypothesis of C17_burndown, C17_devs, C17_couples); the real pair is '
            'exercised on every harness case (the bytes are decoded both by Deserialize and, independently, into the message that is '
            'compared with the model\'s message image). proto.Marshal refusing a nil element of a repeated field is modelled as the error '
            'result of encode_burndown.',
            'a Go string is the list of its bytes; names are valid UTF-8 in all in-domain streams (proto3 strings): a result with a file, developer '
            'or language name that is not valid UTF-8 (git enforces no encoding of paths and signatures) cannot be written in the binary format at '
            'all - gogo Marshal returns an error (stream ct-*-badutf8 checks exactly this outcome); the text format writes the bytes as they are',
            'a Go map is modelled by its canonical association list (keys strictly increasing; bytewise order for strings); nil and empty '
            'maps, nil and empty slices are identified, except BurndownResult.PeopleMatrix where the code tests for nil',
            'Go int is 64 bit; time.Duration is an int64, so int64(tickSize) converts nothing',
            'where int32 casts make two map keys collide the Go result depends on map iteration order; the out-of-range streams avoid '
            'collisions and the theorems exclude them by the range hypotheses',
            'known deviations, kept as known findings and excluded from the theorem by explicit hypotheses: C17-K1 (more developer names than '
            'people histories: the extra names are dropped, C17_burndown_names_refuted) and C17-K2 (a file history without ownership table '
            'gets an empty one, C17_burndown_ownership_refuted); C17_burndown_image states what the round trip computes in both cases',
        ],
        trusted_base=[
            'hand-written Gallina model coq/theories/Results/PB.v of internal/pb/utils.go (ToBurndownSparseMatrix, '
            'DenseToCompressedSparseRowMatrix, MapToCompressedSparseRowMatrix) and of serializeBinary / Deserialize in leaves/burndown.go, '
            'leaves/devs.go, leaves/couples.go, and coq/theories/Results/Yaml.v of yaml.PrintMatrix and the matrix sequence of '
            'BurndownAnalysis.serializeText; tied to the code by the replay of every harness case (message image, decoded result, '
            'error/panic outcome, token grids)',
            'gogo/protobuf (Marshal/Unmarshal and the generated pb.pb.go) is assumed, not modelled',
            'add-only hook files /repo/leaves/verif_c17.go (constructors and getters for the unexported result fields) and '
            '/repo/verifapi/c17/c17.go (re-exports of internal/pb, internal/yaml, plumbing.LineStats, identity.AuthorMissing); build tag verif',
            'the strict parser of the burndown text format in harness/cmd/c17 (PrintMatrix blocks of two consecutive empty names cannot be '
            'told apart in the text; such cases are counted as text_ambiguous_empty_names and not judged)',
        ],
        level_text='Coq theorems over ALL result values of the Gallina model: C17_sparse_codec (of_sparse (to_sparse m) = clamp m: negatives '
                   'clamped, dropped trailing zero columns restored as zeros), C17_sparse_truncates, C17_csr_dense_codec and '
                   'C17_csr_map_codec (csr_decode (csr_encode m) = m), C17_burndown (decode (encode r) = normalise r where normalise only '
                   'clamps negative history cells; hypotheses: well-shaped, every file history has an ownership table, as many names as '
                   'people histories, cells < 2^32, int32 counters), C17_burndown_image (what the round trip computes without the two '
                   'alignment hypotheses) with C17_burndown_image_aligned, C17_burndown_names_refuted and C17_burndown_ownership_refuted '
                   '(witnesses of the two known deviations), C17_devs (decode (encode r) = r, AuthorMissing <-> -1), C17_couples (decode '
                   '(encode r) = r with PeopleFiles cut to len(reversedPeopleDict) rows: the pseudo-developer\'s touched-files list), '
                   'C17_text_shape_matrix / C17_text_shape (every printed matrix has len(matrix) lines of len(last row) numbers), '
                   'C17_text_total, C17_text_cells; all closed under the global context, with computed Examples inside and outside the '
                   'ranges. The model is replayed against the real code on every run.',
        level_note='Proved about the model, tied to the Go code by correspondence only. Modelled rather than verified: all Go code; the '
                   'protobuf wire format is an assumption (identity on messages), so a defect of gogo/protobuf or of the generated code would '
                   'only be seen by the harness. Outside the stated ranges the casts wrap silently (cells >= 2^32, counters/keys outside '
                   'int32: C17_sparse_out_of_range, C17_burndown_outside, C17_devs_outside), an empty GlobalHistory makes Deserialize panic, '
                   'an empty people history makes Marshal fail, FilesLines/Files of different lengths make Deserialize return an error, fewer '
                   'PeopleFiles rows than names make Serialize panic (C17_couples_outside); none of these shapes is produced by Finalize. '
                   'Only the tokens of the text format are modelled, not its padding, quoting or YAML validity (a developer or file with the '
                   'empty name is printed without its block header). The text formats of devs and couples contain no PrintMatrix block; they '
                   'are only run (no panic) on every case.',
        technique='machine-checked proof in Coq over a Gallina model (canonical-map library with permutation/sortedness argument, codec '
                  'lemmas composed per result type) + model/implementation correspondence replay with extracted model and oracles '
                  '(decoded == extracted normalise(input); extracted text-shape check) + scale family (every size axis at 7 .. 10^5, oracle-only '
                  'judgement where the list model is quadratic) + content family (name groups that a normalisation would collapse, invalid UTF-8, '
                  'cells at every decimal width)',
    )
