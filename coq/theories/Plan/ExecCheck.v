(* C02 at the level of the EXECUTION of a plan by the real [Pipeline.Run].

   A stateful recording pipeline item (harness/cmd/c02run) keeps the commits it has consumed (its own
   Consume calls, what it inherited through Fork, what it received through Merge) and the commit it
   consumed last, and writes one record per Consume call: the commit, what it had seen before, the last
   one.  Below: what C02 says about such a log, given only the commit graph (declarative part, nothing
   refers to the checker), and the executable oracle [exec_ok].  No plan appears anywhere: the planner is
   not deterministic across calls, so the log is judged against the graph alone.
   Definitions only; soundness is in ExecCheckSound.v. *)
From Coq Require Import List ZArith Bool Arith Lia.
From Herc Require Import Plan.Syntax Plan.Exec Plan.Graph Plan.Checker Plan.Spec.
Import ListNotations.
Local Open Scope nat_scope.

(* one Consume call on one instance of the recording item: [rc_seen] = the commits the instance had
   incorporated before the call, [rc_last] = the commit this instance consumed last (None: none yet) *)
Record consume_record := mkR { rc_commit : nat; rc_seen : list nat; rc_last : option nat }.

Notation exec_log := (list consume_record) (only parsing).

(* the commits consumed, in order, with repetitions *)
Definition consumed (log : exec_log) : list nat := map rc_commit log.

(* for every Consume of c, in order: the commit the consuming instance had consumed last *)
Definition lasts_at (c : nat) (log : exec_log) : list (option nat) :=
  map rc_last (filter (fun r => rc_commit r =? c) log).

(* ---------- declarative ---------- *)

(* the instance had analysed exactly the ancestors (or self) of one parent q of the commit, q last -
   or it is fresh (has analysed nothing) and the commit has no parent in the analysed set *)
Definition record_ok (g : dag) (r : consume_record) : Prop :=
  rc_commit r < length g /\
  match rc_last r with
  | None => rc_seen r = [] /\ parents g (rc_commit r) = []
  | Some q => In q (parents g (rc_commit r)) /\ forall a, In a (rc_seen r) <-> Anc g a q
  end.

Record exec_spec (g : dag) (log : exec_log) : Prop := {
  (* every commit of the retained (largest) connected component is consumed, and nothing else *)
  ex_retained : retained g (consumed log);
  (* every Consume happens on exactly the ancestry of one parent, that parent last; a commit
     without parents is consumed by a fresh instance *)
  ex_records : forall r, In r log -> record_ok g r;
  (* a commit is consumed once per non-redundant parent (Spec.v [lasts_ok]: the parents consumed last
     by the consuming instances are the non-redundant parents, each once; a root: once, nothing before) *)
  ex_replays : forall c, In c (consumed log) -> lasts_ok g c (lasts_at c log)
}.

(* ---------- executable ---------- *)

Section ExecCheck.
  Variable g : dag.
  Variable tab : list (list nat).   (* = anc_tab g *)

  Definition record_okb (r : consume_record) : bool :=
    (rc_commit r <? length g) &&
    match rc_last r with
    | None => match rc_seen r, parents g (rc_commit r) with [], [] => true | _, _ => false end
    | Some q => memn q (parents g (rc_commit r)) && seteqn (rc_seen r) (anc_of tab q)
    end.

  Definition exec_check (log : exec_log) : bool :=
    retainedb g (consumed log) &&
    forallb record_okb log &&
    forallb (fun c => lasts_okb g tab c (lasts_at c log)) (dedupn (consumed log)).
End ExecCheck.

Definition exec_ok (g : dag) (log : exec_log) : bool :=
  topob g && exec_check g (anc_tab g) log.
