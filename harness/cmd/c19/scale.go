// Streams added in the strengthening round (docs/STRENGTHEN_BRIEF.md):
//
//	life, exlife  the lifecycle of the item: Configure -> Initialize -> Consume* -> (init v) -> Consume* ...;
//	              an init operation initialises the SAME item again, as Pipeline.Initialize does when a
//	              pipeline is run twice (v = 0: Initialize only; Configure + Initialize with 1: the same facts
//	              map as it is, 2: a fresh facts map, 3: the same map with the option set again) and drops the forks
//	tz            committer zones (0, whole hours, +-30 and +-45 minute zones, zone changes along the
//	              history) x every tick size (1 h .. 30 d and odd sizes), times around period boundaries
//	              counted in UTC and in local wall-clock time
//	straddle      tick VALUES at c-1, c, c+1 for the machine constants 2^8, 2^10, 2^15, 2^16, 2^24, 2^31, 2^32
//	scale-*       LARGE analyses (10^3 .. 10^4 commits, thorough: 10^5) followed by a second and a third
//	              analysis on the same item; sizes straddle 1024 (1023 .. 1026 distinct ticks), 2^8 branches
package main

import (
	"fmt"
	"time"

	. "verifharness/lib"
)

// ---------------------------------------------------------------- lifecycle, small

func shiftHashes(ops []op, off int) {
	for i := range ops {
		if ops[i].kind == "c" {
			ops[i].hash += off
		}
	}
}

// two to four analyses on one item; the later ones either analyse the same commits again (same
// hashes) or fresh ones
func lifecycle(c *Config, dsec int64) []op {
	r := c.Rng
	var ops []op
	phases := 2 + r.Intn(3)
	fresh := r.Intn(2) == 0
	for p := 0; p < phases; p++ {
		var ph []op
		switch r.Intn(4) {
		case 0:
			ph = linear(c, dsec, r.Intn(4), r.Intn(2) == 0) // possibly an analysis without a commit
		case 1:
			ph = linear(c, dsec, 1+r.Intn(8), r.Intn(2) == 0)
		default:
			ph = history(c, dsec, r.Intn(2) == 0, false)
		}
		if fresh {
			shiftHashes(ph, 64*p)
		}
		if p > 0 {
			ops = append(ops, op{kind: "init", v: r.Intn(4)})
		}
		ops = append(ops, ph...)
	}
	if r.Intn(6) == 0 {
		ops = append(ops, op{kind: "init", v: r.Intn(4)})
	}
	return ops
}

// every pair of analyses of up to 2 commits each (times from 4 offsets around a period boundary,
// the second analysis 5 periods later) x 4 ways of initialising again x same / fresh hashes
func exhaustiveLife(c *Config, hours int64, base int64) {
	dsec := hours * 3600
	offs := []int64{-1, 0, dsec - 1, dsec}
	seqs := [][]int64{{}}
	for _, a := range offs {
		seqs = append(seqs, []int64{a})
	}
	for _, a := range offs {
		for _, b := range offs {
			seqs = append(seqs, []int64{a, b})
		}
	}
	lin := func(ts []int64, base int64, hoff int) []op {
		var ops []op
		for i, t := range ts {
			ops = append(ops, op{kind: "c", b: 0, idx: i, hash: hoff + i + 1, sec: base + t, parents: min(i, 1)})
		}
		return ops
	}
	for _, s1 := range seqs[1:] {
		for _, s2 := range seqs {
			for v := 0; v < 4; v++ {
				for fresh := 0; fresh < 2; fresh++ {
					ops := lin(s1, base, 0)
					ops = append(ops, op{kind: "init", v: v})
					ops = append(ops, lin(s2, base+5*dsec, 10*fresh)...)
					emit(c, "exlife", cfg{kind: "hours", v: hours}, ops)
				}
			}
		}
	}
}

// ---------------------------------------------------------------- time zones

var tzZones = []int{0, 60, -60, 120, 540, -480, 330, 345, -210, 570, 765, 525, -570, 840, -720, 20}

var tzOddSizes = []int64{int64(30 * time.Minute), int64(45 * time.Minute), int64(90 * time.Minute), int64(7 * time.Hour),
	int64(25 * time.Hour), int64(time.Second), int64(1001 * time.Millisecond), int64(13 * time.Hour), int64(36 * time.Hour)}

func tzCase(c *Config) (cfg, []op) {
	r := c.Rng
	var cf cfg
	if r.Intn(3) == 0 {
		cf = cfg{kind: "direct", v: tzOddSizes[r.Intn(len(tzOddSizes))]}
	} else {
		cf = cfg{kind: "hours", v: hoursChoices[r.Intn(len(hoursChoices))]}
	}
	d := tickNs(cf)
	dsec := d / 1000000000
	if dsec < 1 {
		dsec = 1
	}
	z1, z2 := tzZones[r.Intn(len(tzZones))], tzZones[r.Intn(len(tzZones))]
	pattern := r.Intn(4)
	zone := func(i int) int {
		switch pattern {
		case 0:
			return z1
		case 1:
			if i%2 == 0 {
				return z1
			}
			return z2
		case 2:
			if i == 0 {
				return z1
			}
			return z2
		default:
			return tzZones[r.Intn(len(tzZones))]
		}
	}
	// a period boundary counted from year 1, between 1970 and 2033
	k := (zeroOff + int64(r.Intn(2000000000))) / dsec
	bnd := k*dsec - zeroOff
	b := &builder{last: []int64{0}, nbr: 1, next: 1}
	n := 1 + r.Intn(5)
	forked := false
	mono := r.Intn(2) == 0
	var prev int64 = -1 << 62
	for i := 0; i < n; i++ {
		z := zone(i)
		zs := int64(z) * 60
		deltas := []int64{0, -1, 1, zs, -zs, zs - 1, -zs + 1, zs + 1, -zs - 1, dsec / 2, dsec - 1, zs % 3600, -(zs % 3600), 3600 - zs%3600}
		t := bnd + int64(r.Intn(3))*dsec*int64(i) + deltas[r.Intn(len(deltas))]
		if mono && t < prev {
			t = prev
		}
		prev = t
		par := 1
		if i == 0 {
			par = 0
		}
		br := 0
		if forked {
			br = r.Intn(b.nbr)
		}
		b.ops = append(b.ops, op{kind: "c", b: br, idx: b.idx, hash: b.next, sec: t, parents: par, tz: z})
		b.idx++
		b.next++
		if r.Intn(3) == 0 {
			b.ops = append(b.ops, op{kind: "floor", sec: t, d: d, tz: z})
		}
		if !forked && r.Intn(4) == 0 {
			b.fork(0, 1)
			forked = true
		}
	}
	if r.Intn(5) == 0 {
		// and once more on the same item, in other zones
		b.init(r.Intn(4))
		for i := 0; i < 2; i++ {
			b.ops = append(b.ops, op{kind: "c", b: 0, idx: i, hash: 50 + i, sec: bnd + int64(i)*dsec - 1, parents: i, tz: zone(i + 1)})
		}
	}
	return cf, b.ops
}

// ---------------------------------------------------------------- tick values at machine constants

var straddleConsts = []int64{1 << 8, 1 << 10, 1 << 15, 1 << 16, 1 << 24, 1 << 31, 1 << 32}

func straddleCase(c *Config) (cfg, []op) {
	r := c.Rng
	k0 := straddleConsts[r.Intn(len(straddleConsts))]
	sizes := []int64{int64(time.Hour), int64(24 * time.Hour), int64(90 * time.Minute), int64(time.Second), int64(time.Millisecond), int64(time.Microsecond), 1}
	var d int64
	for {
		d = sizes[r.Intn(len(sizes))]
		if float64(k0+3)*float64(d) < 8.5e18 {
			break
		}
	}
	cf := cfg{kind: "direct", v: d}
	if d == int64(time.Hour) && r.Intn(2) == 0 {
		cf = cfg{kind: "hours", v: 1}
	} else if d == int64(24*time.Hour) && r.Intn(2) == 0 {
		cf = cfg{kind: "hours", v: 24}
	}
	dsec := d / 1000000000
	if dsec < 1 {
		dsec = 1
	}
	// the first commit sits on a period boundary (whole seconds are boundaries of the sub-second sizes)
	base := ((zeroOff+int64(r.Intn(2000000000)))/dsec)*dsec - zeroOff
	b := &builder{last: []int64{0}, nbr: 1, next: 1}
	b.consume(c, 0, b.next, base, 0, 0)
	b.next++
	if r.Intn(3) == 0 {
		b.fork(0, 1)
	}
	for i, n := 0, 1+r.Intn(4); i < n; i++ {
		k := k0 + int64(r.Intn(3)) - 1
		if r.Intn(6) == 0 {
			k = straddleConsts[r.Intn(len(straddleConsts))] - 1 + int64(r.Intn(3))
			if float64(k+3)*float64(d) >= 8.5e18 {
				k = k0
			}
		}
		// k whole periods and a fraction of one after the boundary
		total := k * d // fits: < 8.5e18
		var frac int64
		switch r.Intn(3) {
		case 0:
			frac = 0
		case 1:
			frac = d - 1
		default:
			frac = r.Int63n(d)
		}
		off := total + frac // < 8.6e18
		sec, ns := base+off/1000000000, off%1000000000
		b.consume(c, r.Intn(b.nbr), b.next, sec, ns, 1)
		b.next++
	}
	return cf, b.ops
}

// ---------------------------------------------------------------- scale

// scaleSpec describes one large case: a large analysis, then (init v) and a short one, possibly
// a third.
type scaleSpec struct {
	shape string // asc | walk | desc | onetick | period | branches | chain
	cf    cfg
	n     int // commits of the large analysis (asc: = distinct ticks); branches: number of branches; chain: depth
	k     int // branches: commits per branch; period: the period
	v     int // how the item is initialised again
	again string // short | long | same : what the second analysis is
}

func (s scaleSpec) kind() string {
	return fmt.Sprintf("scale-%s", s.shape)
}

// the large analysis, appended to b; base is a period boundary
func scalePhase(c *Config, b *builder, s scaleSpec, dsec, base int64, hoff int) {
	r := c.Rng
	h := func(i int) int { return hoff + i + 1 }
	par := func(i int) int {
		if i == 0 {
			return 0
		}
		return 1
	}
	switch s.shape {
	case "asc":
		// one commit in every period: exactly n distinct ticks 0 .. n-1
		for i := 0; i < s.n; i++ {
			b.consume(c, 0, h(i), base+int64(i)*dsec+r.Int63n(dsec), 0, par(i))
		}
	case "walk":
		// a random walk of the committer time: ticks raised now and then, periods skipped, shared
		t := base
		for i := 0; i < s.n; i++ {
			b.consume(c, 0, h(i), t, 0, par(i))
			t += pickDelta(c, dsec, false)
			if t < base-3*dsec {
				t = base
			}
		}
	case "desc":
		// descending times: every commit is raised to tick 0, one registry entry holds them all
		for i := 0; i < s.n; i++ {
			b.consume(c, 0, h(i), base-int64(i)*(dsec/7+1), 0, par(i))
		}
	case "onetick":
		// non-decreasing times inside ONE period: one registry entry holds all n commits.  A merge commit
		// is consumed on branch 0 right after the first commit and replayed on branch 1 at the very end,
		// when it sits n entries deep in commits[0]: times are monotone, so it must stay listed exactly once
		b.consume(c, 0, h(0), base, 0, 0)
		b.fork(0, 1)
		b.consume(c, 0, h(1), base+1, 0, 2)
		for i := 2; i < s.n; i++ {
			b.consume(c, 0, h(i), base+1+int64(i)*(dsec-2)/int64(s.n), 0, 1)
		}
		b.consume(c, 1, h(1), base+1, 0, 2)
		b.ops = append(b.ops, op{kind: "merge", bs: []int{0, 1}})
	case "period":
		// the period number is periodic with period k inside blocks (a permutation of the block)
		p := int64(s.k)
		for i := 0; i < s.n; i++ {
			blk, j := int64(i)/p, int64(i)%p
			b.consume(c, 0, h(i), base+(blk*p+(j*7)%p)*dsec+r.Int63n(dsec), 0, par(i))
		}
	case "branches":
		// one commit, Fork into n branches, k commits on every branch round-robin (every commit in a
		// period of its own, times monotone along every branch), then pairwise merges
		b.consume(c, 0, h(0), base, 0, 0)
		b.fork(0, s.n-1)
		next := 1
		for i := 0; i < s.k; i++ {
			for j := 0; j < s.n; j++ {
				b.consume(c, j, h(next), base+int64(1+i*s.n+j)*dsec+r.Int63n(dsec), 0, 1)
				next++
			}
		}
		t := base + int64(2+s.k*s.n)*dsec
		for j := 0; j+1 < s.n; j += 2 {
			b.consume(c, j, h(next), t, 0, 2)
			b.consume(c, j+1, h(next), t, 0, 2)
			b.ops = append(b.ops, op{kind: "merge", bs: []int{j, j + 1}})
			next++
			if j%16 == 0 {
				t += dsec
			}
		}
	case "chain":
		// a chain of forks: branch i consumes one commit and forks branch i+1
		for i := 0; i < s.n; i++ {
			b.consume(c, i, h(i), base+int64(i)*dsec/2, 0, par(i))
			b.fork(i, 1)
		}
	}
}

func scaleCase(c *Config, s scaleSpec) {
	d := tickNs(s.cf)
	dsec := d / 1000000000
	base := ((zeroOff+946684800)/dsec)*dsec - zeroOff // the period boundary before 2000-01-01
	if s.shape == "desc" {
		base += 86400 * 365 * 20
	}
	b := &builder{last: []int64{0}, nbr: 1, next: 1}
	scalePhase(c, b, s, dsec, base, 0)
	b.init(s.v)
	short := func(hoff int, at int64) {
		for i := 0; i < 6; i++ {
			p := 1
			if i == 0 {
				p = 0
			}
			b.consume(c, 0, hoff+i+1, at+int64(i)*dsec+c.Rng.Int63n(dsec), 0, p)
		}
	}
	switch s.again {
	case "short":
		// six fresh commits, one per period, three periods after the start of the large analysis
		short(1<<24, base+3*dsec)
	case "same":
		// the same history is analysed again, then six of its commits a third time
		scalePhase(c, b, s, dsec, base, 0)
		b.init((s.v + 1) % 4)
		short(0, base)
	case "long":
		// a second large analysis of fresh commits, then a third, short one
		scalePhase(c, b, s, dsec, base+5*dsec, 1<<24)
		b.init((s.v + 2) % 4)
		short(1<<25, base-2*dsec)
	}
	if !spanOK(s.cf, b.ops) {
		panic("scale case outside the range of time.Duration: " + s.kind())
	}
	emit(c, s.kind(), s.cf, b.ops)
}

func scaleSpecs(c *Config) []scaleSpec {
	h24, h1 := cfg{kind: "hours", v: 24}, cfg{kind: "hours", v: 1}
	h7d, h30d := cfg{kind: "hours", v: 24 * 7}, cfg{kind: "hours", v: 24 * 30}
	m90 := cfg{kind: "direct", v: int64(90 * time.Minute)}
	specs := []scaleSpec{
		// distinct ticks around 2^10, every way of initialising again
		{shape: "asc", cf: h24, n: 1000, v: 1, again: "short"},
		{shape: "asc", cf: h24, n: 1023, v: 0, again: "short"},
		{shape: "asc", cf: h24, n: 1024, v: 3, again: "short"},
		{shape: "asc", cf: h24, n: 1025, v: 0, again: "short"},
		{shape: "asc", cf: h24, n: 1025, v: 1, again: "short"},
		{shape: "asc", cf: h1, n: 1025, v: 2, again: "short"},
		{shape: "asc", cf: h24, n: 1026, v: 2, again: "same"},
		{shape: "asc", cf: h7d, n: 1025, v: 1, again: "short"},
		{shape: "asc", cf: h30d, n: 1100, v: 0, again: "short"},
		{shape: "asc", cf: m90, n: 2000, v: 1, again: "long"},
		{shape: "asc", cf: h1, n: 2000, v: 2, again: "short"},
		{shape: "asc", cf: h24, n: 10000, v: c.Rng.Intn(4), again: "short"},
		{shape: "walk", cf: h24, n: 2000, v: 1, again: "same"},
		{shape: "walk", cf: h1, n: 10000, v: c.Rng.Intn(4), again: "short"},
		// one registry entry with 2^10 +- commits
		{shape: "desc", cf: h24, n: 1025, v: 1, again: "short"},
		{shape: "desc", cf: h1, n: 2000, v: 0, again: "same"},
		{shape: "onetick", cf: h24, n: 1023, v: 3, again: "short"},
		{shape: "onetick", cf: h24, n: 1100, v: 1, again: "short"},
		{shape: "onetick", cf: h7d, n: 2100, v: 2, again: "same"},
		// periodic period numbers, periods 2^k and 2^k +- 1
		{shape: "period", cf: h24, n: 3000, k: 63, v: 3, again: "short"},
		{shape: "period", cf: h24, n: 3000, k: 64, v: 2, again: "short"},
		{shape: "period", cf: h1, n: 3000, k: 65, v: 0, again: "short"},
		{shape: "period", cf: h24, n: 3100, k: 1023, v: 1, again: "short"},
		{shape: "period", cf: h1, n: 3100, k: 1024, v: 2, again: "short"},
		{shape: "period", cf: h24, n: 3100, k: 1025, v: 0, again: "short"},
		// many branches alive, 2^8 +- 1 and 10^3
		{shape: "branches", cf: h24, n: 255, k: 5, v: 1, again: "short"},
		{shape: "branches", cf: h24, n: 256, k: 5, v: 2, again: "short"},
		{shape: "branches", cf: h1, n: 257, k: 5, v: 0, again: "same"},
		{shape: "branches", cf: h24, n: 1000, k: 3, v: 1, again: "short"},
		// a deep chain of forks
		{shape: "chain", cf: h24, n: 1100, v: 1, again: "short"},
	}
	if c.Thorough() {
		specs = append(specs,
			scaleSpec{shape: "asc", cf: h1, n: 100000, v: 1, again: "short"},
			scaleSpec{shape: "asc", cf: h24, n: 100000, v: 0, again: "long"},
			scaleSpec{shape: "asc", cf: h1, n: 65537, v: 2, again: "same"},
			scaleSpec{shape: "asc", cf: h1, n: 32769, v: 0, again: "short"},
			scaleSpec{shape: "walk", cf: cfg{kind: "hours", v: 2}, n: 100000, v: 2, again: "short"},
			scaleSpec{shape: "walk", cf: h1, n: 100000, v: 1, again: "same"},
			scaleSpec{shape: "desc", cf: h24, n: 10000, v: 2, again: "short"},
			scaleSpec{shape: "onetick", cf: h30d, n: 10000, v: 3, again: "short"},
			scaleSpec{shape: "period", cf: h1, n: 100000, k: 4097, v: 1, again: "short"},
			scaleSpec{shape: "period", cf: h1, n: 30000, k: 65535, v: 0, again: "short"},
			scaleSpec{shape: "branches", cf: h1, n: 10000, k: 3, v: 1, again: "short"},
			scaleSpec{shape: "branches", cf: h1, n: 1000, k: 100, v: 2, again: "short"},
			scaleSpec{shape: "chain", cf: h24, n: 3000, v: 0, again: "short"},
		)
	}
	return specs
}

// ---------------------------------------------------------------- entry point of the new streams

func strengthenStreams(c *Config) {
	pick := func() int64 { return hoursChoices[c.Rng.Intn(len(hoursChoices))] }
	exhaustiveLife(c, 24, 1577836800)
	if c.Thorough() {
		exhaustiveLife(c, 1, 1600000000-1600000000%3600)
		exhaustiveLife(c, 24*7, 1262304000)
	}
	for i := c.Count(4000, 80000); i > 0; i-- {
		emitInRange(c, "life", func() (cfg, []op) {
			h := pick()
			return cfg{kind: "hours", v: h}, lifecycle(c, h*3600)
		})
	}
	for i := c.Count(5000, 100000); i > 0; i-- {
		emitInRange(c, "tz", func() (cfg, []op) { return tzCase(c) })
	}
	for i := c.Count(1500, 30000); i > 0; i-- {
		emitInRange(c, "straddle", func() (cfg, []op) { return straddleCase(c) })
	}
	for _, s := range scaleSpecs(c) {
		scaleCase(c, s)
	}
}
