// Harness for C02: drives the real run planner (internal/core/forks.go prepareRunPlan, distance 0) on
// fabricated commit graphs and records the plans.  Every graph is planned twice (Go's map iteration
// order varies between runs; the second planning also receives the commits in reversed slice order).
// Every fabricated commit carries a committer timestamp (Graph.Times: none, equal, growing, falling, random,
// skewed, tied): the planner must not depend on it.  Kinds wide / ffdeep: forks and octopus merges of more than
// eight branches; fast-forward edges whose alternative path is 2..140 commits long.  Kinds scale-*: histories
// with 10^3 .. 10^6 branches / commits (planlib.ScaleGraph), planned once and judged by the fast validator.
package main

import (
	"flag"
	"fmt"
	"sync"

	"gopkg.in/src-d/hercules.v10/verifapi"
	. "verifharness/lib"
	pl "verifharness/planlib"
)

// styled is a graph with what the fabricated commits are made of: the hash style and the zone mode (r4.go).
type styled struct {
	pl.Graph
	Hst, Tzm int
}

func plain(g pl.Graph) styled { return styled{Graph: g} }

func plansOf(g styled) Sx {
	return pl.Guard("plans", func() Sx {
		cs, id := commitsOf(g.Graph, g.Hst, g.Tzm, false)
		p1 := verifapi.PrepareRunPlan(cs, 0)
		cs2, _ := commitsOf(g.Graph, g.Hst, g.Tzm, true)
		p2 := verifapi.PrepareRunPlan(cs2, 0)
		return T("plans", pl.PlanSx("plan", p1, id), pl.PlanSx("plan", p2, id))
	})
}

func caseFields(kind string, g styled, obs ...Sx) []Sx {
	fs := []Sx{T("kind", A(kind)), T("nt", B(g.NonTrivial())), T("hst", I(g.Hst)), T("tzm", I(g.Tzm))}
	fs = append(fs, g.Fields()...)
	fs = append(fs, T("obs", obs...))
	return fs
}

// sweep plans every DAG on n commits selected by keep under every hash order selected by takeOrder.
// With dedup, one case is written per (graph, distinct plan) with the number of plannings that produced
// it (the ranks are those of the first hash order that did).
func sweep(c *Config, kind string, n int, keep func(parents [][]int) bool, takeOrder func(k int) bool, dedup bool, workers, rep int) {
	perms := pl.Perms(n)
	total := pl.NumMasks(n)
	const batch = 512
	for start := 0; start < total; start += batch {
		end := start + batch
		if end > total {
			end = total
		}
		out := make([][][]Sx, end-start)
		var wg sync.WaitGroup
		next := make(chan int, batch)
		for w := 0; w < workers; w++ {
			wg.Add(1)
			go func() {
				defer wg.Done()
				for m := range next {
					parents := pl.DagFromMask(n, m)
					if !keep(parents) {
						continue
					}
					var lines [][]Sx
					seen := map[string]int{}
					var mult []int
					for k, ranks := range perms {
						if !takeOrder(k) {
							continue
						}
						g := plain(pl.FromParents(parents, ranks))
						g.Times = sweepTimes(n, m, k+rep)
						g.Hst, g.Tzm = sweepStyle(m, k, rep)
						obs := plansOf(g)
						if !dedup {
							lines = append(lines, caseFields(kind, g, obs))
							continue
						}
						// one case per distinct plan of this graph (either planning), with its multiplicity
						for _, one := range obs.Args() {
							key := one.String()
							if at, ok := seen[key]; ok {
								mult[at]++
								continue
							}
							seen[key] = len(lines)
							mult = append(mult, 1)
							lines = append(lines, caseFields(kind, g, T("plans", one)))
						}
					}
					if dedup {
						for i := range lines {
							last := len(lines[i]) - 1
							lines[i][last] = T("obs", T("mult", I(mult[i])), lines[i][last].Args()[0])
						}
					}
					out[m-start] = lines
				}
			}()
		}
		for m := start; m < end; m++ {
			next <- m
		}
		close(next)
		wg.Wait()
		for _, lines := range out {
			for _, l := range lines {
				c.Emit(l...)
			}
		}
	}
}

// scaleSpec describes one large case; it is re-generated from these numbers on replay.
type scaleSpec struct {
	shape              string
	size, hmode, tmode int
	gseed              int64
	hst                int // hash style (r4.go)
}

func scaleLine(sp scaleSpec) []Sx {
	g := pl.ScaleGraph(sp.shape, sp.size, sp.hmode, sp.tmode, sp.gseed)
	obs := pl.Guard("plans", func() Sx {
		cs, id := commitsOf(g, sp.hst, 0, false)
		return T("plans", pl.PlanSx("plan", verifapi.PrepareRunPlan(cs, 0), id))
	})
	fs := []Sx{T("kind", A("scale-"+sp.shape)), T("nt", B(true))}
	fs = append(fs, pl.ScaleFields(sp.shape, sp.size, sp.hmode, sp.tmode, sp.gseed, g)...)
	fs = append(fs, T("hst", I(sp.hst)))
	return append(fs, T("obs", obs))
}

// runScale plans the large cases on several workers (each needs up to a few hundred MB) and writes them in order.
func runScale(c *Config, specs []scaleSpec, workers int) func() {
	out := make([][]Sx, len(specs))
	var wg sync.WaitGroup
	next := make(chan int, len(specs))
	for i := range specs {
		next <- i
	}
	close(next)
	for w := 0; w < workers; w++ {
		wg.Add(1)
		go func() {
			defer wg.Done()
			for i := range next {
				// keep the rendered text only: the S-expression tree of a plan of 10^6 actions takes gigabytes
				fs := scaleLine(specs[i])
				txt := T("x", fs...).String()
				out[i] = []Sx{A(txt[3 : len(txt)-1])}
			}
		}()
	}
	return func() {
		wg.Wait()
		for i, fs := range out {
			c.Emit(fs...)
			out[i] = nil
		}
	}
}

// scaleSpecs: sizes 10^3 and 10^4 in every shape, and the branch-index boundary 2^16 (c-1, c, c+1 and above) in
// the quick tier; 10^5 in every shape and 10^6 in the cheap ones in the thorough tier.
func scaleSpecs(c *Config) []scaleSpec {
	r := c.Rng
	var specs []scaleSpec
	mk := func(shape string, size int) {
		specs = append(specs, scaleSpec{shape, size, r.Intn(3), r.Intn(pl.NumTimeModes), int64(r.Intn(1 << 30)), hashStyles[len(specs)%len(hashStyles)]})
	}
	for _, sh := range pl.ScaleShapes {
		mk(sh, 1000+r.Intn(25))
	}
	for _, sh := range []string{"comb", "diamonds", "roots", "ladder", "ffchain", "starmerge"} {
		mk(sh, 10000+r.Intn(300))
	}
	mk("bush", 3000+r.Intn(100))
	// the 16-bit boundary of a branch index, and the 8-bit / 15-bit ones
	for _, n := range []int{255, 256, 257, 32767, 32768, 32769, 65535, 65536, 65537} {
		mk("star", n)
	}
	// decimal widths of branch indexes and item counts (R4-5)
	for _, n := range []int{9, 10, 11, 99, 100, 101, 999, 1000, 1001} {
		mk("starmerge", n)
	}
	mk("comb", 65536+1+r.Intn(3000))
	if c.Thorough() {
		mk("diamonds", 65536+1+r.Intn(3000))
		mk("roots", 65536+1+r.Intn(3000))
		mk("starmerge", 65536+1+r.Intn(3000))
		for _, sh := range []string{"comb", "diamonds", "roots", "ladder", "ffchain", "star", "starmerge"} {
			mk(sh, 100000+r.Intn(3000))
		}
		mk("bush", 20000+r.Intn(1000))
		mk("spine", 1000000)
		mk("star", 300000)
		mk("comb", 1<<17+1+r.Intn(1000))
	}
	return specs
}

func main() {
	full := flag.Bool("full", false, "thorough tier: all 720 hash orders of every 6-commit DAG (19.2 M plans) instead of every sixth")
	scaleOnly := flag.Bool("scaleonly", false, "generate the large cases (kinds scale-*) only")
	c := Setup()
	defer c.Close()
	if c.Replay != "" {
		for _, cs := range c.ReplayCases() {
			get := func(name string) int {
				if f, ok := cs.Field(name); ok {
					return f.Args()[0].Int()
				}
				return 0
			}
			if shape, size, hmode, tmode, gseed, ok := pl.ParseScale(cs); ok {
				c.Emit(scaleLine(scaleSpec{shape, size, hmode, tmode, gseed, get("hst")})...)
				continue
			}
			g := styled{pl.ParseGraph(cs), get("hst"), get("tzm")}
			c.Emit(caseFields("replay", g, plansOf(g))...)
		}
		return
	}
	workers := 6
	if c.Thorough() {
		workers = 10
	}
	// the large cases are planned in the background while the small ones are generated, and written last
	emitScale := func() {}
	if c.Tier != "search" {
		emitScale = runScale(c, scaleSpecs(c), 3)
	}
	if *scaleOnly {
		emitScale()
		return
	}
	all := func(int) bool { return true }
	conn := func(p [][]int) bool { return pl.Connected(p) }
	disc := func(p [][]int) bool { return !pl.Connected(p) }
	// exhaustive: every DAG on <= 5 commits (connected and not) x every hash order
	// (<= 4 commits have too few hash orders to meet every hash style / timestamp mode: they are swept several times)
	reps := map[int]int{1: 16, 2: 16, 3: 8, 4: 4, 5: 1}
	for n := 1; n <= 5; n++ {
		for rep := 0; rep < reps[n]; rep++ {
			sweep(c, fmt.Sprintf("ex%d", n), n, conn, all, false, workers, rep)
		}
	}
	for n := 2; n <= 5; n++ {
		for rep := 0; rep < reps[n]; rep++ {
			sweep(c, fmt.Sprintf("exdisc%d", n), n, disc, all, false, workers, rep)
		}
	}
	if c.Tier == "thorough" { // not in the search tier: the sweep does not scale down
		off := int(c.Seed % 6)
		if off < 0 {
			off = 0
		}
		take := func(k int) bool { return k%6 == off }
		if *full {
			take = all
		}
		sweep(c, "ex6", 6, conn, take, true, workers, 0)
	}
	// every sampled / random case draws a timestamp mode, a hash style (the plain one in a quarter) and a zone mode
	times := func(g pl.Graph) styled {
		g.Times = timesFor(c.Rng.Intn(numTimeModes), g.N, c.Rng)
		s := styled{Graph: g, Tzm: c.Rng.Intn(2)}
		if c.Rng.Intn(4) != 0 {
			s.Hst = hashStyles[c.Rng.Intn(len(hashStyles))]
		}
		return s
	}
	// samples of 6- and 7-commit DAGs with random hash orders
	for i := c.Count(4000, 40000); i > 0; i-- {
		n := 6 + c.Rng.Intn(2)
		parents := pl.DagFromMask(n, c.Rng.Intn(pl.NumMasks(n)))
		g := times(pl.FromParents(parents, c.Rng.Perm(n)))
		c.Emit(caseFields(fmt.Sprintf("smp%d", n), g, plansOf(g))...)
	}
	// random histories up to 14 commits
	for i := c.Count(20000, 300000); i > 0; i-- {
		g := times(pl.RandomGraph(c.Rng, 14))
		c.Emit(caseFields("rnd", g, plansOf(g))...)
	}
	for i := c.Count(400, 8000); i > 0; i-- {
		g := times(pl.RandomGraph(c.Rng, 40))
		c.Emit(caseFields("rndbig", g, plansOf(g))...)
	}
	// forks of more than eight branches and octopus merges of more than eight parents
	for i := c.Count(160, 6000); i > 0; i-- {
		ps := pl.WideGraph(c.Rng, 18)
		g0 := pl.FromParents(ps, c.Rng.Perm(len(ps)))
		g0.Order = c.Rng.Perm(g0.N)
		g := times(g0)
		c.Emit(caseFields("wide", g, plansOf(g))...)
	}
	// fast-forward (redundant) edges whose alternative path is long: 2 .. 140 commits, with branch points in between
	for i := c.Count(120, 3000); i > 0; i-- {
		ps := pl.ScaleParents("ffchain", 6+c.Rng.Intn(40), c.Rng)
		g := times(pl.FromParents(ps, c.Rng.Perm(len(ps))))
		c.Emit(caseFields("ffdeep", g, plansOf(g))...)
	}
	if c.Thorough() { // alternative paths of up to 140 commits: seconds per case in plan_ok
		for i := c.Count(1, 60); i > 0; i-- {
			ps := pl.ScaleParents("ffchain", 60+c.Rng.Intn(80), c.Rng)
			g := times(pl.FromParents(ps, c.Rng.Perm(len(ps))))
			c.Emit(caseFields("ffdeep", g, plansOf(g))...)
		}
	}
	emitScale()
}
