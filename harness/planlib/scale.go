package planlib

// Large histories (generator family "scale" of the C02 / C04 harnesses), committer timestamp assignments and
// histories with very wide forks / merges.  A scale case is described by (shape, size, hmode, tmode, gseed) and
// re-generated from these on replay: the case line carries the parent lists only for the validator.

import (
	"math/rand"

	. "verifharness/lib"
)

// NumTimeModes is the number of timestamp assignments of TimesFor.
const NumTimeModes = 7

// TimesFor assigns committer timestamps (seconds after TimeBase) to the commits of a topologically numbered
// history: 0 none (zero time.Time), 1 all equal, 2 growing with the number, 3 falling with the number (every
// child older than its parents), 4 a random permutation, 5 growing but a few commits carry a clock that is one
// hour / one day behind, 6 random with many ties.
func TimesFor(mode, n int, r *rand.Rand) []int {
	if mode == 0 || n == 0 {
		return nil
	}
	ts := make([]int, n)
	switch mode {
	case 1:
		for i := range ts {
			ts[i] = 1000
		}
	case 2:
		for i := range ts {
			ts[i] = 60 * i
		}
	case 3:
		for i := range ts {
			ts[i] = 60 * (n - i)
		}
	case 4:
		for i, p := range r.Perm(n) {
			ts[i] = 60 * p
		}
	case 5:
		for i := range ts {
			ts[i] = 100000 + 60*i
			if r.Intn(3) == 0 {
				ts[i] -= 3600
				if r.Intn(2) == 0 {
					ts[i] -= 86400
				}
			}
		}
	default:
		for i := range ts {
			ts[i] = 60 * r.Intn(1+n/3)
		}
	}
	return ts
}

// SweepTimes is the timestamp assignment of the k-th hash order of the m-th DAG of an exhaustive sweep
// (deterministic; every mode occurs for every graph as k varies).
func SweepTimes(n, m, k int) []int {
	mode := (m + k) % NumTimeModes
	if mode == 0 {
		return nil
	}
	return TimesFor(mode, n, rand.New(rand.NewSource(int64(m)*7919+int64(k))))
}

// ScaleShapes lists the shapes of ScaleParents.
var ScaleShapes = []string{"comb", "diamonds", "star", "starmerge", "roots", "spine", "bush", "ladder", "ffchain"}

// ScaleParents builds the parent lists (topological numbering) of a large history.  size = number of branch
// indexes the planner will need, roughly (the unit the constants of the planner are about), except for spine
// (commits).
//
//	comb       main line of size commits, every one of them with a one-commit topic branch that is never merged
//	diamonds   R - a1 - m1 - a2 - m2 ..: m_i merges a_i with s_i, both children of m_(i-1); never more than 2 live
//	star       a root with size children: one fork action with size+1 items
//	starmerge  star + the octopus merge of all the children + a tail commit
//	roots      size unrelated roots merged one after the other into one line
//	spine      a single line of size commits
//	bush       random: a commit continues one of the recent heads, forks from one (period-dependent), or merges
//	           two or three of them; many branches alive at the same time
//	ladder     two long lines with criss-cross merges between them every per-th rung (per = 2^k-1, 2^k, 2^k+1)
//	ffchain    a main line in which every per-th commit also has a fast-forward (redundant) parent edge to a commit
//	           far behind, with side branches that keep the nodes of the line apart
func ScaleParents(shape string, size int, r *rand.Rand) [][]int {
	var ps [][]int
	add := func(p ...int) int {
		ps = append(ps, append([]int(nil), p...))
		return len(ps) - 1
	}
	switch shape {
	case "comb":
		prev := add()
		for i := 1; i < size; i++ {
			add(prev) // topic of prev
			prev = add(prev)
		}
	case "diamonds":
		prev := add()
		for i := 0; i < size; i++ {
			a := add(prev)
			s := add(prev)
			prev = add(a, s)
		}
	case "star":
		add()
		for i := 0; i < size; i++ {
			add(0)
		}
	case "starmerge":
		add()
		var tips []int
		for i := 0; i < size; i++ {
			tips = append(tips, add(0))
		}
		m := add(tips...)
		add(m)
	case "roots":
		line := add()
		for i := 1; i < size; i++ {
			rt := add()
			if i%3 == 0 {
				rt = add(rt)
			}
			line = add(line, rt)
		}
	case "spine":
		prev := add()
		for i := 1; i < size; i++ {
			prev = add(prev)
		}
	case "bush":
		heads := []int{add()}
		per := []int{7, 8, 9, 15, 16, 17, 31, 33}[r.Intn(8)]
		forks := 0
		for forks < size {
			x := r.Intn(per)
			h := r.Intn(len(heads))
			switch {
			case x == 0 && len(heads) >= 3:
				// merge two or three heads
				k := 2 + r.Intn(2)
				perm := r.Perm(len(heads))[:k]
				var par []int
				for _, i := range perm {
					par = append(par, heads[i])
				}
				c := add(par...)
				var rest []int
				for i, hd := range heads {
					keep := true
					for _, j := range perm {
						if i == j {
							keep = false
						}
					}
					if keep {
						rest = append(rest, hd)
					}
				}
				heads = append(rest, c)
			case x <= 2 || len(heads) < 2:
				// fork: a second (third) child of a head's parent commit = new branch
				c := heads[h]
				heads[h] = add(c)
				heads = append(heads, add(c))
				forks++
				if x == 2 {
					heads = append(heads, add(c))
					forks++
				}
			case x == 3 && len(heads) > 40:
				// a head is abandoned
				heads = append(heads[:h], heads[h+1:]...)
			default:
				heads[h] = add(heads[h])
			}
		}
		// close to one head
		for len(heads) > 1 {
			k := 2
			if len(heads) > 2 && r.Intn(3) == 0 {
				k = 3
			}
			c := add(heads[:k]...)
			heads = append(heads[k:], c)
		}
	case "ladder":
		per := []int{3, 4, 5, 7, 8, 9, 15, 16, 17}[r.Intn(9)]
		root := add()
		a, b := add(root), add(root)
		for i := 0; i < size; i++ {
			if i%per == per-1 {
				na := add(a, b)
				nb := add(b, a)
				a, b = na, nb
				// a short-lived side branch off each rung: one more branch index
				add(a)
			} else {
				a = add(a)
				b = add(b)
			}
		}
		add(a, b)
	case "ffchain":
		per := 2
		var fit []int
		for _, x := range []int{2, 3, 5, 8, 9, 17, 33, 65, 129, 257, 1025} {
			if 2*x < size {
				fit = append(fit, x)
			}
		}
		if len(fit) > 0 {
			per = fit[r.Intn(len(fit))]
			if len(fit) > 3 && r.Intn(2) == 0 {
				per = fit[len(fit)-1-r.Intn(3)] // prefer the long paths
			}
		}
		line := []int{add()}
		for i := 1; i < size; i++ {
			prev := line[len(line)-1]
			if i%2 == 1 {
				add(prev) // side branch: prev becomes a branch point, the line is not fused into one sequence
			}
			par := []int{prev}
			if i%per == 0 && len(line) > per {
				// redundant edges to ancestors far behind (fast-forward edges)
				par = append(par, line[len(line)-1-per])
				if i%(2*per) == 0 && len(line) > 3*per {
					par = append([]int{line[len(line)-1-3*per]}, par...)
				}
			}
			line = append(line, add(par...))
		}
	default:
		panic("unknown scale shape " + shape)
	}
	return ps
}

// ScaleGraph builds the case (shape, size, hmode, tmode, gseed): hmode 0 = hashes ascending with the commit
// number, 1 = descending, 2 = random; slice order as the numbering (hmode 0, 2) or reversed (1).
func ScaleGraph(shape string, size, hmode, tmode int, gseed int64) Graph {
	r := rand.New(rand.NewSource(gseed))
	parents := ScaleParents(shape, size, r)
	n := len(parents)
	g := Graph{N: n, Order: Identity(n)}
	switch hmode {
	case 0:
		g.Ranks = Identity(n)
	case 1:
		g.Ranks = make([]int, n)
		for i := range g.Ranks {
			g.Ranks[i] = n - 1 - i
			g.Order[i] = n - 1 - i
		}
	default:
		g.Ranks = r.Perm(n)
	}
	total := 0
	for _, ps := range parents {
		total += len(ps)
	}
	g.Edges = make([][2]int, 0, total)
	for c, ps := range parents {
		for _, p := range ps {
			g.Edges = append(g.Edges, [2]int{c, p})
		}
	}
	g.Times = TimesFor(tmode, n, r)
	return g
}

// GraphSx is the parent lists of the analysed set, one list per commit: (graph () (0) (0 1) ...).
func GraphSx(g Graph) Sx {
	ps := g.Parents()
	xs := make([]Sx, len(ps))
	for i, p := range ps {
		xs[i] = Ints(p)
	}
	return T("graph", xs...)
}

// ScaleFields is the input part of a scale case line.
func ScaleFields(shape string, size, hmode, tmode int, gseed int64, g Graph) []Sx {
	return []Sx{T("shape", A(shape)), T("size", I(size)), T("hmode", I(hmode)), T("tmode", I(tmode)),
		T("gseed", I(int(gseed))), T("n", I(g.N)), GraphSx(g)}
}

// ParseScale reads (shape, size, hmode, tmode, gseed) back; ok = the line is a scale case.
func ParseScale(cs Sx) (shape string, size, hmode, tmode int, gseed int64, ok bool) {
	f, ok := cs.Field("shape")
	if !ok {
		return
	}
	shape = f.Args()[0].Atom
	get := func(name string) int {
		if f, ok := cs.Field(name); ok {
			return f.Args()[0].Int()
		}
		return 0
	}
	return shape, get("size"), get("hmode"), get("tmode"), int64(get("gseed")), true
}

// WideGraph draws a history with forks of more than eight branches and octopus merges of more than eight
// parents (the width at which a plan printer, a fixed-size buffer or a small-array fast path changes behaviour):
// a trunk, then 1..3 times: w children of the current tip (w in 7..12, sometimes up to 40), each grown by 0..2
// commits, all or most of them merged back by one octopus merge, the rest left as heads or merged later.
func WideGraph(r *rand.Rand, maxW int) [][]int {
	var ps [][]int
	add := func(p ...int) int {
		ps = append(ps, append([]int(nil), p...))
		return len(ps) - 1
	}
	tip := add()
	for j := r.Intn(2); j > 0; j-- {
		tip = add(tip)
	}
	var loose []int
	for round := 1 + r.Intn(3); round > 0; round-- {
		w := 7 + r.Intn(6)
		if r.Intn(6) == 0 {
			w = 13 + r.Intn(maxW-12)
		}
		var arms []int
		for i := 0; i < w; i++ {
			a := add(tip)
			for j := r.Intn(3); j > 0 && r.Intn(2) == 0; j-- {
				a = add(a)
			}
			arms = append(arms, a)
		}
		r.Shuffle(len(arms), func(i, j int) { arms[i], arms[j] = arms[j], arms[i] })
		k := len(arms)
		if r.Intn(3) == 0 {
			k -= r.Intn(3)
		}
		par := append([]int(nil), arms[:k]...)
		loose = append(loose, arms[k:]...)
		if r.Intn(4) == 0 && len(loose) > 0 {
			par = append(par, loose...)
			loose = nil
		}
		if r.Intn(5) == 0 {
			par = append(par, tip) // redundant edge
		}
		tip = add(par...)
		for j := r.Intn(3); j > 0; j-- {
			tip = add(tip)
		}
	}
	if len(loose) > 0 && r.Intn(2) == 0 {
		tip = add(append([]int{tip}, loose...)...)
	}
	return ps
}
