// Stream c11multi: SEVERAL changes per FileDiff.Consume call (a "commit" of 2..6 files), several commits on the SAME
// FileDiff instance (re-Configure / re-Initialize between them), every file judged by the same oracles as a single pair.
//
// Case line:
//
//	(case n (kind K) (nt 0|1) (cfgs (c cleanup ws timeout init) ...) (files (f (ci k) (nm from to) (act mod|ins|del) (text a... 256 b...)) ...)
//	   (obs (f <observations of core.go for this file>) ... (burnall k verdict) ... (extra n)))
//
// files: the changes in the order they are handed to Consume; consecutive items with the same ci form one Consume call
// (commit k is configured by cfgs[k]; init=1: Initialize is called again before Configure).  nm: indices of the path
// names of the old and the new side (p<from>, p<to>; different = a rename with edits).  Blob hashes are the real git
// blob hashes of the contents: identical contents = identical hash = one entry of the blob cache.
// act ins / del: an insertion / a deletion in the same commit (FileDiff must not report anything for them).
package c11core

import (
	"fmt"
	"math/rand"

	"gopkg.in/src-d/go-git.v4/plumbing"
	"gopkg.in/src-d/go-git.v4/plumbing/filemode"
	"gopkg.in/src-d/go-git.v4/plumbing/object"
	"gopkg.in/src-d/hercules.v10/leaves"
	api "gopkg.in/src-d/hercules.v10/verifapi/c11"
	. "verifharness/lib"
)

type mcfg struct {
	cleanup, ws bool
	timeout     int
	init        bool
}

type mfile struct {
	ci       int
	from, to int
	act      string // mod, ins, del
	a, b     []byte
	ma, mb   int // entry modes of the two sides (field md, octal digits written as a decimal number); 0 = 100644
	oh       *plumbing.Hash // synthetic insertions of the burndown consumer only: the hash of the new side (not part of a case)
}

type minput struct {
	kind  string
	cfgs  []mcfg
	files []mfile
	hp    int // field hp: k > 0 = all blob hashes of the case share their first k bytes, k < 0 = their last -k bytes; 0 = real git hashes
}

// hashPrefix is the option hp of the case being run (the harness is single threaded)
var hashPrefix int

var hashMask = plumbing.NewHash("c0ffee11c0ffee22c0ffee33c0ffee44c0ffee55")

func realHash(data []byte) plumbing.Hash { return plumbing.ComputeHash(plumbing.BlobObject, data) }

// gitHash is the hash a blob is known under: its real git hash, or (option hp) the real hash with the first / last
// |hp| <= 16 bytes overwritten by a constant, so that all hashes of a case agree in that many bytes while different
// contents keep different hashes
func gitHash(data []byte) plumbing.Hash {
	h := realHash(data)
	k := hashPrefix
	if k > 16 {
		k = 16
	}
	if k < -16 {
		k = -16
	}
	for i := 0; i < k; i++ {
		h[i] = hashMask[i]
	}
	for i := 0; i < -k; i++ {
		h[19-i] = hashMask[19-i]
	}
	return h
}

// sideHash: a submodule entry (mode 160000) carries the hash of a commit of another repository; the blob cache holds an
// empty dummy blob under that hash.  The hash is derived from the position of the entry, so that the two sides of a
// submodule bump have DIFFERENT hashes and the same (empty) data.
func (f mfile) sideHash(side int) plumbing.Hash {
	mode, data, name := f.ma, f.a, f.from
	if side == 1 {
		mode, data, name = f.mb, f.b, f.to
		if f.oh != nil {
			return *f.oh
		}
	}
	if mode == 160000 {
		return gitHash([]byte(fmt.Sprintf("submodule %d %d %d\n", f.ci, name, side)))
	}
	return gitHash(data)
}

// special path names (indices from 1000): names that differ only in bytes a normalisation would remove or unify (case,
// white space, byte order mark, invalid UTF-8 vs U+FFFD, NFC vs NFD, doubled separators) and names that are prefixes /
// suffixes of each other; consecutive groups are separated by "" (never used as a name)
var specialNames = []string{
	"a", "A", "",
	"b", " b", "b ", "b\t", "b\n", "",
	"dir/c", "dir/C", "DIR/c", "dir//c", "dir/./c", "./dir/c", "",
	"\xc3\xa9", "e\xcc\x81", "\xc3\x89", "",
	"d\xff", "d\xef\xbf\xbd", "d\xc3", "d\xfe", "d?", "",
	"\xef\xbb\xbff", "f", "\xef\xbf\xbdf", "",
	"q", "q1", "q10", "q100", "q01", "",
	"x/y", "x/y2", "xx/y", "x/yy", "y", "x-y", "",
	"g.go", "g.go~", "g.g", "g.GO", "g..go", "",
	"h\xc2\xa0i", "h i", "h\xe3\x80\x80i", "h\xe2\x80\xa8i", "hi", "h  i", "",
	"j\x00k", "j", "j\x00", "",
}

func nameGroups() [][]int {
	var res [][]int
	var cur []int
	for i, n := range specialNames {
		if n == "" {
			if len(cur) > 0 {
				res = append(res, cur)
			}
			cur = nil
			continue
		}
		cur = append(cur, 1000+i)
	}
	if len(cur) > 0 {
		res = append(res, cur)
	}
	return res
}

func pname(k int) string {
	if k >= 1000 && k-1000 < len(specialNames) && specialNames[k-1000] != "" {
		return specialNames[k-1000]
	}
	return fmt.Sprintf("p%d", k)
}

func fmode(m int) filemode.FileMode {
	if m == 0 {
		return filemode.Regular
	}
	fm, err := filemode.New(fmt.Sprintf("%d", m))
	if err != nil {
		return filemode.Regular
	}
	return fm
}

func (f mfile) change() *object.Change {
	ch := &object.Change{}
	if f.act != "ins" {
		ch.From = object.ChangeEntry{Name: pname(f.from), TreeEntry: object.TreeEntry{Name: pname(f.from), Mode: fmode(f.ma), Hash: f.sideHash(0)}}
	}
	if f.act != "del" {
		ch.To = object.ChangeEntry{Name: pname(f.to), TreeEntry: object.TreeEntry{Name: pname(f.to), Mode: fmode(f.mb), Hash: f.sideHash(1)}}
	}
	return ch
}

func configure(fd *api.FileDiff, cfg mcfg) {
	facts := map[string]interface{}{
		api.ConfigFileDiffDisableCleanup: !cfg.cleanup,
		api.ConfigFileWhitespaceIgnore:   cfg.ws,
	}
	if cfg.timeout > 0 {
		facts[api.ConfigFileDiffTimeout] = cfg.timeout
	} else if cfg.timeout < 0 {
		facts[api.ConfigFileDiffTimeout] = cfg.timeout + 1
	}
	fd.Configure(facts)
}

func (in minput) cfg(k int) mcfg {
	if k >= 0 && k < len(in.cfgs) {
		return in.cfgs[k]
	}
	return mcfg{cleanup: true}
}

func runMulti(in minput) (obs []Sx) {
	hashPrefix = in.hp
	defer func() { hashPrefix = 0 }()
	fd := &api.FileDiff{}
	fd.Initialize(nil)
	perFile := make([]Sx, len(in.files))
	var tail []Sx
	extra := 0
	for start := 0; start < len(in.files); {
		end := start
		for end < len(in.files) && in.files[end].ci == in.files[start].ci {
			end++
		}
		ci := in.files[start].ci
		cfg := in.cfg(ci)
		if cfg.init {
			fd.Initialize(nil)
		}
		configure(fd, cfg)
		group := in.files[start:end]
		cache := map[plumbing.Hash]*api.CachedBlob{}
		changes := object.Changes{}
		renames := false
		for _, f := range group {
			if f.act != "ins" {
				cache[f.sideHash(0)] = blob(f.sideHash(0), f.a)
			}
			if f.act != "del" {
				cache[f.sideHash(1)] = blob(f.sideHash(1), f.b)
			}
			if f.act == "mod" && f.from != f.to {
				renames = true
			}
			changes = append(changes, f.change())
		}
		var fdRes map[string]api.FileDiffData
		var cerr error
		_, p := Catch(func() {
			res, err := fd.Consume(map[string]interface{}{api.DependencyBlobCache: cache, api.DependencyTreeChanges: changes})
			cerr = err
			if err == nil {
				fdRes = res[api.DependencyFileDiff].(map[string]api.FileDiffData)
			}
		})
		if p || cerr != nil {
			for i := range group {
				if p {
					perFile[start+i] = T("f", T("panic"))
				} else {
					perFile[start+i] = T("f", T("error"))
				}
			}
			start = end
			continue
		}
		// line statistics of the whole commit in one call
		var stats map[object.ChangeEntry]api.LineStats
		statsState := "ok"
		_, p = Catch(func() {
			lsc := &api.LinesStatsCalculator{}
			lsc.Initialize(nil)
			res, err := lsc.Consume(map[string]interface{}{
				api.DependencyIsMerge: false, api.DependencyTreeChanges: changes,
				api.DependencyBlobCache: cache, api.DependencyFileDiff: fdRes,
			})
			if err != nil {
				statsState = "error"
				return
			}
			stats = res[api.DependencyLineStats].(map[object.ChangeEntry]api.LineStats)
		})
		if p {
			statsState = "panic"
		}
		reported := map[string]bool{}
		for i, f := range group {
			data, has := fdRes[pname(f.to)]
			if f.act != "mod" {
				if f.act == "del" {
					_, has = fdRes[pname(f.from)]
				}
				perFile[start+i] = T("f", T("absent", B(!has)))
				continue
			}
			if !has {
				perFile[start+i] = T("f", T("missing"))
				continue
			}
			reported[pname(f.to)] = true
			ba, bb := cache[f.sideHash(0)], cache[f.sideHash(1)]
			o := diffObs(data, ba, bb, f.a, f.b, cfg.ws)
			// the consumer, per file: a fresh BurndownAnalysis sees the old blob as an insertion under the old name, then
			// this change with the results of the whole commit
			burn := "skipped"
			_, p := Catch(func() {
				an := &leaves.BurndownAnalysis{Granularity: 30, Sampling: 30}
				an.Initialize(nil)
				oldHash := f.sideHash(0)
				ins := mfile{ci: f.ci, act: "ins", to: f.from, b: f.a, mb: f.ma, oh: &oldHash}
				d1 := map[string]interface{}{
					api.DependencyAuthor: 0, api.DependencyTick: 0, api.DependencyIsMerge: false,
					api.DependencyBlobCache:   cache,
					api.DependencyTreeChanges: object.Changes{ins.change()},
					api.DependencyFileDiff:    map[string]api.FileDiffData{},
				}
				if _, err := an.Consume(d1); err != nil {
					burn = "insert-" + classifyErr(err)
					return
				}
				d2 := map[string]interface{}{
					api.DependencyAuthor: 0, api.DependencyTick: 1, api.DependencyIsMerge: false,
					api.DependencyBlobCache: cache, api.DependencyTreeChanges: object.Changes{changes[i]},
					api.DependencyFileDiff: fdRes,
				}
				_, err := an.Consume(d2)
				burn = classifyErr(err)
			})
			if p {
				burn = "panic"
			}
			o = append(o, T("burn", A(burn)))
			switch statsState {
			case "ok":
				st := stats[changes[i].To]
				o = append(o, T("stats", I(st.Added), I(st.Removed), I(st.Changed)))
			default:
				o = append(o, T("stats", A(statsState)))
			}
			perFile[start+i] = T("f", o...)
		}
		for name := range fdRes {
			if !reported[name] {
				extra++
			}
		}
		// the consumer on the whole commit: one analysis sees every old version as an insertion, then the commit
		// (not for commits with renames: two renames may cross, which the burndown analysis does not support)
		if !renames {
			burn := "skipped"
			_, p := Catch(func() {
				an := &leaves.BurndownAnalysis{Granularity: 30, Sampling: 30}
				an.Initialize(nil)
				first := object.Changes{}
				for _, f := range group {
					if f.act != "ins" {
						oldHash := f.sideHash(0)
						ins := mfile{ci: f.ci, act: "ins", to: f.from, b: f.a, mb: f.ma, oh: &oldHash}
						first = append(first, ins.change())
					}
				}
				if _, err := an.Consume(map[string]interface{}{
					api.DependencyAuthor: 0, api.DependencyTick: 0, api.DependencyIsMerge: false,
					api.DependencyBlobCache: cache, api.DependencyTreeChanges: first,
					api.DependencyFileDiff: map[string]api.FileDiffData{},
				}); err != nil {
					burn = "insert-" + classifyErr(err)
					return
				}
				_, err := an.Consume(map[string]interface{}{
					api.DependencyAuthor: 0, api.DependencyTick: 1, api.DependencyIsMerge: false,
					api.DependencyBlobCache: cache, api.DependencyTreeChanges: changes,
					api.DependencyFileDiff: fdRes,
				})
				burn = classifyErr(err)
			})
			if p {
				burn = "panic"
			}
			tail = append(tail, T("burnall", I(ci), A(burn)))
		}
		start = end
	}
	obs = append(obs, perFile...)
	obs = append(obs, tail...)
	obs = append(obs, T("extra", I(extra)))
	return obs
}

func pairText(a, b []byte) Sx {
	text := make([]Sx, 0, len(a)+len(b)+2)
	text = append(text, A("text"))
	for _, x := range a {
		text = append(text, I(int(x)))
	}
	text = append(text, I(256))
	for _, x := range b {
		text = append(text, I(int(x)))
	}
	return Sx{List: text, IsL: true}
}

func emitMulti(c *Config, in minput) {
	// names must be unique per commit on each side (the result of Consume is keyed by the new name)
	in.files = dedupNames(in.files)
	obs := runMulti(in)
	cfgs := make([]Sx, len(in.cfgs))
	for i, g := range in.cfgs {
		cfgs[i] = T("c", B(g.cleanup), B(g.ws), I(g.timeout), B(g.init))
	}
	files := make([]Sx, len(in.files))
	perCommit := map[int]int{}
	for i, f := range in.files {
		if f.ma != 0 || f.mb != 0 {
			files[i] = T("f", T("ci", I(f.ci)), T("nm", I(f.from), I(f.to)), T("act", A(f.act)), T("md", I(f.ma), I(f.mb)), pairText(f.a, f.b))
		} else {
			files[i] = T("f", T("ci", I(f.ci)), T("nm", I(f.from), I(f.to)), T("act", A(f.act)), pairText(f.a, f.b))
		}
		if f.act == "mod" && len(f.a) > 0 && len(f.b) > 0 && string(f.a) != string(f.b) {
			perCommit[f.ci]++
		}
	}
	nt := false
	for _, n := range perCommit {
		if n >= 2 {
			nt = true
		}
	}
	if in.hp != 0 {
		c.Emit(T("kind", A(in.kind)), T("nt", B(nt)), T("hp", I(in.hp)), T("cfgs", cfgs...), T("files", files...), T("obs", obs...))
		return
	}
	c.Emit(T("kind", A(in.kind)), T("nt", B(nt)), T("cfgs", cfgs...), T("files", files...), T("obs", obs...))
}

// dedupNames drops later changes of a commit that re-use a path name of an earlier change of the same commit (cannot
// happen in a tree diff; the shrinker and the generators may produce it)
func dedupNames(fs []mfile) []mfile {
	type key struct {
		ci, n int
		side  byte
	}
	seen := map[key]bool{}
	var res []mfile
	for _, f := range fs {
		kf, kt := key{f.ci, f.from, 'f'}, key{f.ci, f.to, 't'}
		if (f.act != "ins" && seen[kf]) || (f.act != "del" && seen[kt]) {
			continue
		}
		if f.act != "ins" {
			seen[kf] = true
		}
		if f.act != "del" {
			seen[kt] = true
		}
		res = append(res, f)
	}
	return res
}

func parseMulti(cs Sx) minput {
	in := minput{kind: "replay"}
	if f, ok := cs.Field("kind"); ok && len(f.Args()) == 1 {
		in.kind = f.Args()[0].Atom
	}
	if f, ok := cs.Field("hp"); ok && len(f.Args()) == 1 {
		in.hp = f.Args()[0].Int()
	}
	if f, ok := cs.Field("cfgs"); ok {
		for _, g := range f.Args() {
			a := g.Args()
			if len(a) >= 4 {
				in.cfgs = append(in.cfgs, mcfg{cleanup: a[0].Int() != 0, ws: a[1].Int() != 0, timeout: a[2].Int(), init: a[3].Int() != 0})
			}
		}
	}
	if f, ok := cs.Field("files"); ok {
		for _, x := range f.Args() {
			mf := mfile{act: "mod"}
			if g, ok := x.Field("ci"); ok {
				mf.ci = g.Args()[0].Int()
			}
			if g, ok := x.Field("nm"); ok && len(g.Args()) == 2 {
				mf.from, mf.to = g.Args()[0].Int(), g.Args()[1].Int()
			}
			if g, ok := x.Field("act"); ok {
				mf.act = g.Args()[0].Atom
			}
			if g, ok := x.Field("md"); ok && len(g.Args()) == 2 {
				mf.ma, mf.mb = g.Args()[0].Int(), g.Args()[1].Int()
			}
			p := parseCase(x)
			mf.a, mf.b = p.a, p.b
			in.files = append(in.files, mf)
		}
	}
	return in
}

// ---------------------------------------------------------------- generators

// variants derives n different versions of a text (different line counts as well as the same line count with
// different contents)
func variants(r *rand.Rand, base []string, n int) [][]byte {
	res := [][]byte{}
	seen := map[string]bool{}
	for tries := 0; len(res) < n && tries < 50; tries++ {
		var ls []string
		switch r.Intn(4) {
		case 0: // same number of lines, one or two lines replaced
			ls = append([]string{}, base...)
			for k := r.Intn(2); k >= 0 && len(ls) > 0; k-- {
				ls[r.Intn(len(ls))] = randLine(r, 2+r.Intn(len(bodies)-1))
			}
		case 1:
			ls = randLines(r, 8)
		default:
			ls = edit(r, base)
		}
		b := join(r, ls)
		if r.Intn(40) == 0 && len(b) > 0 {
			// a binary version now and then (outside the domain of the property; the consumers skip it)
			b[r.Intn(len(b))] = 0
		}
		if !seen[string(b)] {
			seen[string(b)] = true
			res = append(res, b)
		}
	}
	for len(res) < n {
		res = append(res, []byte(fmt.Sprintf("v%d\n", len(res))))
	}
	return res
}

func multiCfg(r *rand.Rand) mcfg {
	var in input
	randomCfg(r, &in)
	return mcfg{cleanup: in.cleanup, ws: in.ws, timeout: in.timeout, init: r.Intn(3) == 0}
}

// genCommit: one commit of 2..6 modifications in one of the colliding shapes, commit index ci, path names from base
func genCommit(r *rand.Rand, shape int, ci int) (string, []mfile) {
	k := 2 + r.Intn(5)
	if r.Intn(2) == 0 {
		k = 2 + r.Intn(2)
	}
	base := randLines(r, 8)
	for len(base) == 0 {
		base = randLines(r, 8)
	}
	var fs []mfile
	mod := func(i int, a, b []byte) mfile { return mfile{ci: ci, from: i, to: i, act: "mod", a: a, b: b} }
	kind := ""
	switch shape {
	case 0: // identical new blob reached from different old blobs
		kind = "multi-samenew"
		vs := variants(r, base, k+1)
		for i := 0; i < k; i++ {
			fs = append(fs, mod(i, vs[i+1], vs[0]))
		}
	case 1: // identical old blob, different new blobs
		kind = "multi-sameold"
		vs := variants(r, base, k+1)
		for i := 0; i < k; i++ {
			fs = append(fs, mod(i, vs[0], vs[i+1]))
		}
	case 2: // identical pairs (copies updated in lock-step), one of them deviating on either side
		kind = "multi-samepair"
		vs := variants(r, base, 4)
		for i := 0; i < k; i++ {
			fs = append(fs, mod(i, vs[0], vs[1]))
		}
		switch r.Intn(3) {
		case 0:
			fs[r.Intn(k)].a = vs[2]
		case 1:
			fs[r.Intn(k)].b = vs[3]
		}
	case 3: // contents swapped between two paths / rotated over k paths
		kind = "multi-swap"
		vs := variants(r, base, k)
		for i := 0; i < k; i++ {
			fs = append(fs, mod(i, vs[i], vs[(i+1)%k]))
		}
	case 4: // one copy catches up with another which is edited in the same commit: old of one = new of the other
		kind = "multi-chain"
		vs := variants(r, base, k+1)
		for i := 0; i < k; i++ {
			fs = append(fs, mod(i, vs[i], vs[i+1]))
		}
		if r.Intn(2) == 0 {
			fs[k-1].b = vs[1]
		}
	case 5: // same line counts everywhere: only the contents differ
		kind = "multi-samelen"
		n := 1 + r.Intn(6)
		mk := func() []byte {
			ls := make([]string, n)
			for i := range ls {
				ls[i] = []string{"a", "b", "c", "d", "x y", "}"}[r.Intn(6)]
			}
			var out []byte
			for _, l := range ls {
				out = append(out, l...)
				out = append(out, '\n')
			}
			return out
		}
		nw := mk()
		for i := 0; i < k; i++ {
			fs = append(fs, mod(i, mk(), nw))
		}
		if r.Intn(2) == 0 {
			// and the other way round: one old, several new versions of the same length
			od := mk()
			for i := range fs {
				fs[i].a, fs[i].b = od, mk()
			}
		}
	default: // every side drawn from a small pool (including unchanged content = a mode change)
		kind = "multi-pool"
		vs := variants(r, base, 2+r.Intn(3))
		for i := 0; i < k; i++ {
			fs = append(fs, mod(i, vs[r.Intn(len(vs))], vs[r.Intn(len(vs))]))
		}
	}
	// attributes: renames with edits (also crossing), insertions and deletions of colliding blobs in the same commit
	if r.Intn(5) == 0 {
		i, j := r.Intn(len(fs)), r.Intn(len(fs))
		if i != j && r.Intn(2) == 0 {
			fs[i].to, fs[j].to = fs[j].to, fs[i].to
		} else {
			fs[i].to = 10 + i
		}
	}
	if r.Intn(4) == 0 {
		src := fs[r.Intn(len(fs))]
		x := mfile{ci: ci, from: 20, to: 20, act: "ins", b: src.b}
		if r.Intn(2) == 0 {
			x = mfile{ci: ci, from: 21, to: 21, act: "del", a: src.a}
			if r.Intn(2) == 0 {
				x.a = src.b
			}
		}
		p := r.Intn(len(fs) + 1)
		fs = append(fs[:p:p], append([]mfile{x}, fs[p:]...)...)
	}
	if r.Intn(3) == 0 {
		r.Shuffle(len(fs), func(i, j int) { fs[i], fs[j] = fs[j], fs[i] })
	}
	decorate(r, fs)
	return kind, fs
}

func generateMulti(c *Config) {
	r := c.Rng
	// fixed witnesses of the class: diverged copies reset to one template (different / equal line counts), swap,
	// lock-step copies, one old to two news
	fixed := [][][2]string{
		{{"a\nb\nc\nd\ne\n", "a\nb\nx\ny\n"}, {"a\nq\nr\n", "a\nb\nx\ny\n"}},
		{{"a\nb\nc\n", "a\nx\nc\n"}, {"a\ny\nc\n", "a\nx\nc\n"}},
		{{"a\nb\n", "b\na\n"}, {"b\na\n", "a\nb\n"}},
		{{"a\n", "a\nb\n"}, {"a\n", "a\nb\n"}, {"a\n", "a\nb\n"}},
		{{"a\nb\n", "a\n"}, {"a\nb\n", "b\n"}, {"a\nb\n", ""}},
		{{"a\nb\nc\n", "a\nb\nc\nd\n"}, {"a\nb\n", "a\nb\nc\n"}, {"x\n", "a\nb\nc\nd\n"}},
		{{"a", "a\n"}, {"a\n", "a"}, {"", "a"}, {"a", ""}},
		{{" a\n", "a\n"}, {"a \n", "a\n"}, {"b\n", "a\n"}},
	}
	for _, fx := range fixed {
		for cfg := 0; cfg < 4; cfg++ {
			in := minput{kind: "multi-fixed", cfgs: []mcfg{{cleanup: cfg&1 != 0, ws: cfg&2 != 0}}}
			for i, p := range fx {
				in.files = append(in.files, mfile{ci: 0, from: i, to: i, act: "mod", a: []byte(p[0]), b: []byte(p[1])})
			}
			emitMulti(c, in)
			// and in the opposite order of the changes
			for i, j := 0, len(in.files)-1; i < j; i, j = i+1, j-1 {
				in.files[i], in.files[j] = in.files[j], in.files[i]
			}
			emitMulti(c, in)
		}
	}
	// exhaustive: every commit of two modifications whose four blobs are strings over {a, LF} of length <= 2
	// (thorough: three modifications over length <= 1 as well), x cleanup x whitespace-ignore
	ss := allStrings([]byte{'a', '\n'}, 2)
	for _, a1 := range ss {
		for _, b1 := range ss {
			for _, a2 := range ss {
				for _, b2 := range ss {
					for cfg := 0; cfg < 4; cfg++ {
						if !c.Thorough() && cfg != 1 && cfg != 2 {
							continue
						}
						emitMulti(c, minput{kind: "multi-exh2", cfgs: []mcfg{{cleanup: cfg&1 != 0, ws: cfg&2 != 0}}, files: []mfile{
							{from: 0, to: 0, act: "mod", a: a1, b: b1}, {from: 1, to: 1, act: "mod", a: a2, b: b2}}})
					}
				}
			}
		}
	}
	if c.Thorough() {
		s1 := allStrings([]byte{'a', '\n', ' '}, 1)
		var rec func(fs []mfile)
		rec = func(fs []mfile) {
			if len(fs) == 3 {
				for cfg := 0; cfg < 4; cfg++ {
					emitMulti(c, minput{kind: "multi-exh3", cfgs: []mcfg{{cleanup: cfg&1 != 0, ws: cfg&2 != 0}}, files: append([]mfile{}, fs...)})
				}
				return
			}
			for _, a := range s1 {
				for _, b := range s1 {
					rec(append(fs, mfile{from: len(fs), to: len(fs), act: "mod", a: a, b: b}))
				}
			}
		}
		rec(nil)
	}
	// random commits in the colliding shapes
	for i := c.Count(6000, 150000); i > 0; i-- {
		kind, fs := genCommit(r, r.Intn(7), 0)
		emitMulti(c, minput{kind: kind, cfgs: []mcfg{multiCfg(r)}, files: fs})
	}
	// several commits on the same FileDiff instance: the same paths again with other contents, the same new blob
	// reached again from another old blob, options changed (re-Configure) and Initialize called again in between
	for i := c.Count(2500, 60000); i > 0; i-- {
		n := 2 + r.Intn(2)
		in := minput{kind: "multi-seq"}
		var prev []mfile
		for ci := 0; ci < n; ci++ {
			g := multiCfg(r)
			if ci > 0 && r.Intn(2) == 0 {
				// only one option flipped
				g = in.cfgs[ci-1]
				switch r.Intn(3) {
				case 0:
					g.ws = !g.ws
				case 1:
					g.cleanup = !g.cleanup
				}
				g.init = r.Intn(3) == 0
			}
			in.cfgs = append(in.cfgs, g)
			_, fs := genCommit(r, r.Intn(7), ci)
			if ci > 0 && r.Intn(2) == 0 {
				// re-use blobs of the previous commit: same new blob from another old one, same pair again, the reverse pair
				for j := range fs {
					if fs[j].act != "mod" || len(prev) == 0 {
						continue
					}
					p := prev[r.Intn(len(prev))]
					switch r.Intn(4) {
					case 0:
						fs[j].b = p.b
					case 1:
						fs[j].a, fs[j].b = p.a, p.b
					case 2:
						fs[j].a, fs[j].b = p.b, p.a
					case 3:
						fs[j].a = p.a
					}
				}
			}
			prev = fs
			in.files = append(in.files, fs...)
		}
		if r.Intn(5) == 0 {
			in.hp = hashPrefixes[r.Intn(len(hashPrefixes))]
		}
		emitMulti(c, in)
	}
	generateMulti4(c)
}

// MainMulti is the body of cmd/c11multi.
func MainMulti() {
	c := Setup()
	defer c.Close()
	quietStderr()
	if c.Replay != "" {
		for _, cs := range c.ReplayCases() {
			emitMulti(c, parseMulti(cs))
		}
		return
	}
	generateMulti(c)
}
