(* Composition C03 on C05: the statements appended to coq/props/C03.v.
   C03 proves that File.Update on the in-order node list equals the edit of a plain array; C05 proves that
   the red-black tree is that node list; Compose/TreeFileSim.v proves that File.Update run through the tree
   API (TreeFileModel.v: tupdate) computes on the tree what C03's model computes on the list.  Together:
   the tracker AS A TREE is the plain array, and the tree stays a red-black search tree. *)
From Coq Require Import List ZArith Lia Bool FinFun.
Import ListNotations.
From Herc Require Import RBTree.Model RBTree.Spec RBTree.Arena RBTree.InsertProofs RBTree.DeleteProofs
  RBTree.MapProofs RBTree.LookupProofs RBTree.HeightProofs RBTree.SeqProofs.
From Herc Require Import File.Model File.Spec File.NodeLists File.Locate File.Sequences.
From Herc Require Import Compose.TreeFileKeys Compose.TreeFileModel Compose.TreeFileLists Compose.TreeFileLoops
  Compose.TreeFileSim.
Open Scope Z_scope.

(* the tracker state a tree stands for *)
Definition kvs (tr : tree) : list (Z * Z) := map kv (elems tr).

(* a red-black search tree whose node ids are distinct and are neither Limit nor NegativeLimit
   (what C05_sequences establishes for every tree of every reachable allocator state) *)
Definition tree_wf (tr : tree) : Prop := is_redblack tr /\ bst tr /\ NoDup (ids tr) /\ ids_ok tr.

Lemma okl_iff tr : okl (elems tr) <-> NoDup (ids tr) /\ ids_ok tr.
Proof.
  unfold okl, ids_ok. rewrite ids_eids. tauto.
Qed.

Lemma rep_tree_wf n tr s : rep n tr s -> bst tr -> tree_wf tr /\ kvs tr = s.
Proof.
  intros (H1 & H2 & H3 & _) Hb. apply okl_iff in H2. unfold tree_wf. tauto.
Qed.

Lemma WF_ssorted s : WF s -> ssorted s.
Proof. intros (H & _). eapply inc_ssorted; eauto. Qed.

(* ---------- one operation ---------- *)

(* the simulation, without reference to well-formedness: whenever C03's model accepts the request and
   returns a state with strictly increasing keys, the tree-level Update returns a red-black search tree
   with exactly that state and the same Updater calls *)
Theorem tupdate_simulates alloc t pos ins del tr s' ds :
  tree_wf tr -> alloc_ok alloc (S (length (ids tr))) ->
  update t pos ins del (kvs tr) = Ok (s', ds) -> ssorted s' ->
  exists tr', tupdate alloc t pos ins del tr = TOk (tr', ds) /\ tree_wf tr' /\ kvs tr' = s'.
Proof.
  intros (Hrb & Hb & Hn & Hi) Ha E Hs. rewrite length_ids in Ha.
  destruct (tupdate_sim alloc t pos ins del tr s' ds Hb Hrb) as (tr' & E1 & R & B); auto.
  - apply okl_iff. auto.
  - exists tr'. split; [exact E1|]. eapply rep_tree_wf; eauto.
Qed.

Theorem update_refines_on_tree alloc t pos ins del tr :
  tree_wf tr -> WF (kvs tr) -> validb t pos ins del (flatten (kvs tr)) = true ->
  alloc_ok alloc (S (length (ids tr))) ->
  exists tr' ds, tupdate alloc t pos ins del tr = TOk (tr', ds) /\
    tree_wf tr' /\ Z.of_nat (height tr') <= 2 * Z.log2 (tsize tr' + 1) /\
    update t pos ins del (kvs tr) = Ok (kvs tr', ds) /\ WF (kvs tr') /\
    flatten (kvs tr') = arr_update t pos ins del (flatten (kvs tr)) /\
    len (kvs tr') = len (kvs tr) + ins - del.
Proof.
  intros Hok HWF Hv Ha.
  destruct (update_refines_valid t pos ins del (kvs tr) HWF Hv) as (s' & ds & E & W' & Hf & Hl).
  destruct (tupdate_simulates alloc t pos ins del tr s' ds Hok Ha E (WF_ssorted _ W')) as (tr' & E1 & Hok' & Hk).
  exists tr', ds. subst s'. split; [exact E1|]. split; [exact Hok'|].
  split; [apply redblack_height_log; apply Hok'|]. auto.
Qed.

(* rejections carry over: the tree-level Update panics with the class the list model panics with *)
Theorem tupdate_panics_like_model alloc t pos ins del tr c :
  tree_wf tr -> update t pos ins del (kvs tr) = Panic c -> tupdate alloc t pos ins del tr = TPanic c.
Proof.
  intros (Hrb & Hb & Hn & Hi) E. apply tupdate_panic; auto. apply okl_iff. auto.
Qed.

Theorem update_rejects_on_tree alloc t pos ins del tr :
  tree_wf tr -> WF (kvs tr) ->
  (t < 0 \/ MaxU32 <= t \/ pos < 0 \/ MaxU32 < pos \/ ins < 0 \/ del < 0 \/ MaxU32 < ins \/ MaxU32 < del \/
   ((ins <> 0 \/ del <> 0) /\ (len (kvs tr) < pos \/ len (kvs tr) < pos + del))) ->
  exists c, tupdate alloc t pos ins del tr = TPanic c.
Proof.
  intros Hok W H. destruct (update_rejects_prop t pos ins del (kvs tr) W H) as (c & E).
  exists c. apply tupdate_panics_like_model; auto.
Qed.

(* ---------- the primitives, one by one ---------- *)

(* a tree whose entry list is a ++ e :: b, iterator at e (node id eid e) *)
Theorem tree_primitives_at tr a e b :
  elems tr = a ++ e :: b -> NoDup (ids tr) -> ids_ok tr ->
  it_item (eid e) tr = TOk (Some (kv e)) /\
  it_next (eid e) tr = TOk (pos_fwd (s_min b)) /\
  it_prev (eid e) tr = TOk (pos_bwd (s_max a)) /\
  (forall k, elems (set_key (eid e) k tr) = a ++ (eid e, k, eval e) :: b) /\
  (bst tr -> is_redblack tr ->
   exists tr', t_delete (eid e) tr = TOk tr' /\ elems tr' = a ++ b /\ bst tr' /\ is_redblack tr') /\
  (forall d fuel, (length (e :: b) < fuel)%nat ->
   exists tr', tshift_loop fuel d (eid e) tr = TOk tr' /\ elems tr' = a ++ map (shift_entry d) (e :: b) /\
               (is_redblack tr -> is_redblack tr')).
Proof.
  intros He Hn Hi. assert (Hok : okl (elems tr)) by (apply okl_iff; auto).
  split; [apply (it_item_at _ _ _ _ He Hok)|]. split; [apply (it_next_at _ _ _ _ He Hok)|].
  split; [apply (it_prev_at _ _ _ _ He Hok)|]. split; [intros k; apply set_key_at; auto|]. split.
  - intros Hb Hrb. destruct (t_delete_at _ _ _ _ He Hok Hb Hrb) as (tr' & D1 & D2 & D3 & D4 & _). eauto.
  - intros d fuel Hf. change (eid e) with (pos_fwd (s_min (e :: b))).
    destruct (tshift_loop_sim d (e :: b) a tr fuel Hf He Hok) as (tr' & E1 & E2 & _ & E4). eauto.
Qed.

(* the primitives that search by key or look at the whole tree *)
Theorem tree_primitives_global alloc tr :
  bst tr -> NoDup (ids tr) -> ids_ok tr ->
  (forall k v, kvs (fst (t_insert alloc k v tr)) = File.Model.insert k v (kvs tr)) /\
  (forall x L o R, match elems tr with e0 :: _ => ekey e0 <= x | [] => True end ->
     find_le x [] (kvs tr) = Some (L, o, R) ->
     exists a e b, elems tr = a ++ e :: b /\ t_find_le x tr = TOk (eid e) /\
                   L = map kv a /\ o = kv e /\ R = map kv b) /\
  tsize tr = Z.of_nat (length (kvs tr)) /\
  (forall e0 tl, elems tr = e0 :: tl -> deref (min_id tr) tr = TOk (kv e0)) /\
  (forall l x, elems tr = l ++ [x] -> deref (it_max tr) tr = TOk (kv x) /\ fst (kv x) = klast 0 (kvs tr)).
Proof.
  intros Hb Hn Hi. assert (Hok : okl (elems tr)) by (apply okl_iff; auto).
  split; [intros k v; apply t_insert_kvs; exact Hb|]. split.
  - intros x L o R H0 EF. destruct (find_le_at x (elems tr) L o R H0 EF) as (a & e & b & E1 & E2 & E3 & E4 & E5 & _).
    exists a, e, b. unfold t_find_le. rewrite it_find_le_spec, E5 by auto. auto.
  - split; [unfold kvs; rewrite map_length; apply tsize_spec|]. split.
    + intros e0 tl He. rewrite min_id_spec, He. apply (deref_at tr [] e0 tl); auto.
    + intros l x He. split.
      * rewrite it_max_spec, He, s_max_snoc by exact Hi. apply (deref_at tr l x []); auto.
      * unfold kvs. rewrite He, klast_kv_snoc. reflexivity.
Qed.

(* iterators other than the one an operation is applied to keep showing the same item (C05_iterators_stable) *)
Theorem tree_iterators_stable alloc tr m :
  bst tr -> NoDup (ids tr) ->
  (forall it tr', t_delete it tr = TOk tr' -> m <> it -> item_of m tr' = item_of m tr) /\
  (forall k v, m <> alloc tr -> item_of m (fst (t_insert alloc k v tr)) = item_of m tr) /\
  (forall it k, m <> it -> item_of m (set_key it k tr) = item_of m tr).
Proof.
  intros Hb Hn. split; [intros; eapply t_delete_stable; eauto|].
  split; [intros; apply t_insert_stable; auto|intros; apply set_key_stable; auto].
Qed.

(* the vocabulary says what it should *)
Theorem tree_vocabulary :
  (forall tr, kvs tr = map (fun e => (ekey e, eval e)) (elems tr)) /\
  (forall alloc n, alloc_ok alloc n <->
     forall tr', (length (ids tr') <= n)%nat -> ~ In (alloc tr') (ids tr') /\ 0 < alloc tr' < neg_limit) /\
  (forall it k tr, set_key it k tr = map_keys (Z.eqb it) (fun _ => k) tr) /\
  (forall s, ssorted s <-> match s with [] => True | (k, _) :: r => inc k r end).
Proof.
  split; [reflexivity|]. split; [intros; reflexivity|]. split; [reflexivity|intros; reflexivity].
Qed.

(* ---------- NewFile and operation sequences ---------- *)

Lemma rep_E : rep 0 E [] /\ bst E.
Proof.
  split; [|exact I]. unfold rep. split; [exists 0%nat; constructor|]. split; [|split; [reflexivity|apply le_n]].
  split; [constructor|intros i []].
Qed.

Lemma rep_ssorted n tr s : rep n tr s -> bst tr -> ssorted s.
Proof. intros (_ & _ & H & _) Hb. rewrite <- H. apply sorted_ssorted, bst_sorted. exact Hb. Qed.

Lemma tnew_file_sim alloc t len s reps : alloc_ok alloc 1 ->
  new_file t len = Ok (s, reps) ->
  exists tr, tnew_file alloc t len = TOk (tr, reps) /\ rep 2 tr s /\ bst tr.
Proof.
  intros Ha E. unfold new_file in E. unfold tnew_file.
  destruct (update_time t t len) as [r|c]; [|discriminate].
  destruct ((t <? 0) || (t >? MaxU32)); [discriminate|]. destruct (len >? MaxU32); [discriminate|].
  inversion E; subst s reps. clear E. destruct rep_E as [R0 B0].
  destruct (len >? 0).
  - destruct (rep_insert alloc 0 E [] 0 (u32 t) R0 I) as [R1 B1].
    { eapply alloc_ok_le; [|exact Ha]. lia. }
    destruct (rep_insert alloc 1 _ _ (u32 len) TreeEnd R1 (rep_ssorted _ _ _ R1 B1) Ha) as [R2 B2].
    eexists. split; [reflexivity|]. split; assumption.
  - destruct (rep_insert alloc 0 E [] (u32 len) TreeEnd R0 I) as [R1 B1].
    { eapply alloc_ok_le; [|exact Ha]. lia. }
    eexists. split; [reflexivity|]. split; [eapply rep_weaken; [|exact R1]; lia|exact B1].
Qed.

Lemma trun_sim alloc : forall ops tr s reps n,
  rep n tr s -> bst tr -> WF s -> ops_validb (flatten s) ops = true ->
  alloc_ok alloc (n + 2 * length ops) ->
  exists tr' s' ds, trun alloc ops tr reps = TOk (tr', ds) /\ run ops s reps = Ok (s', ds) /\
    rep (n + 2 * length ops) tr' s' /\ bst tr' /\ WF s'.
Proof.
  induction ops as [|[[[t pos] ins] del] ops IH]; intros tr s reps n R B W V Ha.
  - exists tr, s, reps. cbn [trun run length]. rewrite Nat.mul_0_r, Nat.add_0_r. auto.
  - cbn [ops_validb] in V. apply andb_prop in V. destruct V as [V1 V2].
    destruct (update_refines_valid t pos ins del s W V1) as (s1 & d1 & E & W1 & Hf & _).
    pose proof R as (Hrb & Hok & Hkv & Hlen).
    destruct (tupdate_sim alloc t pos ins del tr s1 d1 B Hrb Hok) as (tr1 & E1 & R1 & B1).
    + eapply alloc_ok_le; [|exact Ha]. cbn [length]. lia.
    + rewrite Hkv. exact E.
    + apply WF_ssorted. exact W1.
    + rewrite <- Hf in V2.
      destruct (IH tr1 s1 (reps ++ d1) (S (S n))) as (tr' & s' & ds & T1 & T2 & T3 & T4 & T5); auto.
      * eapply rep_weaken; [|exact R1]. lia.
      * eapply alloc_ok_le; [|exact Ha]. cbn [length]. lia.
      * exists tr', s', ds. cbn [trun run]. rewrite E1, E. cbn [bind]. split; [exact T1|]. split; [exact T2|].
        split; [|auto]. eapply rep_weaken; [|exact T3]. cbn [length]. lia.
Qed.

Theorem sequences_on_tree alloc t0 n0 ops :
  0 <= t0 <= MaxU32 -> 0 <= n0 <= MaxU32 ->
  ops_validb (repeat t0 (Z.to_nat n0)) ops = true ->
  alloc_ok alloc (2 + 2 * length ops) ->
  exists tr ds, trun_file alloc t0 n0 ops = TOk (tr, ds) /\
    tree_wf tr /\ Z.of_nat (height tr) <= 2 * Z.log2 (tsize tr + 1) /\
    run_file t0 n0 ops = Ok (kvs tr, ds) /\ WF (kvs tr) /\
    flatten (kvs tr) = arr_run (repeat t0 (Z.to_nat n0)) ops /\
    len (kvs tr) = alen (arr_run (repeat t0 (Z.to_nat n0)) ops).
Proof.
  intros Ht Hn Hv Ha.
  destruct (sequences t0 n0 ops Ht Hn Hv) as (s & ds & E & W & Hf & Hl & _).
  unfold run_file in E. destruct (new_file_plain t0 n0 Ht Hn) as (s0 & E0 & W0 & F0 & _).
  rewrite E0 in E.
  assert (Ha1 : alloc_ok alloc 1) by (eapply alloc_ok_le; [|exact Ha]; lia).
  destruct (tnew_file_sim alloc t0 n0 s0 _ Ha1 E0) as (tr0 & N1 & N2 & N3).
  rewrite <- F0 in Hv.
  destruct (trun_sim alloc ops tr0 s0 (if is_mark t0 then [] else [(t0, t0, n0)]) 2 N2 N3 W0 Hv Ha)
    as (tr & s' & ds' & T1 & T2 & T3 & T4 & T5).
  rewrite E in T2. inversion T2; subst s' ds'.
  destruct (rep_tree_wf _ _ _ T3 T4) as [Hok Hk].
  exists tr, ds. unfold trun_file. rewrite N1. cbn [bind]. split; [exact T1|]. split; [exact Hok|].
  split; [apply redblack_height_log; apply Hok|]. unfold run_file. rewrite E0, Hk. auto.
Qed.

(* ---------- the allocator hypothesis is satisfiable: the smallest free positive index ---------- *)
Fixpoint first_free_from (n : nat) (i : Z) (l : list Z) : Z :=
  match n with O => i | S n' => if memz i l then first_free_from n' (i + 1) l else i end.
Definition first_free (tr : tree) : Z := first_free_from (length (ids tr)) 1 (ids tr).

Lemma first_free_from_range : forall n i l, i <= first_free_from n i l <= i + Z.of_nat n.
Proof.
  induction n as [|n IH]; intros i l; cbn [first_free_from]; [lia|].
  destruct (memz i l); [specialize (IH (i + 1) l)|]; lia.
Qed.

Lemma first_free_from_spec : forall n i l,
  ~ In (first_free_from n i l) l \/
  (first_free_from n i l = i + Z.of_nat n /\ forall j, i <= j < i + Z.of_nat n -> In j l).
Proof.
  induction n as [|n IH]; intros i l; cbn [first_free_from].
  - right. split; [lia|]. intros j Hj. lia.
  - destruct (memz i l) eqn:Em.
    + destruct (IH (i + 1) l) as [H|[H1 H2]]; [left; exact H|]. right. split; [lia|].
      intros j Hj. destruct (Z.eq_dec j i) as [->|Hne]; [apply memz_In; exact Em|]. apply H2. lia.
    + left. intros Hc. apply memz_In in Hc. congruence.
Qed.

Lemma first_free_fresh tr : ~ In (first_free tr) (ids tr).
Proof.
  unfold first_free. set (l := ids tr). destruct (first_free_from_spec (length l) 1 l) as [H|[H1 H2]]; [exact H|].
  rewrite H1. intros Hc.
  (* pigeonhole: 1 .. length l + 1 would all occur in l *)
  assert (Hincl : incl (map Z.of_nat (seq 1 (S (length l)))) l).
  { intros j Hj. apply in_map_iff in Hj. destruct Hj as (m & <- & Hm). apply in_seq in Hm.
    destruct (Nat.eq_dec m (S (length l))) as [->|Hne].
    - replace (Z.of_nat (S (length l))) with (1 + Z.of_nat (length l)) by lia. exact Hc.
    - apply H2. lia. }
  assert (Hnd : NoDup (map Z.of_nat (seq 1 (S (length l))))).
  { apply Injective_map_NoDup; [intros x y Hxy; lia|apply seq_NoDup]. }
  pose proof (NoDup_incl_length Hnd Hincl) as Hlen. rewrite map_length, seq_length in Hlen. lia.
Qed.

Theorem first_free_ok n : Z.of_nat n + 1 < neg_limit -> alloc_ok first_free n.
Proof.
  intros Hn tr Hl. split; [apply first_free_fresh|].
  unfold first_free. pose proof (first_free_from_range (length (ids tr)) 1 (ids tr)). lia.
Qed.
