(* C19 - Gallina model of /repo/internal/plumbing/ticks.go (TicksSinceStart) and of the part of Go's
   package time that it uses.  Definitions only; the proofs are in TicksProofs.v.

   Times are Z nanoseconds since Go's zero time (January 1, year 1, 00:00:00 UTC), i.e. the pair
   (Time.sec(), Time.nsec()) flattened.  This is exact as long as the int64 second counter of
   time.Time does not overflow; the harness stays within |unix seconds| <= 2^60.
   time.Duration is int64 nanoseconds; Go's int is 64 bit on the platforms the check runs on. *)
From Coq Require Import ZArith List Bool.
Import ListNotations.
Open Scope Z_scope.

(* ------------------------------------------------------------------ package time *)

Definition second : Z := 1000000000.
Definition hour : Z := 3600 * second.
Definition unix_to_internal : Z := 62135596800.     (* seconds from year 1 to 1970 *)
Definition min_duration : Z := - 2 ^ 63.            (* time.minDuration = -1 << 63 *)
Definition max_duration : Z := 2 ^ 63 - 1.          (* time.maxDuration = 1<<63 - 1 *)

(* time.Unix(sec, nsec) with 0 <= nsec < 1e9 *)
Definition time_of_unix (sec nsec : Z) : Z := (sec + unix_to_internal) * second + nsec.

(* two's complement wrap of int64 arithmetic *)
Definition wrap64 (x : Z) : Z := (x + 2 ^ 63) mod 2 ^ 64 - 2 ^ 63.

(* Time.Round(d): d <= 0 returns t; otherwise r = t mod d computed on the absolute time (div() in
   time.go returns the mathematical, non-negative remainder also for times before year 1) and
   halfway values round up. *)
Definition time_round (t d : Z) : Z :=
  if d <=? 0 then t else
  let r := t mod d in
  if r + r <? d then t - r else t + (d - r).

(* Time.Sub: the difference, saturated to [minDuration, maxDuration] *)
Definition time_sub (t u : Z) : Z :=
  let d := t - u in
  if (min_duration <=? d) && (d <=? max_duration) then d
  else if t <? u then min_duration else max_duration.

(* ------------------------------------------------------------------ ticks.go *)

(* FloorTime *)
Definition floor_time (t d : Z) : Z :=
  let result := time_round t d in
  if t <? result (* result.After(t) *) then result - d else result.

Definition default_tick_hours : Z := 24.

(* how the harness sets the tick size up *)
Inductive config :=
| CHours (v : Z)      (* Configure with facts[TicksSinceStart.TickSize] = v *)
| CDefault            (* Configure without that fact *)
| CDirect (ns : Z).   (* Configure without that fact, then the public field TickSize assigned *)

(* Configure: time.Duration(val) * time.Hour in int64 *)
Definition configure (c : config) : Z :=
  match c with
  | CHours v => wrap64 (v * hour)
  | CDefault => default_tick_hours * hour
  | CDirect ns => ns
  end.

(* Initialize: a zero TickSize becomes the default *)
Definition initialize (d : Z) : Z := if d =? 0 then default_tick_hours * hour else d.

Record commit := { c_hash : Z; c_when : Z; c_parents : nat }.

(* what all forks share: *tick0 (one pointer) and the commits map (one map) *)
Record shared := { tick0 : Z; commits : list (Z * list Z) }.
(* what ForkCopyPipelineItem copies by value *)
Record branch := { tick_size : Z; previous_tick : Z }.

Fixpoint reg_get (r : list (Z * list Z)) (k : Z) : list Z :=
  match r with
  | [] => []
  | (k', l) :: r' => if k' =? k then l else reg_get r' k
  end.

Fixpoint reg_set (r : list (Z * list Z)) (k : Z) (l : list Z) : list (Z * list Z) :=
  match r with
  | [] => [(k, l)]
  | (k', l') :: r' => if k' =? k then (k, l) :: r' else (k', l') :: reg_set r' k l
  end.

(* commit.Committer.When.Sub( *tick0 ) / TickSize, converted to int.  Go's integer division
   truncates toward zero; minDuration / -1 wraps. The divisor is never 0 after Initialize. *)
Definition raw_tick (t0 d t : Z) : Z := wrap64 (Z.quot (time_sub t t0) d).

(* Consume on one branch *)
Definition consume_branch (s : shared) (b : branch) (index : Z) (c : commit) : shared * branch * Z :=
  let d := tick_size b in
  let t0 := if index =? 0 then floor_time (c_when c) d else tick0 s in
  let raw := raw_tick t0 d (c_when c) in
  let tick := if raw <? previous_tick b then previous_tick b else raw in
  let tick_commits := reg_get (commits s) tick in
  let exists_ := (0 <? c_parents c)%nat && existsb (Z.eqb (c_hash c)) (rev tick_commits) in
  let reg := if exists_ then commits s else reg_set (commits s) tick (tick_commits ++ [c_hash c]) in
  ({| tick0 := t0; commits := reg |}, {| tick_size := d; previous_tick := tick |}, tick).

(* ------------------------------------------------------------------ several branches *)

Record sys := { sh : shared; brs : list branch }.

Inductive op :=
| OConsume (b : nat) (index : Z) (c : commit)
| OFork (b : nat) (n : nat)           (* branch b stays, n clones are appended *)
| OMerge (bs : list nat)              (* core.NoopMerger *)
| OFloor (t d : Z).                   (* FloorTime called directly *)

Inductive out :=
| RTick (k : Z)
| RFork (first : nat)
| RUnit
| RTime (t : Z)
| RBad.                               (* no such branch: the harness skips the operation *)

Fixpoint set_nth {A} (l : list A) (n : nat) (x : A) : list A :=
  match l, n with
  | [], _ => []
  | _ :: l', O => x :: l'
  | y :: l', S n' => y :: set_nth l' n' x
  end.

Definition init_sys (c : config) : sys :=
  {| sh := {| tick0 := 0 (* &time.Time{} *); commits := [] |};
     brs := [ {| tick_size := initialize (configure c); previous_tick := 0 |} ] |}.

Definition step (s : sys) (o : op) : sys * out :=
  match o with
  | OConsume b index c =>
      match nth_error (brs s) b with
      | None => (s, RBad)
      | Some br =>
          let '(sh', br', tick) := consume_branch (sh s) br index c in
          ({| sh := sh'; brs := set_nth (brs s) b br' |}, RTick tick)
      end
  | OFork b n =>
      match nth_error (brs s) b with
      | None => (s, RBad)
      | Some br => ({| sh := sh s; brs := brs s ++ repeat br n |}, RFork (length (brs s)))
      end
  | OMerge _ => (s, RUnit)
  | OFloor t d => (s, RTime (floor_time t d))
  end.

Fixpoint run (s : sys) (ops : list op) : sys * list out :=
  match ops with
  | [] => (s, [])
  | o :: ops' =>
      let '(s1, r) := step s o in
      let '(s2, rs) := run s1 ops' in
      (s2, r :: rs)
  end.

(* ------------------------------------------------------------------ specification side *)

(* The history of every branch: the commits consumed along it, with the tick each got.
   A fork copies the history of its origin.  Computed from the operations and the observed
   outputs only, so that the same function judges the model and the implementation. *)
Definition event := (commit * Z)%type.

Definition lin_step (ls : list (list event)) (o : op) (r : out) : list (list event) :=
  match o, r with
  | OConsume b _ c, RTick k =>
      match nth_error ls b with
      | Some l => set_nth ls b (l ++ [(c, k)])
      | None => ls
      end
  | OFork b n, RFork _ =>
      match nth_error ls b with
      | Some l => ls ++ repeat l n
      | None => ls
      end
  | _, _ => ls
  end.

Fixpoint lineages (ops : list op) (outs : list out) (ls : list (list event)) : list (list event) :=
  match ops, outs with
  | o :: ops', r :: outs' => lineages ops' outs' (lin_step ls o r)
  | _, _ => ls
  end.

(* every consumed commit with its tick, in order *)
Fixpoint consumed (ops : list op) (outs : list out) : list event :=
  match ops, outs with
  | OConsume _ _ c :: ops', RTick k :: outs' => (c, k) :: consumed ops' outs'
  | _ :: ops', _ :: outs' => consumed ops' outs'
  | _, _ => []
  end.

(* The tick the property prescribes: whole periods elapsed since t0, raised to the previous tick.
   [spec_tick] is the formula in the range where Time.Sub does not saturate, [spec_tick_sat] what
   the saturating subtraction makes of it outside (they agree inside, TicksProofs.spec_tick_sat_in_range). *)
Definition spec_t0 (first d : Z) : Z := d * (first / d).
Definition spec_tick (t0 d prev t : Z) : Z := Z.max prev ((t - t0) / d).
Definition spec_tick_sat (t0 d prev t : Z) : Z := Z.max prev (Z.quot (time_sub t t0) d).
Definition in_range (t0 t : Z) : bool := (min_duration <=? t - t0) && (t - t0 <=? max_duration).

(* k = max prev (elapsed periods) along a history *)
Fixpoint tick_chain (t0 d prev : Z) (l : list event) : bool :=
  match l with
  | [] => true
  | (c, k) :: l' =>
      (k =? (if in_range t0 (c_when c) then spec_tick t0 d prev (c_when c)
             else spec_tick_sat t0 d prev (c_when c))) && tick_chain t0 d k l'
  end.

(* per commit of a history: does its tick equal max prev (whole periods elapsed since t0), computed
   with unbounded integers (no saturation), and does Time.Sub stay in range for it *)
Fixpoint chain_verdicts (t0 d prev : Z) (l : list event) : list (bool * bool) :=
  match l with
  | [] => []
  | (c, k) :: l' =>
      ((k =? spec_tick t0 d prev (c_when c)), in_range t0 (c_when c)) :: chain_verdicts t0 d k l'
  end.

Fixpoint nondecreasing (prev : Z) (l : list Z) : bool :=
  match l with
  | [] => true
  | k :: l' => (prev <=? k) && nondecreasing k l'
  end.

(* how often a hash is listed in the whole registry *)
Definition reg_count (r : list (Z * list Z)) (h : Z) : nat :=
  count_occ Z.eq_dec (concat (map snd r)) h.

Definition listed (r : list (Z * list Z)) (e : event) : bool :=
  existsb (Z.eqb (c_hash (fst e))) (reg_get r (snd e)).

(* ------------------------------------------------------------------ domain predicates and oracles *)

Definition index_nonzero (o : op) : bool :=
  match o with OConsume _ i _ => negb (i =? 0) | _ => true end.

Definition is_bad (r : out) : bool := match r with RBad => true | _ => false end.

(* the way Pipeline.Run calls Consume: the first consumed commit has index 0 (and is consumed on a
   branch that exists) and no other has; returns that first commit *)
Fixpoint shape (ops : list op) (outs : list out) : option commit :=
  match ops, outs with
  | OConsume _ i c :: rest, r :: _ =>
      if (i =? 0) && forallb index_nonzero rest && negb (is_bad r) then Some c else None
  | _ :: ops', _ :: outs' => shape ops' outs'
  | _, _ => None
  end.

Definition times (l : list event) : list Z := map (fun e => c_when (fst e)) l.
Definition ticks (l : list event) : list Z := map snd l.

(* committer times never decrease along the history and are not before the first analysed commit *)
Definition mono_times (first : Z) (l : list event) : bool := nondecreasing first (times l).

(* a commit that is consumed again (a merge commit replayed on another branch) has parents and is
   the same commit (same time) *)
Fixpoint replays_ok (evs : list event) : bool :=
  match evs with
  | [] => true
  | e :: evs' =>
      forallb (fun e' => negb (c_hash (fst e') =? c_hash (fst e))
                         || ((0 <? c_parents (fst e'))%nat && (c_when (fst e') =? c_when (fst e)))) evs'
      && replays_ok evs'
  end.

(* the un-raised tick: depends on the commit alone (given the start t0 and the tick size) *)
Definition elapsed_ticks (t0 d t : Z) : Z := Z.quot (time_sub t t0) d.

Definition alone (t0 d : Z) (l : list event) : bool :=
  forallb (fun e => snd e =? elapsed_ticks t0 d (c_when (fst e))) l.

(* r is the greatest multiple of d not after t *)
Definition floor_ok (t d r : Z) : bool := (r mod d =? 0) && (r <=? t) && (t <? r + d).

(* decimal transport of big numbers between the driver and the model *)
Definition z_pack (hi lo : Z) : Z := hi * 1000000000 + lo.
Definition z_unpack (z : Z) : Z * Z := Z.quotrem z 1000000000.
