(* Executable model of internal/plumbing/identity/identity.go:
     MergeReversedDictsIdentities and MergeReversedDictsLiteral, AS WRITTEN (including the
     one-index-per-part vocabulary that loses identities when a part occurs in two entries of one
     input list, finding F7).  Definitions only; proofs in IdentityMergeProofs.v / IdentityMergeMain.v.

   Go                                   model
   vocabulary map[string]identityPair   list (str * (Z * Z)), last writer wins per component as in the code
   vertices1/2 [][]string               list (list str) = map split rd
   walk, pending, visited map[string]bool   lists used as sets; the element popped from [pending]
                                        ("for e := range pending { ...; break }") is chosen by [sel],
                                        an arbitrary permutation of the pending list (choice argument)
   mergedIndex map[string]MergedIndex   list (str * (Final, First, Second))
   The walk loop runs on fuel; IdentityMergeProofs.walk_loop_total shows the fuel used here is never
   exhausted.  Reads such as vertices1[ip.Index1] are totalised with the empty list;
   IdentityMergeProofs.build_voc_range shows that every index stored in the vocabulary is in range. *)
From Coq Require Import List ZArith Bool.
From Herc Require Import Plumbing.IdStr.
Import ListNotations.
Open Scope Z_scope.

Notation ipair := (Z * Z)%type (only parsing).
Notation mindex := (Z * Z * Z)%type (only parsing).    (* Final, First, Second *)

Definition mi_final (m : mindex) : Z := fst (fst m).
Definition mi_first (m : mindex) : Z := snd (fst m).
Definition mi_second (m : mindex) : Z := snd m.

(* ---------- vocabulary ---------- *)
Definition voc_add1 (i : Z) (voc : list (str * ipair)) (p : str) := sset voc p (i, -1).
Definition voc_add2 (i : Z) (voc : list (str * ipair)) (p : str) :=
  match sget voc p with
  | None => sset voc p (-1, i)
  | Some ip => sset voc p (fst ip, i)
  end.

Fixpoint build_side (add : Z -> list (str * ipair) -> str -> list (str * ipair))
         (voc : list (str * ipair)) (i : Z) (vs : list (list str)) : list (str * ipair) :=
  match vs with
  | [] => voc
  | parts :: r => build_side add (fold_left (add i) parts voc) (i + 1) r
  end.

Definition build_voc (v1 v2 : list (list str)) : list (str * ipair) :=
  build_side voc_add2 (build_side voc_add1 [] 0 v1) 0 v2.

(* ip := vocabulary[element]  (zero value for a missing key) *)
Definition voc_get (voc : list (str * ipair)) (e : str) : ipair :=
  match sget voc e with Some ip => ip | None => (0, 0) end.

Definition vertex (vs : list (list str)) (i : Z) : list str :=
  if 0 <=? i then nth (Z.to_nat i) vs [] else [].

Definition succs_voc (voc : list (str * ipair)) (v1 v2 : list (list str)) (e : str) : list str :=
  let ip := voc_get voc e in vertex v1 (fst ip) ++ vertex v2 (snd ip).

(* ---------- walkFromVertex ---------- *)
Definition padd (pd : list str) (p : str) : list str := if smem p pd then pd else pd ++ [p].

Section Walk.
  Variable succs : str -> list str.
  Variable sel : list str -> list str.

  Fixpoint walk_loop (fuel : nat) (walk pending : list str) : option (list str) :=
    match fuel with
    | O => None
    | S f =>
        match sel pending with
        | [] => Some walk
        | e :: rest =>                                  (* element = e; delete(pending, e) *)
            if smem e walk then walk_loop f walk rest
            else
              let walk' := walk ++ [e] in
              let pending' := fold_left (fun pd p => if smem p walk' then pd else padd pd p) (succs e) rest in
              walk_loop f walk' pending'
        end
    end.

  Definition walk_from (fuel : nat) (root : list str) : option (list str) :=
    walk_loop fuel [] (fold_left padd root []).

  (* "for i := range rd { skip if a part is visited; walkFromVertex(vertices[i]) }" *)
  Definition visit_step (fuel : nat) (st : option (list (list str) * list str)) (root : list str) :=
    match st with
    | None => None
    | Some (walks, visited) =>
        if existsb (fun p => smem p visited) root then Some (walks, visited)
        else match walk_from fuel root with
             | None => None
             | Some w => Some (walks ++ [w], visited ++ w)
             end
    end.
End Walk.

(* ---------- converting the walks ---------- *)
Definition has_at (s : str) : bool := existsb (Z.eqb 64) s.
(* the comparison of sort.Slice: e-mails (containing '@') after names, each class in string order *)
Definition id_ltb (a b : str) : bool :=
  if Bool.eqb (has_at a) (has_at b) then str_ltb a b else has_at b.
Definition sort_ids (l : list str) : list str := isort id_ltb l.

Definition mset1 (w i1 : Z) (s1 : str) (idx : list (str * mindex)) : list (str * mindex) :=
  match sget idx s1 with
  | None => sset idx s1 (w, i1, -1)
  | Some mi => sset idx s1 (w, i1, mi_second mi)
  end.
Definition mset2 (w i2 : Z) (s2 : str) (idx : list (str * mindex)) : list (str * mindex) :=
  match sget idx s2 with
  | None => sset idx s2 (w, -1, i2)
  | Some mi => sset idx s2 (w, mi_first mi, i2)
  end.

Definition index_key (rd1 rd2 : list str) (voc : list (str * ipair)) (w : Z)
           (idx : list (str * mindex)) (key : str) : list (str * mindex) :=
  let ip := voc_get voc key in
  let idx1 := if 0 <=? fst ip then mset1 w (fst ip) (nth (Z.to_nat (fst ip)) rd1 []) idx else idx in
  if 0 <=? snd ip then mset2 w (snd ip) (nth (Z.to_nat (snd ip)) rd2 []) idx1 else idx1.

Fixpoint index_walks (rd1 rd2 : list str) (voc : list (str * ipair)) (w : Z) (walks : list (list str))
         (acc : list (str * mindex) * list str) : list (str * mindex) * list str :=
  match walks with
  | [] => acc
  | wk :: r =>
      let ids := sort_ids wk in
      index_walks rd1 rd2 voc (w + 1) r
        (fold_left (index_key rd1 rd2 voc w) ids (fst acc), snd acc ++ [join ids])
  end.

(* ---------- MergeReversedDictsIdentities ---------- *)
Definition merge_walks (sel : list str -> list str) (rd1 rd2 : list str) : option (list (list str)) :=
  let v1 := map split rd1 in
  let v2 := map split rd2 in
  let voc := build_voc v1 v2 in
  let fuel := S (length (concat v1 ++ concat v2)) in
  let step := visit_step (succs_voc voc v1 v2) sel fuel in
  match fold_left step v2 (fold_left step v1 (Some ([], []))) with
  | None => None
  | Some (walks, _) => Some walks
  end.

(* None = the walk ran out of fuel (never happens: IdentityMergeProofs) *)
Definition merge_reversed_dicts_identities (sel : list str -> list str) (rd1 rd2 : list str)
  : option (list (str * mindex) * list str) :=
  match merge_walks sel rd1 rd2 with
  | None => None
  | Some walks =>
      Some (index_walks rd1 rd2 (build_voc (map split rd1) (map split rd2)) 0 walks ([], []))
  end.

(* ---------- MergeReversedDictsLiteral ---------- *)
Fixpoint lit_first (people : list (str * mindex)) (i : Z) (rd : list str) : list (str * mindex) :=
  match rd with
  | [] => people
  | pid :: r => lit_first (sset people pid (Z.of_nat (length people), i, -1)) (i + 1) r
  end.
Fixpoint lit_second (people : list (str * mindex)) (i : Z) (rd : list str) : list (str * mindex) :=
  match rd with
  | [] => people
  | pid :: r =>
      lit_second (match sget people pid with
                  | None => sset people pid (Z.of_nat (length people), -1, i)
                  | Some mi => sset people pid (mi_final mi, mi_first mi, i)
                  end) (i + 1) r
  end.

(* mrd := make([]string, len(people)); for name, ptrs := range people { mrd[ptrs.Final] = name }
   None = index out of range (Go panics); [order] is the map iteration order *)
Fixpoint lit_fill (mrd : list str) (entries : list (str * mindex)) : option (list str) :=
  match entries with
  | [] => Some mrd
  | (name, mi) :: r =>
      if (0 <=? mi_final mi) && (mi_final mi <? Z.of_nat (length mrd))
      then lit_fill (upd mrd (Z.to_nat (mi_final mi)) name) r
      else None
  end.

Definition merge_reversed_dicts_literal (order : list (str * mindex) -> list (str * mindex))
           (rd1 rd2 : list str) : option (list (str * mindex) * list str) :=
  let people := lit_second (lit_first [] 0 rd1) 0 rd2 in
  match lit_fill (repeat [] (length people)) (order people) with
  | None => None
  | Some mrd => Some (people, mrd)
  end.

(* ---------- the specification side: connected components of "shares a name or e-mail" ----------
   independent of the vocabulary: the successors of a part are all parts of all identities (of both
   lists) that contain it *)
Definition succs_true (vs : list (list str)) (e : str) : list str :=
  concat (filter (fun v => smem e v) vs).

(* parts reachable from the parts of [root] *)
Definition component (vs : list (list str)) (root : list str) : list str :=
  match walk_from (succs_true vs) (fun l => l) (S (length (concat vs) + length root)) root with
  | Some w => w
  | None => []
  end.

(* identities (given by their part lists) x and y are connected *)
Definition connb (vs : list (list str)) (x y : list str) : bool :=
  existsb (fun p => smem p (component vs x)) y.

(* no part occurs in two different entries of the list: the sub-domain in which the code is right *)
Fixpoint disjointb (vs : list (list str)) : bool :=
  match vs with
  | [] => true
  | v :: r => forallb (fun w => negb (existsb (fun p => smem p w) v)) r && disjointb r
  end.

Definition merge_domb (rd1 rd2 : list str) : bool :=
  disjointb (map split rd1) && disjointb (map split rd2).

(* ---------- executable statement of the merge half of the property, on arbitrary outputs ---------- *)
Definition final_of (idx : list (str * mindex)) (s : str) : Z :=
  match sget idx s with Some mi => mi_final mi | None => -1 end.

Fixpoint index_of (s : str) (rd : list str) (i : Z) : Z :=     (* first position, -1 when absent *)
  match rd with
  | [] => -1
  | x :: r => if str_eqb x s then i else index_of s r (i + 1)
  end.

Fixpoint forallb_i {A} (f : Z -> A -> bool) (i : Z) (l : list A) : bool :=
  match l with
  | [] => true
  | x :: r => f i x && forallb_i f (i + 1) r
  end.

(* every input identity has a merged index, in range; the keys are input identities *)
Definition mtotal_okb (rd1 rd2 : list str) (idx : list (str * mindex)) (merged : list str) : bool :=
  forallb (fun s => match sget idx s with
                    | Some mi => (0 <=? mi_final mi) && (mi_final mi <? Z.of_nat (length merged))
                    | None => false
                    end) (rd1 ++ rd2)
  && forallb (fun kv => smem (fst kv) (rd1 ++ rd2)) idx.

(* First / Second are the original positions, -1 when the string is absent from that list *)
Definition mpointers_okb (rd1 rd2 : list str) (idx : list (str * mindex)) : bool :=
  forallb_i (fun i s => match sget idx s with Some mi => mi_first mi =? i | None => false end) 0 rd1
  && forallb_i (fun i s => match sget idx s with Some mi => mi_second mi =? i | None => false end) 0 rd2
  && forallb (fun kv => (smem (fst kv) rd1 || (mi_first (snd kv) =? -1))
                        && (smem (fst kv) rd2 || (mi_second (snd kv) =? -1))) idx.

(* same merged index <-> connected *)
Definition mcomponents_okb (rd1 rd2 : list str) (idx : list (str * mindex)) : bool :=
  let ss := rd1 ++ rd2 in
  let vs := map split ss in
  forallb (fun x => forallb (fun y =>
     Bool.eqb (final_of idx x =? final_of idx y) (connb vs (split x) (split y))) ss) ss.

(* the merged description is the union of the parts of the identities that received that index *)
Definition munion_okb (rd1 rd2 : list str) (idx : list (str * mindex)) (merged : list str) : bool :=
  let ss := rd1 ++ rd2 in
  forallb_i (fun w m =>
     let members := filter (fun s => final_of idx s =? w) ss in
     let parts := concat (map split members) in
     forallb (fun p => smem p parts) (split m) && forallb (fun p => smem p (split m)) parts) 0 merged.

(* ---------- instances used by the replay driver ---------- *)
Definition id_sel (l : list str) : list str := l.
Definition id_order_m (l : list (str * mindex)) : list (str * mindex) := l.
Definition merge_identities := merge_reversed_dicts_identities id_sel.
Definition merge_literal := merge_reversed_dicts_literal id_order_m.
