(* C11: replay the harness trace through the extracted Gallina model of CountLines / the line splitter /
   stripWhitespace / handleModification / LinesStatsCalculator, and judge the implementation's diff with the
   extracted validator script_ok. *)
open C11_model
open Conv

(* The extracted list functions are not tail recursive and the thorough tier has blobs of several hundred
   kilobytes: run with a large stack. *)
let () =
  if (try Sys.getenv "C11_DRIVER_STACK" with Not_found -> "") = "" then begin
    Unix.putenv "C11_DRIVER_STACK" "1";
    let self = Sys.executable_name in
    (try
       Unix.execv "/bin/sh"
         (Array.append [| "/bin/sh"; "-c"; "ulimit -s unlimited 2>/dev/null || ulimit -s 4000000 2>/dev/null; exec \"$0\" \"$@\""; self |]
            (Array.sub Sys.argv 1 (Array.length Sys.argv - 1)))
     with _ -> ())
  end

(* the 256 byte values as shared Z values (the large cases have hundreds of thousands of bytes) *)
let zbyte = Array.init 256 z_of_int
let split_text (s : sx) : z list * z list =
  let zb y = let v = int_of_sx y in if v >= 0 && v < 256 then zbyte.(v) else z_of_int v in
  let rec go acc = function
    | [] -> (List.rev acc, [])
    | x :: r -> let v = int_of_sx x in
        if v >= 256 || v < 0 then (List.rev acc, List.rev (List.rev_map zb r))
        else go (zbyte.(v) :: acc) r in
  go [] (args s)

(* a line as an OCaml string (keys of the hash table below, printing) *)
let string_of_line (l : z list) : string =
  let b = Buffer.create 8 in List.iter (fun x -> Buffer.add_char b (Char.chr (int_of_z x land 255))) l; Buffer.contents b

(* The identifiers DiffLinesToRunes hands out (first appearance, old blob first, from 1), computed with a hash
   table: the extracted diff_lines_to_runes walks an association list and is quadratic.  Checked against it on
   every small case (field ids). *)
let dense_ids (la : z list list) (lb : z list list) : int list * int list =
  let h : (string, int) Hashtbl.t = Hashtbl.create 1024 in
  let id l = let k = string_of_line l in
    match Hashtbl.find_opt h k with
    | Some i -> i
    | None -> let i = Hashtbl.length h + 1 in Hashtbl.add h k i; i in
  let ia = List.rev (List.rev_map id la) in
  let ib = List.rev (List.rev_map id lb) in
  (ia, ib)

let shifted (i : int) : int = int_of_z (shift_id (z_of_int i))

let show_line (l : z list) : string =
  let s = string_of_line l in
  let s = if String.length s > 24 then String.sub s 0 24 ^ "..." else s in
  "\"" ^ String.escaped s ^ "\""

(* for the message only: the first equal run that covers two different lines, as (run index, old line number,
   new line number), lines numbered from 1; same is the line equality of the property (up to spaces when
   WhitespaceIgnore is on) *)
let first_bad_equal (same : z list -> z list -> bool) (ula : z list list) (ulb : z list list) (ds : (string * int) list) =
  let a = Array.of_list ula and b = Array.of_list ulb in
  let rec go k i j = function
    | [] -> None
    | ("e", n) :: r ->
        let rec scan t = if t >= n then None
          else if i + t < Array.length a && j + t < Array.length b && not (same a.(i + t) b.(j + t)) then Some (k, i + t, j + t)
          else scan (t + 1) in
        (match scan 0 with Some x -> Some x | None -> go (k + 1) (i + n) (j + n) r)
    | ("d", n) :: r -> go (k + 1) (i + n) j r
    | (_, n) :: r -> go (k + 1) i (j + n) r in
  match go 0 0 0 ds with
  | None -> ""
  | Some (k, i, j) -> Printf.sprintf " (run %d: old line %d %s / new line %d %s)" k (i + 1) (show_line a.(i)) (j + 1) (show_line b.(j))

let op_of = function "e" -> Equal | "d" -> Delete | "i" -> Insert | t -> failwith ("unknown diff operation " ^ t)

let show_ints l = "[" ^ String.concat ";" (List.map string_of_int l) ^ "]"
let show_cl = function Lines n -> string_of_int (int_of_nat n) | Binary -> "bin" | CountPanic -> "panic"
let show_hm = function
  | HmOk _ -> "ok"
  | HmErr IntegritySrc -> "src"
  | HmErr IntegrityDst -> "dst"
  | HmErr InsertAfterInsert -> "insins"
  | HmErr DeleteAfterPending -> "delafter"
  | HmPanic -> "panic"

(* one pair of blobs with what the implementation returned for it; [lbl] prefixes the messages (stream c11multi:
   which file of which commit); returns true when both blobs are text *)
let judge (id : int) (lbl : string) (ws : bool) (a : z list) (b : z list) (obs : sx) : bool =
    let mismatch id s = mismatch id (lbl ^ s) and propfail id s = propfail id (lbl ^ s) in
    match field_opt "diffs" obs with
    | None ->
        (* FileDiff.Consume panicked or returned an error: never expected *)
        propfail id ("FileDiff.Consume failed: " ^ string_of_sx obs); false
    | Some dsx ->
    let ds_i = List.map (fun r -> (tag r, int_of_sx (List.hd (args r)))) (args dsx) in
    let ds = List.map (fun (o, n) -> (op_of o, nat_of_int n)) ds_i in
    let geti t = int_of_sx (List.hd (args (field t obs))) in
    let gold = geti "old" and gnew = geti "new" in
    let gcl t = atom (List.hd (args (field t obs))) in
    let gcla = gcl "cla" and gclb = gcl "clb" in
    (* ---------- fine correspondence: model vs implementation *)
    let mcla = count_lines a and mclb = count_lines b in
    if show_cl mcla <> gcla then mismatch id (Printf.sprintf "CountLines(old) impl=%s model=%s" gcla (show_cl mcla));
    if show_cl mclb <> gclb then mismatch id (Printf.sprintf "CountLines(new) impl=%s model=%s" gclb (show_cl mclb));
    let sa = strip ws a and sb = strip ws b in
    (match field_opt "sa" obs with
     | Some s -> if zs_of_sx (List.hd (args s)) <> sa then mismatch id "stripWhitespace(old) differs from strip_whitespace"
     | None -> ());
    (match field_opt "sb" obs with
     | Some s -> if zs_of_sx (List.hd (args s)) <> sb then mismatch id "stripWhitespace(new) differs from strip_whitespace"
     | None -> ());
    let la = split_lines sa and lb = split_lines sb in
    let lens l = List.map (fun x -> List.length x) l in
    if ints_of_sx (List.hd (args (field "la" obs))) <> lens la then mismatch id "line splitting of the old blob differs from split_lines";
    if ints_of_sx (List.hd (args (field "lb" obs))) <> lens lb then mismatch id "line splitting of the new blob differs from split_lines";
    let nla = List.length la and nlb = List.length lb in
    if gold <> nla then mismatch id (Printf.sprintf "OldLinesOfCode impl=%d model=%d" gold nla);
    if gnew <> nlb then mismatch id (Printf.sprintf "NewLinesOfCode impl=%d model=%d" gnew nlb);
    let (da, db) = dense_ids la lb in
    (match field_opt "ids" obs with
     | Some s ->
         let (ia, ib) = diff_lines_to_runes sa sb in
         let gi k = ints_of_sx (List.nth (args s) k) in
         if gi 0 <> List.map int_of_nat ia || gi 1 <> List.map int_of_nat ib then mismatch id "line ids of DiffLinesToRunes differ from diff_lines_to_runes";
         if da <> List.map int_of_nat ia || db <> List.map int_of_nat ib then failwith "driver: dense_ids differs from the extracted diff_lines_to_runes";
         count "ids_compared"
     | None -> ());
    (* the identifiers FileDiff.Consume handed to the diff engine, read back from the texts of the runs (equal and
       deleted runs spell the old sequence, equal and inserted runs the new one), against shift_id of the identifiers
       of the model: C11_shift_id is about shift_id, this ties the loop in Consume to it *)
    (match field_opt "rt" obs with
     | Some s ->
         let runs = List.map (fun r -> (tag r, ints_of_sx (List.hd (args r)))) (args s) in
         let side keep = List.concat (List.map (fun (o, l) -> if o = "e" || o = keep then l else []) runs) in
         let cmp what got dense =
           let rec go k g w = match g, w with
             | [], [] -> ()
             | x :: g', d :: w' -> if x = shifted d then go (k + 1) g' w' else
                 mismatch id (Printf.sprintf "identifier handed to the diff engine for %s line %d: impl=0x%X model shift_id(0x%X)=0x%X" what (k + 1) x d (shifted d))
             | _ -> mismatch id (Printf.sprintf "the runs of the diff spell %d identifiers for the %d %s lines" (List.length got) (List.length dense) what) in
           go 0 got dense in
         cmp "old" (side "d") da;
         cmp "new" (side "i") db;
         if List.exists (fun i -> i >= 55296) da || List.exists (fun i -> i >= 55296) db then count "shifted_ids_compared"
     | None -> ());
    let st = line_stats ds in
    (match args (field "stats" obs) with
     | [x; y; z] ->
         let m = [int_of_nat st.ls_added; int_of_nat st.ls_removed; int_of_nat st.ls_changed] in
         if [int_of_sx x; int_of_sx y; int_of_sx z] <> m then mismatch id ("LinesStatsCalculator differs from line_stats: model=" ^ show_ints m)
     | _ -> mismatch id "LinesStatsCalculator failed");
    let gburn = atom (List.hd (args (field "burn" obs))) in
    let in_domain = textb a && textb b in
    if not in_domain then count "outside_domain_binary"
    else begin
      count "in_domain";
      if ws then count "ws_on" else count "ws_off";
      (* the consumer model on what the consumer really got *)
      let cl_old = (match mcla with Lines n -> n | _ -> O) in
      let mburn = show_hm (burndown_accepts cl_old (nat_of_int gold) (nat_of_int gnew) ds) in
      if mburn <> gburn then mismatch id (Printf.sprintf "burndown consumer impl=%s model handle_modification=%s" gburn mburn);
      (* ---------- the property, judged on the implementation's outputs (independent of the model of
         stripWhitespace: lines of the unstripped blobs, equality up to spaces when WhitespaceIgnore is on) *)
      let fails = ref [] in
      let add s = fails := s :: !fails in
      let ula = split_lines a and ulb = split_lines b in
      let nua = List.length ula and nub = List.length ulb in
      let script_fine = spec_ok ws a b ds in
      if not script_fine then begin
        if not (canonical ds) then add "shape: a deletion directly after a deletion/insertion, or an insertion directly after an insertion";
        if int_of_nat (old_total ds) <> nua || int_of_nat (new_total ds) <> nub then
          add (Printf.sprintf "totals: equal+delete=%d for %d old lines, equal+insert=%d for %d new lines"
                 (int_of_nat (old_total ds)) nua (int_of_nat (new_total ds)) nub)
        else if canonical ds then
          (* canonical + totals fine + validator says no = an equal run over different lines (C11_script_ok_iff) *)
          add ("an equal run covers lines that differ between the two versions"
               ^ (let unsp l = if ws then List.filter (fun x -> int_of_z x <> 32) l else l in
                  first_bad_equal (fun x y -> unsp x = unsp y) ula ulb ds_i))
      end;
      if List.exists (fun (_, n) -> n = 0) ds_i then count "scripts_with_empty_runs";
      let cnt_bad = gcla <> string_of_int gold || gclb <> string_of_int gnew in
      if cnt_bad then add (Printf.sprintf "line counts: OldLinesOfCode=%d CountLines(old)=%s NewLinesOfCode=%d CountLines(new)=%s" gold gcla gnew gclb);
      if gburn <> "ok" then add ("burndown consumer rejects the diff: " ^ gburn);
      (* second consumer: the line statistics must account for the difference of the two line counts *)
      (match args (field "stats" obs), int_of_string_opt gcla, int_of_string_opt gclb with
       | [x; y; _], Some ca, Some cb ->
           if ca + int_of_sx x - int_of_sx y <> cb then
             add (Printf.sprintf "line statistics do not conserve lines: %d + added %d - removed %d <> %d" ca (int_of_sx x) (int_of_sx y) cb)
       | _ -> ());
      if !fails <> [] then begin
        let runs = List.length ds_i in
        let shown = if runs <= 40 then String.concat " " (List.map (fun (o, n) -> o ^ string_of_int n) ds_i) else Printf.sprintf "%d runs" runs in
        propfail id (Printf.sprintf "%s [ws=%b diff %s]" (String.concat "; " (List.rev !fails)) ws shown)
      end
    end;
    in_domain

(* stream c11multi: several changes per FileDiff.Consume call, several calls on one instance; every file is judged
   like a single pair *)
let judge_multi (id : int) (c : sx) (files : sx) =
  let cfgs = Array.of_list (args (field "cfgs" c)) in
  let ws_of ci = if ci >= 0 && ci < Array.length cfgs then bool_of_sx (List.nth (args cfgs.(ci)) 1) else false in
  let obs = field "obs" c in
  let fobs = List.filter (fun o -> tag o = "f") (args obs) in
  let fl = args files in
  if List.length fobs <> List.length fl then mismatch id "driver-failure number of observations differs from the number of files"
  else begin
    let text_commit : (int, bool) Hashtbl.t = Hashtbl.create 4 in
    let per_commit : (int, int) Hashtbl.t = Hashtbl.create 4 in
    List.iteri (fun k (f, o) ->
      let ci = int_of_sx (List.hd (args (field "ci" f))) in
      let act = atom (List.hd (args (field "act" f))) in
      let (a, b) = split_text (field "text" f) in
      (* entry modes of the two sides, when they are not both 100644 (round 4: links, executables, submodules) *)
      let modes = match field_opt "md" f with
        | Some m -> (match args m with
                     | [x; y] -> let sh v = if v = 0 then "100644" else string_of_int v in
                         Printf.sprintf ", modes %s -> %s" (sh (int_of_sx x)) (sh (int_of_sx y))
                     | _ -> "")
        | None -> "" in
      let lbl = Printf.sprintf "change %d of %d (Consume call %d%s): " (k + 1) (List.length fl) ci modes in
      Hashtbl.replace per_commit ci (1 + try Hashtbl.find per_commit ci with Not_found -> 0);
      let text_ok =
        if act <> "mod" then begin
          (match field_opt "absent" o with
           | Some x when bool_of_sx (List.hd (args x)) -> ()
           | _ -> mismatch id (lbl ^ "FileDiff.Consume reports a diff for an insertion / a deletion"));
          (if act = "ins" then textb b else textb a)
        end else if field_opt "missing" o <> None then begin
          (* inside the domain (both versions text) a violation; outside only a difference from the code as it is *)
          let dom = textb a && textb b in
          if dom then propfail id (lbl ^ "FileDiff.Consume returned no diff for a modified text file")
          else mismatch id (lbl ^ "FileDiff.Consume returned no entry for a modified binary file");
          dom
        end else judge id lbl (ws_of ci) a b o in
      if not text_ok then Hashtbl.replace text_commit ci false
      else if not (Hashtbl.mem text_commit ci) then Hashtbl.replace text_commit ci true) (List.combine fl fobs);
    Hashtbl.iter (fun _ n -> count (Printf.sprintf "commits_with_%d_changes" n)) per_commit;
    List.iter (fun o ->
      if tag o = "burnall" then begin
        let ci = int_of_sx (List.nth (args o) 0) and v = atom (List.nth (args o) 1) in
        if v <> "ok" && (try Hashtbl.find text_commit ci with Not_found -> false) then
          propfail id (Printf.sprintf "Consume call %d: the burndown consumer rejects the commit as a whole: %s" ci v)
      end) (args obs);
    (match field_opt "extra" obs with
     | Some x when int_of_sx (List.hd (args x)) <> 0 -> mismatch id "FileDiff.Consume reports diffs under names that no modification of the commit has"
     | _ -> ())
  end

let () =
  iter_cases (fun id c ->
    match field_opt "files" c with
    | Some files -> judge_multi id c files
    | None ->
        let ws = bool_of_sx (List.hd (args (field "ws" c))) in
        let (a, b) = split_text (field "text" c) in
        ignore (judge id "" ws a b (field "obs" c)))
