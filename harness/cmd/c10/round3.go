// Round 3 (semantic corners).
//
//  1. Sequences in which Initialize is called SEVERAL times on one Pipeline object, interleaved with
//     RemoveItem / AddItem / DeployItem / SetFeature (kinds seqinit*): the replacement of an item by
//     another instance of the same name, by the very instance that was removed, by a same-named item with
//     other requirements; fail -> repair -> retry (cyclic / unsatisfied / three-provider sets); an emptied
//     pipeline that is used again.  After EVERY Initialize - also a failing one - the content of the
//     pipeline is recorded, and the same instances are initialised in a fresh pipeline (twin).
//  2. kind twopaths: the refiner of a doubly provided entity reads it through 0..4 intermediate consumers
//     (BlobCache-like), in parallel or in a chain, 1..3 items deep.
//  3. kind namecollide: k items named X next to an item literally named X_<j> (the node name generated for
//     the j-th X).
package main

import (
	"fmt"
	"sort"
	"strings"

	hercules "gopkg.in/src-d/hercules.v10"
	. "verifharness/lib"
)

// ---- emission of a sequence with Initialize calls inside ----

func emitSeqInit(c *Config, kind string, reg *regTable, ops []op) {
	type group struct {
		runs []Sx
		body []Sx
	}
	var keys []string
	groups := map[string]*group{}
	isChained, nt := false, false
	for r := 0; r < runs; r++ {
		sr := runOps(ops, r)
		isChained = isChained || sr.chained
		nt = nt || sr.nt
		insts := make([]Sx, len(sr.insts))
		for id, it := range sr.insts {
			insts[id] = specOf(it).itemSx(id)
		}
		body := []Sx{T("insts", insts...), T("steps", sr.steps...)}
		k := body[0].String() + body[1].String()
		g, ok := groups[k]
		if !ok {
			g = &group{body: body}
			groups[k] = g
			keys = append(keys, k)
		}
		g.runs = append(g.runs, I(r))
	}
	var obs []Sx
	for _, k := range keys {
		g := groups[k]
		obs = append(obs, T("run", append([]Sx{T("rs", g.runs...)}, g.body...)...))
	}
	os := make([]Sx, len(ops))
	for i, o := range ops {
		os[i] = o.sx()
	}
	if isChained && !strings.HasSuffix(kind, "-chained") {
		kind += "-chained"
	}
	c.Emit(append([]Sx{T("kind", A(kind)), T("nt", B(nt))}, append(worldField(), reg.sx(), T("ops", os...), T("obs", obs...))...)...)
}

func synthOp(kind string, s spec) op { return op{kind: kind, sp: s} }
func initOp(v int) op               { return op{kind: "init", name: "-", which: fmt.Sprint(v % 4)} }
func rmOp(name, which string) op    { return op{kind: "rm", name: name, which: which} }
func restoreOp(name string) op      { return op{kind: "restore", name: name, which: "last"} }

// entities derived from e: provided by items that (transitively) require e
func downstream(items []spec, from []string) map[string]bool {
	d := map[string]bool{}
	for _, e := range from {
		d[e] = true
	}
	for changed := true; changed; {
		changed = false
		for _, it := range items {
			hit := false
			for _, r := range it.req {
				hit = hit || d[r]
			}
			if hit {
				for _, e := range it.prov {
					if !d[e] {
						d[e] = true
						changed = true
					}
				}
			}
		}
	}
	return d
}

func sortedKeys(m map[string]bool) []string {
	var l []string
	for k := range m {
		l = append(l, k)
	}
	sort.Strings(l)
	return l
}

func sequencesInit(c *Config, reg *regTable) {
	// (A) exhaustive: a five-item world, initialised once; then every sequence of up to 3 (thorough 4) calls
	// over the alphabet; then Initialize again.  A{p a}, B{p b; r a}, C{p c; r b}, E{p e}; variants of the
	// same names: A{p a; r c} closes the cycle A -> B -> C -> A, B{p b; r a e} has other requirements.
	wA := spec{name: "A", prov: []string{"a"}}
	wAc := spec{name: "A", prov: []string{"a"}, req: []string{"c"}}
	wB := spec{name: "B", prov: []string{"b"}, req: []string{"a"}}
	wBe := spec{name: "B", prov: []string{"b"}, req: []string{"a", "e"}}
	wC := spec{name: "C", prov: []string{"c"}, req: []string{"b"}}
	wE := spec{name: "E", prov: []string{"e"}}
	wU := spec{name: "U", req: []string{"nothing"}}
	prefix := []op{synthOp("add", wC), synthOp("add", wB), synthOp("add", wE), synthOp("add", wA), initOp(0)}
	alphabet := []op{
		synthOp("add", wA), synthOp("add", wAc), synthOp("add", wB), synthOp("add", wBe), synthOp("add", wU),
		rmOp("A", "first"), rmOp("A", "last"), rmOp("B", "first"), rmOp("C", "first"), rmOp("E", "first"), rmOp("U", "first"),
		restoreOp("A"), restoreOp("B"), initOp(1),
	}
	maxLen := 3
	if c.Thorough() {
		maxLen = 4
	}
	var rec func(seq []op)
	rec = func(seq []op) {
		if len(seq) > 0 && seq[len(seq)-1].kind != "init" {
			ops := append(append(append([]op{}, prefix...), seq...), initOp(2))
			emitSeq(c, "seqinitexh", reg, ops)
		}
		if len(seq) == maxLen {
			return
		}
		for _, o := range alphabet {
			if o.kind == "init" && (len(seq) == 0 || seq[len(seq)-1].kind == "init") {
				continue
			}
			rec(append(append([]op{}, seq...), o))
		}
	}
	rec(nil)

	// (B) built-in items: a leaf analysis is deployed and initialised; a deployed item is replaced by a new
	// instance from the registry / a customised copy / the removed instance itself; Initialize; optionally a
	// second analysis is deployed and the pipeline initialised a third time.
	var leafNames []string
	isLeaf := map[string]bool{}
	for _, l := range hercules.Registry.GetLeaves() {
		leafNames = append(leafNames, l.Name())
		isLeaf[l.Name()] = true
	}
	sort.Strings(leafNames)
	for li, leaf := range leafNames {
		for uast := 0; uast < 2; uast++ {
			var pre []op
			if uast == 1 {
				pre = append(pre, op{kind: "feat", name: "uast"})
			}
			pre = append(pre, realOp("deploy", leaf), initOp(li))
			closure := sortedKeys(reg.closureOf(leaf))
			for xi, x := range closure {
				if x == leaf {
					continue
				}
				e := reg.entries[x]
				if len(e.feats) > 0 && uast == 0 {
					continue // not deployed without the feature
				}
				for how := 0; how < 3; how++ {
					if how == 1 && !c.Thorough() && (xi+li)%2 == 0 {
						continue
					}
					ops := append(append([]op{}, pre...), rmOp(x, "first"))
					switch how {
					case 0:
						ops = append(ops, realOp("add", x))
					case 1:
						ops = append(ops, reg.copyOp("add", x))
					case 2:
						ops = append(ops, restoreOp(x))
					}
					ops = append(ops, initOp(li+xi))
					emitSeq(c, "seqinitreal", reg, ops)
					if how == 0 || c.Thorough() {
						other := leafNames[(li+1+xi)%len(leafNames)]
						ops2 := append([]op{}, ops...)
						if uast == 0 && (xi+li)%2 == 0 {
							// the feature is switched on between two initialisations
							ops2 = append(ops2, op{kind: "feat", name: "uast"})
						}
						ops2 = append(ops2, realOp("deploy", other), initOp(xi), rmOp(leaf, "first"), initOp(xi+1))
						emitSeq(c, "seqinitreal", reg, ops2)
					}
				}
			}
			// the leaf itself is replaced; the pipeline is emptied and used again
			ops := append(append([]op{}, pre...), rmOp(leaf, "first"), initOp(1), realOp("deploy", leaf), initOp(2))
			emitSeq(c, "seqinitreal", reg, ops)
			ops = append([]op{}, pre...)
			for _, x := range closure {
				ops = append(ops, rmOp(x, "first"))
			}
			other := leafNames[(li+3)%len(leafNames)]
			ops = append(ops, initOp(3), realOp("deploy", other), initOp(0))
			emitSeq(c, "seqinitreal", reg, ops)
		}
	}

	// (C) fail -> repair -> retry on synthetic sets: a layered acyclic set in which one item is exchanged for a
	// same-named (or differently named) one that closes a cycle / requires an unknown entity / is a third provider.
	for i := c.Count(400, 4000); i > 0; i-- {
		n := 3 + c.Rng.Intn(8)
		items := genLayered(c, n)
		if c.Rng.Intn(4) == 0 {
			items = addSecondProvider(c, items)
		}
		// candidates: an item whose outputs somebody requires
		var cands []int
		for k, it := range items {
			if len(downstream(items, it.prov)) > len(it.prov) {
				cands = append(cands, k)
			}
		}
		k := c.Rng.Intn(len(items))
		if len(cands) > 0 && c.Rng.Intn(8) != 0 {
			k = cands[c.Rng.Intn(len(cands))]
		}
		good := items[k]
		bad := spec{name: good.name, prov: good.prov, req: append([]string{}, good.req...)}
		mode := c.Rng.Intn(8)
		switch {
		case mode < 5: // a cycle: requires something derived from its own outputs
			d := downstream(items, good.prov)
			for _, e := range good.prov {
				delete(d, e)
			}
			if l := sortedKeys(d); len(l) > 0 {
				bad.req = append(bad.req, l[c.Rng.Intn(len(l))])
			} else if len(good.prov) > 0 {
				bad.req = append(bad.req, good.prov[0])
			} else {
				bad.req = append(bad.req, "missing")
			}
		case mode < 7: // an unknown entity
			bad.req = append(bad.req, "missing")
		default: // a third provider of something (two more providers)
			bad.prov = append(append([]string{}, bad.prov...), "dup")
		}
		if c.Rng.Intn(5) == 0 {
			bad.name = good.name + "x"
		}
		order := shuffle(c, items)
		var ops []op
		addAll := func(sub spec) {
			for _, it := range order {
				if it.name == good.name {
					it = sub
				}
				ops = append(ops, synthOp("add", it))
			}
		}
		extra := []op{}
		if mode >= 7 {
			extra = append(extra, synthOp("add", spec{name: "Dup1", prov: []string{"dup"}}), synthOp("add", spec{name: "Dup2", prov: []string{"dup"}}))
		}
		switch c.Rng.Intn(3) {
		case 0: // bad first, then repaired
			addAll(bad)
			ops = append(ops, extra...)
			ops = append(ops, initOp(i), rmOp(bad.name, "first"), synthOp("add", good))
			if mode >= 7 {
				ops = append(ops, rmOp("Dup1", "first"))
			}
			ops = append(ops, initOp(i+1))
		case 1: // good, broken, repaired by restoring the removed instance
			addAll(good)
			ops = append(ops, initOp(i), rmOp(good.name, "first"), synthOp("add", bad))
			ops = append(ops, extra...)
			ops = append(ops, initOp(i+1), rmOp(bad.name, "last"), op{kind: "restore", name: good.name, which: "first"})
			if mode >= 7 {
				ops = append(ops, rmOp("Dup2", "first"))
			}
			ops = append(ops, initOp(i+2))
		default: // broken twice in a row, observed in between, then repaired by a new instance
			addAll(bad)
			ops = append(ops, extra...)
			ops = append(ops, initOp(i), initOp(i+3), rmOp(bad.name, "first"), initOp(i+1))
			if mode >= 7 {
				ops = append(ops, rmOp("Dup1", "first"))
			}
			ops = append(ops, synthOp("add", good), initOp(i+2))
		}
		emitSeq(c, "seqinitrepair", reg, ops)
	}

	// (D) random: a synthetic set is added and initialised; then 1..3 rounds of 1..3 modifications, Initialize after each round
	for i := c.Count(600, 6000); i > 0; i-- {
		var items []spec
		switch c.Rng.Intn(5) {
		case 0, 1:
			items = genLayered(c, 2+c.Rng.Intn(9))
		case 2:
			items = addSecondProvider(c, genLayered(c, 2+c.Rng.Intn(8)))
		case 3:
			items = genRandom(c, 2+c.Rng.Intn(7), 2+c.Rng.Intn(5), 1+c.Rng.Intn(2))
		default:
			items = genLayered(c, 3+c.Rng.Intn(7))
			a, b := c.Rng.Intn(len(items)), c.Rng.Intn(len(items))
			items[a].name = items[b].name
		}
		items = shuffle(c, items)
		var ents []string
		es := map[string]bool{}
		for _, it := range items {
			for _, e := range append(append([]string{}, it.prov...), it.req...) {
				es[e] = true
			}
		}
		ents = sortedKeys(es)
		if len(ents) == 0 {
			ents = []string{"a"}
		}
		var ops []op
		for _, it := range items {
			ops = append(ops, synthOp("add", it))
		}
		ops = append(ops, initOp(i))
		anyItem := func() spec { return items[c.Rng.Intn(len(items))] }
		which := func() string { return []string{"first", "last"}[c.Rng.Intn(2)] }
		for round := 1 + c.Rng.Intn(3); round > 0; round-- {
			for m := 1 + c.Rng.Intn(3); m > 0; m-- {
				it := anyItem()
				switch x := c.Rng.Intn(12); {
				case x < 3: // replaced by a new instance of the same specification
					ops = append(ops, rmOp(it.name, which()), synthOp("add", it))
				case x < 5: // taken out and put back
					ops = append(ops, rmOp(it.name, which()), restoreOp(it.name))
				case x < 7: // replaced by a same-named item with other provides / requires
					o := spec{name: it.name, prov: it.prov, req: pick(c, ents, c.Rng.Intn(3))}
					if c.Rng.Intn(3) == 0 {
						o.prov = pick(c, ents, c.Rng.Intn(3))
					}
					ops = append(ops, rmOp(it.name, which()), synthOp("add", o))
				case x < 8:
					ops = append(ops, rmOp(it.name, which()))
				case x < 9:
					ops = append(ops, synthOp("add", it))
				case x < 10:
					ops = append(ops, restoreOp(it.name))
				case x < 11: // a new item
					ops = append(ops, synthOp("add", spec{name: "New" + fmt.Sprint(m), prov: pick(c, ents, c.Rng.Intn(2)), req: pick(c, ents, c.Rng.Intn(3))}))
				default: // everything out
					for _, y := range items {
						ops = append(ops, rmOp(y.name, "first"))
					}
				}
			}
			ops = append(ops, initOp(i+round))
		}
		emitSeq(c, "seqinitrandom", reg, ops)
	}
}

// ---- the refiner reads its entity through several intermediate consumers ----

// twoPaths: T{p k}; feeders X1..Xm, each a chain of `depth` items starting from k (in a chain: X(i+1) also reads
// the output of Xi); the refiner R{p k; r [k] x1..xm}; consumers Z{r k} and (optionally) one behind every feeder.
func twoPaths(c *Config) {
	for m := 0; m <= 4; m++ {
		for depth := 1; depth <= 3; depth++ {
			for v := 0; v < 8; v++ {
				chainF, reqKey, reports := v&1 != 0, v&2 == 0, v&4 != 0
				if m == 0 && (depth > 1 || chainF) {
					continue
				}
				items := []spec{{name: "T", prov: []string{"k"}}}
				ref := spec{name: "R", prov: []string{"k"}}
				if reqKey {
					ref.req = []string{"k"}
				}
				for i := 1; i <= m; i++ {
					in := []string{"k"}
					if chainF && i > 1 {
						in = append(in, fmt.Sprintf("x%d_%d", i-1, depth))
					}
					for d := 1; d <= depth; d++ {
						out := fmt.Sprintf("x%d_%d", i, d)
						items = append(items, spec{name: fmt.Sprintf("X%d_%d", i, d), prov: []string{out}, req: in})
						in = []string{out}
					}
					ref.req = append(ref.req, in[0])
					if reports {
						items = append(items, spec{name: fmt.Sprintf("W%d", i), req: []string{in[0], "k"}})
					}
				}
				items = append(items, ref, spec{name: "Z", req: []string{"k"}})
				emitSynth(c, "twopaths", items)
				emitSynth(c, "twopaths", shuffle(c, items))
				if c.Thorough() {
					for k := 0; k < 3; k++ {
						emitSynth(c, "twopaths", shuffle(c, items))
					}
				}
			}
		}
	}
}

// ---- generated node names that collide with a literal item name ----

// nameCollide: k items named X (graph nodes X_1..X_k) and an item literally named X_<j>.
func nameCollide(c *Config) {
	for k := 2; k <= 4; k++ {
		for j := 1; j <= k+1; j++ {
			for v := 0; v < 3; v++ {
				var items []spec
				for i := 1; i <= k; i++ {
					s := spec{name: "X"}
					switch v {
					case 1:
						s.prov = []string{fmt.Sprintf("e%d", i)}
					case 2:
						s.prov = []string{fmt.Sprintf("e%d", i)}
						if i > 1 {
							s.req = []string{fmt.Sprintf("e%d", i-1)}
						}
					}
					items = append(items, s)
				}
				lit := spec{name: fmt.Sprintf("X_%d", j)}
				if v >= 1 {
					lit.prov = []string{"lit"}
				}
				items = append(items, lit)
				if v == 2 {
					items = append(items, spec{name: "Z", req: []string{"lit", fmt.Sprintf("e%d", k)}})
				}
				emitSynth(c, "namecollide", items)
				emitSynth(c, "namecollide", shuffle(c, items))
			}
		}
	}
}
